(* C20 — the two generators of auxiliary names share one name space.
   MultiAssignTransformer names the i-th version of a variable  "_" + var + str(i);
   utils.identifiers.get_unique_var names its k-th result        "_" + tag + str(k).
   The first is literally [gen_name var i]: a version name IS a counter name exactly when the
   source variable is spelled like a tag and the counter has the right value, so whether two
   different objects of a program get the same name depends on how many names earlier
   analyses of the process consumed.  The repaired spelling "_" + var + "_" + str(i) is never a
   counter name of one of Polar's tags. *)
From Coq Require Import List String Ascii Bool Arith.
From Polar Require Import HistoryNames.
Import ListNotations.
Local Open Scope string_scope.

Definition ma_name (var : string) (i : nat) : string := "_" ++ var ++ dec i.
Definition ma_name_fixed (var : string) (i : nat) : string := "_" ++ var ++ "_" ++ dec i.

Lemma ma_name_is_gen_name var i : ma_name var i = gen_name var i.
Proof. reflexivity. Qed.

(* the property "version names and counter names are different objects' names" fails ... *)
Theorem multiassign_collision_refuted :
  ~ (forall var i tag k, In tag polar_tags -> ma_name var i <> gen_name tag k).
Proof.
  intros H. apply (H "t" 1 "t" 1); [right; right; right; left; reflexivity | reflexivity].
Qed.

(* ... exactly for tag-named variables (among variables not ending in a digit), and then only
   at ONE value of the counter: the collision is an accident of the process history *)
Theorem multiassign_collision_iff var i tag k :
  ends_nondigit var = true -> ends_nondigit tag = true ->
  (ma_name var i = gen_name tag k <-> var = tag /\ i = k).
Proof.
  intros Hv Ht. split.
  - intros H. apply (gen_name_injective_tags var tag i k Hv Ht H).
  - intros [-> ->]. reflexivity.
Qed.

(* the counter k0 + j of the j-th name generated after k0 earlier ones hits the version index
   i for exactly one k0: with any other history there is no collision *)
Corollary multiassign_collision_depends_on_history var i j k0 k0' :
  ends_nondigit var = true ->
  ma_name var i = gen_name var (k0 + j) -> ma_name var i = gen_name var (k0' + j) -> k0 = k0'.
Proof.
  intros Hv H1 H2. rewrite H1 in H2. apply gen_name_injective in H2.
  apply (Nat.add_cancel_r k0 k0' j). exact H2.
Qed.

(* the repaired spelling *)
Fixpoint ends_underscore (s : string) : bool :=
  match s with
  | "" => false
  | String c "" => Ascii.eqb c "_"
  | String _ r => ends_underscore r
  end.

Lemma ends_underscore_app v : ends_underscore (v ++ "_") = true.
Proof.
  induction v as [|c r IH]; [reflexivity|].
  cbn [append]. destruct (r ++ "_") eqn:E.
  - destruct r; discriminate E.
  - cbn [ends_underscore]. exact IH.
Qed.

Lemma ends_nondigit_app_underscore v : ends_nondigit (v ++ "_") = true.
Proof.
  induction v as [|c r IH]; [reflexivity|].
  cbn [append]. destruct (r ++ "_") eqn:E.
  - destruct r; discriminate E.
  - cbn [ends_nondigit]. exact IH.
Qed.

Lemma app_assoc_str (a b c : string) : (a ++ b) ++ c = a ++ (b ++ c).
Proof. induction a as [|x a IH]; cbn [append]; [reflexivity | rewrite IH; reflexivity]. Qed.

Lemma ma_name_fixed_is_gen_name var i : ma_name_fixed var i = gen_name (var ++ "_") i.
Proof. unfold ma_name_fixed, gen_name. rewrite app_assoc_str. reflexivity. Qed.

Theorem multiassign_fixed_never_collides var i tag k :
  ends_nondigit tag = true -> ends_underscore tag = false -> ma_name_fixed var i <> gen_name tag k.
Proof.
  intros Ht Hu H. rewrite ma_name_fixed_is_gen_name in H.
  apply gen_name_injective_tags in H; [|apply ends_nondigit_app_underscore | exact Ht].
  destruct H as [H _]. rewrite <- H, ends_underscore_app in Hu. discriminate Hu.
Qed.

Lemma polar_tags_no_underscore_end : forallb (fun t => ends_nondigit t && negb (ends_underscore t)) polar_tags = true.
Proof. vm_compute. reflexivity. Qed.

Corollary multiassign_fixed_never_collides_polar var i tag k :
  In tag polar_tags -> ma_name_fixed var i <> gen_name tag k.
Proof.
  intros Hin. pose proof polar_tags_no_underscore_end as H. rewrite forallb_forall in H.
  specialize (H tag Hin). apply andb_true_iff in H. destruct H as [H1 H2].
  apply multiassign_fixed_never_collides; [exact H1 | destruct (ends_underscore tag); [discriminate H2 | reflexivity]].
Qed.

(* ======================================================================================== *)
(* The rule in force since /repo 156ba8a + e4a742c:
     MultiAssignTransformer:  name = "_" + var + str(i);  while reserved(name) or name in used: name = "_" + name
     get_unique_var:          name = "_" + tag + str(counter++); while name in reserved: next counter
   [avoid] = identifiers of the program text + variables of the program.  Both loops are
   modelled with fuel = number of names to avoid (each failed attempt rules one of them out). *)
Definition mem_str (s : string) (l : list string) : bool := existsb (String.eqb s) l.
Lemma mem_str_In s l : mem_str s l = true <-> In s l.
Proof.
  unfold mem_str. rewrite existsb_exists. split.
  - intros [x [Hin He]]. apply String.eqb_eq in He. subst. exact Hin.
  - intros H. exists s. split; [exact H | apply String.eqb_refl].
Qed.
Lemma mem_str_remove_neq s nm l : s <> nm -> mem_str s (remove string_dec nm l) = mem_str s l.
Proof.
  intros Hne. destruct (mem_str s l) eqn:E.
  - apply mem_str_In. apply mem_str_In in E. apply in_in_remove; assumption.
  - destruct (mem_str s (remove string_dec nm l)) eqn:E'; [|reflexivity].
    apply mem_str_In in E'. apply in_remove in E'. destruct E' as [E' _].
    apply mem_str_In in E'. rewrite E' in E. discriminate.
Qed.

Fixpoint prefix_until (avoid : list string) (fuel : nat) (nm : string) : string :=
  match fuel with
  | O => nm
  | S f => if mem_str nm avoid then prefix_until avoid f ("_" ++ nm) else nm
  end.
Definition version_name (avoid : list string) (var : string) (i : nat) : string :=
  prefix_until avoid (List.length avoid) (ma_name var i).

Lemma length_prefix_until avoid : forall fuel x, String.length x <= String.length (prefix_until avoid fuel x).
Proof.
  induction fuel as [|f IH]; intros x; cbn [prefix_until]; [apply Nat.le_refl|].
  destruct (mem_str x avoid); [|apply Nat.le_refl].
  eapply Nat.le_trans; [|apply IH]. cbn [append String.length]. apply Nat.le_succ_diag_r.
Qed.

Lemma prefix_until_remove avoid nm : forall fuel x, String.length nm < String.length x ->
  prefix_until avoid fuel x = prefix_until (remove string_dec nm avoid) fuel x.
Proof.
  induction fuel as [|f IH]; intros x Hl; cbn [prefix_until]; [reflexivity|].
  assert (Hne : x <> nm) by (intros ->; exact (Nat.lt_irrefl _ Hl)).
  rewrite (mem_str_remove_neq x nm avoid Hne).
  destruct (mem_str x avoid); [|reflexivity].
  apply IH. cbn [append String.length]. apply Nat.lt_lt_succ_r. exact Hl.
Qed.

Lemma prefix_until_fresh : forall fuel avoid nm, List.length avoid <= fuel -> ~ In (prefix_until avoid fuel nm) avoid.
Proof.
  induction fuel as [|f IH]; intros avoid nm Hl.
  - destruct avoid; [intros [] | cbn in Hl; inversion Hl].
  - cbn [prefix_until]. destruct (mem_str nm avoid) eqn:E.
    + apply mem_str_In in E.
      assert (Hlt : String.length nm < String.length ("_" ++ nm)) by (cbn [append String.length]; apply Nat.lt_succ_diag_r).
      rewrite (prefix_until_remove avoid nm f _ Hlt).
      assert (Hl' : List.length (remove string_dec nm avoid) <= f).
      { pose proof (remove_length_lt string_dec avoid nm E) as H. apply Nat.lt_succ_r. eapply Nat.lt_le_trans; [exact H | exact Hl]. }
      specialize (IH (remove string_dec nm avoid) ("_" ++ nm) Hl').
      intros Hin. apply IH. apply in_in_remove; [|exact Hin].
      intros Heq. pose proof (length_prefix_until (remove string_dec nm avoid) f ("_" ++ nm)) as Hge.
      rewrite Heq in Hge. exact (Nat.lt_irrefl _ (Nat.lt_le_trans _ _ _ Hlt Hge)).
    + intros Hin. apply mem_str_In in Hin. rewrite Hin in E. discriminate.
Qed.

(* a version name is never an identifier of the program text nor an existing variable *)
Theorem version_name_avoids avoid var i : ~ In (version_name avoid var i) avoid.
Proof. apply prefix_until_fresh. apply Nat.le_refl. Qed.

Fixpoint unique_var (reserved : list string) (fuel : nat) (tag : string) (k : nat) : string * nat :=
  match fuel with
  | O => (gen_name tag k, S k)
  | S f => if mem_str (gen_name tag k) reserved then unique_var reserved f tag (S k) else (gen_name tag k, S k)
  end.

Lemma unique_var_shape reserved tag : forall fuel k, exists k', k <= k' /\ unique_var reserved fuel tag k = (gen_name tag k', S k').
Proof.
  induction fuel as [|f IH]; intros k; cbn [unique_var]; [exists k; split; [apply Nat.le_refl | reflexivity]|].
  destruct (mem_str (gen_name tag k) reserved); [|exists k; split; [apply Nat.le_refl | reflexivity]].
  destruct (IH (S k)) as [k' [Hle He]]. exists k'. split; [apply Nat.le_trans with (S k); [apply Nat.le_succ_diag_r | exact Hle] | exact He].
Qed.

Lemma unique_var_remove reserved tag k0 : forall fuel k, k0 < k ->
  unique_var reserved fuel tag k = unique_var (remove string_dec (gen_name tag k0) reserved) fuel tag k.
Proof.
  induction fuel as [|f IH]; intros k Hlt; cbn [unique_var]; [reflexivity|].
  assert (Hne : gen_name tag k <> gen_name tag k0).
  { intros H. apply gen_name_injective in H. subst. exact (Nat.lt_irrefl _ Hlt). }
  rewrite (mem_str_remove_neq _ _ reserved Hne).
  destruct (mem_str (gen_name tag k) reserved); [|reflexivity].
  apply IH. apply Nat.lt_lt_succ_r. exact Hlt.
Qed.

Lemma unique_var_fresh tag : forall fuel reserved k, List.length reserved <= fuel -> ~ In (fst (unique_var reserved fuel tag k)) reserved.
Proof.
  induction fuel as [|f IH]; intros reserved k Hl.
  - destruct reserved; [intros [] | cbn in Hl; inversion Hl].
  - cbn [unique_var]. destruct (mem_str (gen_name tag k) reserved) eqn:E.
    + apply mem_str_In in E.
      rewrite (unique_var_remove reserved tag k f (S k) (Nat.lt_succ_diag_r k)).
      assert (Hl' : List.length (remove string_dec (gen_name tag k) reserved) <= f).
      { pose proof (remove_length_lt string_dec reserved _ E) as H. apply Nat.lt_succ_r. eapply Nat.lt_le_trans; [exact H | exact Hl]. }
      specialize (IH (remove string_dec (gen_name tag k) reserved) (S k) Hl').
      intros Hin. apply IH. apply in_in_remove; [|exact Hin].
      destruct (unique_var_shape (remove string_dec (gen_name tag k) reserved) tag f (S k)) as [k' [Hle He]].
      rewrite He. cbn [fst]. intros H. apply gen_name_injective in H. subst k'. exact (Nat.nle_succ_diag_l _ Hle).
    + cbn [fst]. intros Hin. apply mem_str_In in Hin. rewrite Hin in E. discriminate.
Qed.

(* get_unique_var never returns a reserved name, and the counter moves on *)
Theorem unique_var_avoids reserved tag k :
  ~ In (fst (unique_var reserved (List.length reserved) tag k)) reserved /\ k < snd (unique_var reserved (List.length reserved) tag k).
Proof.
  split; [apply unique_var_fresh; apply Nat.le_refl|].
  destruct (unique_var_shape reserved tag (List.length reserved) k) as [k' [Hle He]]. rewrite He. cbn [snd].
  apply Nat.lt_succ_r. exact Hle.
Qed.

(* the gap that remained under the rule of /repo e4a742c (before 221667c): version names were not
   registered, so a name handed out LATER by get_unique_var could equal a version name — for
   exactly one counter value *)
Theorem version_then_counter_collision_old_rule_refuted :
  ~ (forall avoid reserved var i tag k,
       (forall x, In x reserved -> In x avoid) ->
       fst (unique_var reserved (List.length reserved) tag k) <> version_name avoid var i).
Proof.
  intros H. apply (H ["r"; "f"; "g"; "x"; "_old0"] ["r"; "f"; "g"; "x"] "r" 1 "r" 1).
  - intros x Hx. cbn in *. tauto.
  - vm_compute. reflexivity.
Qed.

(* rule since /repo 221667c: every version name is registered as reserved; no later counter name
   equals a version name, whatever the counter *)
Theorem reserved_versions_never_collide avoid reserved var i tag k :
  In (version_name avoid var i) reserved ->
  fst (unique_var reserved (List.length reserved) tag k) <> version_name avoid var i.
Proof.
  intros Hin Heq. apply (proj1 (unique_var_avoids reserved tag k)). rewrite Heq. exact Hin.
Qed.

(* MultiAssignTransformer since 221667c: pick the version name, register it *)
Definition register_version (avoid reserved : list string) (var : string) (i : nat) : string * list string :=
  let nm := version_name avoid var i in (nm, nm :: reserved).

Theorem later_names_avoid_versions avoid reserved var i tag k :
  let '(nm, reserved') := register_version avoid reserved var i in
  fst (unique_var reserved' (List.length reserved') tag k) <> nm /\ ~ In nm avoid.
Proof.
  unfold register_version. split.
  - apply reserved_versions_never_collide. left. reflexivity.
  - apply version_name_avoids.
Qed.
