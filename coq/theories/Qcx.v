(* Small helpers on Qc shared by models, validators and generated case files. *)
From Coq Require Import QArith Qcanon ZArith List.
Import ListNotations.

Definition mkq (n : Z) (d : positive) : Qc := Q2Qc (n # d).
Definition qnum (q : Qc) : Z := Qnum (this q).
Definition qden (q : Qc) : positive := Qden (this q).
Definition qpair (q : Qc) : Z * positive := (qnum q, qden q).

Fixpoint qpow (b : Qc) (n : nat) : Qc := match n with O => 1%Qc | S n => (b * qpow b n)%Qc end.
Fixpoint qnat (n : nat) : Qc := match n with O => 0%Qc | S n => (qnat n + 1)%Qc end.

Definition Qc_eqb (x y : Qc) : bool := Qc_eq_bool x y.
Lemma Qc_eqb_true x y : Qc_eqb x y = true -> x = y.
Proof. apply Qc_eq_bool_correct. Qed.
Lemma Qc_eqb_refl x : Qc_eqb x x = true.
Proof.
  unfold Qc_eqb, Qc_eq_bool. destruct (Qc_eq_dec x x) as [_|n]; [reflexivity | exfalso; apply n; reflexivity].
Qed.
Lemma Qc_eqb_spec x y : reflect (x = y) (Qc_eqb x y).
Proof.
  destruct (Qc_eqb x y) eqn:E; constructor.
  - apply Qc_eqb_true; exact E.
  - intros ->. rewrite Qc_eqb_refl in E. discriminate.
Qed.

Definition Qc_leb (x y : Qc) : bool := match Qccompare x y with Gt => false | _ => true end.
Definition Qc_ltb (x y : Qc) : bool := match Qccompare x y with Lt => true | _ => false end.
