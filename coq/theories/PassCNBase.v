(* Shared helpers of the pass proofs PassConstants / PassDist:
   - [coupled R d d']: two finitely supported laws are the same weighted list up to a
     relation R on outcomes (a pointwise coupling).  It gives equality of expectations of
     R-compatible functions AND support facts (invariants), and composes through [bind];
   - simultaneous substitution of variables by expressions in expressions, conditions,
     right-hand sides and guarded assignments, with its evaluation lemma;
   - the variables an expression really depends on ([evars], variables of the polynomial
     normal form, as symengine's free_symbols after automatic simplification). *)
From Coq Require Import List String QArith Qcanon ZArith Bool Ring.
From Polar Require Import Qcx Dist Syntax Sem Types Poly.
Import ListNotations.
Local Open Scope Qc_scope.

(* ---- couplings ---- *)
Definition coupled {A B} (R : A -> B -> Prop) (d : dist A) (d' : dist B) : Prop :=
  Forall2 (fun a b => fst a = fst b /\ R (snd a) (snd b)) d d'.

Lemma coupled_ret {A B} (R : A -> B -> Prop) a b : R a b -> coupled R (ret a) (ret b).
Proof. intros H. constructor; [split; [reflexivity | exact H] | constructor]. Qed.

Lemma coupled_dscale {A B} (R : A -> B -> Prop) w d d' :
  coupled R d d' -> coupled R (dscale w d) (dscale w d').
Proof.
  unfold coupled, dscale. induction 1 as [|[u a] [u' b] d d' [Hw HR] _ IH]; cbn [map]; constructor.
  - cbn [fst snd] in *. subst. split; [reflexivity | exact HR].
  - exact IH.
Qed.

Lemma coupled_app {A B} (R : A -> B -> Prop) d1 d1' d2 d2' :
  coupled R d1 d1' -> coupled R d2 d2' -> coupled R (d1 ++ d2) (d1' ++ d2').
Proof. unfold coupled. apply Forall2_app. Qed.

Lemma coupled_bind {A A' B B'} (R : A -> A' -> Prop) (R' : B -> B' -> Prop) d d' k k' :
  coupled R d d' -> (forall a a', R a a' -> coupled R' (k a) (k' a')) ->
  coupled R' (bind d k) (bind d' k').
Proof.
  intros Hd Hk. induction Hd as [|[u a] [u' a'] d d' [Hw HR] _ IH]; cbn [bind]; [constructor|].
  cbn [fst snd] in *. subst. apply coupled_app; [apply coupled_dscale, Hk, HR | exact IH].
Qed.

Lemma coupled_E {A B} (R : A -> B -> Prop) d d' f g :
  coupled R d d' -> (forall a b, R a b -> f a = g b) -> E d f = E d' g.
Proof.
  intros Hd H. induction Hd as [|[u a] [u' b] d d' [Hw HR] _ IH]; cbn [E]; [reflexivity|].
  cbn [fst snd] in *. subst. rewrite (H a b HR), IH. reflexivity.
Qed.

Lemma coupled_supp_l {A B} (R : A -> B -> Prop) d d' a :
  coupled R d d' -> supp d a -> exists b, supp d' b /\ R a b.
Proof.
  intros Hd [w Hin]. induction Hd as [|[u a0] [u' b0] d d' [Hw HR] _ IH]; [destruct Hin|].
  destruct Hin as [Hin|Hin].
  - injection Hin as -> ->. exists b0. split; [exists u'; left; reflexivity | exact HR].
  - destruct (IH Hin) as [b [[w' Hb] Hr]]. exists b. split; [exists w'; right; exact Hb | exact Hr].
Qed.

Lemma coupled_mono {A B} (R R' : A -> B -> Prop) d d' :
  (forall a b, R a b -> R' a b) -> coupled R d d' -> coupled R' d d'.
Proof.
  intros H Hd. induction Hd as [|x y d d' [Hw HR] _ IH]; constructor; [split; auto | exact IH].
Qed.

Lemma coupled_eq_refl {A} (d : dist A) : coupled eq d d.
Proof. induction d as [|[w a] d IH]; constructor; [split; reflexivity | exact IH]. Qed.

(* a deterministic step of weight one on the left / on the right only *)
Lemma coupled_one_l {A B} (R : A -> B -> Prop) w d d' :
  w = 1 -> coupled R d d' -> coupled R (dscale w d ++ []) d'.
Proof.
  intros -> Hd. rewrite app_nil_r. unfold dscale.
  induction Hd as [|[u a] [u' b] d d' [Hw HR] _ IH]; cbn [map]; constructor; [|exact IH].
  cbn [fst snd] in *. subst. split; [ring | exact HR].
Qed.
Lemma coupled_one_r {A B} (R : A -> B -> Prop) w d d' :
  w = 1 -> coupled R d d' -> coupled R d (dscale w d' ++ []).
Proof.
  intros -> Hd. rewrite app_nil_r. unfold dscale.
  induction Hd as [|[u a] [u' b] d d' [Hw HR] _ IH]; cbn [map]; constructor; [|exact IH].
  cbn [fst snd] in *. subst. split; [ring | exact HR].
Qed.

(* ---- lists of variables ---- *)
Lemma mem_var_true x l : mem_var x l = true -> In x l.
Proof.
  unfold mem_var. intros H. apply existsb_exists in H. destruct H as [y [Hin He]].
  apply String.eqb_eq in He. subst. exact Hin.
Qed.
Lemma mem_var_false x l : mem_var x l = false -> ~ In x l.
Proof. intros H Hin. rewrite (mem_var_In _ _ Hin) in H. discriminate. Qed.

Definition disjointb (a b : list var) : bool := forallb (fun x => negb (mem_var x b)) a.
Lemma disjointb_spec a b : disjointb a b = true -> forall x, In x a -> ~ In x b.
Proof.
  unfold disjointb. intros H x Ha Hb. rewrite forallb_forall in H. specialize (H x Ha).
  rewrite (mem_var_In _ _ Hb) in H. discriminate.
Qed.

(* ---- variables read ---- *)
Fixpoint cvars (c : cond) : list var :=
  match c with
  | CTrue | CFalse => []
  | CAtom a _ b => vars_of a ++ vars_of b
  | CNot c1 => cvars c1
  | CAnd c1 c2 | COr c1 c2 => cvars c1 ++ cvars c2
  end.
Definition dvars (d : draw) : list var :=
  match d with
  | DBern p => vars_of p
  | DCat ps => flat_map vars_of ps
  | DUnif _ _ => []
  | DCont _ args => flat_map vars_of args
  end.
Definition rvars (r : rhs) : list var :=
  match r with
  | RChoice alts => flat_map (fun pe => vars_of (fst pe) ++ vars_of (snd pe)) alts
  | RDraw d => dvars d
  end.
Definition ga_reads (g : gassign) : list var := cvars (ga_cond g) ++ rvars (ga_rhs g).

(* ---- simultaneous substitution ---- *)
Definition smap := list (var * expr).
Fixpoint slookup (F : smap) (x : var) : option expr :=
  match F with
  | [] => None
  | (y, e) :: F' => if var_eqb x y then Some e else slookup F' x
  end.
Definition sdom (F : smap) : list var := map fst F.

Lemma slookup_none F x : mem_var x (sdom F) = false -> slookup F x = None.
Proof.
  induction F as [|[y e] F IH]; cbn [sdom map fst mem_var existsb slookup]; intros H; [reflexivity|].
  apply orb_false_iff in H. destruct H as [H1 H2]. rewrite H1. apply IH. exact H2.
Qed.
Lemma slookup_some_dom F x e : slookup F x = Some e -> In x (sdom F).
Proof.
  induction F as [|[y e'] F IH]; cbn [slookup sdom map fst]; intros H; [discriminate|].
  destruct (var_eqb x y) eqn:E; [left; symmetry; apply String.eqb_eq; exact E | right; apply IH; exact H].
Qed.
Lemma slookup_some_in F x e : slookup F x = Some e -> In (x, e) F.
Proof.
  induction F as [|[y e'] F IH]; cbn [slookup]; intros H; [discriminate|].
  destruct (var_eqb x y) eqn:E.
  - apply String.eqb_eq in E. subst. injection H as <-. left; reflexivity.
  - right; apply IH; exact H.
Qed.

Fixpoint subst_e (F : smap) (e : expr) : expr :=
  match e with
  | EConst q => EConst q
  | EVar x => match slookup F x with Some e' => e' | None => EVar x end
  | EAdd a b => EAdd (subst_e F a) (subst_e F b)
  | EMul a b => EMul (subst_e F a) (subst_e F b)
  | EPow a k => EPow (subst_e F a) k
  end.
Fixpoint subst_c (F : smap) (c : cond) : cond :=
  match c with
  | CTrue => CTrue
  | CFalse => CFalse
  | CAtom a o b => CAtom (subst_e F a) o (subst_e F b)
  | CNot c1 => CNot (subst_c F c1)
  | CAnd c1 c2 => CAnd (subst_c F c1) (subst_c F c2)
  | COr c1 c2 => COr (subst_c F c1) (subst_c F c2)
  end.
Definition subst_d (F : smap) (d : draw) : draw :=
  match d with
  | DBern p => DBern (subst_e F p)
  | DCat ps => DCat (map (subst_e F) ps)
  | DUnif a b => DUnif a b
  | DCont f args => DCont f (map (subst_e F) args)
  end.
Definition subst_r (F : smap) (r : rhs) : rhs :=
  match r with
  | RChoice alts => RChoice (map (fun pe => (subst_e F (fst pe), subst_e F (snd pe))) alts)
  | RDraw d => RDraw (subst_d F d)
  end.
(* Assignment.subs: condition, right-hand side (and the default variable, which is never a
   substituted variable where the theorems apply) *)
Definition subst_ga (F : smap) (g : gassign) : gassign :=
  {| ga_var := ga_var g; ga_cond := subst_c F (ga_cond g); ga_default := ga_default g;
     ga_rhs := subst_r F (ga_rhs g) |}.

(* [s] is a state of the original program, [s'] of the substituted one: at x they agree
   through the substitution *)
Definition agree (F : smap) (s s' : state) (x : var) : Prop :=
  match slookup F x with Some v => eval v s' = s x | None => s' x = s x end.

Lemma subst_e_eval F e s s' :
  (forall x, In x (vars_of e) -> agree F s s' x) -> eval (subst_e F e) s' = eval e s.
Proof.
  induction e as [q|x|a IHa b IHb|a IHa b IHb|a IHa k]; cbn [subst_e eval vars_of]; intros H.
  - reflexivity.
  - specialize (H x (or_introl eq_refl)). unfold agree in H.
    destruct (slookup F x); [exact H | exact H].
  - rewrite IHa, IHb; [reflexivity| |]; intros x Hx; apply H, in_or_app; auto.
  - rewrite IHa, IHb; [reflexivity| |]; intros x Hx; apply H, in_or_app; auto.
  - rewrite IHa; [reflexivity | exact H].
Qed.

Lemma subst_c_holds F c s s' :
  (forall x, In x (cvars c) -> agree F s s' x) -> holds (subst_c F c) s' = holds c s.
Proof.
  induction c as [| |a o b|c1 IH|c1 IH1 c2 IH2|c1 IH1 c2 IH2]; cbn [subst_c holds cvars]; intros H.
  - reflexivity.
  - reflexivity.
  - rewrite !(subst_e_eval F _ s s'); [reflexivity| |]; intros x Hx; apply H, in_or_app; auto.
  - rewrite IH; [reflexivity | exact H].
  - rewrite IH1, IH2; [reflexivity| |]; intros x Hx; apply H, in_or_app; auto.
  - rewrite IH1, IH2; [reflexivity| |]; intros x Hx; apply H, in_or_app; auto.
Qed.

Lemma map_subst_eval F l s s' :
  (forall x, In x (flat_map vars_of l) -> agree F s s' x) ->
  map (fun e => eval e s') (map (subst_e F) l) = map (fun e => eval e s) l.
Proof.
  induction l as [|e l IH]; cbn [map flat_map]; intros H; [reflexivity|].
  rewrite (subst_e_eval F e s s'), IH; [reflexivity| |]; intros x Hx; apply H, in_or_app; auto.
Qed.

Section Subst.
  Variable law : string -> list Qc -> dist Qc.

  (* the substituted right-hand side has literally the same law of values *)
  Lemma subst_r_sample F r s s' :
    (forall x, In x (rvars r) -> agree F s s' x) -> sample law (subst_r F r) s' = sample law r s.
  Proof.
    destruct r as [alts|d]; cbn [subst_r sample rvars]; intros H.
    - induction alts as [|[p e] alts IH]; cbn [map flat_map fst snd] in *; [reflexivity|].
      rewrite IH by (intros x Hx; apply H, in_or_app; auto).
      rewrite !(subst_e_eval F _ s s'); [reflexivity| |]; intros x Hx; apply H; repeat (apply in_or_app; auto).
      + left. apply in_or_app; auto.
      + left. apply in_or_app; auto.
    - destruct d as [p|ps|a b|f args]; cbn [subst_d draw_law dvars] in *.
      + rewrite (subst_e_eval F p s s' H). reflexivity.
      + rewrite (map_subst_eval F ps s s' H). reflexivity.
      + reflexivity.
      + rewrite (map_subst_eval F args s s' H). reflexivity.
  Qed.

  (* one guarded assignment and its substituted version, from states that agree through F on
     everything the assignment reads: the results are coupled by any relation that is kept
     by writing the same value to the assigned variable on both sides *)
  Lemma exec_ga_subst F g s s' (R : state -> state -> Prop) :
    (forall x, In x (ga_reads g) -> agree F s s' x) ->
    s' (ga_default g) = s (ga_default g) ->
    (forall v, R (upd s (ga_var g) v) (upd s' (ga_var g) v)) ->
    coupled R (exec_ga law g s) (exec_ga law (subst_ga F g) s').
  Proof.
    intros Hr Hd HR. unfold exec_ga, subst_ga. cbn [ga_cond ga_var ga_default ga_rhs].
    rewrite (subst_c_holds F (ga_cond g) s s') by (intros x Hx; apply Hr; unfold ga_reads; apply in_or_app; auto).
    destruct (holds (ga_cond g) s).
    - rewrite (subst_r_sample F (ga_rhs g) s s') by (intros x Hx; apply Hr; unfold ga_reads; apply in_or_app; auto).
      apply (coupled_bind eq R); [apply coupled_eq_refl|].
      intros v v' <-. apply coupled_ret. apply HR.
    - apply coupled_ret. rewrite Hd. apply HR.
  Qed.
End Subst.

(* ---- the variables an expression depends on after polynomial normalisation ---- *)
Definition pvars (p : poly) : list var := flat_map (fun t => map fst (snd t)) p.
Definition evars (e : expr) : list var := pvars (pclean (of_expr e)).

Lemma eval_mono_ext m s s' : (forall x, In x (map fst m) -> s x = s' x) -> eval_mono m s = eval_mono m s'.
Proof.
  induction m as [|[x k] m IH]; cbn [eval_mono map fst]; intros H; [reflexivity|].
  rewrite (H x (or_introl eq_refl)), IH; [reflexivity|]. intros y Hy; apply H; right; exact Hy.
Qed.
Lemma eval_poly_ext p s s' : (forall x, In x (pvars p) -> s x = s' x) -> eval_poly p s = eval_poly p s'.
Proof.
  unfold pvars. induction p as [|[c m] p IH]; cbn [eval_poly flat_map snd]; intros H; [reflexivity|].
  rewrite (eval_mono_ext m s s'), IH; [reflexivity| |]; intros x Hx; apply H, in_or_app; auto.
Qed.
Lemma eval_filter_nonzero p s :
  eval_poly (filter (fun t : Qc * mono => negb (Qc_eqb (fst t) 0)) p) s = eval_poly p s.
Proof.
  induction p as [|[c m] p IH]; cbn [filter eval_poly fst]; [reflexivity|].
  destruct (Qc_eqb_spec c 0) as [->|Hc]; cbn [negb eval_poly]; rewrite IH; ring.
Qed.
Lemma eval_pclean p s : eval_poly (pclean p) s = eval_poly p s.
Proof. unfold pclean. rewrite eval_filter_nonzero. apply eval_pnorm. Qed.

Theorem eval_evars_ext e s s' : (forall x, In x (evars e) -> s x = s' x) -> eval e s = eval e s'.
Proof.
  intros H. rewrite <- !eval_of_expr, <- (eval_pclean _ s), <- (eval_pclean _ s').
  apply eval_poly_ext. exact H.
Qed.

(* equality of expressions as polynomials (complete: monomials and terms are normalised) *)
Definition poly_eqb (a b : expr) : bool := pzero (psub (of_expr a) (of_expr b)).
Lemma poly_eqb_sound a b : poly_eqb a b = true -> forall s, eval a s = eval b s.
Proof.
  unfold poly_eqb. intros H s. pose proof (pzero_sound _ H s) as E0.
  rewrite eval_psub, !eval_of_expr in E0.
  transitivity (eval a s - eval b s + eval b s); [ring | rewrite E0; ring].
Qed.
