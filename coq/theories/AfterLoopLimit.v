(* C09 — the limit n -> infinity of the moment-given-termination sequence.
   All real-number material (Reals, Coquelicot) of C09 is confined to this file.
   - [geom_limit]: num(n) = a + sum_j b_j r_j^n, den(n) = c + sum_j d_j s_j^n, |r_j|, |s_j| < 1,
     c <> 0  ==>  num/den -> a/c;
   - [poly_geom_decay]: n^k r^n -> 0 for |r| < 1 (d'Alembert), hence [const_part_limit]: an
     exponential polynomial over Qc whose terms are a constant plus decaying terms r^n P(n)
     converges to the constant;
   - the executable [limit_value] with [limit_value_sound]: the value the printed after-loop
     result must have when numerator and denominator closed forms have that shape;
   - divergence: [geom_diverges] (dominant base > 1) and [linear_diverges] (linear growth). *)
From Coq Require Import QArith Qcanon Qreals Reals Lra Lia List Bool Arith.
From Coquelicot Require Import Coquelicot.
From Polar Require Import Qcx CRing ExpPoly AfterLoop.
Import ListNotations.
Local Open Scope R_scope.

(* ---- the plain geometric shape ---- *)
Fixpoint gsum (l : list (R * R)) (n : nat) : R :=
  match l with [] => 0 | (b, r) :: l' => b * r ^ n + gsum l' n end.

Lemma gsum_lim l : List.Forall (fun br => Rabs (snd br) < 1) l -> is_lim_seq (gsum l) 0.
Proof.
  induction l as [|[b r] l IH]; intros H; cbn [gsum].
  - apply is_lim_seq_const.
  - inversion H as [|x y Hr Hl]; subst. cbn [snd] in Hr.
    replace (Finite 0) with (Finite (b * 0 + 0)) by (f_equal; ring).
    apply is_lim_seq_plus'; [|apply IH; exact Hl].
    apply is_lim_seq_mult'; [apply is_lim_seq_const | apply is_lim_seq_geom; exact Hr].
Qed.

Theorem geom_limit (num den : nat -> R) a c ln ld :
  (forall n, num n = a + gsum ln n) -> (forall n, den n = c + gsum ld n) ->
  List.Forall (fun br => Rabs (snd br) < 1) ln -> List.Forall (fun br => Rabs (snd br) < 1) ld ->
  c <> 0 -> is_lim_seq (fun n => num n / den n) (a / c).
Proof.
  intros Hn Hd Hln Hld Hc. apply is_lim_seq_div'; [| |exact Hc].
  - apply (is_lim_seq_ext (fun n => a + gsum ln n)); [intros n; symmetry; apply Hn|].
    replace (Finite a) with (Finite (a + 0)) by (f_equal; ring).
    apply is_lim_seq_plus'; [apply is_lim_seq_const | apply gsum_lim; exact Hln].
  - apply (is_lim_seq_ext (fun n => c + gsum ld n)); [intros n; symmetry; apply Hd|].
    replace (Finite c) with (Finite (c + 0)) by (f_equal; ring).
    apply is_lim_seq_plus'; [apply is_lim_seq_const | apply gsum_lim; exact Hld].
Qed.

(* ---- polynomial times decaying geometric ---- *)
Lemma lim_pow_seq (u : nat -> R) (l : R) k : is_lim_seq u l -> is_lim_seq (fun n => u n ^ k) (l ^ k).
Proof.
  intros H; induction k as [|k IH]; cbn [pow].
  - apply is_lim_seq_const.
  - apply is_lim_seq_mult'; assumption.
Qed.

Lemma lim_inv_Sn : is_lim_seq (fun n => / INR (S n)) 0.
Proof.
  change (Finite 0) with (Rbar_inv p_infty).
  apply is_lim_seq_inv; [|discriminate].
  apply (is_lim_seq_incr_1 INR). apply is_lim_seq_INR.
Qed.

Lemma lim_ratio : is_lim_seq (fun n => INR (S (S n)) / INR (S n)) 1.
Proof.
  apply (is_lim_seq_ext (fun n => 1 + / INR (S n))).
  - intros n. rewrite (S_INR (S n)). field. apply not_0_INR. discriminate.
  - replace (Finite 1) with (Finite (1 + 0)) by (f_equal; ring).
    apply is_lim_seq_plus'; [apply is_lim_seq_const | apply lim_inv_Sn].
Qed.

Theorem poly_geom_decay r k : Rabs r < 1 -> is_lim_seq (fun n => INR n ^ k * r ^ n) 0.
Proof.
  intros Hr. destruct (Req_dec r 0) as [->|Hr0].
  - apply is_lim_seq_incr_1. apply (is_lim_seq_ext (fun _ => 0)); [|apply is_lim_seq_const].
    intros n. cbn [pow]. ring.
  - apply is_lim_seq_incr_1.
    set (a := fun n => INR (S n) ^ k * r ^ n).
    apply (is_lim_seq_ext (fun n => r * a n)); [intros n; unfold a; cbn [pow]; ring|].
    replace (Finite 0) with (Rbar_mult r 0) by (cbn; f_equal; ring).
    apply is_lim_seq_scal_l.
    apply is_lim_seq_abs_0. apply ex_series_lim_0.
    apply (ex_series_DAlembert a (Rabs r) Hr).
    + intros n. unfold a. apply Rmult_integral_contrapositive_currified.
      * apply pow_nonzero. apply not_0_INR. discriminate.
      * apply pow_nonzero. exact Hr0.
    + apply (is_lim_seq_ext (fun n => (INR (S (S n)) / INR (S n)) ^ k * Rabs r)).
      * intros n. unfold a.
        assert (HS : INR (S n) <> 0) by (apply not_0_INR; discriminate).
        assert (HP : INR (S n) ^ k <> 0) by (apply pow_nonzero; exact HS).
        assert (HR : r ^ n <> 0) by (apply pow_nonzero; exact Hr0).
        replace (INR (S (S n)) ^ k * r ^ S n / (INR (S n) ^ k * r ^ n))
          with ((INR (S (S n)) / INR (S n)) ^ k * r).
        2:{ unfold Rdiv at 1. rewrite Rpow_mult_distr, pow_inv. cbn [pow]. field. split; assumption. }
        rewrite Rabs_mult. f_equal. symmetry. apply Rabs_pos_eq. apply pow_le.
        apply Rlt_le. apply Rdiv_lt_0_compat; apply lt_0_INR; lia.
      * replace (Finite (Rabs r)) with (Finite (1 ^ k * Rabs r)) by (f_equal; rewrite pow1; ring).
        apply is_lim_seq_mult'; [apply lim_pow_seq; apply lim_ratio | apply is_lim_seq_const].
Qed.

(* ---- exponential polynomials over Qc seen in R ---- *)
Definition QcR (x : Qc) : R := Q2R (this x).

Lemma QcR_plus x y : QcR (x + y)%Qc = QcR x + QcR y.
Proof. unfold QcR. rewrite <- Q2R_plus. apply Qeq_eqR. unfold Qcplus, Q2Qc. cbn [this]. apply Qred_correct. Qed.
Lemma QcR_mult x y : QcR (x * y)%Qc = QcR x * QcR y.
Proof. unfold QcR. rewrite <- Q2R_mult. apply Qeq_eqR. unfold Qcmult, Q2Qc. cbn [this]. apply Qred_correct. Qed.
Lemma QcR_0 : QcR 0%Qc = 0.
Proof. unfold QcR. cbn [this Q2Qc]. unfold Q2R. cbn. lra. Qed.
Lemma QcR_1 : QcR 1%Qc = 1.
Proof. unfold QcR. cbn [this Q2Qc]. unfold Q2R. cbn. lra. Qed.
Lemma QcR_inv x : QcR (/ x)%Qc = / QcR x.
Proof.
  unfold QcR. destruct (Qeq_dec (this x) 0) as [E|E].
  - assert (Hx : x = 0%Qc) by (apply Qc_is_canon; exact E). subst x.
    cbn. unfold Q2R. cbn. rewrite Rmult_0_l, Rinv_0. reflexivity.
  - rewrite <- Q2R_inv by exact E. apply Qeq_eqR. unfold Qcinv, Q2Qc. cbn [this]. apply Qred_correct.
Qed.
Lemma QcR_div x y : QcR (x / y)%Qc = QcR x / QcR y.
Proof. unfold Qcdiv, Rdiv. rewrite QcR_mult, QcR_inv. reflexivity. Qed.
Lemma QcR_lt x y : (x < y)%Qc -> QcR x < QcR y.
Proof. unfold Qclt, QcR. apply Qlt_Rlt. Qed.
Lemma QcR_inj_0 x : QcR x = 0 -> x = 0%Qc.
Proof.
  unfold QcR. intros H. apply Qc_is_canon. cbn. apply eqR_Qeq. rewrite H. unfold Q2R. cbn. lra.
Qed.

Lemma QcR_rpow (r : Qc) n : QcR (rpow (R := Qc_cring) r n) = QcR r ^ n.
Proof. induction n as [|n IH]; cbn [rpow pow]; [apply QcR_1 | cbn; rewrite QcR_mult, IH; reflexivity]. Qed.
Lemma QcR_rnat n : QcR (rnat (R := Qc_cring) n) = INR n.
Proof.
  induction n as [|n IH]; [apply QcR_0|].
  rewrite S_INR. cbn [rnat]. cbn. rewrite QcR_plus, IH, QcR_1. reflexivity.
Qed.

(* evaluation of a coefficient list in R *)
Fixpoint rpeval (cs : list Qc) (x : R) : R := match cs with [] => 0 | c :: cs' => QcR c + x * rpeval cs' x end.
Lemma QcR_peval cs (x : Qc) : QcR (peval (R := Qc_cring) cs x) = rpeval cs (QcR x).
Proof.
  induction cs as [|c cs IH]; cbn [peval rpeval]; [apply QcR_0|].
  cbn. rewrite QcR_plus, QcR_mult, IH. reflexivity.
Qed.

(* r^n * P(n) -> 0 for |r| < 1 *)
Lemma decay_term_lim (r : R) cs : Rabs r < 1 -> is_lim_seq (fun n => r ^ n * rpeval cs (INR n)) 0.
Proof.
  intros Hr. revert cs.
  (* generalise: r^n * n^j * P(n) -> 0 *)
  assert (G : forall cs j, is_lim_seq (fun n => INR n ^ j * r ^ n * rpeval cs (INR n)) 0).
  { induction cs as [|c cs IH]; intros j; cbn [rpeval].
    - apply (is_lim_seq_ext (fun _ => 0)); [intros n; ring | apply is_lim_seq_const].
    - apply (is_lim_seq_ext (fun n => QcR c * (INR n ^ j * r ^ n) + INR n ^ S j * r ^ n * rpeval cs (INR n))).
      + intros n. cbn [pow]. ring.
      + replace (Finite 0) with (Finite (QcR c * 0 + 0)) by (f_equal; ring).
        apply is_lim_seq_plus'; [|apply IH].
        apply is_lim_seq_mult'; [apply is_lim_seq_const | apply poly_geom_decay; exact Hr]. }
  intros cs. apply (is_lim_seq_ext (fun n => INR n ^ 0 * r ^ n * rpeval cs (INR n))); [intros n; cbn [pow]; ring | apply G].
Qed.

Definition decaying (r : Qc) : bool := Qc_ltb (- (1))%Qc r && Qc_ltb r 1%Qc.

Lemma Qc_ltb_lt x y : Qc_ltb x y = true -> (x < y)%Qc.
Proof. unfold Qc_ltb. destruct (Qccompare x y) eqn:E; try discriminate. intros _. exact E. Qed.

Lemma decaying_abs r : decaying r = true -> Rabs (QcR r) < 1.
Proof.
  unfold decaying. intros H. apply andb_true_iff in H; destruct H as [H1 H2].
  apply Qc_ltb_lt, QcR_lt in H1. apply Qc_ltb_lt, QcR_lt in H2.
  assert (Hm : QcR (- (1))%Qc = -1) by (unfold QcR; cbn; unfold Q2R; cbn; lra).
  rewrite Hm in H1. rewrite QcR_1 in H2. apply Rabs_def1; lra.
Qed.

(* constant part of an exponential polynomial all of whose other terms decay *)
Fixpoint const_part (f : epoly Qc_cring) : option Qc :=
  match f with
  | [] => Some 0%Qc
  | (r, cs) :: f' =>
      match const_part f' with
      | None => None
      | Some a =>
          if Qc_eqb r 1%Qc then
            match cs with [] => Some a | [c] => Some (a + c)%Qc | _ => None end
          else if decaying r then Some a else None
      end
  end.

Lemma QcR_eterm (r : Qc) cs n : QcR (eterm Qc_cring (r, cs) n) = QcR r ^ n * rpeval cs (INR n).
Proof. unfold eterm. cbn [fst snd]. cbn. rewrite QcR_mult, QcR_rpow, QcR_peval, QcR_rnat. reflexivity. Qed.

Theorem const_part_limit f a : const_part f = Some a -> is_lim_seq (fun n => QcR (eeval f n)) (QcR a).
Proof.
  revert a; induction f as [|[r cs] f IH]; cbn [const_part]; intros a H.
  - injection H as <-. apply (is_lim_seq_ext (fun _ => QcR 0%Qc)); [intros n; reflexivity | apply is_lim_seq_const].
  - destruct (const_part f) as [a'|] eqn:Ef; [|discriminate]. specialize (IH a' eq_refl).
    assert (Hstep : forall l : R, is_lim_seq (fun n => QcR r ^ n * rpeval cs (INR n)) l ->
                    is_lim_seq (fun n => QcR (eeval ((r, cs) :: f) n)) (l + QcR a')).
    { intros l Hl. apply (is_lim_seq_ext (fun n => QcR r ^ n * rpeval cs (INR n) + QcR (eeval f n))).
      - intros n. change (eeval ((r, cs) :: f) n) with (eterm Qc_cring (r, cs) n + eeval f n)%Qc.
        rewrite QcR_plus, QcR_eterm. reflexivity.
      - apply is_lim_seq_plus'; assumption. }
    destruct (Qc_eqb_spec r 1%Qc) as [->|Hr1].
    + destruct cs as [|c [|c2 cs]]; try discriminate; injection H as <-.
      * replace (QcR a') with (0 + QcR a') by ring. apply Hstep.
        apply (is_lim_seq_ext (fun _ => 0)); [intros n; cbn [rpeval]; ring | apply is_lim_seq_const].
      * rewrite QcR_plus, Rplus_comm. apply Hstep.
        apply (is_lim_seq_ext (fun _ => QcR c)); [|apply is_lim_seq_const].
        intros n. rewrite QcR_1, pow1. cbn [rpeval]. ring.
    + destruct (decaying r) eqn:Ed; [|discriminate]. injection H as <-.
      replace (QcR a') with (0 + QcR a') by ring. apply Hstep.
      apply decay_term_lim. apply decaying_abs. exact Ed.
Qed.

Definition limit_value (fN fD : epoly Qc_cring) : option Qc :=
  match const_part fN, const_part fD with
  | Some a, Some c => if Qc_eqb c 0%Qc then None else Some (a / c)%Qc
  | _, _ => None
  end.

(* the sequences with their special values converge like their general parts *)
Lemma pw1_eventually (f : epoly Qc_cring) (sp : list Qc) : eventually (fun n => QcR (eeval f n) = QcR (pw1 f sp n)).
Proof.
  exists (List.length sp). intros n Hn. unfold pw1.
  assert (E : (n <? List.length sp)%nat = false) by (apply Nat.ltb_ge; exact Hn). rewrite E. reflexivity.
Qed.

Theorem limit_value_sound fN spN fD spD L :
  limit_value fN fD = Some L ->
  is_lim_seq (fun n => QcR (pw1 fN spN n / pw1 fD spD n)%Qc) (QcR L).
Proof.
  unfold limit_value. intros H.
  destruct (const_part fN) as [a|] eqn:EN; [|discriminate].
  destruct (const_part fD) as [c|] eqn:ED; [|discriminate].
  destruct (Qc_eqb_spec c 0%Qc) as [|Hc]; [discriminate|]. injection H as <-.
  apply (is_lim_seq_ext (fun n => QcR (pw1 fN spN n) / QcR (pw1 fD spD n))); [intros n; symmetry; apply QcR_div|].
  rewrite QcR_div. apply is_lim_seq_div'.
  - apply (is_lim_seq_ext_loc _ _ _ (pw1_eventually fN spN)). apply const_part_limit. exact EN.
  - apply (is_lim_seq_ext_loc _ _ _ (pw1_eventually fD spD)). apply const_part_limit. exact ED.
  - intros H0. apply Hc. apply QcR_inj_0. exact H0.
Qed.

(* ---- divergence ---- *)
Lemma is_Rbar_mult_p_infty_pos x : 0 < x -> is_Rbar_mult p_infty (Finite x) p_infty.
Proof.
  intros Hx. unfold is_Rbar_mult. cbn. destruct (Rle_dec 0 x) as [Hle|Hn]; [|exfalso; lra].
  destruct (Rle_lt_or_eq_dec 0 x Hle) as [_|E]; [reflexivity | exfalso; lra].
Qed.
Lemma Rbar_mult_pos_p_infty b : 0 < b -> Rbar_mult (Finite b) p_infty = p_infty.
Proof.
  intros Hb. cbn. destruct (Rle_dec 0 b) as [Hle|Hn]; [|exfalso; lra].
  destruct (Rle_lt_or_eq_dec 0 b Hle) as [_|E]; [reflexivity | exfalso; lra].
Qed.

Lemma ratio_diverges (u den : nat -> R) (c : R) :
  is_lim_seq u p_infty -> is_lim_seq den c -> 0 < c -> is_lim_seq (fun n => u n / den n) p_infty.
Proof.
  intros Hu Hden Hc. unfold Rdiv.
  apply (is_lim_seq_mult u (fun n => / den n) p_infty (Finite (/ c)) p_infty).
  - exact Hu.
  - change (Finite (/ c)) with (Rbar_inv (Finite c)). apply is_lim_seq_inv; [exact Hden|].
    intros E. injection E as E. lra.
  - apply is_Rbar_mult_p_infty_pos. apply Rinv_0_lt_compat. exact Hc.
Qed.

(* a dominant growing geometric term on top of a convergent part, over a denominator that
   converges to a positive constant: the ratio tends to +infinity *)
Theorem geom_diverges (num den rest : nat -> R) b r (l c : R) :
  (forall n, num n = b * r ^ n + rest n) -> 0 < b -> 1 < r -> is_lim_seq rest l ->
  is_lim_seq den c -> 0 < c -> is_lim_seq (fun n => num n / den n) p_infty.
Proof.
  intros Hn Hb Hr Hrest Hden Hc.
  apply (is_lim_seq_ext (fun n => (b * r ^ n + rest n) / den n)); [intros n; rewrite Hn; reflexivity|].
  apply ratio_diverges with (c := c); [|exact Hden|exact Hc].
  apply (is_lim_seq_plus (fun n => b * r ^ n) rest p_infty (Finite l) p_infty); [|exact Hrest|reflexivity].
  rewrite <- (Rbar_mult_pos_p_infty b Hb). apply is_lim_seq_scal_l. apply is_lim_seq_geom_p. exact Hr.
Qed.

Theorem linear_diverges (num den rest : nat -> R) b (l c : R) :
  (forall n, num n = b * INR n + rest n) -> 0 < b -> is_lim_seq rest l ->
  is_lim_seq den c -> 0 < c -> is_lim_seq (fun n => num n / den n) p_infty.
Proof.
  intros Hn Hb Hrest Hden Hc.
  apply (is_lim_seq_ext (fun n => (b * INR n + rest n) / den n)); [intros n; rewrite Hn; reflexivity|].
  apply ratio_diverges with (c := c); [|exact Hden|exact Hc].
  apply (is_lim_seq_plus (fun n => b * INR n) rest p_infty (Finite l) p_infty); [|exact Hrest|reflexivity].
  rewrite <- (Rbar_mult_pos_p_infty b Hb). apply is_lim_seq_scal_l. apply is_lim_seq_INR.
Qed.
