(* C12 — from the source program to what the simulator runs, and the main theorem.

   inputparser/structure_transformer.py turns a source program into the structure the
   simulator executes:
     assign (one variable)      -> one Assignment (condition TrueCond, default = variable)
     _assign_simult             -> _t<k> = rhs_1; ...; _t<k+m-1> = rhs_m; x_1 = _t<k>; ...; x_m = _t<k+m-1>
                                   (get_unique_var(name="t"): "_t" + str(counter))
     if_statem                  -> IfStatem(conditions, branches, else_branch)
     statems                    -> flattened list
   [parse_stmt/parse_block/parse_branches/parse_prog] transcribe that.  The theorem
   [simulator_transcription_is_S] says: for every source program that does not itself use
   a name "_t…" and whose probabilistic choices have total weight 1, the path-enumerated
   law of the simulator transcription on the parsed program equals Sem.run on the source
   program, for every observable that does not look at the temporaries, every n, every
   initial state. *)
From Coq Require Import List String QArith Qcanon ZArith Bool Lia Ascii Field.
From Coq Require Import DecimalString DecimalNat Decimal.
From Polar Require Import Qcx Dist Syntax Sem Simulator.
Import ListNotations.
Local Open Scope Qc_scope.

(* ---- temporaries ---- *)
Definition tmp (k : nat) : var := ("_t" ++ NilEmpty.string_of_uint (Nat.to_uint k))%string.
Definition is_tmp (x : var) : bool := String.prefix "_t" x.

Lemma is_tmp_tmp k : is_tmp (tmp k) = true.
Proof. unfold is_tmp, tmp. cbn. destruct (NilEmpty.string_of_uint (Nat.to_uint k)); reflexivity. Qed.

Lemma tmp_inj j k : tmp j = tmp k -> j = k.
Proof.
  unfold tmp. intros H. cbn [append] in H. inversion H as [H1].
  assert (Hu : Nat.to_uint j = Nat.to_uint k).
  { pose proof (NilEmpty.usu (Nat.to_uint j)) as A. pose proof (NilEmpty.usu (Nat.to_uint k)) as B.
    rewrite H1 in A. rewrite A in B. inversion B. reflexivity. }
  rewrite <- (Unsigned.of_to j), <- (Unsigned.of_to k), Hu. reflexivity.
Qed.

Lemma var_eqb_refl x : var_eqb x x = true.
Proof. apply String.eqb_refl. Qed.
Lemma var_eqb_neq x y : x <> y -> var_eqb x y = false.
Proof. intros H. apply String.eqb_neq. exact H. Qed.
Lemma notmp_neq_tmp x k : is_tmp x = false -> var_eqb x (tmp k) = false.
Proof. intros H. apply var_eqb_neq. intros ->. rewrite is_tmp_tmp in H. discriminate. Qed.
Lemma tmp_neq_notmp x k : is_tmp x = false -> var_eqb (tmp k) x = false.
Proof. intros H. apply var_eqb_neq. intros E. rewrite <- E, is_tmp_tmp in H. discriminate. Qed.

(* ---- the parser's desugaring ---- *)
Definition gplain (x : var) (r : rhs) : gassign :=
  {| ga_var := x; ga_cond := CTrue; ga_default := x; ga_rhs := r |}.

Fixpoint assigns1 (l : list (var * rhs)) (k : nat) : pblock :=
  match l with
  | [] => PNil
  | (_, r) :: l' => PCons (PAssign (gplain (tmp k) r)) (assigns1 l' (S k))
  end.
Fixpoint assigns2 (l : list (var * rhs)) (k : nat) : pblock :=
  match l with
  | [] => PNil
  | (x, _) :: l' => PCons (PAssign (gplain x (RDet (EVar (tmp k))))) (assigns2 l' (S k))
  end.

Fixpoint parse_stmt (st : stmt) (k : nat) {struct st} : pblock * nat :=
  match st with
  | SAssign x r => (PCons (PAssign (gplain x r)) PNil, k)
  | SSimult l => (pblock_app (assigns1 l k) (assigns2 l k), (k + List.length l)%nat)
  | SIf bs els =>
      let (pbs, k1) := parse_branches bs k in
      let (pels, k2) := parse_block els k1 in
      (PCons (PIf pbs pels) PNil, k2)
  end
with parse_block (b : block) (k : nat) {struct b} : pblock * nat :=
  match b with
  | BNil => (PNil, k)
  | BCons st b' =>
      let (p1, k1) := parse_stmt st k in
      let (p2, k2) := parse_block b' k1 in
      (pblock_app p1 p2, k2)
  end
with parse_branches (bs : branches) (k : nat) {struct bs} : pbranches * nat :=
  match bs with
  | BrNil => (PBrNil, k)
  | BrCons c b bs' =>
      let (pb, k1) := parse_block b k in
      let (pbs, k2) := parse_branches bs' k1 in
      (PBrCons c pb pbs, k2)
  end.

Definition parse_prog (p : prog) (k : nat) : pprog :=
  let (pi, k1) := parse_block (p_init p) k in
  let (pb, _) := parse_block (p_body p) k1 in
  {| pp_init := pi; pp_guard := p_guard p; pp_body := pb |}.

(* ---- the random sources as called by the sample / evaluate_right_side methods ---- *)
(* random.choices(values, weights=w) selects index i with probability w_i / sum(w) *)
Definition normalise (d : dist Qc) : dist Qc := map (fun p => (fst p / mass d, snd p)) d.

Lemma normalise_unit d : mass d = 1 -> normalise d = d.
Proof.
  intros H. unfold normalise. rewrite H. rewrite <- (map_id d) at 2. apply map_ext.
  intros [w v]. cbn [fst snd]. f_equal. field. discriminate.
Qed.

Section WithLaw.
  Variable law : string -> list Qc -> dist Qc.

  Definition sim_sample (r : rhs) (s : state) : dist Qc :=
    match r with
    | RChoice _ => normalise (sample law r s)        (* PolyAssignment.evaluate_right_side: random.choices(polys, weights=probs) *)
    | RDraw (DCat _) => normalise (sample law r s)   (* Categorical.sample: random.choices(range(len(p)), weights=p) *)
    | RDraw (DUnif _ _) => sample law r s            (* DiscreteUniform.sample: random.choice(values) *)
    | RDraw (DBern _) => sample law r s              (* Bernoulli.sample: bernoulli.rvs(p): 1 w.p. p, 0 w.p. 1-p *)
    | RDraw (DCont _ _) => sample law r s            (* <family>.rvs(...): the law parameter *)
    end.

  Lemma sim_sample_unit r s : mass (sample law r s) = 1 -> sim_sample r s = sample law r s.
  Proof.
    intros H. destruct r as [alts|d]; [exact (normalise_unit _ H)|].
    destruct d; try reflexivity. exact (normalise_unit _ H).
  Qed.

  (* ---- well-formed source programs: no name "_t…", total weight 1 ---- *)
  Fixpoint expr_notmp (e : expr) : Prop :=
    match e with
    | EConst _ => True
    | EVar x => is_tmp x = false
    | EAdd a b | EMul a b => expr_notmp a /\ expr_notmp b
    | EPow a _ => expr_notmp a
    end.
  Fixpoint cond_notmp (c : cond) : Prop :=
    match c with
    | CTrue | CFalse => True
    | CAtom a _ b => expr_notmp a /\ expr_notmp b
    | CNot c => cond_notmp c
    | CAnd c1 c2 | COr c1 c2 => cond_notmp c1 /\ cond_notmp c2
    end.
  Definition draw_notmp (d : draw) : Prop :=
    match d with
    | DBern p => expr_notmp p
    | DCat ps => Forall expr_notmp ps
    | DUnif _ _ => True
    | DCont _ args => Forall expr_notmp args
    end.
  Definition rhs_notmp (r : rhs) : Prop :=
    match r with
    | RChoice alts => Forall (fun pe => expr_notmp (fst pe) /\ expr_notmp (snd pe)) alts
    | RDraw d => draw_notmp d
    end.
  Definition wf_rhs (r : rhs) : Prop := rhs_notmp r /\ forall s, mass (sample law r s) = 1.

  Fixpoint wf_stmt (st : stmt) : Prop :=
    match st with
    | SAssign x r => is_tmp x = false /\ wf_rhs r
    | SSimult l => Forall (fun xr => is_tmp (fst xr) = false /\ wf_rhs (snd xr)) l
    | SIf bs els => wf_branches bs /\ wf_block els
    end
  with wf_block (b : block) : Prop :=
    match b with BNil => True | BCons st b' => wf_stmt st /\ wf_block b' end
  with wf_branches (bs : branches) : Prop :=
    match bs with BrNil => True | BrCons c b bs' => cond_notmp c /\ wf_block b /\ wf_branches bs' end.

  Definition wf_prog (p : prog) : Prop := wf_block (p_init p) /\ cond_notmp (p_guard p) /\ wf_block (p_body p).

  (* ---- states that agree off the temporaries ---- *)
  Definition rel (s s' : state) : Prop := forall x, is_tmp x = false -> s x = s' x.
  Definition respects (f : state -> Qc) : Prop := forall s s', rel s s' -> f s = f s'.

  Lemma rel_refl s : rel s s.
  Proof. intros x _. reflexivity. Qed.
  Lemma rel_upd s s' x v : rel s s' -> rel (upd s x v) (upd s' x v).
  Proof. intros H y Hy. unfold upd. destruct (var_eqb y x); [reflexivity | apply H; exact Hy]. Qed.
  Lemma rel_upd_tmp s s' k v : rel s s' -> rel s (upd s' (tmp k) v).
  Proof. intros H y Hy. unfold upd. rewrite (notmp_neq_tmp y k Hy). apply H; exact Hy. Qed.

  Lemma eval_rel e s s' : expr_notmp e -> rel s s' -> eval e s = eval e s'.
  Proof.
    intros He Hr. induction e as [q|x|a IHa b IHb|a IHa b IHb|a IHa k]; cbn [eval expr_notmp] in *.
    - reflexivity.
    - apply Hr; exact He.
    - destruct He as [Ha Hb]. rewrite IHa, IHb by assumption. reflexivity.
    - destruct He as [Ha Hb]. rewrite IHa, IHb by assumption. reflexivity.
    - rewrite IHa by assumption. reflexivity.
  Qed.

  Lemma holds_rel c s s' : cond_notmp c -> rel s s' -> holds c s = holds c s'.
  Proof.
    intros Hc Hr. induction c as [| |a o b|c IH|c1 IH1 c2 IH2|c1 IH1 c2 IH2]; cbn [holds cond_notmp] in *.
    - reflexivity.
    - reflexivity.
    - destruct Hc as [Ha Hb]. rewrite (eval_rel a s s' Ha Hr), (eval_rel b s s' Hb Hr). reflexivity.
    - rewrite IH by assumption. reflexivity.
    - destruct Hc as [H1 H2]. rewrite IH1, IH2 by assumption. reflexivity.
    - destruct Hc as [H1 H2]. rewrite IH1, IH2 by assumption. reflexivity.
  Qed.

  Lemma map_eval_rel es s s' : Forall expr_notmp es -> rel s s' ->
    map (fun e => eval e s) es = map (fun e => eval e s') es.
  Proof.
    intros H Hr. induction H as [|e es He _ IH]; [reflexivity|]. cbn [map]. rewrite IH, (eval_rel e s s' He Hr). reflexivity.
  Qed.

  Lemma sample_rel r s s' : rhs_notmp r -> rel s s' -> sample law r s = sample law r s'.
  Proof.
    intros H Hr. destruct r as [alts|d]; cbn [sample rhs_notmp] in *.
    - induction H as [|[p e] alts [Hp He] _ IH]; [reflexivity|]. cbn [map fst snd] in *.
      rewrite IH, (eval_rel p s s' Hp Hr), (eval_rel e s s' He Hr). reflexivity.
    - destruct d as [p|ps|a b|f args]; cbn [draw_law draw_notmp] in *.
      + rewrite (eval_rel p s s' H Hr). reflexivity.
      + rewrite (map_eval_rel ps s s' H Hr). reflexivity.
      + reflexivity.
      + rewrite (map_eval_rel args s s' H Hr). reflexivity.
  Qed.

  Notation pexec_block' := (pexec_block sim_sample).
  Notation pexec_stmt' := (pexec_stmt sim_sample).

  Lemma pexec_block_app b1 : forall b2 s f,
    E (pexec_block' (pblock_app b1 b2) s) f = E (pexec_block' b1 s) (fun a => E (pexec_block' b2 a) f).
  Proof.
    induction b1 as [|st b1 IH]; intros b2 s f.
    - cbn [pblock_app pexec_block]. rewrite E_ret. reflexivity.
    - cbn [pblock_app pexec_block]. rewrite !E_bind. apply E_ext. intros a. apply IH.
  Qed.

  Lemma pexec_single st s f : E (pexec_block' (PCons st PNil) s) f = E (pexec_stmt' st s) f.
  Proof.
    change (pexec_block' (PCons st PNil) s) with (bind (pexec_stmt' st s) (pexec_block' PNil)).
    rewrite E_bind. apply E_ext. intros a. apply E_ret.
  Qed.

  (* a plain Assignment (condition TrueCond) *)
  Lemma pexec_gplain x r s f :
    E (pexec_ga sim_sample (gplain x r) s) f = E (sim_sample r s) (fun v => f (upd s x v)).
  Proof.
    unfold pexec_ga. cbn [gplain ga_cond ga_rhs ga_var holds].
    rewrite E_bind. apply E_ext. intros v. apply E_ret.
  Qed.

  (* ---- simultaneous assignment ---- *)
  Definition dmap {A B} (g : A -> B) (d : dist A) : dist B := map (fun p => (fst p, g (snd p))) d.
  Lemma E_dmap {A B} (g : A -> B) (d : dist A) f : E (dmap g d) f = E d (fun a => f (g a)).
  Proof. unfold dmap. induction d as [|[w a] d IH]; [reflexivity|]. cbn [map E fst snd]. rewrite IH. reflexivity. Qed.

  (* the joint law of the values drawn for the right-hand sides, all in the OLD state *)
  Fixpoint values_law (l : list (var * rhs)) (s : state) : dist (list Qc) :=
    match l with
    | [] => ret []
    | (_, r) :: l' => bind (sample law r s) (fun v => dmap (cons v) (values_law l' s))
    end.
  Fixpoint write_vars (xs : list var) (vs : list Qc) (t : state) : state :=
    match xs, vs with
    | x :: xs', v :: vs' => write_vars xs' vs' (upd t x v)
    | _, _ => t
    end.
  Fixpoint write_tmps (k : nat) (vs : list Qc) (a : state) : state :=
    match vs with [] => a | v :: vs' => write_tmps (S k) vs' (upd a (tmp k) v) end.
  Fixpoint copy_back (l : list (var * rhs)) (k : nat) (a : state) : state :=
    match l with [] => a | (x, _) :: l' => copy_back l' (S k) (upd a x (a (tmp k))) end.

  Lemma values_law_length l s : forall w vs, In (w, vs) (values_law l s) -> List.length vs = List.length l.
  Proof.
    induction l as [|[x r] l IH]; intros w vs Hin.
    - destruct Hin as [H|[]]. inversion H. reflexivity.
    - cbn [values_law] in Hin.
      destruct (supp_bind _ _ vs (ex_intro _ w Hin)) as [v [_ [w' Hv]]].
      unfold dmap in Hv. apply in_map_iff in Hv. destruct Hv as [[w0 vs0] [Heq Hin0]].
      cbn [fst snd] in Heq. inversion Heq; subst. cbn [List.length]. f_equal. exact (IH _ _ Hin0).
  Qed.

  Lemma exec_simult_values l s : forall t f,
    E (exec_simult law l s t) f = E (values_law l s) (fun vs => f (write_vars (map fst l) vs t)).
  Proof.
    induction l as [|[x r] l IH]; intros t f.
    - cbn. reflexivity.
    - cbn [exec_simult values_law map fst]. rewrite !E_bind. apply E_ext. intros v.
      rewrite E_dmap, IH. reflexivity.
  Qed.

  Lemma assigns1_values l : forall k s s' rest F,
    Forall (fun xr => is_tmp (fst xr) = false /\ wf_rhs (snd xr)) l -> rel s s' ->
    E (pexec_block' (pblock_app (assigns1 l k) rest) s') F =
    E (values_law l s) (fun vs => E (pexec_block' rest (write_tmps k vs s')) F).
  Proof.
    induction l as [|[x r] l IH]; intros k s s' rest F Hwf Hr.
    - cbn [assigns1 pblock_app values_law]. rewrite E_ret. reflexivity.
    - inversion Hwf as [|? ? [_ [Hnt Hm]] Hwf']; subst. cbn [snd] in *.
      cbn [assigns1 pblock_app pexec_block values_law].
      rewrite E_bind, pexec_gplain, (sim_sample_unit r s' (Hm s')), <- (sample_rel r s s' Hnt Hr), E_bind.
      apply E_ext. intros v. rewrite E_dmap.
      rewrite (IH (S k) s (upd s' (tmp k) v) rest F Hwf' (rel_upd_tmp _ _ _ _ Hr)). reflexivity.
  Qed.

  Lemma assigns2_copy l : forall k a F, E (pexec_block' (assigns2 l k) a) F = F (copy_back l k a).
  Proof.
    induction l as [|[x r] l IH]; intros k a F.
    - cbn [assigns2 pexec_block copy_back]. apply E_ret.
    - cbn [assigns2 pexec_block copy_back]. rewrite E_bind, pexec_gplain.
      assert (Hs : sim_sample (RDet (EVar (tmp k))) a = [(1, a (tmp k))]).
      { rewrite sim_sample_unit; [reflexivity|]. unfold mass, RDet. cbn [sample map fst snd eval E]. change (mkq 1 1) with 1. ring. }
      rewrite Hs. cbn [E]. rewrite IH. ring.
  Qed.

  Lemma write_tmps_other vs : forall k a y, (forall j, y <> tmp (k + j)) -> write_tmps k vs a y = a y.
  Proof.
    induction vs as [|v vs IH]; intros k a y Hy; [reflexivity|].
    cbn [write_tmps]. rewrite IH.
    - unfold upd. rewrite var_eqb_neq; [reflexivity|]. specialize (Hy 0%nat). rewrite Nat.add_0_r in Hy. exact Hy.
    - intros j. replace (S k + j)%nat with (k + S j)%nat by lia. apply Hy.
  Qed.

  Lemma write_tmps_nth vs : forall k a i, (i < List.length vs)%nat -> write_tmps k vs a (tmp (k + i)) = nth i vs 0.
  Proof.
    induction vs as [|v vs IH]; intros k a i Hi; [cbn in Hi; lia|].
    cbn [write_tmps]. destruct i as [|i].
    - rewrite Nat.add_0_r. rewrite write_tmps_other.
      + unfold upd. rewrite var_eqb_refl. reflexivity.
      + intros j E. apply tmp_inj in E. lia.
    - replace (k + S i)%nat with (S k + i)%nat by lia. rewrite IH; [reflexivity | cbn in Hi; lia].
  Qed.

  Lemma copy_back_rel l : forall k vs t A,
    List.length vs = List.length l -> Forall (fun xr => is_tmp (fst xr) = false) l ->
    rel t A -> (forall i, (i < List.length l)%nat -> A (tmp (k + i)) = nth i vs 0) ->
    rel (write_vars (map fst l) vs t) (copy_back l k A).
  Proof.
    induction l as [|[x r] l IH]; intros k vs t A Hlen Hnt Hr HA.
    - cbn. destruct vs; exact Hr.
    - destruct vs as [|v vs]; [discriminate|]. inversion Hnt as [|? ? Hx Hnt']; subst. cbn [fst] in Hx.
      cbn [map fst write_vars copy_back].
      assert (Hv : A (tmp k) = v). { specialize (HA 0%nat). rewrite Nat.add_0_r in HA. apply HA. cbn. lia. }
      rewrite Hv. apply IH.
      + cbn in Hlen. lia.
      + exact Hnt'.
      + apply rel_upd. exact Hr.
      + intros i Hi. unfold upd. rewrite (tmp_neq_notmp x (S k + i) Hx).
        replace (S k + i)%nat with (k + S i)%nat by lia. rewrite HA; [reflexivity | cbn; lia].
  Qed.

  Lemma simult_sim l k s s' f :
    Forall (fun xr => is_tmp (fst xr) = false /\ wf_rhs (snd xr)) l -> rel s s' -> respects f ->
    E (pexec_block' (pblock_app (assigns1 l k) (assigns2 l k)) s') f = E (exec_simult law l s s) f.
  Proof.
    intros Hwf Hr Hf. rewrite (assigns1_values l k s s' _ f Hwf Hr), exec_simult_values.
    apply E_ext_in. intros w vs Hin. rewrite assigns2_copy. symmetry. apply Hf.
    apply copy_back_rel.
    - exact (values_law_length _ _ _ _ Hin).
    - clear -Hwf. induction Hwf as [|xr l [Hx _] _ IH]; constructor; assumption.
    - intros y Hy. rewrite write_tmps_other; [apply Hr; exact Hy|].
      intros j ->. rewrite is_tmp_tmp in Hy. discriminate.
    - intros i Hi. apply write_tmps_nth. rewrite (values_law_length _ _ _ _ Hin). exact Hi.
  Qed.

  (* ---- statements, blocks, branches ---- *)
  Definition sim_ok_block (pb : pblock) (d : state -> dist state) : Prop :=
    forall s s' f, rel s s' -> respects f -> E (pexec_block' pb s') f = E (d s) f.

  Lemma sim_ok_respects pb d f : sim_ok_block pb d -> respects f -> respects (fun a => E (pexec_block' pb a) f).
  Proof.
    intros H Hf a a' Hr. rewrite (H a a f (rel_refl a) Hf), (H a a' f Hr Hf). reflexivity.
  Qed.

  Lemma parse_sim :
    (forall st, wf_stmt st -> forall k, sim_ok_block (fst (parse_stmt st k)) (exec_stmt law st)) /\
    (forall b, wf_block b -> forall k, sim_ok_block (fst (parse_block b k)) (exec_block law b)) /\
    (forall bs, wf_branches bs -> forall k s s', rel s s' ->
       match exec_branches law bs s with
       | Some _ => exists b pb k', first_match (fst (parse_branches bs k)) s' = Some pb /\
                                  pb = fst (parse_block b k') /\ wf_block b /\
                                  exec_branches law bs s = Some (exec_block law b s) /\
                                  sim_ok_block pb (exec_block law b)
       | None => first_match (fst (parse_branches bs k)) s' = None
       end).
  Proof.
    apply stmt_block_branches_ind.
    - (* SAssign *)
      intros x r [Hx [Hnt Hm]] k s s' f Hr Hf. cbn [parse_stmt fst pexec_block exec_stmt].
      rewrite !E_bind, pexec_gplain, (sim_sample_unit r s' (Hm s')), <- (sample_rel r s s' Hnt Hr).
      apply E_ext. intros v. rewrite !E_ret. symmetry. apply Hf. apply rel_upd. exact Hr.
    - (* SSimult *)
      intros l Hwf k s s' f Hr Hf. cbn [parse_stmt fst exec_stmt]. apply simult_sim; assumption.
    - (* SIf *)
      intros bs IHbs els IHels [Hwb Hwe] k s s' f Hr Hf. cbn [parse_stmt].
      destruct (parse_branches bs k) as [pbs k1] eqn:Hpb.
      destruct (parse_block els k1) as [pels k2] eqn:Hpe. cbn [fst].
      change (exec_stmt law (SIf bs els) s) with
        (match exec_branches law bs s with Some d => d | None => exec_block law els s end).
      rewrite pexec_single, pexec_if_first_match. unfold selected.
      specialize (IHbs Hwb k s s' Hr). rewrite Hpb in IHbs. cbn [fst] in IHbs.
      destruct (exec_branches law bs s) as [d|].
      + destruct IHbs as (b & pb & k' & Hfm & -> & Hwfb & Heq & Hok). rewrite Hfm.
        inversion Heq; subst.
        exact (Hok s s' f Hr Hf).
      + rewrite IHbs. specialize (IHels Hwe k1). rewrite Hpe in IHels. cbn [fst] in IHels.
        exact (IHels s s' f Hr Hf).
    - (* BNil *)
      intros _ k s s' f Hr Hf. cbn [parse_block fst pexec_block exec_block]. rewrite !E_ret. symmetry. apply Hf. exact Hr.
    - (* BCons *)
      intros st IHst b IHb [Hws Hwb] k s s' f Hr Hf. cbn [parse_block].
      destruct (parse_stmt st k) as [p1 k1] eqn:Hp1.
      destruct (parse_block b k1) as [p2 k2] eqn:Hp2. cbn [fst exec_block].
      specialize (IHst Hws k). rewrite Hp1 in IHst. cbn [fst] in IHst.
      specialize (IHb Hwb k1). rewrite Hp2 in IHb. cbn [fst] in IHb.
      rewrite pexec_block_app, E_bind.
      rewrite (IHst s s' _ Hr (sim_ok_respects p2 _ f IHb Hf)).
      apply E_ext. intros a. apply IHb; [apply rel_refl | exact Hf].
    - (* BrNil *)
      intros _ k s s' Hr. reflexivity.
    - (* BrCons *)
      intros c b IHb bs IHbs [Hc [Hwb Hwbs]] k s s' Hr. cbn [parse_branches exec_branches].
      destruct (parse_block b k) as [pb k1] eqn:Hpb.
      destruct (parse_branches bs k1) as [pbs k2] eqn:Hpbs. cbn [fst first_match].
      rewrite <- (holds_rel c s s' Hc Hr). destruct (holds c s).
      + exists b, pb, k. rewrite Hpb. repeat split; try assumption.
        specialize (IHb Hwb k). rewrite Hpb in IHb. exact IHb.
      + specialize (IHbs Hwbs k1 s s' Hr). rewrite Hpbs in IHbs. exact IHbs.
  Qed.

  (* ---- the loop ---- *)
  Lemma piter_sim p k s s' f : wf_prog p -> rel s s' -> respects f ->
    E (piter sim_sample (parse_prog p k) s') f = E (iter law p s) f.
  Proof.
    intros [Hi [Hg Hb]] Hr Hf. unfold piter, iter, parse_prog.
    destruct (parse_block (p_init p) k) as [pi k1].
    destruct (parse_block (p_body p) k1) as [pb k2] eqn:Hpb. cbn [pp_guard pp_body].
    rewrite <- (holds_rel _ s s' Hg Hr). destruct (holds (p_guard p) s).
    - pose proof (proj1 (proj2 parse_sim) _ Hb k1) as H. rewrite Hpb in H. exact (H s s' f Hr Hf).
    - rewrite !E_ret. symmetry. apply Hf. exact Hr.
  Qed.

  Lemma prun_sim p k n : forall s s' f, wf_prog p -> rel s s' -> respects f ->
    E (prun sim_sample (parse_prog p k) n s') f = E (run law p n s) f.
  Proof.
    induction n as [|n IH]; intros s s' f Hwf Hr Hf.
    - cbn [prun run]. unfold parse_prog.
      destruct (parse_block (p_init p) k) as [pi k1] eqn:Hpi.
      destruct (parse_block (p_body p) k1) as [pb k2]. cbn [pp_init].
      pose proof (proj1 (proj2 parse_sim) _ (proj1 Hwf) k) as H. rewrite Hpi in H. exact (H s s' f Hr Hf).
    - cbn [prun run]. rewrite !E_bind.
      assert (Hf' : respects (fun a => E (piter sim_sample (parse_prog p k) a) f)).
      { intros a a' Hra. rewrite (piter_sim p k a a f Hwf (rel_refl a) Hf), (piter_sim p k a a' f Hwf Hra Hf). reflexivity. }
      rewrite (IH s s' _ Hwf Hr Hf'). apply E_ext. intros a. apply piter_sim; [exact Hwf | apply rel_refl | exact Hf].
  Qed.

  (* ==== main theorem ==== *)
  Theorem simulator_transcription_is_S (p : prog) (k n : nat) (s0 : state) (f : state -> Qc) :
    wf_prog p -> respects f ->
    E (law_of (enum_run sim_sample (parse_prog p k) n s0)) f = E (run law p n s0) f.
  Proof.
    intros Hwf Hf. rewrite enum_run_law. apply prun_sim; [exact Hwf | apply rel_refl | exact Hf].
  Qed.

  (* frozen-state lemma of the reference semantics *)
  Lemma iter_frozen p s : holds (p_guard p) s = false -> iter law p s = ret s.
  Proof. unfold iter. intros ->. reflexivity. Qed.
End WithLaw.

(* observables: monomials over source variables *)
Fixpoint mono_notmp (m : mono) : Prop :=
  match m with [] => True | (x, _) :: m' => is_tmp x = false /\ mono_notmp m' end.
Lemma eval_mono_respects m : mono_notmp m -> respects (eval_mono m).
Proof.
  intros H s s' Hr. induction m as [|[x k] m IH]; [reflexivity|].
  destruct H as [Hx Hm]. cbn [eval_mono]. rewrite (Hr x Hx), (IH Hm). reflexivity.
Qed.

(* ---- the total-weight hypothesis is met by construction for the language's sugar ---- *)
Section UnitMass.
  Variable law : string -> list Qc -> dist Qc.

  Lemma bern_unit_mass p s : mass (sample law (RDraw (DBern p)) s) = 1.
  Proof. unfold mass. cbn [sample draw_law E]. ring. Qed.

  Lemma det_unit_mass e s : mass (sample law (RDet e) s) = 1.
  Proof. unfold mass, RDet. cbn [sample map fst snd eval E]. change (mkq 1 1) with 1. ring. Qed.

  (* x = e1 {p1} ... em {pm} e  : the parser appends the probability  1-p1-...-pm *)
  Definition implicit_last (ps : list expr) : expr := fold_left ESub ps (EConst 1).

  Lemma eval_fold_sub ps : forall acc s, eval (fold_left ESub ps acc) s = eval acc s - fold_right Qcplus 0 (map (fun p => eval p s) ps).
  Proof.
    induction ps as [|p ps IH]; intros acc s; cbn [fold_left map fold_right].
    - ring.
    - rewrite IH. unfold ESub, ENeg. cbn [eval]. change (mkq (-1) 1) with (- (1)). ring.
  Qed.

  Lemma mass_choice_app alts1 alts2 s :
    mass (sample law (RChoice (alts1 ++ alts2)) s) = mass (sample law (RChoice alts1) s) + mass (sample law (RChoice alts2) s).
  Proof. unfold mass. cbn [sample]. rewrite map_app, E_app. reflexivity. Qed.

  Lemma mass_choice_probs ps : forall es s, List.length es = List.length ps ->
    mass (sample law (RChoice (combine ps es)) s) = fold_right Qcplus 0 (map (fun p => eval p s) ps).
  Proof.
    induction ps as [|p ps IH]; intros es s Hl; [reflexivity|].
    destruct es as [|e es]; [discriminate|]. cbn [combine map fold_right].
    unfold mass in *. cbn [sample map fst snd E]. cbn [sample] in IH. rewrite IH by (cbn in Hl; lia). ring.
  Qed.

  Theorem implicit_last_unit_mass ps es e s : List.length es = List.length ps ->
    mass (sample law (RChoice (combine ps es ++ [(implicit_last ps, e)])) s) = 1.
  Proof.
    intros Hl. rewrite mass_choice_app, (mass_choice_probs ps es s Hl).
    unfold mass. cbn [sample map fst snd E]. unfold implicit_last. rewrite eval_fold_sub. cbn [eval]. ring.
  Qed.
End UnitMass.

Lemma cop_refl (x : Qc) : cop_holds Cge x x = true /\ cop_holds Cle x x = true.
Proof.
  unfold cop_holds, Qc_leb. assert (H : (x ?= x) = Eq) by (apply Qceq_alt; reflexivity). rewrite H. split; reflexivity.
Qed.
