(* C19 — token-level reference grammar of Polar's arithmetic expressions with Python
   operator precedence, and the round-trip theorem  parse (print e) = e  for EVERY spelling
   of an AST (any amount of redundant parentheses), in particular for the fully
   parenthesising printer and for the minimal-parentheses printer.

   Grammar (Python reference, "6.17 Operator precedence"):
       sum    ::= term  (("+" | "-") term)*              left associative
       term   ::= factor (("*" | "/") factor)*            left associative
       factor ::= "-" factor | power                      unary minus looser than "**"
       power  ::= atom ["**" factor]                      right associative
       atom   ::= NUM | ID | "(" sum ")"
   Polar hands the re-joined token string to the CAS parser (arithmetic_transformer.py);
   the correspondence check K ties this grammar to what that parser does.

   The parser is structurally recursive on fuel; every fuel decrement is paired with the
   consumption of a token, so fuel = length of the token list is always sufficient
   (this is part of the theorem; the out-of-fuel result [None] is excluded by it). *)
From Coq Require Import String List NArith Arith Bool Lia.
Import ListNotations.

Inductive scop := Oeq | Ole | Oge | Olt | Ogt | One.

Inductive tok :=
| TNum (m : N) (k : nat)        (* decimal literal with mantissa m and k fractional digits: m / 10^k *)
| TId (x : string)
| TPlus | TMinus | TStar | TSlash | TPow | TLp | TRp
| TTrue | TFalse | TNot | TAnd | TOr | TCop (c : scop).

(* surface syntax of arithmetic *)
Inductive sx :=
| XNum (m : N) (k : nat)
| XVar (x : string)
| XNeg (a : sx)
| XAdd (a b : sx) | XSub (a b : sx)
| XMul (a b : sx) | XDiv (a b : sx)
| XPow (a b : sx).

Definition res := option (sx * list tok).
Definition parser := list tok -> res.

Definition addop (t : tok) : option (sx -> sx -> sx) :=
  match t with TPlus => Some XAdd | TMinus => Some XSub | _ => None end.
Definition mulop (t : tok) : option (sx -> sx -> sx) :=
  match t with TStar => Some XMul | TSlash => Some XDiv | _ => None end.

(* ---- left-associative operator chains ------------------------------------------- *)
Section Loop.
  Variable opf : tok -> option (sx -> sx -> sx).
  Variable sub : nat -> parser.      (* operand parser (receives the remaining loop fuel) *)

  Fixpoint loop (n : nat) (acc : sx) (ts : list tok) {struct n} : res :=
    match ts with
    | [] => Some (acc, [])
    | t :: r =>
      match opf t with
      | None => Some (acc, ts)
      | Some op =>
        match n with
        | O => None
        | S n' => match sub n' r with
                  | Some (b, r') => loop n' (op acc b) r'
                  | None => None
                  end
        end
      end
    end.

  Definition chain (n : nat) (ts : list tok) : res :=
    match sub n ts with Some (a, r) => loop n a r | None => None end.
End Loop.

Definition term (fac : parser) : nat -> parser := chain mulop (fun _ => fac).
Definition sum (fac : parser) : nat -> parser := chain addop (term fac).

(* ---- one layer of factor / power / atom, open in the recursive calls -------------- *)
Definition atom_of (sm : parser) (ts : list tok) : res :=
  match ts with
  | TNum m k :: r => Some (XNum m k, r)
  | TId x :: r => Some (XVar x, r)
  | TLp :: r => match sm r with Some (a, TRp :: r') => Some (a, r') | _ => None end
  | _ => None
  end.

Definition power_of (sm fc : parser) (ts : list tok) : res :=
  match atom_of sm ts with
  | Some (a, TPow :: r) => match fc r with Some (b, r') => Some (XPow a b, r') | None => None end
  | x => x
  end.

Definition factor_of (sm fc : parser) (ts : list tok) : res :=
  match ts with
  | TMinus :: r => match fc r with Some (a, r') => Some (XNeg a, r') | None => None end
  | _ => power_of sm fc ts
  end.

Fixpoint factor (f : nat) : parser :=
  match f with
  | O => fun _ => None
  | S f' => let fc := factor f' in factor_of (sum fc f') fc
             (* [let]: under call-by-value evaluation (vm_compute) the parser with less fuel is
                built once per level, not twice *)
  end.

(* prefix parser and whole-list parser, fuel = number of tokens *)
Definition esum (ts : list tok) : res := sum (factor (length ts)) (length ts) ts.
Definition parse_expr (ts : list tok) : option sx :=
  match esum ts with Some (e, []) => Some e | _ => None end.

(* ---- monotonicity in fuel --------------------------------------------------------- *)
Definition ple (p q : parser) : Prop := forall ts x, p ts = Some x -> q ts = Some x.

Lemma ple_refl p : ple p p.
Proof. intros ts x H; exact H. Qed.
Lemma ple_trans p q r : ple p q -> ple q r -> ple p r.
Proof. intros H1 H2 ts x H; apply H2, H1, H. Qed.

Lemma loop_mono opf sub sub' :
  (forall n n', n <= n' -> ple (sub n) (sub' n')) ->
  forall n n', n <= n' -> forall acc, ple (loop opf sub n acc) (loop opf sub' n' acc).
Proof.
  intros Hs n. induction n as [|n IH]; intros n' Hle acc ts x H.
  - destruct ts as [|t r]; simpl in H.
    + destruct n'; simpl; exact H.
    + destruct n'; simpl; destruct (opf t); try exact H; discriminate H.
  - destruct n' as [|n']; [lia|].
    destruct ts as [|t r]; simpl in *; [exact H|].
    destruct (opf t) as [op|]; [|exact H].
    destruct (sub n r) as [[b r']|] eqn:E; [|discriminate H].
    rewrite (Hs n n' ltac:(lia) r _ E). apply IH; [lia | exact H].
Qed.

Lemma chain_mono opf sub sub' :
  (forall n n', n <= n' -> ple (sub n) (sub' n')) ->
  forall n n', n <= n' -> ple (chain opf sub n) (chain opf sub' n').
Proof.
  intros Hs n n' Hle ts x H. unfold chain in *.
  destruct (sub n ts) as [[a r]|] eqn:E; [|discriminate H].
  rewrite (Hs n n' Hle ts _ E). eapply loop_mono; eauto.
Qed.

Lemma term_mono fac fac' : ple fac fac' -> forall n n', n <= n' -> ple (term fac n) (term fac' n').
Proof. intros H n n' Hle. apply chain_mono; [intros; exact H | exact Hle]. Qed.

Lemma sum_mono fac fac' : ple fac fac' -> forall n n', n <= n' -> ple (sum fac n) (sum fac' n').
Proof. intros H n n' Hle. apply chain_mono; [intros; apply term_mono; assumption | exact Hle]. Qed.

Lemma atom_of_mono sm sm' : ple sm sm' -> ple (atom_of sm) (atom_of sm').
Proof.
  intros H ts x Hx. destruct ts as [|t r]; [discriminate Hx|].
  destruct t; simpl in *; try exact Hx; try discriminate Hx.
  destruct (sm r) as [[a r']|] eqn:E; [|discriminate Hx].
  rewrite (H r _ E). exact Hx.
Qed.

Lemma power_of_mono sm sm' fc fc' : ple sm sm' -> ple fc fc' -> ple (power_of sm fc) (power_of sm' fc').
Proof.
  intros Hs Hf ts x Hx. unfold power_of in *.
  destruct (atom_of sm ts) as [[a r]|] eqn:E; [|discriminate Hx].
  rewrite (atom_of_mono sm sm' Hs ts _ E).
  destruct r as [|t r']; [exact Hx|].
  destruct t; try exact Hx.
  destruct (fc r') as [[b r'']|] eqn:E2; [|discriminate Hx].
  rewrite (Hf r' _ E2). exact Hx.
Qed.

Lemma factor_of_mono sm sm' fc fc' : ple sm sm' -> ple fc fc' -> ple (factor_of sm fc) (factor_of sm' fc').
Proof.
  intros Hs Hf ts x Hx. pose proof (power_of_mono sm sm' fc fc' Hs Hf ts x) as Hp.
  destruct ts as [|t r]; [apply Hp; exact Hx|].
  destruct t; try (apply Hp; exact Hx).
  simpl in *. destruct (fc r) as [[a r']|] eqn:E; [|discriminate Hx].
  rewrite (Hf r _ E). exact Hx.
Qed.

Lemma factor_mono : forall f f', f <= f' -> ple (factor f) (factor f').
Proof.
  induction f as [|f IH]; intros f' Hle.
  - intros ts x H; discriminate H.
  - destruct f' as [|f']; [lia|]. simpl.
    apply factor_of_mono; [apply sum_mono; [|lia] |]; apply IH; lia.
Qed.

(* ---- spellings: the printing relation ------------------------------------------------
   [pr l e ts]: the token list ts is a spelling of e that may stand where the grammar
   expects level l (0 sum, 1 term, 2 factor, 3 power, 4 atom).  Parentheses may be added
   anywhere (constructor [pr_paren]); they are required exactly where a sub-term of lower
   level stands in a position of higher level. *)
Inductive pr : nat -> sx -> list tok -> Prop :=
| pr_num l m k : pr l (XNum m k) [TNum m k]
| pr_var l x : pr l (XVar x) [TId x]
| pr_paren l e ts : pr 0 e ts -> pr l e (TLp :: ts ++ [TRp])
| pr_addop l t op a b ta tb : l <= 0 -> addop t = Some op ->
    pr 0 a ta -> pr 1 b tb -> pr l (op a b) (ta ++ t :: tb)
| pr_mulop l t op a b ta tb : l <= 1 -> mulop t = Some op ->
    pr 1 a ta -> pr 2 b tb -> pr l (op a b) (ta ++ t :: tb)
| pr_neg l a ta : l <= 2 -> pr 2 a ta -> pr l (XNeg a) (TMinus :: ta)
| pr_pow l a b ta tb : l <= 3 -> pr 4 a ta -> pr 2 b tb -> pr l (XPow a b) (ta ++ TPow :: tb).

Lemma pr_weaken l e ts : pr l e ts -> forall l', l' <= l -> pr l' e ts.
Proof.
  induction 1; intros l' Hl.
  - constructor.
  - constructor.
  - constructor; assumption.
  - eapply pr_addop; eauto; lia.
  - eapply pr_mulop; eauto; lia.
  - apply pr_neg; [lia | assumption].
  - apply pr_pow; [lia | assumption | assumption].
Qed.

(* ---- what may follow a complete sub-expression -------------------------------------- *)
Definition hd_ok (P : tok -> bool) (ts : list tok) : Prop :=
  match ts with [] => True | t :: _ => P t = false end.
Definition is_pow (t : tok) : bool := match t with TPow => true | _ => false end.
Definition is_mul (t : tok) : bool := match mulop t with Some _ => true | None => false end.
Definition is_add (t : tok) : bool := match addop t with Some _ => true | None => false end.
Definition is_pm (t : tok) : bool := is_pow t || is_mul t.
Definition is_arith (t : tok) : bool := is_pow t || is_mul t || is_add t.

Lemma hd_ok_weak (P Q : tok -> bool) ts : (forall t, Q t = true -> P t = true) -> hd_ok P ts -> hd_ok Q ts.
Proof.
  intros H. destruct ts as [|t r]; simpl; [trivial|]. intros HP.
  destruct (Q t) eqn:E; [|reflexivity]. rewrite (H t E) in HP. discriminate HP.
Qed.

Lemma loop_stop opf sub n acc ts :
  hd_ok (fun t => match opf t with Some _ => true | None => false end) ts ->
  loop opf sub n acc ts = Some (acc, ts).
Proof.
  destruct ts as [|t r]; simpl; intros H.
  - destruct n; reflexivity.
  - destruct n; simpl; destruct (opf t); try reflexivity; discriminate H.
Qed.

Lemma loop_step opf sub m acc t r op b r' k :
  opf t = Some op -> sub m r = Some (b, r') -> loop opf sub m (op acc b) r' = Some k ->
  loop opf sub (S m) acc (t :: r) = Some k.
Proof. intros H1 H2 H3. simpl. rewrite H1, H2. exact H3. Qed.

(* ---- the four layers of the completeness invariant ---------------------------------- *)
Definition Ac (e : sx) (ts : list tok) : Prop :=
  (forall f rest, length ts <= S f -> atom_of (sum (factor f) f) (ts ++ rest) = Some (e, rest)) /\
  (forall sm fc rest, factor_of sm fc (ts ++ rest) = power_of sm fc (ts ++ rest)).

Definition Fc (e : sx) (ts : list tok) : Prop :=
  forall f rest, hd_ok is_pow rest -> length ts <= f -> factor f (ts ++ rest) = Some (e, rest).

Definition Tc (e : sx) (ts : list tok) : Prop :=
  forall fac n n' rest k, ple (factor (length ts)) fac -> hd_ok is_pow rest ->
    loop mulop (fun _ => fac) n' e rest = Some k -> n' + length ts <= n ->
    term fac n (ts ++ rest) = Some k.

Definition Sc (e : sx) (ts : list tok) : Prop :=
  forall fac n n' rest k, ple (factor (length ts)) fac -> hd_ok is_pm rest ->
    loop addop (term fac) n' e rest = Some k -> n' + length ts <= n ->
    sum fac n (ts ++ rest) = Some k.

Definition P (l : nat) (e : sx) (ts : list tok) : Prop :=
  (4 <= l -> Ac e ts) /\ (2 <= l -> Fc e ts) /\ (1 <= l -> Tc e ts) /\ Sc e ts.

Lemma Ac_Fc e ts : Ac e ts -> Fc e ts.
Proof.
  intros [HA HB] f rest Hr Hlen.
  destruct f as [|f].
  - destruct ts; [|simpl in Hlen; lia].
    specialize (HA 0 [] ltac:(simpl; lia)). simpl in HA. discriminate HA.
  - simpl. rewrite HB. unfold power_of. rewrite (HA f rest ltac:(lia)).
    destruct rest as [|t r]; [reflexivity|].
    destruct t; simpl in Hr; try reflexivity; discriminate Hr.
Qed.

Lemma Fc_Tc e ts : Fc e ts -> Tc e ts.
Proof.
  intros HF fac n n' rest k Hfac Hr Hloop Hn.
  unfold term, chain.
  rewrite (Hfac _ _ (HF (length ts) rest Hr (le_n _))).
  eapply loop_mono; [| |exact Hloop]; [intros; apply ple_refl | lia].
Qed.

Lemma Tc_Sc e ts : Tc e ts -> Sc e ts.
Proof.
  intros HT fac n n' rest k Hfac Hr Hloop Hn.
  unfold sum, chain. fold (term fac).
  rewrite (HT fac n 0 rest (e, rest) Hfac).
  - eapply loop_mono; [| |exact Hloop]; [|lia].
    intros a b Hab. apply term_mono; [apply ple_refl | exact Hab].
  - eapply hd_ok_weak; [|exact Hr]. intros t Ht. unfold is_pm. rewrite Ht. reflexivity.
  - apply loop_stop. eapply hd_ok_weak; [|exact Hr].
    intros t Ht. unfold is_pm, is_mul. rewrite Ht. apply orb_true_r.
  - lia.
Qed.

Lemma P_of_Ac l e ts : Ac e ts -> P l e ts.
Proof.
  intros HA. pose proof (Ac_Fc _ _ HA) as HF. pose proof (Fc_Tc _ _ HF) as HT.
  pose proof (Tc_Sc _ _ HT) as HS. unfold P. split; [|split; [|split]]; intros; assumption.
Qed.

Lemma P_of_Fc l e ts : l <= 3 -> Fc e ts -> P l e ts.
Proof.
  intros Hl HF. pose proof (Fc_Tc _ _ HF) as HT. pose proof (Tc_Sc _ _ HT) as HS.
  unfold P. split; [|split; [|split]]; intros; try assumption; lia.
Qed.

Lemma mulop_not_pow t op : mulop t = Some op -> is_pow t = false.
Proof. destruct t; simpl; intros H; try reflexivity; discriminate H. Qed.
Lemma addop_not_pm t op : addop t = Some op -> is_pm t = false.
Proof. destruct t; simpl; intros H; try reflexivity; discriminate H. Qed.

Theorem pr_P : forall l e ts, pr l e ts -> P l e ts.
Proof.
  induction 1 as [l m k | l x | l e ts Hpr IH | l t op a b ta tb Hl Hop Ha IHa Hb IHb
                  | l t op a b ta tb Hl Hop Ha IHa Hb IHb | l a ta Hl Ha IHa | l a b ta tb Hl Ha IHa Hb IHb].
  - (* number *) apply P_of_Ac. split; intros; reflexivity.
  - (* variable *) apply P_of_Ac. split; intros; reflexivity.
  - (* parentheses *)
    apply P_of_Ac. split; [|intros; reflexivity].
    intros f rest Hlen. destruct IH as (_ & _ & _ & HS).
    simpl. rewrite <- app_assoc. simpl.
    simpl in Hlen. rewrite app_length in Hlen. simpl in Hlen.
    rewrite (HS (factor f) f 0 (TRp :: rest) (e, TRp :: rest)); try reflexivity.
    + apply factor_mono; lia.
    + lia.
  - (* + and - *)
    assert (l = 0) by lia; subst l.
    destruct IHa as (_ & _ & _ & HSa). destruct IHb as (_ & _ & HTb & _).
    specialize (HTb (le_n _)).
    repeat split; try (intros; lia).
    intros fac n n' rest k Hfac Hr Hloop Hn.
    rewrite app_length in Hn, Hfac. simpl in Hn, Hfac.
    rewrite <- app_assoc. simpl.
    apply (HSa fac n (S (n' + length tb))).
    + eapply ple_trans; [apply factor_mono | exact Hfac]. lia.
    + simpl. eapply addop_not_pm; exact Hop.
    + eapply loop_step; [exact Hop | |].
      * apply (HTb fac (n' + length tb) 0 rest (b, rest)).
        -- eapply ple_trans; [apply factor_mono | exact Hfac]. lia.
        -- eapply hd_ok_weak; [|exact Hr]. intros t0 Ht0. unfold is_pm. rewrite Ht0. reflexivity.
        -- apply loop_stop. eapply hd_ok_weak; [|exact Hr].
           intros t0 Ht0. unfold is_pm, is_mul. rewrite Ht0. apply orb_true_r.
        -- lia.
      * eapply loop_mono; [| |exact Hloop]; [|lia].
        intros x y Hxy. apply term_mono; [apply ple_refl | exact Hxy].
    + lia.
  - (* * and / *)
    destruct IHa as (_ & _ & HTa & _). destruct IHb as (_ & HFb & _ & _).
    specialize (HTa (le_n _)). specialize (HFb (le_n _)).
    assert (HT : Tc (op a b) (ta ++ t :: tb)).
    { intros fac n n' rest k Hfac Hr Hloop Hn.
      rewrite app_length in Hn, Hfac. simpl in Hn, Hfac.
      rewrite <- app_assoc. simpl.
      apply (HTa fac n (S n')).
      - eapply ple_trans; [apply factor_mono | exact Hfac]. lia.
      - simpl. eapply mulop_not_pow; exact Hop.
      - eapply loop_step; [exact Hop | | exact Hloop].
        apply Hfac. apply factor_mono with (f := length tb); [lia|].
        apply HFb; [exact Hr | lia].
      - lia. }
    pose proof (Tc_Sc _ _ HT) as HS.
    repeat split; intros; try assumption; lia.
  - (* unary minus *)
    destruct IHa as (_ & HFa & _ & _). specialize (HFa (le_n _)).
    apply P_of_Fc; [lia|].
    intros f rest Hr Hlen. simpl in Hlen. destruct f as [|f]; [lia|].
    simpl. rewrite (HFa f rest Hr ltac:(lia)). reflexivity.
  - (* power *)
    destruct IHa as (HAa & _ & _ & _). specialize (HAa (le_n _)). destruct HAa as [HA1 HA2].
    destruct IHb as (_ & HFb & _ & _). specialize (HFb (le_n _)).
    apply P_of_Fc; [lia|].
    intros f rest Hr Hlen. rewrite app_length in Hlen. simpl in Hlen.
    destruct f as [|f]; [lia|].
    simpl. rewrite <- app_assoc. simpl. rewrite HA2. unfold power_of.
    rewrite (HA1 f (TPow :: tb ++ rest) ltac:(lia)).
    rewrite (HFb f rest Hr ltac:(lia)). reflexivity.
Qed.

(* every spelling of e parses to e, with fuel = number of tokens *)
Theorem parse_spelling : forall e ts, pr 0 e ts -> parse_expr ts = Some e.
Proof.
  intros e ts H. destruct (pr_P _ _ _ H) as (_ & _ & _ & HS).
  unfold parse_expr, esum.
  specialize (HS (factor (length ts)) (length ts) 0 [] (e, [])).
  rewrite app_nil_r in HS. rewrite HS; [reflexivity | apply ple_refl | exact I | reflexivity | lia].
Qed.

(* prefix form: a spelling followed by anything that cannot continue an arithmetic
   expression is consumed exactly *)
Theorem esum_spelling : forall e ts rest, pr 0 e ts -> hd_ok is_arith rest ->
  esum (ts ++ rest) = Some (e, rest).
Proof.
  intros e ts rest H Hr. destruct (pr_P _ _ _ H) as (_ & _ & _ & HS).
  unfold esum. apply (HS _ _ 0).
  - apply factor_mono. rewrite app_length. lia.
  - eapply hd_ok_weak; [|exact Hr]. intros t Ht. unfold is_arith. unfold is_pm in Ht. rewrite Ht. reflexivity.
  - apply loop_stop. eapply hd_ok_weak; [|exact Hr].
    intros t Ht. unfold is_arith, is_add. rewrite Ht. apply orb_true_r.
  - rewrite app_length. lia.
Qed.

(* more fuel never changes an answer *)
Lemma sum_factor_mono f n f' n' : f <= f' -> n <= n' -> ple (sum (factor f) n) (sum (factor f') n').
Proof. intros Hf Hn. apply sum_mono; [apply factor_mono; exact Hf | exact Hn]. Qed.

(* partial correctness of the prefix parser on spellings, for ANY fuel *)
Lemma sum_spelling_any_fuel e ts rest f n x :
  pr 0 e ts -> hd_ok is_arith rest -> sum (factor f) n (ts ++ rest) = Some x -> x = (e, rest).
Proof.
  intros H Hr Hx.
  pose proof (esum_spelling e ts rest H Hr) as He. unfold esum in He.
  set (L := length (ts ++ rest)) in *.
  pose proof (sum_factor_mono f n (max f L) (max n L) ltac:(lia) ltac:(lia) _ _ Hx) as H1.
  pose proof (sum_factor_mono L L (max f L) (max n L) ltac:(lia) ltac:(lia) _ _ He) as H2.
  rewrite H1 in H2. inversion H2. reflexivity.
Qed.

(* ---- the two printers ---------------------------------------------------------------- *)
Definition paren (ts : list tok) : list tok := TLp :: ts ++ [TRp].

(* fully parenthesising: every compound sub-expression is wrapped *)
Fixpoint print_full (e : sx) : list tok :=
  match e with
  | XNum m k => [TNum m k]
  | XVar x => [TId x]
  | XNeg a => paren (TMinus :: print_full a)
  | XAdd a b => paren (print_full a ++ TPlus :: print_full b)
  | XSub a b => paren (print_full a ++ TMinus :: print_full b)
  | XMul a b => paren (print_full a ++ TStar :: print_full b)
  | XDiv a b => paren (print_full a ++ TSlash :: print_full b)
  | XPow a b => paren (print_full a ++ TPow :: print_full b)
  end.

Lemma print_full_pr : forall e l, pr l e (print_full e).
Proof.
  induction e; intros l; simpl; try (apply pr_paren).
  - constructor.
  - constructor.
  - apply pr_neg; [lia | apply IHe].
  - apply (pr_addop 0 TPlus XAdd); auto.
  - apply (pr_addop 0 TMinus XSub); auto.
  - apply (pr_mulop 0 TStar XMul); auto; lia.
  - apply (pr_mulop 0 TSlash XDiv); auto; lia.
  - apply pr_pow; auto; lia.
Qed.

(* minimal parentheses *)
Definition level (e : sx) : nat :=
  match e with
  | XAdd _ _ | XSub _ _ => 0
  | XMul _ _ | XDiv _ _ => 1
  | XNeg _ => 2
  | XPow _ _ => 3
  | XNum _ _ | XVar _ => 4
  end.

Definition par (l : nat) (a : sx) (ts : list tok) : list tok :=
  if level a <? l then paren ts else ts.

Fixpoint print_min (e : sx) : list tok :=
  match e with
  | XNum m k => [TNum m k]
  | XVar x => [TId x]
  | XNeg a => TMinus :: par 2 a (print_min a)
  | XAdd a b => par 0 a (print_min a) ++ TPlus :: par 1 b (print_min b)
  | XSub a b => par 0 a (print_min a) ++ TMinus :: par 1 b (print_min b)
  | XMul a b => par 1 a (print_min a) ++ TStar :: par 2 b (print_min b)
  | XDiv a b => par 1 a (print_min a) ++ TSlash :: par 2 b (print_min b)
  | XPow a b => par 4 a (print_min a) ++ TPow :: par 2 b (print_min b)
  end.

Lemma par_pr l a ts : pr (level a) a ts -> pr l a (par l a ts).
Proof.
  intros H. unfold par. destruct (level a <? l) eqn:E.
  - apply pr_paren. eapply pr_weaken; [exact H | lia].
  - apply Nat.ltb_ge in E. eapply pr_weaken; [exact H | exact E].
Qed.

Lemma print_min_pr : forall e, pr (level e) e (print_min e).
Proof.
  induction e; simpl.
  - constructor.
  - constructor.
  - apply pr_neg; [lia | apply par_pr; assumption].
  - apply (pr_addop 0 TPlus XAdd); auto; apply par_pr; assumption.
  - apply (pr_addop 0 TMinus XSub); auto; apply par_pr; assumption.
  - apply (pr_mulop 1 TStar XMul); auto; apply par_pr; assumption.
  - apply (pr_mulop 1 TSlash XDiv); auto; apply par_pr; assumption.
  - apply pr_pow; auto; apply par_pr; assumption.
Qed.

Theorem parse_print_full : forall e, parse_expr (print_full e) = Some e.
Proof. intros e. apply parse_spelling, print_full_pr. Qed.

Theorem parse_print_min : forall e, parse_expr (print_min e) = Some e.
Proof. intros e. apply parse_spelling. eapply pr_weaken; [apply print_min_pr | lia]. Qed.

(* redundant parentheses never change the parse: two spellings of one AST agree, and
   wrapping any spelling in parentheses is again a spelling *)
Theorem redundant_parens : forall e ts ts', pr 0 e ts -> pr 0 e ts' -> parse_expr ts = parse_expr ts'.
Proof. intros e ts ts' H H'. rewrite (parse_spelling _ _ H), (parse_spelling _ _ H'). reflexivity. Qed.

Theorem paren_spelling : forall e ts, pr 0 e ts -> parse_expr (paren ts) = Some e.
Proof. intros e ts H. apply parse_spelling. apply pr_paren. exact H. Qed.

(* the parser is a function, so distinct ASTs never share a spelling *)
Theorem spelling_injective : forall e e' ts, pr 0 e ts -> pr 0 e' ts -> e = e'.
Proof.
  intros e e' ts H H'. pose proof (parse_spelling _ _ H) as A. rewrite (parse_spelling _ _ H') in A.
  inversion A. reflexivity.
Qed.
