(* C15 — the queue-based topological sort of the code generator (BayesNet.topo_sort):
   soundness (a permutation of all variables with parents first), and the assert
   `len(out) == len(vars)` fails exactly on cyclic parent structures. *)
From Coq Require Import Arith Bool Lia List Permutation.
From Polar Require Import Qcx BayesNet BayesNetSem BayesNetSpec.
Import ListNotations.
Open Scope nat_scope.

(* ------------------------------------------------------------------ list helpers *)
Lemma mem_nat_In x l : mem_nat x l = true <-> In x l.
Proof.
  induction l as [|y r IH]; cbn [mem_nat In].
  - split; [discriminate | tauto].
  - rewrite orb_true_iff, Nat.eqb_eq, IH.
    split; intros [H|H]; [left; symmetry; exact H | right; exact H
                         | left; symmetry; exact H | right; exact H].
Qed.

Lemma mem_nat_false x l : mem_nat x l = false <-> ~ In x l.
Proof. rewrite <- mem_nat_In. symmetry. apply not_true_iff_false. Qed.

Lemma mem_nat_app x l1 l2 : mem_nat x (l1 ++ l2) = mem_nat x l1 || mem_nat x l2.
Proof.
  induction l1 as [|y r IH]; cbn [mem_nat app]; [reflexivity|].
  rewrite IH, orb_assoc. reflexivity.
Qed.

Lemma NoDup_app_intro (l1 l2 : list nat) :
  NoDup l1 -> NoDup l2 -> (forall x, In x l1 -> ~ In x l2) -> NoDup (l1 ++ l2).
Proof.
  intros H1 H2 H. induction H1 as [|a r Ha Hr IH]; cbn [app]; [exact H2|].
  constructor.
  - rewrite in_app_iff. intros [Hin|Hin]; [exact (Ha Hin)|].
    apply (H a); [now left | exact Hin].
  - apply IH. intros x Hx. apply H. now right.
Qed.

(* number of elements of l that are not in out *)
Definition notin (out : list nat) (p : nat) : bool := negb (mem_nat p out).
Definition cntl (out l : list nat) : nat := length (filter (notin out) l).

Lemma cntl_cons out a r :
  cntl out (a :: r) = if notin out a then S (cntl out r) else cntl out r.
Proof. unfold cntl. cbn [filter]. destruct (notin out a); reflexivity. Qed.

Lemma cntl_zero out l : cntl out l = 0 <-> (forall p, In p l -> In p out).
Proof.
  induction l as [|a r IH].
  - split; [intros _ p [] | reflexivity].
  - rewrite cntl_cons. destruct (notin out a) eqn:E; unfold notin in E.
    + split; [discriminate|]. intros H. exfalso.
      apply negb_true_iff in E. apply mem_nat_false in E. apply E, H. now left.
    + rewrite IH. apply negb_false_iff in E. apply mem_nat_In in E.
      split.
      * intros H p [Hp|Hp]; [subst p; exact E | apply H, Hp].
      * intros H p Hp. apply H. now right.
Qed.

Lemma cntl_nil l : cntl [] l = length l.
Proof.
  induction l as [|a r IH]; [reflexivity|].
  rewrite cntl_cons. unfold notin. cbn [mem_nat negb length]. now rewrite IH.
Qed.

Lemma notin_snoc_same out s : notin (out ++ [s]) s = false.
Proof.
  unfold notin. rewrite mem_nat_app. cbn [mem_nat]. rewrite Nat.eqb_refl.
  rewrite orb_true_r. reflexivity.
Qed.

Lemma notin_snoc_other out s a : a <> s -> notin (out ++ [s]) a = notin out a.
Proof.
  intros Hne. unfold notin. rewrite mem_nat_app. cbn [mem_nat].
  apply Nat.eqb_neq in Hne. rewrite Hne. cbn [orb]. rewrite orb_false_r. reflexivity.
Qed.

Lemma cntl_step_add out s l : ~ In s out -> NoDup l ->
  cntl out l = cntl (out ++ [s]) l + (if mem_nat s l then 1 else 0).
Proof.
  intros Hs Hnd. induction Hnd as [|a r Ha Hr IH]; [reflexivity|].
  rewrite !cntl_cons. cbn [mem_nat].
  destruct (Nat.eq_dec s a) as [E|E].
  - subst a. rewrite Nat.eqb_refl. cbn [orb].
    rewrite notin_snoc_same.
    assert (Hn : notin out s = true).
    { unfold notin. apply negb_true_iff. apply mem_nat_false. exact Hs. }
    rewrite Hn.
    apply mem_nat_false in Ha. rewrite Ha in IH. lia.
  - rewrite notin_snoc_other by (intros E'; apply E; symmetry; exact E').
    apply Nat.eqb_neq in E. rewrite E. cbn [orb].
    destruct (notin out a); lia.
Qed.

Lemma cntl_step out s l : ~ In s out -> NoDup l ->
  cntl (out ++ [s]) l = if mem_nat s l then pred (cntl out l) else cntl out l.
Proof.
  intros Hs Hnd. pose proof (cntl_step_add out s l Hs Hnd) as H.
  destruct (mem_nat s l); lia.
Qed.

Lemma parents_first_snoc pars out s :
  parents_first pars out -> (forall p, In p (nth s pars []) -> In p out) ->
  parents_first pars (out ++ [s]).
Proof.
  intros Hpf Hs l1 x l2 E p Hp.
  destruct l2 as [|y l2].
  - apply app_inj_tail in E. destruct E as [E1 E2]. subst l1 x. apply Hs, Hp.
  - destruct (@exists_last _ (y :: l2)) as [l2' [z E2]]; [discriminate|].
    rewrite E2 in E.
    change (l1 ++ x :: l2' ++ [z]) with (l1 ++ (x :: l2') ++ [z]) in E.
    rewrite app_assoc in E. apply app_inj_tail in E. destruct E as [E _].
    exact (Hpf l1 x l2' E p Hp).
Qed.

(* position of the first occurrence *)
Fixpoint idx (x : nat) (l : list nat) : nat :=
  match l with [] => 0 | y :: r => if Nat.eqb x y then 0 else S (idx x r) end.

Lemma idx_lt x l : In x l -> idx x l < length l.
Proof.
  induction l as [|y r IH]; cbn [In idx length]; [tauto|].
  intros H. destruct (Nat.eqb x y) eqn:E; [lia|].
  apply Nat.eqb_neq in E. destruct H as [H|H]; [congruence|].
  specialize (IH H). lia.
Qed.

Lemma idx_app_l x l1 l2 : In x l1 -> idx x (l1 ++ l2) = idx x l1.
Proof.
  induction l1 as [|y r IH]; cbn [In idx app]; [tauto|].
  intros H. destruct (Nat.eqb x y) eqn:E; [reflexivity|].
  apply Nat.eqb_neq in E. destruct H as [H|H]; [congruence|].
  now rewrite IH.
Qed.

Lemma idx_app_r x l1 l2 : ~ In x l1 -> idx x (l1 ++ x :: l2) = length l1.
Proof.
  induction l1 as [|y r IH]; cbn [In idx app length]; intros H.
  - now rewrite Nat.eqb_refl.
  - destruct (Nat.eqb x y) eqn:E.
    + apply Nat.eqb_eq in E. exfalso. apply H. left. symmetry. exact E.
    + rewrite IH; [reflexivity|]. intros Hin. apply H. now right.
Qed.

(* ------------------------------------------------------------------ the loop invariant *)
Section Topo.
Variable pars : list (list nat).
Hypothesis wf : wf_pars pars.

Definition cnt (out : list nat) (i : nat) : nat := cntl out (nth i pars []).

Lemma wf_nth i : i < length pars ->
  NoDup (nth i pars []) /\ forall p, In p (nth i pars []) -> p < length pars.
Proof. intros H. apply (wf i). apply nth_error_nth'. exact H. Qed.

Record Inv (num queue out : list nat) : Prop := mkInv {
  inv_len : length num = length pars;
  inv_nd : NoDup (out ++ queue);
  inv_lt : forall x, In x (out ++ queue) -> x < length pars;
  inv_num : forall i, i < length pars -> nth i num 1 = cnt out i;
  inv_zero : forall i, i < length pars -> (In i (out ++ queue) <-> cnt out i = 0);
  inv_pf : parents_first pars out }.

Lemma inv_length num queue out : Inv num queue out -> length (out ++ queue) <= length pars.
Proof.
  intros [_ Hnd Hlt _ _ _].
  rewrite <- (seq_length (length pars) 0).
  apply NoDup_incl_length; [exact Hnd|].
  intros x Hx. apply in_seq. specialize (Hlt x Hx). lia.
Qed.

Lemma nth_topo_dec s num i :
  length num = length pars -> i < length pars ->
  nth i (topo_dec pars s num) 1
  = if mem_nat s (nth i pars []) then pred (nth i num 1) else nth i num 1.
Proof.
  intros Hl Hi. unfold topo_dec.
  set (f := fun pc : list nat * nat => if mem_nat s (fst pc) then pred (snd pc) else snd pc).
  rewrite (nth_indep _ 1 (f ([], 1))).
  - rewrite map_nth. rewrite combine_nth by (symmetry; exact Hl).
    unfold f. cbn [fst snd]. reflexivity.
  - rewrite map_length, combine_length. lia.
Qed.

Lemma inv_step num s q out : Inv num (s :: q) out ->
  Inv (topo_dec pars s num) (q ++ topo_new pars s (topo_dec pars s num)) (out ++ [s]).
Proof.
  intros [Hlen Hnd Hlt Hnum Hzero Hpf].
  set (num' := topo_dec pars s num).
  set (new := topo_new pars s num').
  assert (Hs_out : ~ In s out).
  { apply NoDup_remove_2 in Hnd. intros H. apply Hnd. apply in_app_iff. now left. }
  assert (Hs_lt : s < length pars).
  { apply Hlt. apply in_app_iff. right. now left. }
  assert (Hcnt : forall i, i < length pars ->
             cnt (out ++ [s]) i
             = if mem_nat s (nth i pars []) then pred (cnt out i) else cnt out i).
  { intros i Hi. unfold cnt. apply cntl_step; [exact Hs_out | apply (wf_nth i Hi)]. }
  assert (Hlen' : length num' = length pars).
  { unfold num', topo_dec. rewrite map_length, combine_length. lia. }
  assert (Hnum' : forall i, i < length pars -> nth i num' 1 = cnt (out ++ [s]) i).
  { intros i Hi. unfold num'. rewrite nth_topo_dec by assumption.
    rewrite Hcnt by exact Hi. rewrite Hnum by exact Hi. reflexivity. }
  assert (Hnew : forall i, In i new <->
             i < length pars /\ In s (nth i pars []) /\ cnt (out ++ [s]) i = 0).
  { intros i. unfold new, topo_new. rewrite filter_In, in_seq, andb_true_iff.
    rewrite mem_nat_In, Nat.eqb_eq. split.
    - intros [Hi [Hm Hz]]. assert (Hi' : i < length pars) by lia.
      rewrite Hnum' in Hz by exact Hi'. auto.
    - intros [Hi [Hm Hz]]. rewrite Hnum' by exact Hi. split; [lia | auto]. }
  assert (Hpos : forall i, In s (nth i pars []) -> cnt out i <> 0).
  { intros i Hm Hz. unfold cnt in Hz. apply Hs_out. exact (proj1 (cntl_zero _ _) Hz s Hm). }
  assert (E : (out ++ [s]) ++ q ++ new = (out ++ s :: q) ++ new).
  { rewrite <- !app_assoc. reflexivity. }
  assert (Hs_zero : cnt out s = 0).
  { apply (Hzero s Hs_lt). apply in_app_iff. right. now left. }
  constructor.
  - exact Hlen'.
  - rewrite E. apply NoDup_app_intro.
    + exact Hnd.
    + unfold new, topo_new. apply NoDup_filter, seq_NoDup.
    + intros x Hx Hxn. apply Hnew in Hxn. destruct Hxn as [Hi [Hm _]].
      apply (Hpos x Hm). apply (Hzero x Hi). exact Hx.
  - intros x. rewrite E, in_app_iff. intros [Hx|Hx]; [apply Hlt, Hx|].
    apply Hnew in Hx. tauto.
  - exact Hnum'.
  - intros i Hi. rewrite E, in_app_iff. split.
    + intros [Hx|Hx].
      * apply (Hzero i Hi) in Hx. rewrite Hcnt by exact Hi. rewrite Hx.
        destruct (mem_nat s (nth i pars [])); reflexivity.
      * apply Hnew in Hx. tauto.
    + intros Hz. destruct (mem_nat s (nth i pars [])) eqn:Em.
      * right. apply Hnew. apply mem_nat_In in Em. auto.
      * left. apply (Hzero i Hi). rewrite Hcnt in Hz by exact Hi. rewrite Em in Hz. exact Hz.
  - apply parents_first_snoc; [exact Hpf|].
    apply cntl_zero. exact Hs_zero.
Qed.

Lemma loop_inv fuel : forall num queue out,
  Inv num queue out -> length pars <= fuel + length out ->
  exists num', Inv num' [] (topo_loop fuel pars num queue out).
Proof.
  induction fuel as [|f IH]; intros num queue out HI Hf; cbn [topo_loop].
  - assert (Hq : queue = []).
    { pose proof (inv_length _ _ _ HI) as Hl. rewrite app_length in Hl.
      destruct queue as [|s q]; [reflexivity|]. cbn [length] in Hl. lia. }
    subst queue. exists num. exact HI.
  - destruct queue as [|s q]; [exists num; exact HI|].
    apply IH; [apply inv_step; exact HI|].
    rewrite app_length. cbn [length]. lia.
Qed.

Lemma nth_map_length i : i < length pars ->
  nth i (map (@length nat) pars) 1 = length (nth i pars []).
Proof.
  intros Hi. rewrite (nth_indep _ 1 (length (@nil nat))) by (rewrite map_length; exact Hi).
  apply (map_nth (@length nat)).
Qed.

Lemma inv_init :
  Inv (map (@length nat) pars)
      (filter (fun i => Nat.eqb (nth i (map (@length nat) pars) 1) 0) (seq 0 (length pars)))
      [].
Proof.
  constructor; cbn [app].
  - apply map_length.
  - apply NoDup_filter, seq_NoDup.
  - intros x Hx. apply filter_In in Hx. destruct Hx as [Hx _]. apply in_seq in Hx. lia.
  - intros i Hi. unfold cnt. rewrite cntl_nil. apply nth_map_length, Hi.
  - intros i Hi. rewrite filter_In, in_seq, Nat.eqb_eq. unfold cnt. rewrite cntl_nil.
    rewrite nth_map_length by exact Hi. split; [tauto | intros H; split; [lia | exact H]].
  - intros l1 x l2 E. exfalso. exact (app_cons_not_nil _ _ _ E).
Qed.

Lemma topo_final :
  exists num', Inv num' []
    (topo_loop (length pars) pars (map (@length nat) pars)
       (filter (fun i => Nat.eqb (nth i (map (@length nat) pars) 1) 0) (seq 0 (length pars)))
       []).
Proof. apply loop_inv; [exact inv_init | cbn [length]; lia]. Qed.

End Topo.

(* ------------------------------------------------------------------ the theorems *)
Theorem topo_sort_sound : forall pars ord,
  wf_pars pars -> topo_sort pars = Some ord ->
  Permutation ord (seq 0 (length pars)) /\ parents_first pars ord.
Proof.
  intros pars ord wf H. unfold topo_sort in H. cbv zeta in H.
  destruct (topo_final pars wf) as [num' HI].
  set (res := topo_loop _ _ _ _ _) in *.
  destruct (Nat.eqb (length res) (length pars)) eqn:E; [|discriminate].
  injection H as H. subst ord. apply Nat.eqb_eq in E.
  destruct HI as [_ Hnd Hlt _ _ Hpf]. rewrite app_nil_r in Hnd, Hlt.
  split; [|exact Hpf].
  apply NoDup_Permutation_bis; [exact Hnd | rewrite seq_length; lia |].
  intros x Hx. apply in_seq. specialize (Hlt x Hx). lia.
Qed.

Theorem topo_sort_acyclic : forall pars ord,
  wf_pars pars -> topo_sort pars = Some ord -> acyclic pars.
Proof.
  intros pars ord wf H. destruct (topo_sort_sound pars ord wf H) as [Hperm Hpf].
  exists (fun x => idx x ord). intros x p Hx Hp.
  assert (Hin : In x ord).
  { apply (Permutation_in x (Permutation_sym Hperm)). apply in_seq. lia. }
  assert (Hnd : NoDup ord).
  { apply (Permutation_NoDup (Permutation_sym Hperm)). apply seq_NoDup. }
  apply in_split in Hin. destruct Hin as [l1 [l2 E]].
  pose proof (Hpf l1 x l2 E p Hp) as Hp1.
  subst ord. apply NoDup_remove_2 in Hnd.
  assert (Hx1 : ~ In x l1). { intros Hc. apply Hnd. apply in_app_iff. now left. }
  rewrite idx_app_r by exact Hx1. rewrite idx_app_l by exact Hp1.
  apply idx_lt, Hp1.
Qed.

Theorem topo_sort_complete : forall pars,
  wf_pars pars -> acyclic pars -> exists ord, topo_sort pars = Some ord.
Proof.
  intros pars wf [rank Hrank]. unfold topo_sort. cbv zeta.
  destruct (topo_final pars wf) as [num' HI].
  set (res := topo_loop _ _ _ _ _) in *.
  pose proof (inv_length pars _ _ _ HI) as Hle. rewrite app_nil_r in Hle.
  destruct HI as [_ Hnd Hlt _ Hzero _]. rewrite app_nil_r in Hnd, Hlt.
  assert (Hall : forall r i, rank i < r -> i < length pars -> In i res).
  { induction r as [|r IH]; intros i Hr Hi; [lia|].
    pose proof (Hzero i Hi) as Hz. rewrite app_nil_r in Hz. apply Hz.
    apply cntl_zero. intros p Hp. apply IH.
    - specialize (Hrank i p Hi Hp). lia.
    - apply (wf_nth pars wf i Hi). exact Hp. }
  assert (Hge : length pars <= length res).
  { rewrite <- (seq_length (length pars) 0) at 1.
    apply NoDup_incl_length; [apply seq_NoDup|].
    intros x Hx. apply in_seq in Hx. apply (Hall (S (rank x))); lia. }
  assert (E : Nat.eqb (length res) (length pars) = true) by (apply Nat.eqb_eq; lia).
  rewrite E. exists res. reflexivity.
Qed.

(* ------------------------------------------------------------------ success implies NoDup
   Without assuming that parent lists are duplicate-free, a weaker invariant still holds:
   the counter of i is length (pars i) minus the number of (distinct) elements of out that
   occur in pars i, and every variable in out ++ queue has counter 0.  A variable with a
   repeated parent never reaches counter 0, so the final assert fails. *)
Lemma NoDup_app_l (l1 l2 : list nat) : NoDup (l1 ++ l2) -> NoDup l1.
Proof.
  induction l1 as [|a r IH]; cbn [app]; intros H; [constructor|].
  inversion H as [|x l Ha Hr]; subst. constructor.
  - intros Hin. apply Ha. apply in_app_iff. now left.
  - apply IH, Hr.
Qed.

(* number of elements of out occurring in ps *)
Definition hitl (out ps : list nat) : nat := length (filter (fun s => mem_nat s ps) out).

Lemma hitl_snoc out s ps :
  hitl (out ++ [s]) ps = hitl out ps + (if mem_nat s ps then 1 else 0).
Proof.
  unfold hitl. rewrite filter_app, app_length. cbn [filter].
  destruct (mem_nat s ps); reflexivity.
Qed.

Lemma hitl_lt out ps s : NoDup out -> ~ In s out -> In s ps -> hitl out ps < length ps.
Proof.
  intros Hnd Hs Hin. unfold hitl.
  set (l := filter (fun s => mem_nat s ps) out).
  assert (H : length (s :: l) <= length ps).
  { apply NoDup_incl_length.
    - constructor.
      + intros Hc. apply Hs. unfold l in Hc. apply filter_In in Hc. tauto.
      + apply NoDup_filter, Hnd.
    - intros x [Hx|Hx]; [subst x; exact Hin|].
      unfold l in Hx. apply filter_In in Hx. apply mem_nat_In. tauto. }
  cbn [length] in H. lia.
Qed.

Section TopoWeak.
Variable pars : list (list nat).

Record WInv (num queue out : list nat) : Prop := mkWInv {
  winv_len : length num = length pars;
  winv_nd : NoDup (out ++ queue);
  winv_lt : forall x, In x (out ++ queue) -> x < length pars;
  winv_num : forall i, i < length pars ->
             nth i num 1 = length (nth i pars []) - hitl out (nth i pars []);
  winv_zero : forall i, i < length pars -> In i (out ++ queue) -> nth i num 1 = 0 }.

Lemma winv_length num queue out : WInv num queue out -> length (out ++ queue) <= length pars.
Proof.
  intros [_ Hnd Hlt _ _].
  rewrite <- (seq_length (length pars) 0).
  apply NoDup_incl_length; [exact Hnd|].
  intros x Hx. apply in_seq. specialize (Hlt x Hx). lia.
Qed.

Lemma winv_step num s q out : WInv num (s :: q) out ->
  WInv (topo_dec pars s num) (q ++ topo_new pars s (topo_dec pars s num)) (out ++ [s]).
Proof.
  intros [Hlen Hnd Hlt Hnum Hzero].
  set (num' := topo_dec pars s num).
  set (new := topo_new pars s num').
  assert (Hs_out : ~ In s out).
  { apply NoDup_remove_2 in Hnd. intros H. apply Hnd. apply in_app_iff. now left. }
  assert (Hnd_out : NoDup out) by (apply NoDup_app_l in Hnd; exact Hnd).
  assert (Hlen' : length num' = length pars).
  { unfold num', topo_dec. rewrite map_length, combine_length. lia. }
  assert (Hdec : forall i, i < length pars ->
            nth i num' 1
            = if mem_nat s (nth i pars []) then pred (nth i num 1) else nth i num 1).
  { intros i Hi. unfold num'. apply nth_topo_dec; assumption. }
  assert (Hnum' : forall i, i < length pars ->
            nth i num' 1 = length (nth i pars []) - hitl (out ++ [s]) (nth i pars [])).
  { intros i Hi. rewrite Hdec by exact Hi. rewrite hitl_snoc. rewrite Hnum by exact Hi.
    destruct (mem_nat s (nth i pars [])); lia. }
  assert (Hnew : forall i, In i new <->
            i < length pars /\ In s (nth i pars []) /\ nth i num' 1 = 0).
  { intros i. unfold new, topo_new. rewrite filter_In, in_seq, andb_true_iff.
    rewrite mem_nat_In, Nat.eqb_eq. split.
    - intros [Hi [Hm Hz]]. split; [lia | auto].
    - intros [Hi [Hm Hz]]. split; [lia | auto]. }
  assert (E : (out ++ [s]) ++ q ++ new = (out ++ s :: q) ++ new).
  { rewrite <- !app_assoc. reflexivity. }
  constructor.
  - exact Hlen'.
  - rewrite E. apply NoDup_app_intro.
    + exact Hnd.
    + unfold new, topo_new. apply NoDup_filter, seq_NoDup.
    + intros x Hx Hxn. apply Hnew in Hxn. destruct Hxn as [Hi [Hm _]].
      pose proof (Hzero x Hi Hx) as Hz. rewrite Hnum in Hz by exact Hi.
      pose proof (hitl_lt out (nth x pars []) s Hnd_out Hs_out Hm). lia.
  - intros x. rewrite E, in_app_iff. intros [Hx|Hx]; [apply Hlt, Hx|].
    apply Hnew in Hx. tauto.
  - exact Hnum'.
  - intros i Hi. rewrite E, in_app_iff. intros [Hx|Hx].
    + rewrite Hdec by exact Hi. rewrite (Hzero i Hi Hx).
      destruct (mem_nat s (nth i pars [])); reflexivity.
    + apply Hnew in Hx. tauto.
Qed.

Lemma wloop_inv fuel : forall num queue out,
  WInv num queue out -> length pars <= fuel + length out ->
  exists num', WInv num' [] (topo_loop fuel pars num queue out).
Proof.
  induction fuel as [|f IH]; intros num queue out HI Hf; cbn [topo_loop].
  - assert (Hq : queue = []).
    { pose proof (winv_length _ _ _ HI) as Hl. rewrite app_length in Hl.
      destruct queue as [|s q]; [reflexivity|]. cbn [length] in Hl. lia. }
    subst queue. exists num. exact HI.
  - destruct queue as [|s q]; [exists num; exact HI|].
    apply IH; [apply winv_step; exact HI|].
    rewrite app_length. cbn [length]. lia.
Qed.

Lemma winv_init :
  WInv (map (@length nat) pars)
       (filter (fun i => Nat.eqb (nth i (map (@length nat) pars) 1) 0) (seq 0 (length pars)))
       [].
Proof.
  constructor; cbn [app].
  - apply map_length.
  - apply NoDup_filter, seq_NoDup.
  - intros x Hx. apply filter_In in Hx. destruct Hx as [Hx _]. apply in_seq in Hx. lia.
  - intros i Hi. rewrite nth_map_length by exact Hi. unfold hitl. cbn [filter length]. lia.
  - intros i Hi Hx. apply filter_In in Hx. destruct Hx as [_ Hx]. apply Nat.eqb_eq, Hx.
Qed.

Lemma wtopo_final :
  exists num', WInv num' []
    (topo_loop (length pars) pars (map (@length nat) pars)
       (filter (fun i => Nat.eqb (nth i (map (@length nat) pars) 1) 0) (seq 0 (length pars)))
       []).
Proof. apply wloop_inv; [exact winv_init | cbn [length]; lia]. Qed.

End TopoWeak.

Theorem topo_sort_nodup : forall pars ord,
  (forall i ps, nth_error pars i = Some ps -> forall p, In p ps -> p < length pars) ->
  topo_sort pars = Some ord -> wf_pars pars.
Proof.
  intros pars ord Hb H. unfold topo_sort in H. cbv zeta in H.
  destruct (wtopo_final pars) as [num' HI].
  set (res := topo_loop _ _ _ _ _) in *.
  destruct (Nat.eqb (length res) (length pars)) eqn:E; [|discriminate].
  clear H. apply Nat.eqb_eq in E.
  destruct HI as [_ Hnd Hlt Hnum Hzero]. rewrite app_nil_r in Hnd, Hlt.
  assert (Hall : incl (seq 0 (length pars)) res).
  { apply NoDup_length_incl; [exact Hnd | rewrite seq_length; lia |].
    intros x Hx. apply in_seq. specialize (Hlt x Hx). lia. }
  intros i ps Hi. split; [|exact (Hb i ps Hi)].
  assert (Hi' : i < length pars) by (apply nth_error_Some; congruence).
  apply (nth_error_nth _ _ []) in Hi.
  assert (Hin : In i res) by (apply Hall, in_seq; lia).
  pose proof (Hzero i Hi') as Hz. rewrite app_nil_r in Hz. specialize (Hz Hin).
  rewrite (Hnum i Hi') in Hz. rewrite Hi in Hz. unfold hitl in Hz.
  apply NoDup_incl_NoDup with (l := filter (fun s => mem_nat s ps) res).
  - apply NoDup_filter, Hnd.
  - lia.
  - intros x Hx. apply filter_In in Hx. apply mem_nat_In. tauto.
Qed.

Theorem topo_sort_sound' : forall pars ord,
  (forall i ps, nth_error pars i = Some ps -> forall p, In p ps -> p < length pars) ->
  topo_sort pars = Some ord ->
  Permutation ord (seq 0 (length pars)) /\ parents_first pars ord.
Proof.
  intros pars ord Hb H. apply topo_sort_sound; [|exact H].
  exact (topo_sort_nodup pars ord Hb H).
Qed.
