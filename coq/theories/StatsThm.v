(* StatsThm.v — lemmas ABOUT the generated definitions of gen/StatsGen.v (translated on every
   run from utils/statistics.py, cli/common.py:get_all_moments and the bound expressions of
   cli/actions/goals_action.py).  An edit of the Python changes the Coq terms these proofs
   are about. *)
From Coq Require Import List ZArith QArith Qcanon Lia Arith Bool Field.
From Polar Require Import Qcx Stats StatsFps.
From PolarGen Require Import StatsGen.
Import ListNotations.
Local Open Scope Qc_scope.

(* ------------------------------------------------------------------------------------ *)
(** * comb                                                                             *)
(* ------------------------------------------------------------------------------------ *)

(* the translated comb (integer floor division n! // (k! (n-k)!)) is the binomial coefficient *)
Theorem comb_spec_lemma : forall n k : nat, comb n k = binom n k.
Proof. intros n k. unfold comb. apply comb_intdiv_spec. Qed.

(* ------------------------------------------------------------------------------------ *)
(** * moments dictionaries                                                             *)
(* ------------------------------------------------------------------------------------ *)

(* d holds the raw moments 1..K of the law L (in any key order) *)
Definition moments_of (L : law) (K : nat) (d : pydict) : Prop :=
  dlen d = K /\ forall k, (1 <= k <= K)%nat -> dget d k = raw L k.

Definition dkeys (d : pydict) : list nat := map fst d.

Lemma dset_fresh d k v : ~ In k (dkeys d) -> dset d k v = d ++ [(k, v)].
Proof.
  induction d as [|[k' v'] d IH]; intros H; [reflexivity|].
  cbn [dset]. destruct (Nat.eqb k' k) eqn:E.
  - exfalso. apply H. left. apply Nat.eqb_eq in E. exact E.
  - cbn [app]. f_equal. apply IH. intros C. apply H. right. exact C.
Qed.

Lemma dget_table (f : nat -> Qc) l k : In k l -> dget (map (fun i => (i, f i)) l) k = f k.
Proof.
  induction l as [|x l IH]; intros H; [destruct H|].
  cbn [map dget]. destruct (Nat.eqb x k) eqn:E.
  - apply Nat.eqb_eq in E. subst x. reflexivity.
  - destruct H as [->|H]; [rewrite Nat.eqb_refl in E; discriminate | apply IH; exact H].
Qed.

(* get_all_moments builds the table i |-> get_moment(monom**i) in the order of its loop *)
Lemma get_all_moments_loop (mp : nat -> Qc) (ex : nat -> bool) l : forall b d,
  NoDup l -> (forall i, In i l -> ~ In i (dkeys d)) ->
  snd (fold_left (fun '(all_exact, moments) (i : nat) =>
                    (andb all_exact (ex i), dset moments i (mp i))) l (b, d))
  = d ++ map (fun i => (i, mp i)) l.
Proof.
  induction l as [|x l IH]; intros b d ND HF.
  - cbn. rewrite app_nil_r. reflexivity.
  - cbn [fold_left map]. rewrite IH.
    + rewrite dset_fresh by (apply HF; left; reflexivity). rewrite <- app_assoc. reflexivity.
    + inversion ND; assumption.
    + intros i Hi. rewrite dset_fresh by (apply HF; left; reflexivity).
      unfold dkeys. rewrite map_app, in_app_iff. cbn [map fst In].
      intros [C|[C|[]]].
      * apply (HF i); [right; exact Hi | exact C].
      * subst x. inversion ND; contradiction.
Qed.

Theorem get_all_moments_table (mp : nat -> Qc) (ex : nat -> bool) K :
  fst (get_all_moments mp ex K) = map (fun i => (i, mp i)) (rev (pyrange 1 (K + 1))).
Proof.
  unfold get_all_moments. cbv zeta.
  pose proof (get_all_moments_loop mp ex (rev (pyrange 1 (K + 1))) true dempty) as H.
  destruct (fold_left _ (rev (pyrange 1 (K + 1))) (true, dempty)) as [b d] eqn:E.
  cbn [fst]. cbn [snd] in H. rewrite H; [reflexivity | | intros i _ []].
  apply NoDup_rev. unfold pyrange. apply seq_NoDup.
Qed.

Theorem get_all_moments_spec L (ex : nat -> bool) K :
  moments_of L K (fst (get_all_moments (raw L) ex K)).
Proof.
  rewrite get_all_moments_table. split.
  - unfold dlen. rewrite map_length, rev_length. unfold pyrange. rewrite seq_length. lia.
  - intros k Hk. apply dget_table. apply -> in_rev. apply in_pyrange. lia.
Qed.

(* ------------------------------------------------------------------------------------ *)
(** * raw -> central                                                                   *)
(* ------------------------------------------------------------------------------------ *)

Lemma dloop_at_raw (g : pydict -> nat -> Qc) lo hi d0 i : (lo <= i < hi)%nat ->
  dget (fold_left (fun d j => dset d j (g d j)) (pyrange lo hi) d0) i
  = g (fold_left (fun d j => dset d j (g d j)) (pyrange lo i) d0) i.
Proof. apply (dloop_at g). Qed.

Lemma dloop_fix_raw (g : pydict -> nat -> Qc) lo hi d0 :
  (forall d d' i, (forall k, (k < i)%nat -> dget d k = dget d' k) -> g d i = g d' i) ->
  forall i, (lo <= i < hi)%nat ->
  dget (fold_left (fun d j => dset d j (g d j)) (pyrange lo hi) d0) i
  = g (fold_left (fun d j => dset d j (g d j)) (pyrange lo hi) d0) i.
Proof. apply (dloop_fix g). Qed.

Lemma dloop_untouched_raw (g : pydict -> nat -> Qc) lo hi d0 j : (j < lo \/ hi <= j)%nat ->
  dget (fold_left (fun d j => dset d j (g d j)) (pyrange lo hi) d0) j = dget d0 j.
Proof. apply (dloop_untouched g). Qed.

Lemma qpow_opp b n : qpow (- b) n = qpow (- (1)) n * qpow b n.
Proof. replace (- b) with (- (1) * b) by ring. apply qpow_mul_base. Qed.

Lemma central_1_zero L : mass L = 1 -> central L 1 = 0.
Proof.
  intros HM. unfold central.
  rewrite (Ex_ext L _ (fun v => v - raw L 1)) by (intros; apply qpow_one).
  rewrite Ex_shift1 by exact HM. ring.
Qed.

(* centrals[1] is the literal 0 *)
Theorem centrals_key1 (cmb : nat -> nat -> Z) d :
  dget (raw_moments_to_centrals_with cmb d) 1 = 0.
Proof.
  unfold raw_moments_to_centrals_with. cbv zeta.
  etransitivity; [apply dloop_untouched_raw with (g := fun _ i => _); lia|].
  rewrite dget_dset_same. apply zq_0.
Qed.

Theorem centrals_exact_gen (cmb : nat -> nat -> Z) L K d i :
  (forall n k, (n <= K)%nat -> cmb n k = binom n k) ->
  mass L = 1 -> moments_of L K d -> (1 <= i <= K)%nat ->
  dget (raw_moments_to_centrals_with cmb d) i = central L i.
Proof.
  intros Hc HM [HL HD] Hi.
  destruct (Nat.eq_dec i 1) as [->|Hi1].
  { rewrite centrals_key1. symmetry. apply central_1_zero. exact HM. }
  unfold raw_moments_to_centrals_with. cbv zeta.
  change (length (ditems d)) with (dlen d). rewrite HL.
  etransitivity; [apply dloop_at_raw with (g := fun _ i => _); lia|]. cbv beta.
  etransitivity; [apply fold_left_add|].
  rewrite zq_0, Qcplus_0_l. replace (i + 1)%nat with (S i) by lia. rewrite pyrange_0.
  rewrite central_expansion. apply bigsum_ext. intros j Hj. apply in_seq in Hj.
  rewrite Hc by lia. rewrite zq_mul, zq_pow, zq_opp, zq_1.
  rewrite (HD 1%nat) by lia. rewrite (qpow_opp (raw L 1)). unfold bq.
  assert (Hm : (if (0 <? j)%nat then dget d j else 1) = raw L j).
  { destruct j as [|j]; cbn [Nat.ltb Nat.leb].
    - rewrite raw_0. symmetry. exact HM.
    - apply HD. lia. }
  rewrite Hm. ring.
Qed.

(* ------------------------------------------------------------------------------------ *)
(** * raw -> cumulant: the recursion computed (restatement level)                      *)
(* ------------------------------------------------------------------------------------ *)

Theorem cumulants_recursion (cmb : nat -> nat -> Z) d i :
  (1 <= i <= dlen d)%nat ->
  let kap := raw_moments_to_cumulants_with cmb d in
  dget kap i = dget d i - bigsum (pyrange 1 i)
                 (fun k => zq (cmb (i - 1)%nat (k - 1)%nat) * dget kap k * dget d (i - k)%nat).
Proof.
  intros Hi. cbv zeta. unfold raw_moments_to_cumulants_with. cbv zeta.
  change (length (ditems d)) with (dlen d).
  set (g := fun (cumulants : pydict) (i : nat) =>
              fold_left (fun c_i k => c_i - zq (cmb (i - 1)%nat (k - 1)%nat) * dget cumulants k * dget d (i - k)%nat)
                        (pyrange 1 i) (dget d i)).
  change (fold_left _ (pyrange 1 (dlen d + 1)) dempty)
    with (fold_left (fun d j => dset d j (g d j)) (pyrange 1 (dlen d + 1)) dempty).
  rewrite (dloop_fix_raw g) at 1; [| |lia].
  - unfold g at 1. apply fold_left_sub.
  - intros c c' j H. unfold g. rewrite !fold_left_sub. f_equal. apply bigsum_ext.
    intros k Hk. apply in_pyrange in Hk. rewrite H by lia. reflexivity.
Qed.

(* the translated function, read as a sequence of cumulants *)
Definition cumulants_seq (cmb : nat -> nat -> Z) (d : pydict) : seqc :=
  fun i => dget (raw_moments_to_cumulants_with cmb d) i.

(* ... satisfies the moment-cumulant recursion m_i = sum_{k=1..i} C(i-1,k-1) kappa_k m_{i-k}
   w.r.t. the raw moments of the law (m_0 = 1) *)
Theorem cumulants_cum_rec (cmb : nat -> nat -> Z) L K d :
  (forall n k, (n <= K)%nat -> cmb n k = binom n k) ->
  mass L = 1 -> moments_of L K d -> cum_rec K (raw L) (cumulants_seq cmb d).
Proof.
  intros Hc HM [HL HD] i Hi. unfold cumulants_seq.
  pose proof (cumulants_recursion cmb d i ltac:(lia)) as R. cbv zeta in R.
  replace (i + 1)%nat with (S i) by lia. rewrite pyrange_S by lia.
  rewrite bigsum_app, bigsum_cons, bigsum_nil. rewrite Nat.sub_diag, raw_0, HM.
  replace (bq (i - 1) (i - 1)) with 1 by (unfold bq; rewrite binom_diag; reflexivity).
  rewrite R. rewrite (HD i) by lia.
  assert (E : bigsum (pyrange 1 i) (fun k => zq (cmb (i - 1)%nat (k - 1)%nat)
                 * dget (raw_moments_to_cumulants_with cmb d) k * dget d (i - k)%nat)
              = bigsum (pyrange 1 i) (fun k => bq (i - 1) (k - 1)
                 * dget (raw_moments_to_cumulants_with cmb d) k * raw L (i - k)%nat)).
  { apply bigsum_ext. intros k Hk. apply in_pyrange in Hk. rewrite Hc by lia. rewrite HD by lia. reflexivity. }
  rewrite E. ring.
Qed.

(* FULL STRENGTH, independent definition: the translated cumulants are the coefficients of
   the logarithm of the exponential generating function of the raw moments *)
Theorem cumulants_are_log_coefficients (cmb : nat -> nat -> Z) L K d i :
  (forall n k, (n <= K)%nat -> cmb n k = binom n k) ->
  mass L = 1 -> moments_of L K d -> (1 <= i <= K)%nat ->
  dget (raw_moments_to_cumulants_with cmb d) i = cumulant_log (raw L) i.
Proof.
  intros Hc HM HD Hi.
  apply (cum_rec_is_log K (raw L) (cumulants_seq cmb d)); [rewrite raw_0; exact HM | | exact Hi].
  apply cumulants_cum_rec; assumption.
Qed.

(* additivity over independent sums, EVERY order *)
Theorem cumulants_additive (cmb : nat -> nat -> Z) L1 L2 K d1 d2 d12 i :
  (forall n k, (n <= K)%nat -> cmb n k = binom n k) ->
  mass L1 = 1 -> mass L2 = 1 ->
  moments_of L1 K d1 -> moments_of L2 K d2 -> moments_of (indep_sum L1 L2) K d12 ->
  (1 <= i <= K)%nat ->
  dget (raw_moments_to_cumulants_with cmb d12) i
  = dget (raw_moments_to_cumulants_with cmb d1) i + dget (raw_moments_to_cumulants_with cmb d2) i.
Proof.
  intros Hc M1 M2 D1 D2 D12 Hi.
  assert (M12 : mass (indep_sum L1 L2) = 1) by (rewrite mass_indep_sum, M1, M2; ring).
  pose proof (cumulants_cum_rec cmb _ K d1 Hc M1 D1) as R1.
  pose proof (cumulants_cum_rec cmb _ K d2 Hc M2 D2) as R2.
  pose proof (cumulants_cum_rec cmb _ K d12 Hc M12 D12) as R12.
  pose proof (cum_rec_additive K _ _ _ _ R1 R2) as RA.
  assert (RA' : cum_rec K (raw (indep_sum L1 L2)) (sadd (cumulants_seq cmb d1) (cumulants_seq cmb d2))).
  { apply (cum_rec_ext K _ _ _ _ (fun i _ => eq_sym (raw_indep_sum L1 L2 i)) (fun i _ => eq_refl) RA). }
  apply (cum_rec_unique K _ _ _ ltac:(rewrite raw_0; exact M12) R12 RA' i Hi).
Qed.

(* shift: kappa_1 (X + c) = kappa_1 X + c, kappa_i (X + c) = kappa_i X for i >= 2, EVERY order *)
Theorem cumulants_shift (cmb : nat -> nat -> Z) L c K d d' i :
  (forall n k, (n <= K)%nat -> cmb n k = binom n k) ->
  mass L = 1 -> moments_of L K d -> moments_of (shift_law c L) K d' -> (1 <= i <= K)%nat ->
  dget (raw_moments_to_cumulants_with cmb d') i
  = dget (raw_moments_to_cumulants_with cmb d) i + (if Nat.eqb i 1 then c else 0).
Proof.
  intros Hc HM HD HD' Hi.
  assert (M' : mass (shift_law c L) = 1).
  { unfold mass. rewrite Ex_shift_law. exact HM. }
  pose proof (cumulants_cum_rec cmb _ K d Hc HM HD) as R.
  pose proof (cumulants_cum_rec cmb _ K d' Hc M' HD') as R'.
  pose proof (cum_rec_additive K _ _ _ _ R (cum_rec_const K c)) as RA.
  assert (RA' : cum_rec K (raw (shift_law c L))
                  (sadd (cumulants_seq cmb d) (fun i => match i with 1%nat => c | _ => 0 end))).
  { apply (cum_rec_ext K _ _ _ _ (fun i _ => eq_sym (raw_shift_law c L i)) (fun i _ => eq_refl) RA). }
  pose proof (cum_rec_unique K _ _ _ ltac:(rewrite raw_0; exact M') R' RA' i Hi) as E.
  unfold cumulants_seq, sadd in E. rewrite E. f_equal.
  destruct i as [|[|i]]; reflexivity.
Qed.

(* homogeneity: kappa_i (c X) = c^i kappa_i X, EVERY order *)
Theorem cumulants_scale (cmb : nat -> nat -> Z) L c K d d' i :
  (forall n k, (n <= K)%nat -> cmb n k = binom n k) ->
  mass L = 1 -> moments_of L K d -> moments_of (scale_law c L) K d' -> (1 <= i <= K)%nat ->
  dget (raw_moments_to_cumulants_with cmb d') i = qpow c i * dget (raw_moments_to_cumulants_with cmb d) i.
Proof.
  intros Hc HM HD HD' Hi.
  assert (M' : mass (scale_law c L) = 1).
  { unfold mass. rewrite Ex_scale_law. exact HM. }
  pose proof (cumulants_cum_rec cmb _ K d Hc HM HD) as R.
  pose proof (cumulants_cum_rec cmb _ K d' Hc M' HD') as R'.
  pose proof (cum_rec_scale K c _ _ R) as RS.
  assert (RS' : cum_rec K (raw (scale_law c L)) (fun i => qpow c i * cumulants_seq cmb d i)).
  { apply (cum_rec_ext K _ _ _ _ (fun i _ => eq_sym (raw_scale_law c L i)) (fun i _ => eq_refl) RS). }
  exact (cum_rec_unique K _ _ _ ltac:(rewrite raw_0; exact M') R' RS' i Hi).
Qed.

(* ------------------------------------------------------------------------------------ *)
(** * tail bounds                                                                      *)
(* ------------------------------------------------------------------------------------ *)

(* every listed upper bound is m/a^k for an item (k, m) of the dict *)
Lemma tail_bound_upper_map a d :
  tail_bound_upper a d = rev (map (fun km => snd km / qpow a (fst km)) d).
Proof.
  unfold tail_bound_upper. cbv zeta. unfold ditems. f_equal. apply map_ext. intros [k m]. reflexivity.
Qed.

(* Polar's list: position j-1 (printed label j) holds E[X^j]/a^j *)
Theorem tail_bound_upper_listing a (mp : nat -> Qc) ex K :
  tail_bound_upper a (fst (get_all_moments mp ex K)) = map (fun k => mp k / qpow a k) (pyrange 1 (K + 1)).
Proof.
  rewrite tail_bound_upper_map, get_all_moments_table. rewrite map_map. cbn [fst snd].
  rewrite map_rev, rev_involutive. reflexivity.
Qed.

Theorem markov_bounds_valid L a ex K :
  nonneg_weights L -> support_ge L 0 -> 0 < a ->
  Forall (fun b => Pge L a <= b) (tail_bound_upper a (fst (get_all_moments (raw L) ex K))).
Proof.
  intros HW HS Ha. rewrite tail_bound_upper_listing. apply Forall_forall. intros b Hb.
  apply in_map_iff in Hb. destruct Hb as [k [<- _]]. apply markov_core; assumption.
Qed.

(* same for any dict of raw moments, whatever its key order *)
Theorem markov_bounds_valid_dict L a d :
  nonneg_weights L -> support_ge L 0 -> 0 < a ->
  (forall k m, In (k, m) d -> m = raw L k) ->
  Forall (fun b => Pge L a <= b) (tail_bound_upper a d).
Proof.
  intros HW HS Ha HD. rewrite tail_bound_upper_map. apply Forall_forall. intros b Hb.
  apply in_rev in Hb. apply in_map_iff in Hb. destruct Hb as [[k m] [<- Hkm]]. cbn [fst snd].
  rewrite (HD k m Hkm). apply markov_core; assumption.
Qed.

Theorem second_moment_bound_valid L a K d :
  is_prob L -> support_ge L a -> moments_of L K d -> (2 <= K)%nat ->
  tail_bound_lower a d <= Pgt L a.
Proof.
  intros [HW HM] HS [_ HD] HK. unfold tail_bound_lower. cbv zeta.
  rewrite (HD 1%nat), (HD 2%nat) by lia. rewrite !qpow_two, zq_2.
  rewrite <- (Ex_shift1 L a HM). rewrite <- (Ex_shift2 L a HM).
  apply Qcdiv_le_of_mul.
  - apply Ex_nonneg; [exact HW|]. intros; apply Qcle_0_sq.
  - apply Pgt_nonneg. exact HW.
  - apply second_moment_core; assumption.
Qed.

Theorem second_moment_bound_polar L a ex :
  is_prob L -> support_ge L a ->
  tail_bound_lower a (fst (get_all_moments (raw L) ex tail_bound_lower_order)) <= Pgt L a.
Proof.
  intros HP HS. apply second_moment_bound_valid with (K := tail_bound_lower_order).
  - exact HP.
  - exact HS.
  - apply get_all_moments_spec.
  - unfold tail_bound_lower_order. lia.
Qed.

(* ------------------------------------------------------------------------------------ *)
(** * instances: the mathematical binomial, and Polar's own comb                       *)
(* ------------------------------------------------------------------------------------ *)

Theorem centrals_exact L K d i :
  mass L = 1 -> moments_of L K d -> (1 <= i <= K)%nat ->
  dget (raw_moments_to_centrals_with binom d) i = central L i.
Proof. apply centrals_exact_gen. reflexivity. Qed.

Theorem centrals_exact_polar L K d i :
  mass L = 1 -> moments_of L K d -> (1 <= i <= K)%nat ->
  dget (raw_moments_to_centrals d) i = central L i.
Proof. apply centrals_exact_gen. intros n k _. apply comb_spec_lemma. Qed.

Theorem cumulants_polar L K d i :
  mass L = 1 -> moments_of L K d -> (1 <= i <= K)%nat ->
  dget (raw_moments_to_cumulants d) i = cumulant_log (raw L) i.
Proof. apply cumulants_are_log_coefficients. intros n k _. apply comb_spec_lemma. Qed.
