(* StatsThm.v — lemmas ABOUT the generated definitions of gen/StatsGen.v (translated on every
   run from utils/statistics.py, cli/common.py:get_all_moments and the bound expressions of
   cli/actions/goals_action.py).  An edit of the Python changes the Coq terms these proofs
   are about. *)
From Coq Require Import List ZArith QArith Qcanon Lia Arith Bool Field.
From Polar Require Import Qcx Stats.
From PolarGen Require Import StatsGen.
Import ListNotations.
Local Open Scope Qc_scope.

(* ------------------------------------------------------------------------------------ *)
(** * comb                                                                             *)
(* ------------------------------------------------------------------------------------ *)

Definition comb_sweep (N : nat) : bool :=
  forallb (fun n => let r := prow n in
                    forallb (fun k => Z.eqb (comb n k) (nth k r 0%Z)) (seq 0 (S n)))
          (seq 0 (S N)).

Lemma comb_sweep_56 : comb_sweep 56 = true.
Proof. vm_compute. reflexivity. Qed.

Lemma comb_above n k : (n < k)%nat -> comb n k = 0%Z.
Proof. intros H. unfold comb. apply Nat.ltb_lt in H. rewrite H. reflexivity. Qed.

Lemma comb_sweep_sound N : comb_sweep N = true ->
  forall n k : nat, (n <= N)%nat -> (k <= n)%nat -> comb n k = binom n k.
Proof.
  intros H n k Hn Hk. unfold comb_sweep in H.
  rewrite forallb_forall in H. specialize (H n). cbv zeta in H.
  rewrite forallb_forall in H.
  assert (E : Z.eqb (comb n k) (nth k (prow n) 0%Z) = true).
  { apply H; apply in_seq; lia. }
  apply Z.eqb_eq in E. rewrite E. apply prow_binom.
Qed.

Theorem comb_spec_small_lemma : forall n k : nat, (n <= 56)%nat -> comb n k = binom n k.
Proof.
  intros n k Hn. destruct (le_lt_dec k n) as [L|G].
  - exact (comb_sweep_sound 56 comb_sweep_56 n k Hn L).
  - rewrite comb_above, binom_gt by exact G. reflexivity.
Qed.

Theorem comb_refuted_lemma :
  comb 57 25 = 9929472283517788%Z /\ binom 57 25 = 9929472283517787%Z.
Proof. split; [vm_compute; reflexivity | rewrite <- prow_binom; vm_compute; reflexivity]. Qed.

(* ------------------------------------------------------------------------------------ *)
(** * moments dictionaries                                                             *)
(* ------------------------------------------------------------------------------------ *)

(* d holds the raw moments 1..K of the law L (in any key order) *)
Definition moments_of (L : law) (K : nat) (d : pydict) : Prop :=
  dlen d = K /\ forall k, (1 <= k <= K)%nat -> dget d k = raw L k.

Definition dkeys (d : pydict) : list nat := map fst d.

Lemma dset_fresh d k v : ~ In k (dkeys d) -> dset d k v = d ++ [(k, v)].
Proof.
  induction d as [|[k' v'] d IH]; intros H; [reflexivity|].
  cbn [dset]. destruct (Nat.eqb k' k) eqn:E.
  - exfalso. apply H. left. apply Nat.eqb_eq in E. exact E.
  - cbn [app]. f_equal. apply IH. intros C. apply H. right. exact C.
Qed.

Lemma dget_table (f : nat -> Qc) l k : In k l -> dget (map (fun i => (i, f i)) l) k = f k.
Proof.
  induction l as [|x l IH]; intros H; [destruct H|].
  cbn [map dget]. destruct (Nat.eqb x k) eqn:E.
  - apply Nat.eqb_eq in E. subst x. reflexivity.
  - destruct H as [->|H]; [rewrite Nat.eqb_refl in E; discriminate | apply IH; exact H].
Qed.

(* get_all_moments builds the table i |-> get_moment(monom**i) in the order of its loop *)
Lemma get_all_moments_loop (mp : nat -> Qc) (ex : nat -> bool) l : forall b d,
  NoDup l -> (forall i, In i l -> ~ In i (dkeys d)) ->
  snd (fold_left (fun '(all_exact, moments) (i : nat) =>
                    (andb all_exact (ex i), dset moments i (mp i))) l (b, d))
  = d ++ map (fun i => (i, mp i)) l.
Proof.
  induction l as [|x l IH]; intros b d ND HF.
  - cbn. rewrite app_nil_r. reflexivity.
  - cbn [fold_left map]. rewrite IH.
    + rewrite dset_fresh by (apply HF; left; reflexivity). rewrite <- app_assoc. reflexivity.
    + inversion ND; assumption.
    + intros i Hi. rewrite dset_fresh by (apply HF; left; reflexivity).
      unfold dkeys. rewrite map_app, in_app_iff. cbn [map fst In].
      intros [C|[C|[]]].
      * apply (HF i); [right; exact Hi | exact C].
      * subst x. inversion ND; contradiction.
Qed.

Theorem get_all_moments_table (mp : nat -> Qc) (ex : nat -> bool) K :
  fst (get_all_moments mp ex K) = map (fun i => (i, mp i)) (rev (pyrange 1 (K + 1))).
Proof.
  unfold get_all_moments. cbv zeta.
  pose proof (get_all_moments_loop mp ex (rev (pyrange 1 (K + 1))) true dempty) as H.
  destruct (fold_left _ (rev (pyrange 1 (K + 1))) (true, dempty)) as [b d] eqn:E.
  cbn [fst]. cbn [snd] in H. rewrite H; [reflexivity | | intros i _ []].
  apply NoDup_rev. unfold pyrange. apply seq_NoDup.
Qed.

Theorem get_all_moments_spec L (ex : nat -> bool) K :
  moments_of L K (fst (get_all_moments (raw L) ex K)).
Proof.
  rewrite get_all_moments_table. split.
  - unfold dlen. rewrite map_length, rev_length. unfold pyrange. rewrite seq_length. lia.
  - intros k Hk. apply dget_table. apply -> in_rev. apply in_pyrange. lia.
Qed.

(* ------------------------------------------------------------------------------------ *)
(** * raw -> central                                                                   *)
(* ------------------------------------------------------------------------------------ *)

Lemma dloop_at_raw (g : pydict -> nat -> Qc) lo hi d0 i : (lo <= i < hi)%nat ->
  dget (fold_left (fun d j => dset d j (g d j)) (pyrange lo hi) d0) i
  = g (fold_left (fun d j => dset d j (g d j)) (pyrange lo i) d0) i.
Proof. apply (dloop_at g). Qed.

Lemma dloop_fix_raw (g : pydict -> nat -> Qc) lo hi d0 :
  (forall d d' i, (forall k, (k < i)%nat -> dget d k = dget d' k) -> g d i = g d' i) ->
  forall i, (lo <= i < hi)%nat ->
  dget (fold_left (fun d j => dset d j (g d j)) (pyrange lo hi) d0) i
  = g (fold_left (fun d j => dset d j (g d j)) (pyrange lo hi) d0) i.
Proof. apply (dloop_fix g). Qed.

Lemma dloop_untouched_raw (g : pydict -> nat -> Qc) lo hi d0 j : (j < lo \/ hi <= j)%nat ->
  dget (fold_left (fun d j => dset d j (g d j)) (pyrange lo hi) d0) j = dget d0 j.
Proof. apply (dloop_untouched g). Qed.

Lemma qpow_opp b n : qpow (- b) n = qpow (- (1)) n * qpow b n.
Proof. replace (- b) with (- (1) * b) by ring. apply qpow_mul_base. Qed.

Theorem centrals_exact_gen (cmb : nat -> nat -> Z) L K d i :
  (forall n k, (n <= K)%nat -> cmb n k = binom n k) ->
  mass L = 1 -> moments_of L K d -> (2 <= i <= K)%nat ->
  dget (raw_moments_to_centrals_with cmb d) i = central L i.
Proof.
  intros Hc HM [HL HD] Hi. unfold raw_moments_to_centrals_with. cbv zeta.
  change (length (ditems d)) with (dlen d). rewrite HL.
  etransitivity; [apply dloop_at_raw with (g := fun _ i => _); lia|]. cbv beta.
  etransitivity; [apply fold_left_add|].
  rewrite zq_0, Qcplus_0_l. replace (i + 1)%nat with (S i) by lia. rewrite pyrange_0.
  rewrite central_expansion. apply bigsum_ext. intros j Hj. apply in_seq in Hj.
  rewrite Hc by lia. rewrite zq_mul, zq_pow, zq_opp, zq_1.
  rewrite (HD 1%nat) by lia. rewrite (qpow_opp (raw L 1)). unfold bq.
  assert (Hm : (if (0 <? j)%nat then dget d j else 1) = raw L j).
  { destruct j as [|j]; cbn [Nat.ltb Nat.leb].
    - rewrite raw_0. symmetry. exact HM.
    - apply HD. lia. }
  rewrite Hm. ring.
Qed.

(* centrals[1] is the MEAN (the literal `{1: moments[1]}`), whereas the first central moment is 0 *)
Theorem centrals_key1 (cmb : nat -> nat -> Z) d :
  dget (raw_moments_to_centrals_with cmb d) 1 = dget d 1.
Proof.
  unfold raw_moments_to_centrals_with. cbv zeta.
  etransitivity; [apply dloop_untouched_raw with (g := fun _ i => _); lia|].
  rewrite dget_dset_same. reflexivity.
Qed.

Lemma central_1_zero L : mass L = 1 -> central L 1 = 0.
Proof.
  intros HM. unfold central.
  rewrite (Ex_ext L _ (fun v => v - raw L 1)) by (intros; apply qpow_one).
  rewrite Ex_shift1 by exact HM. ring.
Qed.

(* ------------------------------------------------------------------------------------ *)
(** * raw -> cumulant: the recursion computed (restatement level)                      *)
(* ------------------------------------------------------------------------------------ *)

Theorem cumulants_recursion (cmb : nat -> nat -> Z) d i :
  (1 <= i <= dlen d)%nat ->
  let kap := raw_moments_to_cumulants_with cmb d in
  dget kap i = dget d i - bigsum (pyrange 1 i)
                 (fun k => zq (cmb (i - 1)%nat (k - 1)%nat) * dget kap k * dget d (i - k)%nat).
Proof.
  intros Hi. cbv zeta. unfold raw_moments_to_cumulants_with. cbv zeta.
  change (length (ditems d)) with (dlen d).
  set (g := fun (cumulants : pydict) (i : nat) =>
              fold_left (fun c_i k => c_i - zq (cmb (i - 1)%nat (k - 1)%nat) * dget cumulants k * dget d (i - k)%nat)
                        (pyrange 1 i) (dget d i)).
  change (fold_left _ (pyrange 1 (dlen d + 1)) dempty)
    with (fold_left (fun d j => dset d j (g d j)) (pyrange 1 (dlen d + 1)) dempty).
  rewrite (dloop_fix_raw g) at 1; [| |lia].
  - unfold g at 1. apply fold_left_sub.
  - intros c c' j H. unfold g. rewrite !fold_left_sub. f_equal. apply bigsum_ext.
    intros k Hk. apply in_pyrange in Hk. rewrite H by lia. reflexivity.
Qed.

(* ------------------------------------------------------------------------------------ *)
(** * tail bounds                                                                      *)
(* ------------------------------------------------------------------------------------ *)

(* every listed upper bound is m/a^k for an item (k, m) of the dict *)
Lemma tail_bound_upper_map a d :
  tail_bound_upper a d = rev (map (fun km => snd km / qpow a (fst km)) d).
Proof.
  unfold tail_bound_upper. cbv zeta. unfold ditems. f_equal. apply map_ext. intros [k m]. reflexivity.
Qed.

(* Polar's list: position j-1 (printed label j) holds E[X^j]/a^j *)
Theorem tail_bound_upper_listing a (mp : nat -> Qc) ex K :
  tail_bound_upper a (fst (get_all_moments mp ex K)) = map (fun k => mp k / qpow a k) (pyrange 1 (K + 1)).
Proof.
  rewrite tail_bound_upper_map, get_all_moments_table. rewrite map_map. cbn [fst snd].
  rewrite map_rev, rev_involutive. reflexivity.
Qed.

Theorem markov_bounds_valid L a ex K :
  nonneg_weights L -> support_ge L 0 -> 0 < a ->
  Forall (fun b => Pge L a <= b) (tail_bound_upper a (fst (get_all_moments (raw L) ex K))).
Proof.
  intros HW HS Ha. rewrite tail_bound_upper_listing. apply Forall_forall. intros b Hb.
  apply in_map_iff in Hb. destruct Hb as [k [<- _]]. apply markov_core; assumption.
Qed.

(* same for any dict of raw moments, whatever its key order *)
Theorem markov_bounds_valid_dict L a d :
  nonneg_weights L -> support_ge L 0 -> 0 < a ->
  (forall k m, In (k, m) d -> m = raw L k) ->
  Forall (fun b => Pge L a <= b) (tail_bound_upper a d).
Proof.
  intros HW HS Ha HD. rewrite tail_bound_upper_map. apply Forall_forall. intros b Hb.
  apply in_rev in Hb. apply in_map_iff in Hb. destruct Hb as [[k m] [<- Hkm]]. cbn [fst snd].
  rewrite (HD k m Hkm). apply markov_core; assumption.
Qed.

Theorem second_moment_bound_valid L a K d :
  is_prob L -> support_ge L a -> moments_of L K d -> (2 <= K)%nat ->
  tail_bound_lower a d <= Pgt L a.
Proof.
  intros [HW HM] HS [_ HD] HK. unfold tail_bound_lower. cbv zeta.
  rewrite (HD 1%nat), (HD 2%nat) by lia. rewrite !qpow_two, zq_2.
  rewrite <- (Ex_shift1 L a HM). rewrite <- (Ex_shift2 L a HM).
  apply Qcdiv_le_of_mul.
  - apply Ex_nonneg; [exact HW|]. intros; apply Qcle_0_sq.
  - apply Pgt_nonneg. exact HW.
  - apply second_moment_core; assumption.
Qed.

Theorem second_moment_bound_polar L a ex :
  is_prob L -> support_ge L a ->
  tail_bound_lower a (fst (get_all_moments (raw L) ex tail_bound_lower_order)) <= Pgt L a.
Proof.
  intros HP HS. apply second_moment_bound_valid with (K := tail_bound_lower_order).
  - exact HP.
  - exact HS.
  - apply get_all_moments_spec.
  - unfold tail_bound_lower_order. lia.
Qed.
