(* C15 — executable model (M) of Polar's Bayesian-network front end:
     bayesnet/transformer.py     BIF AST -> network   (assemble)
     bayesnet/code_generator.py  network -> loop program (topo_sort, codegen)
     bayesnet/query/*.py         query statements appended to the generated loop
   The generated program is represented in a small AST of its own (gassign / gstmt) whose
   reference semantics is in BayesNetSem.v.  Probabilities are exact rationals (Qc): the
   decimal literals of the BIF text read exactly; Python float summation is not modelled.

   Representation choices (tied to the code by the correspondence check K in
   harness/checks/c15.py on every run):
   * network variables are identified by their position in the file's declaration order
     (= iteration order of the Python dict network.variables);
   * domain values are identified by their position in the domain tuple; a CPT is an
     association list from parent-value index tuples, in itertools.product order, to rows
     (Python: dict keyed by tuples of value strings, created in product order by cpt_init);
   * NaN rows of the Python code (no default given) are None rows here. *)
From Coq Require Import String Ascii Arith Bool QArith Qcanon Lia List.
From Polar Require Import Qcx.
Import ListNotations.
Open Scope string_scope.
Open Scope list_scope.
Open Scope nat_scope.

(* ------------------------------------------------------------------ helpers *)
Definition obind {A B} (o : option A) (f : A -> option B) : option B :=
  match o with Some a => f a | None => None end.
Notation "x <- o ;; k" := (obind o (fun x => k)) (at level 61, o at next level, right associativity).
Definition guard (b : bool) : option unit := if b then Some tt else None.

Fixpoint omap {A B} (f : A -> option B) (l : list A) : option (list B) :=
  match l with
  | [] => Some []
  | a :: r => b <- f a ;; bs <- omap f r ;; Some (b :: bs)
  end.

(* itertools.product of the lists ls: first component slowest *)
Fixpoint product {A} (ls : list (list A)) : list (list A) :=
  match ls with
  | [] => [[]]
  | l :: rest => flat_map (fun x => map (cons x) (product rest)) l
  end.

Fixpoint index_of (x : string) (l : list string) : option nat :=
  match l with
  | [] => None
  | y :: r => if String.eqb x y then Some 0 else option_map S (index_of x r)
  end.

Fixpoint mem_str (x : string) (l : list string) : bool :=
  match l with [] => false | y :: r => String.eqb x y || mem_str x r end.
Fixpoint nodup_str (l : list string) : bool :=
  match l with [] => true | y :: r => negb (mem_str y r) && nodup_str r end.

Definition list_eqb {A} (eqb : A -> A -> bool) : list A -> list A -> bool :=
  fix go l1 l2 := match l1, l2 with
                  | [], [] => true
                  | a :: r1, b :: r2 => eqb a b && go r1 r2
                  | _, _ => false
                  end.
Definition key_eqb : list nat -> list nat -> bool := list_eqb Nat.eqb.
Definition strs_eqb : list string -> list string -> bool := list_eqb String.eqb.
Fixpoint mem_nat (x : nat) (l : list nat) : bool :=
  match l with [] => false | y :: r => Nat.eqb x y || mem_nat x r end.

Definition qsum (l : list Qc) : Qc := fold_right Qcplus 0%Qc l.
Definition qabs (x : Qc) : Qc := if Qc_ltb x 0%Qc then (- x)%Qc else x.

(* BayesNetwork.cpt_entry_sum_valid: abs(1 - sum(probabilities)) < cpt_tolerance *)
Definition sum_valid (tol : Qc) (ps : list Qc) : bool := Qc_ltb (qabs (1 - qsum ps)%Qc) tol.

(* ------------------------------------------------------------------ BIF AST (after lark) *)
Record vardecl := { vd_name : string; vd_types : list (nat * list string) }.
Inductive cpt_item :=
| IDefault (ps : list Qc)
| ITable (ps : list Qc)
| IEntry (cond : list string) (ps : list Qc).
Record pblock := { pb_var : string; pb_parents : list string; pb_items : list cpt_item }.
Record bif := { b_vars : list vardecl; b_probs : list pblock }.

(* ------------------------------------------------------------------ network *)
Definition row := list Qc.
Definition cpt := list (list nat * row).
Record nvar := { nv_name : string; nv_dom : list string; nv_par : list nat; nv_cpt : cpt }.
Definition network := list nvar.

(* variable_block + type: exactly one type definition, no duplicate values, declared size
   = actual size (the grammar guarantees at least one value) *)
Definition check_vardecl (v : vardecl) : option (string * list string) :=
  match vd_types v with
  | [(n, dom)] =>
      _ <- guard (nodup_str dom) ;;
      _ <- guard (Nat.eqb n (length dom)) ;;
      _ <- guard (negb (Nat.eqb (length dom) 0)) ;;
      Some (vd_name v, dom)
  | _ => None
  end.

Definition vtable := list (string * list string).
Fixpoint find_var (vars : vtable) (x : string) : option nat :=
  match vars with
  | [] => None
  | (y, _) :: r => if String.eqb x y then Some 0 else option_map S (find_var r x)
  end.
Definition dom_of (vars : vtable) (i : nat) : list string := snd (nth i vars ("", [])).
Definition dsize (vars : vtable) (i : nat) : nat := length (dom_of vars i).

(* start: variables first (file order), duplicates rejected *)
Fixpoint check_vars (vs : list vardecl) (acc : vtable) : option vtable :=
  match vs with
  | [] => Some acc
  | v :: r =>
      nd <- check_vardecl v ;;
      match find_var acc (fst nd) with
      | Some _ => None
      | None => check_vars r (acc ++ [nd])
      end
  end.

(* classification loop of __add_cpt__ *)
Fixpoint classify (items : list cpt_item) (default table : option (list Qc))
         (seen : list (list string)) (entries : list (list string * list Qc))
  : option (option (list Qc) * option (list Qc) * list (list string * list Qc)) :=
  match items with
  | [] => Some (default, table, entries)
  | IDefault ps :: r =>
      match default with Some _ => None | None => classify r (Some ps) table seen entries end
  | ITable ps :: r =>
      match table with Some _ => None | None => classify r default (Some ps) seen entries end
  | IEntry c ps :: r =>
      if existsb (strs_eqb c) seen then None
      else classify r default table (c :: seen) (entries ++ [(c, ps)])
  end.

Definition wcpt := list (list nat * option row).      (* working CPT: None = NaN row *)

Definition cpt_keys (vars : vtable) (pars : list nat) : list (list nat) :=
  product (map (fun p => seq 0 (dsize vars p)) pars).

(* BayesVariable.cpt_set_entry: dict update at an existing key *)
Definition cpt_set (key : list nat) (r : row) (c : wcpt) : wcpt :=
  map (fun kv => if key_eqb (fst kv) key then (fst kv, Some r) else kv) c.

(* __add_default__ + cpt_init *)
Definition add_default (tol : Qc) (d : nat) (keys : list (list nat)) (default : option (list Qc))
  : option wcpt :=
  match default with
  | None => Some (map (fun k => (k, None)) keys)
  | Some ps =>
      _ <- guard (Nat.eqb (length ps) d) ;;
      _ <- guard (sum_valid tol ps) ;;
      Some (map (fun k => (k, Some ps)) keys)
  end.

(* __add_table__: row number `rw`, own value i: table[rw + i * rows] *)
Definition table_row (table : list Qc) (d rows rw : nat) : row :=
  map (fun i => nth (rw + i * rows) table 0%Qc) (seq 0 d).

Fixpoint add_table_rows (tol : Qc) (table : list Qc) (d rows : nat)
         (numbered : list (nat * list nat)) (c : wcpt) : option wcpt :=
  match numbered with
  | [] => Some c
  | (rw, key) :: r =>
      let probs := table_row table d rows rw in
      _ <- guard (sum_valid tol probs) ;;
      add_table_rows tol table d rows r (cpt_set key probs c)
  end.

Definition add_table (tol : Qc) (d : nat) (keys : list (list nat)) (table : option (list Qc)) (c : wcpt)
  : option wcpt :=
  match table with
  | None => Some c
  | Some t =>
      let rows := length keys in
      _ <- guard (Nat.eqb (length t) (d * rows)) ;;
      add_table_rows tol t d rows (combine (seq 0 rows) keys) c
  end.

(* __add_entry__ *)
Definition resolve_cond (vars : vtable) (pars : list nat) (cond : list string) : option (list nat) :=
  omap (fun pc => index_of (snd pc) (dom_of vars (fst pc))) (combine pars cond).

Definition add_entry (tol : Qc) (vars : vtable) (d : nat) (pars : list nat)
           (e : list string * list Qc) (c : wcpt) : option wcpt :=
  let '(cond, ps) := e in
  _ <- guard (Nat.eqb (length cond) (length pars)) ;;
  _ <- guard (Nat.eqb (length ps) d) ;;
  _ <- guard (sum_valid tol ps) ;;
  key <- resolve_cond vars pars cond ;;
  Some (cpt_set key ps c).

Fixpoint add_entries (tol : Qc) (vars : vtable) (d : nat) (pars : list nat)
         (es : list (list string * list Qc)) (c : wcpt) : option wcpt :=
  match es with
  | [] => Some c
  | e :: r => c' <- add_entry tol vars d pars e c ;; add_entries tol vars d pars r c'
  end.

(* cpt_has_nan, and the final CPT *)
Definition finish_cpt (c : wcpt) : option cpt :=
  omap (fun kv => match snd kv with Some r => Some (fst kv, r) | None => None end) c.

(* __add_cpt__ for one probability block: (variable index, parent indices, CPT) *)
Definition assemble_cpt (tol : Qc) (vars : vtable) (pb : pblock) : option (nat * list nat * cpt) :=
  x <- find_var vars (pb_var pb) ;;
  pars <- omap (find_var vars) (pb_parents pb) ;;
  cls <- classify (pb_items pb) None None [] [] ;;
  let '(default, table, entries) := cls in
  let d := dsize vars x in
  let keys := cpt_keys vars pars in
  c0 <- add_default tol d keys default ;;
  c1 <- add_table tol d keys table c0 ;;
  c2 <- add_entries tol vars d pars entries c1 ;;
  c3 <- finish_cpt c2 ;;
  Some (x, pars, c3).

Fixpoint find_cpt (x : nat) (cs : list (nat * list nat * cpt)) : option (list nat * cpt) :=
  match cs with
  | [] => None
  | (y, ps, c) :: r => if Nat.eqb x y then Some (ps, c) else find_cpt x r
  end.

Fixpoint assemble_cpts (tol : Qc) (vars : vtable) (pbs : list pblock) (acc : list (nat * list nat * cpt))
  : option (list (nat * list nat * cpt)) :=
  match pbs with
  | [] => Some acc
  | pb :: r =>
      xc <- assemble_cpt tol vars pb ;;
      match find_cpt (fst (fst xc)) acc with
      | Some _ => None                                  (* "has two defined CPTs" *)
      | None => assemble_cpts tol vars r (acc ++ [xc])
      end
  end.

Definition build_network (vars : vtable) (cs : list (nat * list nat * cpt)) : option network :=
  omap (fun i => pc <- find_cpt i cs ;;                  (* "has no CPT" *)
                 Some {| nv_name := fst (nth i vars ("", [])); nv_dom := dom_of vars i;
                         nv_par := fst pc; nv_cpt := snd pc |})
       (seq 0 (length vars)).

(* NetworkTransformer.start *)
Definition assemble (tol : Qc) (b : bif) : option network :=
  vars <- check_vars (b_vars b) [] ;;
  cs <- assemble_cpts tol vars (b_probs b) [] ;;
  build_network vars cs.

(* ------------------------------------------------------------------ generated program *)
Inductive gassign :=
| ACat (x : nat) (vals : list nat) (probs : list Qc)   (* x = v0 {p0} v1 {p1} ... v_last *)
| AMul (x a b : nat)                                    (* x = a * b *)
| AAdd (x a b : nat).                                   (* x = a + b *)
Definition gcond := list (nat * nat).                   (* x1 == c1 && x2 == c2 && ... *)
Inductive gstmt :=
| SAssign (a : gassign)
| SIf (branches : list (gcond * gassign)) (els : option gassign).
Record gprog := { g_init : list (nat * nat); g_body : list gstmt }.

Definition ndsize (net : network) (i : nat) : nat :=
  match nth_error net i with Some v => length (nv_dom v) | None => 0 end.

Fixpoint cpt_lookup (key : list nat) (c : cpt) : option row :=
  match c with
  | [] => None
  | (k, r) :: rest => if key_eqb k key then Some r else cpt_lookup key rest
  end.

(* __generate_assignment__: values 0..d-1, probabilities of all but the last value *)
Definition gen_assign (x d : nat) (r : row) : gassign := ACat x (seq 0 d) (firstn (d - 1) r).

Definition net_keys (net : network) (pars : list nat) : list (list nat) :=
  product (map (fun p => seq 0 (ndsize net p)) pars).

(* __generate_variable__ / __generate_condition__ *)
Definition gen_var (net : network) (x : nat) (v : nvar) : option gstmt :=
  let d := length (nv_dom v) in
  match nv_par v with
  | [] => r <- cpt_lookup [] (nv_cpt v) ;; Some (SAssign (gen_assign x d r))
  | pars =>
      brs <- omap (fun comb => r <- cpt_lookup comb (nv_cpt v) ;;
                               Some (combine pars comb, gen_assign x d r))
                  (net_keys net pars) ;;
      match brs with
      | [] => None
      | [b] => Some (SIf [b] None)                       (* one combination: "if ...: ... end" *)
      | _ => Some (SIf (removelast brs) (Some (snd (last brs ([], AAdd 0 0 0)))))
      end
  end.

(* __topological_sort__ (queue based).  One round: pop s, decrement the counter of every
   variable having s among its parents, enqueue those reaching 0 (in index order). *)
Definition topo_dec (pars : list (list nat)) (s : nat) (num : list nat) : list nat :=
  map (fun pc => if mem_nat s (fst pc) then pred (snd pc) else snd pc) (combine pars num).
Definition topo_new (pars : list (list nat)) (s : nat) (num' : list nat) : list nat :=
  filter (fun i => mem_nat s (nth i pars []) && Nat.eqb (nth i num' 1) 0) (seq 0 (length pars)).

Fixpoint topo_loop (fuel : nat) (pars : list (list nat)) (num queue out : list nat) : list nat :=
  match fuel with
  | O => out
  | S f =>
      match queue with
      | [] => out
      | s :: q =>
          let num' := topo_dec pars s num in
          topo_loop f pars num' (q ++ topo_new pars s num') (out ++ [s])
      end
  end.

Definition topo_sort (pars : list (list nat)) : option (list nat) :=
  let num := map (@length nat) pars in
  let q0 := filter (fun i => Nat.eqb (nth i num 1) 0) (seq 0 (length pars)) in
  let out := topo_loop (length pars) pars num q0 [] in
  if Nat.eqb (length out) (length pars) then Some out else None.     (* the assert *)

Definition gen_body (net : network) : option (list gstmt) :=
  ord <- topo_sort (map nv_par net) ;;
  omap (fun x => v <- nth_error net x ;; gen_var net x v) ord.

(* queries: indices of the two auxiliary variables are m and m+1 (m = number of variables) *)
Inductive query :=
| QNone
| QExact (target : string) (evidence : list (string * string))
| QSample (targets : list (string * string)).

Fixpoint find_nvar (net : network) (x : string) : option nat :=
  match net with
  | [] => None
  | v :: r => if String.eqb x (nv_name v) then Some 0 else option_map S (find_nvar r x)
  end.

Definition resolve_evidence (net : network) (ev : list (string * string)) : option gcond :=
  omap (fun e => i <- find_nvar net (fst e) ;;
                 v <- nth_error net i ;;
                 k <- index_of (snd e) (nv_dom v) ;;
                 Some (i, k)) ev.

Definition gen_query (net : network) (q : query) : option (list (nat * nat) * list gstmt) :=
  let m := length net in
  match q with
  | QNone => Some ([], [])
  | QExact t ev =>
      ti <- find_nvar net t ;;
      c <- resolve_evidence net ev ;;
      _ <- guard (negb (Nat.eqb (length c) 0)) ;;
      (* ind = m, inf = m+1 *)
      Some ([(m, 0); (S m, 0)],
            [SIf [(c, ACat m [1] [])] (Some (ACat m [0] [])); SAssign (AMul (S m) ti m)])
  | QSample ev =>
      c <- resolve_evidence net ev ;;
      _ <- guard (negb (Nat.eqb (length c) 0)) ;;
      (* count = m, continue = m+1 *)
      Some ([(m, 1); (S m, 1)],
            [SIf [(c, ACat (S m) [0] [])] None; SAssign (AAdd m m (S m))])
  end.

(* CodeGenerator.generate_code *)
Definition codegen (net : network) (q : query) : option gprog :=
  body <- gen_body net ;;
  qq <- gen_query net q ;;
  Some {| g_init := map (fun i => (i, 0)) (seq 0 (length net)) ++ fst qq;
          g_body := body ++ snd qq |}.

(* ------------------------------------------------------------------ names *)
(* __generate_mapping__: lower-case, drop every character outside [A-Za-z0-9_]; "" -> "_";
   get_unique_name appends random digits while the name is taken (or reserved).  The random suffix is not
   modelled: valid_mapping is the relation "this list of names is a possible outcome". *)
Definition is_digit (c : ascii) : bool := let n := nat_of_ascii c in (48 <=? n) && (n <=? 57).
Definition is_lower (c : ascii) : bool := let n := nat_of_ascii c in (97 <=? n) && (n <=? 122).
Definition is_upper (c : ascii) : bool := let n := nat_of_ascii c in (65 <=? n) && (n <=? 90).
Definition to_lower (c : ascii) : ascii := if is_upper c then ascii_of_nat (nat_of_ascii c + 32) else c.
Fixpoint sanitize_chars (s : string) : string :=
  match s with
  | EmptyString => EmptyString
  | String c r => let c' := to_lower c in
                  if is_digit c' || is_lower c' || Ascii.eqb c' "_"%char
                  then String c' (sanitize_chars r) else sanitize_chars r
  end.
Definition sanitize (s : string) : string :=
  let t := sanitize_chars s in if String.eqb t "" then "_" else t.

Fixpoint all_digits (s : string) : bool :=
  match s with EmptyString => true | String c r => is_digit c && all_digits r end.
(* every proper extension step was forced: base ++ (proper prefix of suffix) is taken *)
Fixpoint forced_steps (existing : list string) (base suffix : string) : bool :=
  match suffix with
  | EmptyString => true
  | String c r => mem_str base existing && forced_steps existing (base ++ String c EmptyString)%string r
  end.
Definition drop_prefix (p s : string) : option string :=
  if String.prefix p s then Some (substring (String.length p) (String.length s - String.length p) s) else None.
Definition unique_name_ok (existing : list string) (base mapped : string) : bool :=
  match drop_prefix base mapped with
  | None => false
  | Some suf => all_digits suf && forced_steps existing base suf && negb (mem_str mapped existing)
  end.
Fixpoint valid_mapping_from (existing : list string) (names mapped : list string) : bool :=
  match names, mapped with
  | [], [] => true
  | n :: ns, m :: ms => unique_name_ok existing (sanitize n) m && valid_mapping_from (existing ++ [m]) ns ms
  | _, _ => false
  end.
(* identifiers the repaired __generate_mapping__ treats as taken from the start (RESERVED_NAMES in
   bayesnet/code_generator.py: keywords of Polar's language and symengine constants) *)
Definition reserved_names : list string :=
  ["if"; "elif"; "else"; "end"; "while"; "true"; "false"; "types"; "e"; "pi"; "oo"; "zoo"; "nan"; "inf"].
Definition valid_mapping (names mapped : list string) : bool := valid_mapping_from reserved_names names mapped.
(* the rule before the repair: nothing reserved *)
Definition valid_mapping_old_rule (names mapped : list string) : bool := valid_mapping_from [] names mapped.

(* ------------------------------------------------------------------ decidable equality
   (used by the correspondence check to compare the model's output with Polar's) *)
Definition gassign_eq_dec (a b : gassign) : {a = b} + {a <> b}.
Proof. decide equality; try apply Nat.eq_dec; try (apply list_eq_dec; first [apply Nat.eq_dec | apply Qc_eq_dec]). Defined.
Definition gstmt_eq_dec (a b : gstmt) : {a = b} + {a <> b}.
Proof.
  decide equality.
  - apply gassign_eq_dec.
  - decide equality. apply gassign_eq_dec.
  - apply list_eq_dec. decide equality.
    + apply gassign_eq_dec.
    + apply list_eq_dec. decide equality; apply Nat.eq_dec.
Defined.
Definition gprog_eq_dec (a b : gprog) : {a = b} + {a <> b}.
Proof.
  decide equality.
  - apply list_eq_dec, gstmt_eq_dec.
  - apply list_eq_dec. decide equality; apply Nat.eq_dec.
Defined.
Definition nvar_eq_dec (a b : nvar) : {a = b} + {a <> b}.
Proof.
  decide equality.
  - apply list_eq_dec. decide equality.
    + apply list_eq_dec, Qc_eq_dec.
    + apply list_eq_dec, Nat.eq_dec.
  - apply list_eq_dec, Nat.eq_dec.
  - apply list_eq_dec, string_dec.
  - apply string_dec.
Defined.
Definition opt_eqb {A} (dec : forall a b : A, {a = b} + {a <> b}) (x y : option A) : bool :=
  match x, y with
  | Some a, Some b => if dec a b then true else false
  | None, None => true
  | _, _ => false
  end.
Definition network_eqb : option network -> option network -> bool := opt_eqb (list_eq_dec nvar_eq_dec).
Definition gprog_eqb : option gprog -> option gprog -> bool := opt_eqb gprog_eq_dec.
Definition is_some {A} (o : option A) : bool := match o with Some _ => true | None => false end.

Lemma opt_eqb_true {A} dec (x y : option A) : opt_eqb dec x y = true -> x = y.
Proof.
  destruct x, y; simpl; try discriminate; auto.
  destruct (dec a a0); [congruence | discriminate].
Qed.
