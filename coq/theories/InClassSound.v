(* C18: soundness of the source-level value analysis behind [in_class] against the reference
   semantics Sem.run (no declared types): if the analysis converges to T, then after ANY number of
   iterations every variable typed by T holds one of its finitely many values — README restriction 1
   ("only assume finitely many values") holds semantically for those variables, in particular
   for every variable of the loop guard of an in-class program. *)
From Coq Require Import List String QArith Qcanon ZArith Bool Arith Lia.
From Polar Require Import Qcx Dist Syntax Sem Types Poly Graph InClass.
Import ListNotations.
Local Open Scope string_scope.
Local Open Scope list_scope.

(* every entry of the environment holds (stronger than [typed], which looks at the first entry) *)
Definition atyped (T : tenv) (s : state) : Prop := forall x vs, In (x, vs) T -> In (s x) vs.

Lemma tlookup_In T x vs : tlookup T x = Some vs -> In (x, vs) T.
Proof.
  induction T as [|[y ws] T IH]; simpl; intros H; [discriminate|].
  destruct (var_eqb x y) eqn:E.
  - apply String.eqb_eq in E. subst. injection H as <-. left; reflexivity.
  - right; auto.
Qed.
Lemma atyped_typed T s : atyped T s -> typed T s.
Proof. intros H x vs Hx. apply H. apply tlookup_In. exact Hx. Qed.

Lemma In_mem q vs : In q vs -> mem q vs = true.
Proof.
  induction vs as [|v vs IH]; simpl; intros H; [destruct H|].
  destruct H as [->|H]; [rewrite Qc_eqb_refl; reflexivity | rewrite (IH H); apply orb_true_r].
Qed.
Lemma dedup_In v vs : In v vs -> In v (dedup vs).
Proof.
  induction vs as [|a vs IH]; simpl; intros H; [destruct H|].
  destruct (mem a (dedup vs)) eqn:E.
  - destruct H as [<-|H]; [apply mem_In; exact E | apply IH; exact H].
  - destruct H as [<-|H]; [left; reflexivity | right; apply IH; exact H].
Qed.

Lemma expr_vals_sound T s e vs : atyped T s -> expr_vals T e = Some vs -> In (eval e s) vs.
Proof.
  intros HT H. unfold expr_vals in H.
  destruct (valuations all_vars T (nodup string_dec (vars_of e))) as [envs|] eqn:Ev; [|discriminate].
  destruct (Nat.leb (List.length envs) maxenv); [|discriminate].
  destruct (forallb small _); [|discriminate]. injection H as <-.
  apply dedup_In.
  apply (eval_set_sound all_vars T s e).
  - apply typed_all. apply atyped_typed. exact HT.
  - unfold eval_set. rewrite Ev. reflexivity.
Qed.

Section Sound.
  Variable law : string -> list Qc -> dist Qc.

  Lemma rhs_vals_sound T s r vs :
    atyped T s -> rhs_vals T r = Some vs -> forall v, supp (sample law r s) v -> In v vs.
  Proof.
    intros HT H v [w Hin]. destruct r as [alts|d]; cbn [rhs_vals sample] in *.
    - revert vs H Hin. induction alts as [|[p e] alts IH]; cbn [choice_vals map]; intros vs H Hin; [destruct Hin|].
      destruct (expr_vals T e) as [ve|] eqn:Ee; [|discriminate].
      destruct (choice_vals T alts) as [vr|] eqn:Er; [|discriminate].
      injection H as <-. apply in_or_app. destruct Hin as [Hin|Hin].
      + left. inversion Hin; subst. eapply expr_vals_sound; eauto.
      + right. apply (IH vr eq_refl Hin).
    - destruct d as [p|ps|a b|f args]; cbn [draw_law] in *; try discriminate.
      + injection H as <-. destruct Hin as [Hin|[Hin|[]]]; inversion Hin; subst; simpl; auto.
      + injection H as <-. rewrite <- (map_length (fun e => eval e s) ps). eapply cat_law_vals; eauto.
      + injection H as <-. eapply unif_law_vals; eauto.
  Qed.

  Lemma in_remove_var x T y vs : In (y, vs) (remove_var x T) -> In (y, vs) T /\ var_eqb y x = false.
  Proof.
    unfold remove_var. intros H. apply filter_In in H. destruct H as [H1 H2]. cbn [fst] in H2.
    split; [exact H1|]. destruct (var_eqb y x); [discriminate | reflexivity].
  Qed.

  Lemma aset_sound T s x o v :
    atyped T s -> (forall vs, o = Some vs -> In v vs) -> atyped (aset [] T x o) (upd s x v).
  Proof.
    intros HT Hv. unfold aset. cbn [mem_str existsb].
    assert (Hrem : atyped (remove_var x T) (upd s x v)).
    { intros y vs Hy. apply in_remove_var in Hy. destruct Hy as [Hy E]. unfold upd. rewrite E. apply HT; exact Hy. }
    destruct o as [vs|]; [|exact Hrem].
    destruct (Nat.leb (List.length (dedup vs)) maxv); [|exact Hrem].
    intros y ws [Heq|Hy].
    - injection Heq as <- <-. unfold upd, var_eqb. rewrite String.eqb_refl. apply dedup_In. apply Hv. reflexivity.
    - apply Hrem. exact Hy.
  Qed.

  Lemma ajoin_entry A B x u : In (x, u) (ajoin A B) ->
    exists va vb, In (x, va) A /\ tlookup B x = Some vb /\ u = dedup (va ++ vb).
  Proof.
    unfold ajoin. intros H. apply in_flat_map in H. destruct H as ([y va] & Hin & H). cbn [fst snd] in H.
    destruct (tlookup B y) as [vb|] eqn:EB; [|destruct H].
    destruct (Nat.leb _ maxv); [|destruct H].
    destruct H as [H|[]]. injection H as <- <-. exists va, vb. auto.
  Qed.
  Lemma ajoin_left A B s : atyped A s -> atyped (ajoin A B) s.
  Proof.
    intros HA x u H. destruct (ajoin_entry _ _ _ _ H) as (va & vb & Ha & _ & ->).
    apply dedup_In. apply in_or_app. left. apply HA; exact Ha.
  Qed.
  Lemma ajoin_right A B s : atyped B s -> atyped (ajoin A B) s.
  Proof.
    intros HB x u H. destruct (ajoin_entry _ _ _ _ H) as (va & vb & _ & Hb & ->).
    apply dedup_In. apply in_or_app. right. apply HB. apply tlookup_In; exact Hb.
  Qed.

  Lemma simult_sound T s l : atyped T s ->
    forall T' t s', atyped T' t -> supp (exec_simult law l s t) s' ->
      atyped (fold_left (fun T'' xr => aset [] T'' (fst xr) (rhs_vals T (snd xr))) l T') s'.
  Proof.
    intros HT. induction l as [|[x r] l IH]; intros T' t s' Ht Hs; cbn [exec_simult fold_left] in *.
    - apply supp_ret in Hs. subst. exact Ht.
    - apply supp_bind in Hs. destruct Hs as (v & Hv & Hs).
      apply (IH _ (upd t x v) s'); [|exact Hs]. cbn [fst snd].
      apply aset_sound; [exact Ht|]. intros vs Hvs. exact (rhs_vals_sound T s r vs HT Hvs v Hv).
  Qed.

  Definition stmt_ok (st : stmt) : Prop :=
    forall T s s', atyped T s -> supp (exec_stmt law st s) s' -> atyped (aexec_stmt [] st T) s'.
  Definition block_ok (b : block) : Prop :=
    forall T s s', atyped T s -> supp (exec_block law b s) s' -> atyped (aexec_block [] b T) s'.
  Definition branches_ok (bs : branches) : Prop :=
    forall T acc s,
      atyped T s ->
      (forall d, exec_branches law bs s = Some d -> forall s', supp d s' -> atyped (aexec_branches [] bs T acc) s')
      /\ (forall s', atyped acc s' -> atyped (aexec_branches [] bs T acc) s').

  (* unfolding equations of the mutual fixpoints (by computation) *)
  Lemma exec_if bs els s :
    exec_stmt law (SIf bs els) s = match exec_branches law bs s with Some d => d | None => exec_block law els s end.
  Proof. reflexivity. Qed.
  Lemma exec_cons st b s : exec_block law (BCons st b) s = bind (exec_stmt law st s) (exec_block law b).
  Proof. reflexivity. Qed.
  Lemma exec_brcons c b bs s :
    exec_branches law (BrCons c b bs) s = if holds c s then Some (exec_block law b s) else exec_branches law bs s.
  Proof. reflexivity. Qed.
  Lemma aexec_if L bs els T : aexec_stmt L (SIf bs els) T = aexec_branches L bs T (aexec_block L els T).
  Proof. reflexivity. Qed.
  Lemma aexec_cons L st b T : aexec_block L (BCons st b) T = aexec_block L b (aexec_stmt L st T).
  Proof. reflexivity. Qed.
  Lemma aexec_brcons L c b bs T acc :
    aexec_branches L (BrCons c b bs) T acc = aexec_branches L bs T (ajoin acc (aexec_block L b T)).
  Proof. reflexivity. Qed.

  Lemma exec_sound : (forall st, stmt_ok st) /\ (forall b, block_ok b) /\ (forall bs, branches_ok bs).
  Proof.
    apply stmt_block_branches_ind.
    - (* SAssign *)
      intros x r T s s' HT Hs. change (exec_stmt law (SAssign x r) s) with (bind (sample law r s) (fun v => ret (upd s x v))) in Hs.
      change (aexec_stmt [] (SAssign x r) T) with (aset [] T x (rhs_vals T r)).
      apply supp_bind in Hs. destruct Hs as (v & Hv & Hs). apply supp_ret in Hs. subst.
      apply aset_sound; [exact HT|]. intros vs Hvs. exact (rhs_vals_sound T s r vs HT Hvs v Hv).
    - (* SSimult *)
      intros l T s s' HT Hs. change (exec_stmt law (SSimult l) s) with (exec_simult law l s s) in Hs.
      change (aexec_stmt [] (SSimult l) T) with (fold_left (fun T'' xr => aset [] T'' (fst xr) (rhs_vals T (snd xr))) l T).
      eapply simult_sound; eauto.
    - (* SIf *)
      intros bs Hbs els Hels T s s' HT Hs. rewrite exec_if in Hs. rewrite aexec_if.
      destruct (Hbs T (aexec_block [] els T) s HT) as [H1 H2].
      destruct (exec_branches law bs s) as [d|] eqn:Ed.
      + apply (H1 d eq_refl). exact Hs.
      + apply H2. eapply Hels; eauto.
    - (* BNil *)
      intros T s s' HT Hs. change (exec_block law BNil s) with (ret s) in Hs. apply supp_ret in Hs. subst. exact HT.
    - (* BCons *)
      intros st Hst b Hb T s s' HT Hs. rewrite exec_cons in Hs. rewrite aexec_cons.
      apply supp_bind in Hs. destruct Hs as (s1 & H1 & H2).
      eapply Hb; [|exact H2]. eapply Hst; eauto.
    - (* BrNil *)
      intros T acc s HT. split; [intros d H; discriminate H | intros s' H; exact H].
    - (* BrCons *)
      intros c b Hb bs Hbs T acc s HT. rewrite exec_brcons, aexec_brcons.
      destruct (Hbs T (ajoin acc (aexec_block [] b T)) s HT) as [H1 H2].
      split.
      + intros d Hd s' Hs'. destruct (holds c s).
        * injection Hd as <-. apply H2. apply ajoin_right. eapply Hb; eauto.
        * eapply H1; eauto.
      + intros s' Hacc. apply H2. apply ajoin_left. exact Hacc.
  Qed.

  Lemma stable_sound T T' s : stable T T' = true -> atyped T' s -> atyped T s.
  Proof.
    unfold stable. rewrite forallb_forall. intros H HT' x vs Hin.
    specialize (H (x, vs) Hin). cbn [fst snd] in H.
    destruct (tlookup T' x) as [v'|] eqn:E; [|discriminate].
    apply (subset_In _ _ H). apply HT'. apply tlookup_In. exact E.
  Qed.

  Lemma afix_sound body fuel : forall T Tf,
    afix [] fuel body T = Some Tf ->
    (forall s, atyped T s -> atyped Tf s) /\
    (forall s s', atyped Tf s -> supp (exec_block law body s) s' -> atyped Tf s').
  Proof.
    induction fuel as [|f IH]; intros T Tf H; cbn [afix] in H; [discriminate|].
    destruct (stable T (ajoin T (aexec_block [] body T))) eqn:Es.
    - injection H as <-. split; [auto|].
      intros s s' HT Hs. apply (stable_sound _ _ _ Es). apply ajoin_right.
      eapply (proj1 (proj2 exec_sound)); eauto.
    - destruct (IH _ _ H) as [H1 H2]. split; [|exact H2].
      intros s HT. apply H1. apply ajoin_left. exact HT.
  Qed.

  (* the loop-head invariant: every state after n iterations (guard true or false, frozen or not)
     is typed by the environment the analysis converged to *)
  Lemma loop_env_sound_atyped p T :
    loop_env p [] = Some T ->
    forall n s0 s, supp (run law p n s0) s -> atyped T s.
  Proof.
    unfold loop_env. cbn [map]. intros H n s0 s Hs.
    destruct (afix_sound _ _ _ _ H) as [H1 H2].
    revert s Hs. induction n as [|n IHn]; intros s Hs; cbn [run] in Hs.
    - apply H1. eapply (proj1 (proj2 exec_sound)); [|exact Hs]. intros x vs [].
    - apply supp_bind in Hs. destruct Hs as (s1 & Hs1 & Hs).
      unfold iter in Hs. destruct (holds (p_guard p) s1).
      + eapply H2; eauto.
      + apply supp_ret in Hs. subst. apply IHn. exact Hs1.
  Qed.

  Theorem loop_env_sound p T :
    loop_env p [] = Some T ->
    forall n s0 s, supp (run law p n s0) s -> typed T s.
  Proof. intros H n s0 s Hs. apply atyped_typed. eapply loop_env_sound_atyped; eauto. Qed.
End Sound.

(* README restriction 1 for the guard of an in-class program: the atoms of the guard only ever see
   finitely many values — each side difference a - b ranges over an explicit finite list *)
Fixpoint cond_atoms (c : cond) : list (expr * expr) :=
  match c with
  | CTrue | CFalse => []
  | CAtom a _ b => [(a, b)]
  | CNot c1 => cond_atoms c1
  | CAnd c1 c2 | COr c1 c2 => cond_atoms c1 ++ cond_atoms c2
  end.

Lemma cond_ok_atoms T c : cond_ok T c = true ->
  forall a b, In (a, b) (cond_atoms c) -> exists vs, expr_vals T (ESub a b) = Some vs.
Proof.
  induction c as [| |a o b|c1 IH|c1 IH1 c2 IH2|c1 IH1 c2 IH2]; cbn [cond_ok cond_atoms]; intros H a' b' Hin;
    try (destruct Hin; fail).
  - destruct Hin as [Heq|[]]. injection Heq as <- <-.
    destruct (expr_vals T (ESub a b)) as [vs|]; [exists vs; reflexivity | discriminate].
  - apply IH; assumption.
  - apply andb_true_iff in H. destruct H as [Ha Hb]. apply in_app_or in Hin. destruct Hin; [apply IH1 | apply IH2]; assumption.
  - apply andb_true_iff in H. destruct H as [Ha Hb]. apply in_app_or in Hin. destruct Hin; [apply IH1 | apply IH2]; assumption.
Qed.

Theorem in_class_guard_finitely_valued law p :
  in_class p [] = true ->
  forall a b, In (a, b) (cond_atoms (p_guard p)) ->
  exists vs : list Qc, forall n s0 s, supp (run law p n s0) s -> In (eval (ESub a b) s) vs.
Proof.
  intros H a b Hin. destruct (proj1 (in_class_unfold p []) H) as (_ & _ & T & HT & Hc & _).
  unfold conditions_finite in Hc. apply andb_true_iff in Hc. destruct Hc as [Hg _].
  destruct (cond_ok_atoms T _ Hg a b Hin) as [vs Hvs].
  exists vs. intros n s0 s Hs.
  apply (expr_vals_sound T s (ESub a b) vs); [|exact Hvs].
  exact (loop_env_sound_atyped law p T HT n s0 s Hs).
Qed.
