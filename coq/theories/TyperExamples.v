(* C05 / typer model: the companion results of TyperSound.v —
   - with a dropped default (the rule of Assignment.get_support before repo commit cee80d2:
     the default is left out whenever the condition is implied by the loop guard) the result of
     the algorithm is NOT sound: a concrete flat program, the types the model infers under that
     rule, and a reachable state outside them;
   - the single-assignment precondition of the typer is necessary;
   - non-vacuity examples evaluated by vm_compute. *)
From Coq Require Import List String QArith Qcanon ZArith Bool.
From Polar Require Import Qcx Dist Syntax Sem Types Typer TyperSound.
Import ListNotations.
Open Scope string_scope.

Definition qe (n : Z) : expr := EConst (mkq n 1).
Definition det (x : var) (e : expr) : gassign :=
  {| ga_var := x; ga_cond := CTrue; ga_default := x; ga_rhs := RDet e |}.

(* Polar's flat form of   x = 5; c = 0; while c == 0: x = 1; x = x + 1; c = Bernoulli(1/2)   *)
Definition fpW : flatprog :=
  {| fp_init := [det "x" (qe 5); det "c" (qe 0)];
     fp_body := [det "_old0" (EVar "c");
                 {| ga_var := "_x1"; ga_cond := CAtom (EVar "_old0") Ceq (qe 0); ga_default := "x"; ga_rhs := RDet (qe 1) |};
                 {| ga_var := "x"; ga_cond := CAtom (EVar "_old0") Ceq (qe 0); ga_default := "_x1";
                    ga_rhs := RDet (EAdd (qe 1) (EVar "_x1")) |};
                 {| ga_var := "c"; ga_cond := CAtom (EVar "_old0") Ceq (qe 0); ga_default := "c";
                    ga_rhs := RDraw (DBern (EConst (mkq 1 2))) |}] |}.
(* Condition.is_implied_by_loop_guard() of the four assignments, as dumped by the worker *)
Definition implW : list bool := [true; true; true; true].
Definition s0W : state := fun x => if var_eqb x "_x1" then mkq 1 1 else mkq 0 1.
Definition TW : tenv :=
  match typer_run tp_default [] fpW [] implW (drops_old (fp_body fpW) implW) with Some T => T | None => [] end.

Lemma typed_of_forallb T s : forallb (fun xt : var * list Qc => mem (s (fst xt)) (snd xt)) T = true -> typed T s.
Proof.
  intros H x vs Hx. rewrite forallb_forall in H.
  assert (Hin : In (x, vs) T).
  { clear - Hx. induction T as [|[y ws] T IH]; cbn [tlookup] in Hx; [discriminate|].
    destruct (var_eqb x y) eqn:E; [apply String.eqb_eq in E; subst; injection Hx as <-; left; reflexivity | right; auto]. }
  apply mem_In. apply (H (x, vs) Hin).
Qed.

Theorem typer_run_dropped_default_refuted :
  exists fp implied T s0 n s,
    typer_run tp_default [] fp [] implied (drops_old (fp_body fp) implied) = Some T /\
    body_single fp = true /\ init_ok fp T s0 /\
    supp (frun no_law fp n s0) s /\ ~ typed T s.
Proof.
  assert (Hrun : typer_run tp_default [] fpW [] implW (drops_old (fp_body fpW) implW) = Some TW).
  { unfold TW. destruct (typer_run tp_default [] fpW [] implW (drops_old (fp_body fpW) implW)) eqn:E; [reflexivity|].
    exfalso. vm_compute in E. discriminate E. }
  assert (Hbad : existsb (fun ws : Qc * state =>
                            negb (match tlookup TW "_x1" with Some vs => mem (snd ws "_x1") vs | None => true end))
                         (frun no_law fpW 2 s0W) = true) by (vm_compute; reflexivity).
  apply existsb_exists in Hbad. destruct Hbad as [[w s] [Hin Hs]]. cbn [snd] in Hs.
  exists fpW, implW, TW, s0W, 2%nat, s. split; [exact Hrun|]. split; [vm_compute; reflexivity|]. split; [|split].
  - unfold init_ok. apply typed_of_forallb. vm_compute. reflexivity.
  - exists w. exact Hin.
  - intros Ht. destruct (tlookup TW "_x1") as [vs|] eqn:E; [|discriminate Hs].
    rewrite (mem_complete _ _ (Ht "_x1" vs E)) in Hs. discriminate Hs.
Qed.

(* the same program under the rule of the current code is covered by the theorem *)
Example typer_witness_current_rule :
  let drops := drops_current (fp_body fpW) implW in
  drops_harmless (fp_body fpW) drops = true /\
  match typer_run tp_default [] fpW [] implW drops with
  | Some T => tenv_eqb T [("c", [mkq 0 1; mkq 1 1]); ("_old0", [mkq 0 1; mkq 1 1])] && check_types fpW T
  | None => false
  end = true.
Proof. split; vm_compute; reflexivity. Qed.

(* the typer assumes one assignment per variable in the loop body; without it the second
   assignment resets has_changed and the result is not a post-fixpoint *)
Definition fp_twice : flatprog :=
  {| fp_init := [det "x" (qe 0)];
     fp_body := [det "x" (EAdd (EVar "x") (qe 1)); det "x" (EVar "x")] |}.
Example typer_single_assignment_needed :
  body_single fp_twice = false /\
  match typer_run tp_default [] fp_twice [] [true; true] [false; false] with
  | Some T => tenv_eqb T [("x", [mkq 0 1; mkq 1 1])] && negb (check_types fp_twice T)
  | None => false
  end = true.
Proof. split; vm_compute; reflexivity. Qed.

(* ---- non-vacuity ---- *)
(* the budget phase converges:  x = 0; y = 0; while true: x = 1 - x; y = x + 2 *)
Definition fp_conv : flatprog :=
  {| fp_init := [det "x" (qe 0); det "y" (qe 0)];
     fp_body := [det "x" (EAdd (qe 1) (EMul (qe (-1)) (EVar "x"))); det "y" (EAdd (EVar "x") (qe 2))] |}.
Example typer_converges :
  typer_matches tp_default [] fp_conv [] [true; true] [false; false]
                [("x", [mkq 0 1; mkq 1 1]); ("y", [mkq 0 1; mkq 2 1; mkq 3 1])] = true /\
  typer_cascade_rounds tp_default [] fp_conv [] [true; true] [false; false] = 0%nat /\
  body_single fp_conv = true /\ drops_harmless (fp_body fp_conv) [false; false] = true /\
  check_types fp_conv [("x", [mkq 0 1; mkq 1 1]); ("y", [mkq 0 1; mkq 2 1; mkq 3 1])] = true.
Proof. repeat split; vm_compute; reflexivity. Qed.

(* the cascade is needed:  x = 0; y = 0; z = 0; while true: y = x; x = x + 1; z = 1 - z  with a
   budget of 3 rounds: x and its copy y still change and are failed by the cascade *)
Definition fp_casc : flatprog :=
  {| fp_init := [det "x" (qe 0); det "y" (qe 0); det "z" (qe 0)];
     fp_body := [det "y" (EVar "x"); det "x" (EAdd (EVar "x") (qe 1));
                 det "z" (EAdd (qe 1) (EMul (qe (-1)) (EVar "z")))] |}.
Definition tp3 : tparams := {| tp_iters := 3; tp_max := 25; tp_rev := false |}.
Example typer_cascade :
  typer_matches tp3 [] fp_casc [] [true; true; true] [false; false; false] [("z", [mkq 0 1; mkq 1 1])] = true /\
  typer_cascade_rounds tp3 [] fp_casc [] [true; true; true] [false; false; false] = 1%nat /\
  body_single fp_casc = true /\ check_types fp_casc [("z", [mkq 0 1; mkq 1 1])] = true.
Proof. repeat split; vm_compute; reflexivity. Qed.

(* with Polar's default budget the counter fails inside the budget phase (26 values) *)
Example typer_counter_default_budget :
  typer_matches tp_default [] fp_casc [] [true; true; true] [false; false; false] [("z", [mkq 0 1; mkq 1 1])] = true /\
  typer_cascade_rounds tp_default [] fp_casc [] [true; true; true] [false; false; false] = 0%nat.
Proof. split; vm_compute; reflexivity. Qed.

(* a chain of readers  c = b; b = a; a = x; x = x + 1  (in this order) with a budget of 2 rounds:
   the cascade fails x and a, then b (reads the failed a), then c: several cascade rounds *)
Definition fp_chain : flatprog :=
  {| fp_init := [det "x" (qe 0); det "a" (qe 0); det "b" (qe 0); det "c" (qe 0); det "k" (qe 0)];
     fp_body := [det "c" (EVar "b"); det "b" (EVar "a"); det "a" (EVar "x"); det "x" (EAdd (EVar "x") (qe 1));
                 {| ga_var := "k"; ga_cond := CTrue; ga_default := "k"; ga_rhs := RDraw (DBern (EConst (mkq 1 2))) |}] |}.
Definition tp2 : tparams := {| tp_iters := 2; tp_max := 25; tp_rev := false |}.
Example typer_cascade_chain :
  typer_matches tp2 [] fp_chain [] [true; true; true; true; true] [false; false; false; false; false]
                [("k", [mkq 0 1; mkq 1 1])] = true /\
  typer_cascade_rounds tp2 [] fp_chain [] [true; true; true; true; true] [false; false; false; false; false] = 3%nat.
Proof. split; vm_compute; reflexivity. Qed.
