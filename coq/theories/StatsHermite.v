(* StatsHermite.v — probabilists' Hermite polynomials, the Gaussian moment functional and
   the Gram-Charlier shape, algebraically over Qc.
   Polynomials are coefficient lists (computable: compared with Polar's prob_hermite_poly by
   the harness); proofs go through their coefficient sequences and the power-series lemmas
   of StatsFps.v (Cauchy product = polynomial product, derivative, Leibniz rule).
   The Gaussian functional is DEFINED by the moments E z^k = (k-1)!! (k even), 0 (k odd),
   i.e. by m_0 = 1, m_1 = 0, m_{k+2} = (k+1) m_k  (the Normal moment recurrence of C08). *)
From Coq Require Import List ZArith QArith Qcanon Lia Arith Bool Field.
From Polar Require Import Qcx Stats StatsFps.
Import ListNotations.
Local Open Scope Qc_scope.

Definition poly := list Qc.
Definition coef (p : poly) : seqc := fun i => nth i p 0.

Fixpoint padd (p q : poly) : poly :=
  match p, q with
  | [], _ => q
  | _, [] => p
  | a :: p', b :: q' => (a + b) :: padd p' q'
  end.
Definition pscal (c : Qc) (p : poly) : poly := map (Qcmult c) p.
Definition psub (p q : poly) : poly := padd p (pscal (- (1)) q).
Fixpoint pmul (p q : poly) : poly :=
  match p with [] => [] | a :: p' => padd (pscal a q) (0 :: pmul p' q) end.

(* Gaussian moments and functional *)
Fixpoint gmom (k : nat) : Qc :=
  match k with
  | O => 1
  | S O => 0
  | S (S j as k') => nq k' * gmom j
  end.
Fixpoint gauss_from (k : nat) (p : poly) : Qc :=
  match p with [] => 0 | a :: p' => a * gmom k + gauss_from (S k) p' end.
Definition gauss (p : poly) : Qc := gauss_from 0 p.

(* He_0 = 1, He_1 = z, He_{n+1} = z He_n - n He_{n-1} *)
Fixpoint hermite_pair (n : nat) : poly * poly :=
  match n with
  | O => ([1], [])
  | S m => let hp := hermite_pair m in (psub (0 :: fst hp) (pscal (nq m) (snd hp)), fst hp)
  end.
Definition hermite (n : nat) : poly := fst (hermite_pair n).

(* Gram-Charlier polynomial factor 1 + sum_{i=3..K} c_i He_i *)
Definition gc_poly (c : nat -> Qc) (K : nat) : poly :=
  fold_right (fun i acc => padd (pscal (c i) (hermite i)) acc) [1] (pyrange 3 (K + 1)).

(* ------------------------------------------------------------------------------------ *)
(** * coefficients                                                                     *)
(* ------------------------------------------------------------------------------------ *)

Lemma coef_nil i : coef [] i = 0. Proof. destruct i; reflexivity. Qed.
Lemma coef_cons_0 a p : coef (a :: p) O = a. Proof. reflexivity. Qed.
Lemma coef_cons_S a p i : coef (a :: p) (S i) = coef p i. Proof. reflexivity. Qed.

Lemma coef_padd p : forall q i, coef (padd p q) i = coef p i + coef q i.
Proof.
  induction p as [|a p IH]; intros q i.
  - cbn [padd]. rewrite coef_nil. ring.
  - destruct q as [|b q]; cbn [padd].
    + rewrite coef_nil. ring.
    + destruct i as [|i]; [reflexivity|]. rewrite !coef_cons_S. apply IH.
Qed.
Lemma coef_pscal c p : forall i, coef (pscal c p) i = c * coef p i.
Proof.
  induction p as [|a p IH]; intros i.
  - change (pscal c []) with (@nil Qc). rewrite coef_nil. ring.
  - destruct i as [|i]; [reflexivity|]. cbn [pscal map]. rewrite !coef_cons_S. apply IH.
Qed.
Lemma coef_psub p q i : coef (psub p q) i = coef p i - coef q i.
Proof. unfold psub. rewrite coef_padd, coef_pscal. ring. Qed.

Definition Xs (a : seqc) : seqc := fun i => match i with O => 0 | S j => a j end.
Lemma coef_shift p i : coef (0 :: p) i = Xs (coef p) i.
Proof. destruct i; reflexivity. Qed.

Lemma conv_Xs a b n : conv (Xs a) b n = Xs (conv a b) n.
Proof.
  destruct n as [|n].
  - unfold conv. cbn [seq]. rewrite bigsum_cons, bigsum_nil. cbn [Xs]. rewrite Qcmult_0_l, Qcplus_0_l. reflexivity.
  - rewrite conv_head. cbn [Xs]. rewrite Qcmult_0_l, Qcplus_0_l. reflexivity.
Qed.

Lemma coef_pmul p : forall q n, coef (pmul p q) n = conv (coef p) (coef q) n.
Proof.
  induction p as [|a p IH]; intros q n.
  - cbn [pmul]. rewrite coef_nil. symmetry. apply conv_low. intros; apply coef_nil.
  - cbn [pmul]. rewrite coef_padd, coef_pscal, coef_shift.
    destruct n as [|n].
    + unfold conv. cbn [seq]. rewrite bigsum_cons, bigsum_nil. cbn [Xs coef nth Nat.sub]. ring.
    + rewrite conv_head. cbn [Xs]. rewrite IH. rewrite coef_cons_0. reflexivity.
Qed.

(* ------------------------------------------------------------------------------------ *)
(** * the functional on sequences with finite support                                  *)
(* ------------------------------------------------------------------------------------ *)

Definition supp (N : nat) (a : seqc) : Prop := forall i, (N <= i)%nat -> a i = 0.
Definition Gs (N : nat) (a : seqc) : Qc := bigsum (seq 0 N) (fun i => a i * gmom i).

Lemma Gs_ext N a b : (forall i, (i < N)%nat -> a i = b i) -> Gs N a = Gs N b.
Proof. intros H. apply bigsum_ext. intros i Hi. apply in_seq in Hi. rewrite H by lia. reflexivity. Qed.

Lemma Gs_mono N M a : supp N a -> (N <= M)%nat -> Gs M a = Gs N a.
Proof.
  intros HS. induction M as [|M IH]; intros H.
  - replace N with O by lia. reflexivity.
  - destruct (Nat.eq_dec N (S M)) as [->|NE]; [reflexivity|].
    transitivity (Gs M a + a M * gmom M).
    { unfold Gs. rewrite seq_S, bigsum_app, bigsum_cons, bigsum_nil. cbn [Nat.add]. ring. }
    rewrite (HS M) by lia. rewrite IH by lia. ring.
Qed.

Lemma Gs_add N a b : Gs N (fun i => a i + b i) = Gs N a + Gs N b.
Proof. unfold Gs. rewrite <- bigsum_add. apply bigsum_ext. intros; ring. Qed.
Lemma Gs_scal N c a : Gs N (fun i => c * a i) = c * Gs N a.
Proof. unfold Gs. rewrite <- bigsum_scal. apply bigsum_ext. intros; ring. Qed.
Lemma Gs_zero N a : (forall i, a i = 0) -> Gs N a = 0.
Proof. intros H. apply bigsum_single. intros i _. rewrite H. ring. Qed.

Lemma gauss_from_sum p : forall k,
  gauss_from k p = bigsum (seq 0 (length p)) (fun i => coef p i * gmom (k + i)).
Proof.
  induction p as [|a p IH]; intros k; [reflexivity|].
  cbn [gauss_from length]. rewrite bigsum_seq_first. rewrite Nat.add_0_r, coef_cons_0. f_equal.
  rewrite IH. apply bigsum_ext. intros i _. rewrite coef_cons_S. f_equal. f_equal. lia.
Qed.

Lemma supp_coef p : supp (length p) (coef p).
Proof. intros i Hi. unfold coef. apply nth_overflow. exact Hi. Qed.

Lemma gauss_Gs p N : (length p <= N)%nat -> gauss p = Gs N (coef p).
Proof.
  intros H. rewrite (Gs_mono (length p) N) by (try apply supp_coef; exact H).
  unfold gauss. rewrite gauss_from_sum. reflexivity.
Qed.

(* gauss only depends on the coefficients *)
Lemma gauss_peq p q : (forall i, coef p i = coef q i) -> gauss p = gauss q.
Proof.
  intros H. rewrite (gauss_Gs p (max (length p) (length q))) by lia.
  rewrite (gauss_Gs q (max (length p) (length q))) by lia. apply Gs_ext. intros; apply H.
Qed.

(* Stein's identity  G[z a] = G[a']  for the moment functional (exact, any truncation) *)
Lemma stein N a : Gs (S (S N)) (Xs a) = Gs N (sD a).
Proof.
  unfold Gs. rewrite bigsum_seq_first. cbn [Xs]. rewrite Qcmult_0_l, Qcplus_0_l.
  rewrite bigsum_seq_first. cbn [gmom]. rewrite Qcmult_0_r, Qcplus_0_l.
  apply bigsum_ext. intros i _. unfold sD. cbn [gmom]. ring.
Qed.

Lemma supp_weaken N M a : supp N a -> (N <= M)%nat -> supp M a.
Proof. intros H L i Hi. apply H. lia. Qed.
Lemma supp_sD N a : supp N a -> supp N (sD a).
Proof. intros H i Hi. unfold sD. rewrite H by lia. ring. Qed.
Lemma supp_Xs N a : supp N a -> supp (S N) (Xs a).
Proof. intros H [|i] Hi; [lia|]. cbn [Xs]. apply H. lia. Qed.
Lemma supp_conv Na Nb a b : supp Na a -> supp Nb b -> supp (Na + Nb) (conv a b).
Proof.
  intros Ha Hb i Hi. apply bigsum_single. intros j Hj. apply in_seq in Hj.
  destruct (le_lt_dec Na j) as [L|L]; [rewrite Ha by exact L; ring|].
  rewrite (Hb (i - j)%nat) by lia. ring.
Qed.

(* ------------------------------------------------------------------------------------ *)
(** * Hermite sequences                                                                *)
(* ------------------------------------------------------------------------------------ *)

Definition hs (n : nat) : seqc := coef (hermite n).
Definition ps (n : nat) : seqc := coef (snd (hermite_pair n)).   (* He_{n-1}, 0 for n = 0 *)

Lemma ps_S n i : ps (S n) i = hs n i. Proof. reflexivity. Qed.
Lemma ps_0 i : ps 0 i = 0. Proof. unfold ps. cbn. apply coef_nil. Qed.
Lemma hs_0 i : hs 0 i = sone i.
Proof. unfold hs. cbn. destruct i as [|[|i]]; reflexivity. Qed.

Lemma hs_rec n i : hs (S n) i = Xs (hs n) i - nq n * ps n i.
Proof.
  unfold hs at 1. unfold hermite. cbn [hermite_pair fst]. rewrite coef_psub, coef_shift, coef_pscal. reflexivity.
Qed.

Lemma sD_Xs a i : sD (Xs a) i = a i + Xs (sD a) i.
Proof.
  unfold sD. destruct i as [|i]; cbn [Xs].
  - replace (nq 1) with 1 by reflexivity. ring.
  - rewrite (nq_S (S i)). ring.
Qed.

(* Appell property: He_n' = n He_{n-1} *)
Lemma appell_pair : forall n, (forall i, sD (hs n) i = nq n * ps n i)
                              /\ (forall i, sD (hs (S n)) i = nq (S n) * ps (S n) i).
Proof.
  assert (step : forall n, (forall i, sD (hs n) i = nq n * ps n i) ->
                           (forall i, sD (ps n) i = nq (n - 1) * ps (n - 1) i) ->
                           forall i, sD (hs (S n)) i = nq (S n) * ps (S n) i).
  { intros n A B i.
    assert (E : sD (hs (S n)) i = sD (Xs (hs n)) i - nq n * sD (ps n) i).
    { unfold sD. rewrite hs_rec. ring. }
    rewrite E, sD_Xs, B. change (ps (S n) i) with (hs n i).
    assert (E2 : Xs (sD (hs n)) i = nq n * Xs (ps n) i).
    { destruct i as [|i]; cbn [Xs]; [ring | apply A]. }
    rewrite E2. destruct n as [|n].
    - rewrite nq_0. replace (nq 1) with 1 by reflexivity. ring.
    - cbn [Nat.sub]. rewrite Nat.sub_0_r. change (ps (S n)) with (hs n). rewrite (hs_rec n i).
      rewrite (nq_S (S n)). ring. }
  induction n as [|n [IH0 IH1]].
  - assert (A0 : forall i, sD (hs 0) i = nq 0 * ps 0 i).
    { intros i. unfold sD. rewrite hs_0. cbn [sone]. rewrite nq_0. ring. }
    split; [exact A0|]. apply step; [exact A0|]. intros i. unfold sD. rewrite !ps_0. ring.
  - split; [exact IH1|]. apply step; [exact IH1|].
    intros i. cbn [Nat.sub]. rewrite Nat.sub_0_r. unfold sD. rewrite !ps_S. apply IH0.
Qed.

Lemma appell n i : sD (hs (S n)) i = nq (S n) * hs n i.
Proof. destruct (appell_pair n) as [_ H]. rewrite H, ps_S. reflexivity. Qed.
Lemma appell_gen n i : sD (hs n) i = nq n * ps n i.
Proof. destruct (appell_pair n) as [H _]. apply H. Qed.

Lemma supp_hs_ps : forall n, supp (S n) (hs n) /\ supp n (ps n).
Proof.
  induction n as [|n [IH1 IH2]].
  - split; intros i Hi; [rewrite hs_0; destruct i; [lia | reflexivity] | apply ps_0].
  - split.
    + intros i Hi. rewrite hs_rec. rewrite (supp_Xs _ _ IH1) by lia. rewrite IH2 by lia. ring.
    + intros i Hi. rewrite ps_S. apply IH1. exact Hi.
Qed.
Lemma supp_hs n : supp (S n) (hs n). Proof. apply supp_hs_ps. Qed.

(* G[He_{n+1} q] = G[He_n q'] *)
Lemma hermite_step n d q N : supp d q -> (n + d + 3 <= N)%nat ->
  Gs N (conv (hs (S n)) q) = Gs N (conv (hs n) (sD q)).
Proof.
  intros Hq HN.
  assert (E1 : Gs N (conv (hs (S n)) q) = Gs N (Xs (conv (hs n) q)) - nq n * Gs N (conv (ps n) q)).
  { unfold Qcminus. rewrite <- Gs_scal.
    rewrite <- (Gs_scal N (- (1)) (fun i => nq n * conv (ps n) q i)) || idtac.
    transitivity (Gs N (fun i => Xs (conv (hs n) q) i + (- (nq n)) * conv (ps n) q i)).
    - apply Gs_ext. intros i _. rewrite <- conv_Xs.
      rewrite <- (conv_scal_l (- nq n) (ps n) q i). rewrite <- conv_add_l.
      apply conv_ext; [|reflexivity]. intros j _. unfold sadd, sscal. rewrite hs_rec. ring.
    - rewrite Gs_add, Gs_scal. rewrite Gs_scal. ring. }
  rewrite E1. clear E1.
  set (a := conv (hs n) q).
  assert (Sa : supp (S n + d) a) by (apply supp_conv; [apply supp_hs | exact Hq]).
  (* Stein at a truncation M with S (S M) = N *)
  destruct N as [|[|M]]; try lia.
  rewrite stein.
  assert (EM : Gs M (sD a) = Gs (S (S M)) (sD a)).
  { rewrite (Gs_mono (S n + d) M (sD a)) by (try (apply supp_sD; exact Sa); lia).
    rewrite (Gs_mono (S n + d) (S (S M)) (sD a)) by (try (apply supp_sD; exact Sa); lia). reflexivity. }
  rewrite EM. clear EM.
  (* Leibniz + Appell *)
  assert (E2 : Gs (S (S M)) (sD a) = nq n * Gs (S (S M)) (conv (ps n) q) + Gs (S (S M)) (conv (hs n) (sD q))).
  { rewrite <- Gs_scal, <- Gs_add. apply Gs_ext. intros i _. unfold a. rewrite sD_conv. f_equal.
    rewrite <- conv_scal_l. apply conv_ext; [|reflexivity]. intros j _. unfold sscal. apply appell_gen. }
  rewrite E2. ring.
Qed.

Fixpoint sDn (k : nat) (a : seqc) : seqc := match k with O => a | S k' => sDn k' (sD a) end.

Lemma supp_sDn k : forall d a, supp d a -> supp d (sDn k a).
Proof. induction k as [|k IH]; intros d a H; [exact H|]. cbn [sDn]. apply IH. apply supp_sD. exact H. Qed.

(* G[He_n q] = G[q^(n)] *)
Lemma hermite_reduce n : forall d q N, supp d q -> (n + d + 3 <= N)%nat ->
  Gs N (conv (hs n) q) = Gs N (sDn n q).
Proof.
  induction n as [|n IH]; intros d q N Hq HN.
  - cbn [sDn]. apply Gs_ext. intros i _.
    rewrite (conv_ext (hs 0) sone q q i) by (intros; try apply hs_0; reflexivity). apply conv_one_l.
  - rewrite (hermite_step n d q N Hq) by lia. cbn [sDn]. apply (IH d); [apply supp_sD; exact Hq | lia].
Qed.

(* derivatives kill low degree: supp n q -> q^(n) = 0 *)
Lemma sDn_low n : forall q, supp n q -> forall i, sDn n q i = 0.
Proof.
  induction n as [|n IH]; intros q H i.
  - cbn [sDn]. apply H. lia.
  - cbn [sDn]. apply IH. intros j Hj. unfold sD. rewrite H by lia. ring.
Qed.

Lemma sDn_ext k : forall a b, (forall i, a i = b i) -> forall i, sDn k a i = sDn k b i.
Proof.
  induction k as [|k IH]; intros a b H i; [apply H|]. cbn [sDn]. apply IH. intros j. unfold sD. rewrite H. reflexivity.
Qed.
Lemma sDn_scal k : forall c a i, sDn k (fun j => c * a j) i = c * sDn k a i.
Proof.
  induction k as [|k IH]; intros c a i; [reflexivity|]. cbn [sDn].
  rewrite (sDn_ext k (sD (fun j => c * a j)) (fun j => c * sD a j)) by (intros; unfold sD; ring). apply IH.
Qed.

(* He_n^(n) = n! *)
Lemma sDn_hs n : forall i, sDn n (hs n) i = factq n * sone i.
Proof.
  induction n as [|n IH]; intros i.
  - cbn [sDn]. rewrite hs_0, factq_0. ring.
  - cbn [sDn]. rewrite (sDn_ext n (sD (hs (S n))) (fun j => nq (S n) * hs n j)) by (intros; apply appell).
    rewrite sDn_scal, IH, factq_S. ring.
Qed.

(* ------------------------------------------------------------------------------------ *)
(** * list-level theorems                                                              *)
(* ------------------------------------------------------------------------------------ *)

Lemma gauss_pmul_conv p q N : (length (pmul p q) <= N)%nat ->
  gauss (pmul p q) = Gs N (conv (coef p) (coef q)).
Proof. intros H. rewrite (gauss_Gs _ N H). apply Gs_ext. intros; apply coef_pmul. Qed.

Theorem hermite_orth_low n q : (length q <= n)%nat -> gauss (pmul (hermite n) q) = 0.
Proof.
  intros H. set (N := max (length (pmul (hermite n) q)) (n + length q + 3)).
  rewrite (gauss_pmul_conv _ _ N) by lia. fold (hs n).
  rewrite (hermite_reduce n (length q) (coef q) N) by (try apply supp_coef; lia).
  apply Gs_zero. apply sDn_low. apply (supp_weaken (length q)); [apply supp_coef | exact H].
Qed.

Theorem hermite_norm n : gauss (pmul (hermite n) (hermite n)) = factq n.
Proof.
  set (N := max (length (pmul (hermite n) (hermite n))) (n + S n + 3)).
  rewrite (gauss_pmul_conv _ _ N) by lia. fold (hs n).
  rewrite (hermite_reduce n (S n) (hs n) N) by (try apply supp_hs; lia).
  rewrite (Gs_ext N _ (fun i => factq n * sone i)) by (intros; apply sDn_hs).
  rewrite Gs_scal. unfold N. clear N.
  assert (E : forall M, Gs (S M) sone = 1).
  { intros M. unfold Gs. rewrite bigsum_seq_first. cbn [sone gmom].
    rewrite bigsum_single by (intros; cbn [sone]; ring). ring. }
  destruct (max (length (pmul (hermite n) (hermite n))) (n + S n + 3)) eqn:EM; [lia|]. rewrite E. ring.
Qed.

(* the sequence version, for any q of degree < n *)
Lemma hermite_orth_seq n q d N : supp d q -> (d <= n)%nat -> (n + d + 3 <= N)%nat ->
  Gs N (conv (hs n) q) = 0.
Proof.
  intros Hq Hd HN. rewrite (hermite_reduce n d q N Hq HN). apply Gs_zero. apply sDn_low.
  apply (supp_weaken d); assumption.
Qed.

Theorem hermite_orthogonal i j : i <> j -> gauss (pmul (hermite i) (hermite j)) = 0.
Proof.
  intros NE. set (N := max (length (pmul (hermite i) (hermite j))) (i + j + 5)).
  rewrite (gauss_pmul_conv _ _ N) by lia. fold (hs i) (hs j).
  destruct (lt_dec j i) as [L|L].
  - apply (hermite_orth_seq i (hs j) (S j) N); [apply supp_hs | lia | lia].
  - rewrite (Gs_ext N _ (conv (hs j) (hs i))) by (intros; apply conv_comm).
    apply (hermite_orth_seq j (hs i) (S i) N); [apply supp_hs | lia | lia].
Qed.

(* ---- Gram-Charlier shape ---- *)
Definition gcs (c : nat -> Qc) (l : list nat) : seqc :=
  fun n => sone n + bigsum l (fun i => c i * hs i n).

Lemma coef_gc_fold c l n :
  coef (fold_right (fun i acc => padd (pscal (c i) (hermite i)) acc) [1] l) n = gcs c l n.
Proof.
  unfold gcs. induction l as [|i l IH]; cbn [fold_right].
  - rewrite bigsum_nil. destruct n as [|[|n]]; cbn; ring.
  - rewrite coef_padd, coef_pscal, IH, bigsum_cons. unfold hs. ring.
Qed.

Lemma conv_gcs q c l n :
  conv q (gcs c l) n = q n + bigsum l (fun i => c i * conv q (hs i) n).
Proof.
  unfold gcs.
  transitivity (conv q sone n + bigsum l (fun i => c i * conv q (hs i) n)).
  2:{ rewrite conv_one_r. reflexivity. }
  unfold conv.
  rewrite (bigsum_ext l _ (fun i => bigsum (seq 0 (S n)) (fun j => c i * (q j * hs i (n - j)%nat))))
    by (intros; rewrite bigsum_scal; reflexivity).
  rewrite bigsum_swap, <- bigsum_add. apply bigsum_ext. intros j _.
  rewrite Qcmult_plus_distr_r. f_equal. rewrite <- bigsum_scal. apply bigsum_ext. intros; ring.
Qed.

Lemma Gs_bigsum {A} N (l : list A) (f : A -> seqc) :
  Gs N (fun n => bigsum l (fun i => f i n)) = bigsum l (fun i => Gs N (f i)).
Proof.
  unfold Gs. rewrite (bigsum_ext (seq 0 N) _ (fun n => bigsum l (fun i => f i n * gmom n))).
  2:{ intros n _. rewrite bigsum_scal_r. reflexivity. }
  apply bigsum_swap.
Qed.

(* G[q * f] = G[q] + sum_i c_i G[q * He_i] *)
Lemma gauss_pmul_gc q c K N :
  (length (pmul q (gc_poly c K)) <= N)%nat ->
  gauss (pmul q (gc_poly c K))
  = Gs N (coef q) + bigsum (pyrange 3 (K + 1)) (fun i => c i * Gs N (conv (coef q) (hs i))).
Proof.
  intros H. rewrite (gauss_pmul_conv _ _ N H).
  rewrite (Gs_ext N _ (fun n => coef q n + bigsum (pyrange 3 (K + 1)) (fun i => c i * conv (coef q) (hs i) n))).
  2:{ intros n _. rewrite <- conv_gcs. apply conv_ext; [reflexivity|]. intros j _. apply coef_gc_fold. }
  rewrite Gs_add. f_equal. rewrite Gs_bigsum. apply bigsum_ext. intros i _. apply Gs_scal.
Qed.

Lemma Gs_low_vs_hermite q d i N : supp d (coef q) -> (d <= i)%nat -> (i + d + 3 <= N)%nat ->
  Gs N (conv (coef q) (hs i)) = 0.
Proof.
  intros Hq Hd HN. rewrite (Gs_ext N _ (conv (hs i) (coef q))) by (intros; apply conv_comm).
  apply (hermite_orth_seq i (coef q) d N); assumption.
Qed.

Theorem gram_charlier_shape (c : nat -> Qc) (K : nat) :
  let f := gc_poly c K in
  gauss f = 1 /\ gauss (pmul [0; 1] f) = 0 /\ gauss (pmul [0; 0; 1] f) = 1 /\
  forall j, (3 <= j <= K)%nat -> gauss (pmul (hermite j) f) = factq j * c j.
Proof.
  cbv zeta.
  assert (low : forall q : poly, (length q <= 3)%nat ->
            gauss (pmul q (gc_poly c K)) = gauss q).
  { intros q Hq. set (N := max (length (pmul q (gc_poly c K))) (K + 10)).
    rewrite (gauss_pmul_gc q c K N) by lia. rewrite <- (gauss_Gs q N) by lia.
    rewrite bigsum_single; [ring|]. intros i Hi. apply in_pyrange in Hi.
    rewrite (Gs_low_vs_hermite q (length q) i N); [ring | apply supp_coef | lia | lia]. }
  split; [|split; [|split]].
  - rewrite <- (gauss_peq (pmul [1] (gc_poly c K))).
    + rewrite low by (cbn; lia). reflexivity.
    + intros i. rewrite coef_pmul.
      rewrite (conv_ext (coef [1]) sone _ (coef (gc_poly c K)) i); [apply conv_one_l | | reflexivity].
      intros j _. destruct j as [|[|j]]; reflexivity.
  - rewrite low by (cbn; lia). unfold gauss. cbn. ring.
  - rewrite low by (cbn; lia). unfold gauss. cbn. replace (nq 1) with 1 by reflexivity. ring.
  - intros j Hj. set (N := max (length (pmul (hermite j) (gc_poly c K))) (K + j + 10)).
    rewrite (gauss_pmul_gc (hermite j) c K N) by lia. fold (hs j).
    (* G[He_j] = 0 *)
    assert (E0 : Gs N (hs j) = 0).
    { rewrite (Gs_ext N _ (conv (hs j) sone)) by (intros; symmetry; apply conv_one_r).
      apply (hermite_orth_seq j sone 1 N); [intros [|i] Hi; [lia | reflexivity] | lia | lia]. }
    rewrite E0, Qcplus_0_l.
    (* only i = j survives *)
    assert (E : forall i, In i (pyrange 3 (K + 1)) ->
              c i * Gs N (conv (hs j) (hs i)) = if Nat.eqb i j then factq j * c j else 0).
    { intros i Hi. apply in_pyrange in Hi. destruct (Nat.eqb i j) eqn:Eij.
      - apply Nat.eqb_eq in Eij. subst i.
        rewrite (hermite_reduce j (S j) (hs j) N) by (try apply supp_hs; lia).
        rewrite (Gs_ext N _ (fun n => factq j * sone n)) by (intros; apply sDn_hs).
        rewrite Gs_scal.
        assert (E1 : Gs N sone = 1).
        { destruct N as [|M] eqn:EN; [unfold N in EN; lia|]. unfold Gs. rewrite bigsum_seq_first. cbn [sone gmom].
          rewrite bigsum_single by (intros; cbn [sone]; ring). ring. }
        rewrite E1. ring.
      - apply Nat.eqb_neq in Eij.
        destruct (lt_dec i j) as [L|L].
        + rewrite (hermite_orth_seq j (hs i) (S i) N); [ring | apply supp_hs | lia | lia].
        + rewrite (Gs_ext N _ (conv (hs i) (hs j))) by (intros; apply conv_comm).
          rewrite (hermite_orth_seq i (hs j) (S j) N); [ring | apply supp_hs | lia | lia]. }
    rewrite (bigsum_ext _ _ _ E). clear E.
    (* sum of an indicator over a duplicate-free range containing j *)
    assert (S : forall l, NoDup l -> In j l ->
              bigsum l (fun i => if Nat.eqb i j then factq j * c j else 0) = factq j * c j).
    { induction l as [|x l IH]; intros ND Hin; [destruct Hin|].
      rewrite bigsum_cons. inversion ND as [|? ? Hx ND']; subst.
      destruct (Nat.eqb x j) eqn:Ex.
      - apply Nat.eqb_eq in Ex. subst x.
        rewrite bigsum_single; [ring|]. intros y Hy. destruct (Nat.eqb y j) eqn:Ey; [|reflexivity].
        apply Nat.eqb_eq in Ey. subst y. contradiction.
      - destruct Hin as [->|Hin]; [rewrite Nat.eqb_refl in Ex; discriminate|].
        rewrite IH by assumption. ring. }
    apply S; [unfold pyrange; apply seq_NoDup | apply in_pyrange; lia].
Qed.
