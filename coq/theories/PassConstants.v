(* C02, pass ConstantsTransformer (program/transformer/constants_transformer.py, as repaired
   by "fix: do not fold initial constants that refer to variables changing in the loop").

   Python, on a flat program:
     loop_body_vars = variables assigned in the loop body
     for assign in initial (in order):
        variable assigned in the loop             -> keep
        PolyAssignment, condition true, ONE alternative:
             value = polynomial.subs(fixed_constants)          (earlier fixed constants)
             value mentions no loop-body variable  -> fixed_constants[var] = value ; DROP
        otherwise                                  -> other_constants.add(var) ; keep
     substitute fixed_constants in (guard,) kept initial assignments and loop body
     append  c = c  to the loop body for every other constant

   (/repo 5e78f4d added: fold only a variable with ONE initial assignment that no earlier kept
   initial assignment read and whose value mentions nothing assigned later in the initial part.)

   (/repo 99cc64b added: a variable that occurs in a condition is never folded.)
   Model [constants] = rule RCond (the code now); RFix is superseded (sound), RCur / ROld are
   superseded and refuted.  Hypothesis [constants_ok] (boolean) forced by the proof; for the current rule it
   holds BY CONSTRUCTION on structurally well-formed flat programs ([constants_ok_by_construction]);
   theorems:
     [constants_coupled]    the two programs are coupled at every iteration
     [constants_preserves]  same expectation of every f that ignores the folded variables
     [constants_invariant]  in the original program every folded variable equals its folded
                            expression in the current state at every iteration boundary
     [constants_old_refuted] the pre-repair rule is unsound (x=3; k=x+1; while true: x=x+k). *)
From Coq Require Import List String QArith Qcanon ZArith Bool Ring.
From Polar Require Import Qcx Dist Syntax Sem Types Poly PassCNBase.
Import ListNotations.
Local Open Scope Qc_scope.

(* ---- the model ---- *)
Definition body_vars (fp : flatprog) : list var := map ga_var (fp_body fp).

(* three versions of the folding rule:
   ROld  before "fix: do not fold initial constants that refer to variables changing in the loop"
   RCur  the code as it is now in /repo
   RFix  the rule of proposed_fixes/constants_init_reassign.diff (additionally: the variable has
         a single initial assignment, was not read by an earlier kept initial assignment, and
         its value mentions nothing that is assigned later in the initial part) *)
(* rule history of /repo:  ROld (before 3e6440d)  ->  RCur (3e6440d .. 5e78f4d)  ->  RFix (5e78f4d ..
   99cc64b)  ->  RCond, the code NOW (99cc64b: additionally a variable that occurs in ANY condition
   of the initial block or the loop body is never folded, so that reduced atoms keep their form) *)
Inductive rule := ROld | RCur | RFix | RCond.
Definition strict (r : rule) : bool := match r with ROld => false | _ => true end.
Definition is_fix (r : rule) : bool := match r with RFix | RCond => true | _ => false end.

(* [Some v]: the assignment is folded at this point with value v.
   [seen]: variables assigned so far or read by a kept assignment so far (read_so_far and the
   assignment counts of the patch); [rest]: variables assigned later in the initial part *)
Definition fold_value (r : rule) (bv seen rest : list var) (F : smap) (g : gassign) : option expr :=
  if mem_var (ga_var g) bv then None
  else match ga_cond g, ga_rhs g with
       | CTrue, RChoice [(_, e)] =>
           let v := subst_e F e in
           match r with
           | ROld => Some v
           | RCur => if disjointb (evars v) bv then Some v else None
           | RFix | RCond =>
               if disjointb (evars v) bv && negb (mem_var (ga_var g) seen) && negb (mem_var (ga_var g) rest)
                  && disjointb (evars v) rest then Some v else None
           end
       | _, _ => None
       end.

Definition seen_kept (g : gassign) (seen : list var) : list var :=
  ga_var g :: ga_default g :: ga_reads g ++ seen.

(* returns the final map of fixed constants (latest first) and the kept assignments *)
Fixpoint scan (r : rule) (bv seen : list var) (F : smap) (l : list gassign) : smap * list gassign :=
  match l with
  | [] => (F, [])
  | g :: l' =>
      match fold_value r bv seen (map ga_var l') F g with
      | Some v => scan r bv (ga_var g :: seen) ((ga_var g, v) :: F) l'
      | None => let '(F', k) := scan r bv (seen_kept g seen) F l' in (F', g :: k)
      end
  end.

Definition self_assign (k : var) : gassign :=
  {| ga_var := k; ga_cond := CTrue; ga_default := k; ga_rhs := RDet (EVar k) |}.

Fixpoint dedup (l : list var) : list var :=
  match l with [] => [] | x :: l' => if mem_var x l' then dedup l' else x :: dedup l' end.

(* other_constants: kept initial variables that are not assigned in the loop (a Python set:
   the order of the appended assignments is unspecified) *)
Definition others (bv : list var) (kept : list gassign) : list var :=
  dedup (filter (fun x => negb (mem_var x bv)) (map ga_var kept)).

(* condition_symbols of 99cc64b: variables of all conditions (the loop guard is `true` here); they
   enter the scan as initially "seen" variables, which rule RFix/RCond never folds *)
Definition cond_syms (fp : flatprog) : list var :=
  flat_map (fun g => cvars (ga_cond g)) (fp_init fp ++ fp_body fp).
Definition seen0 (r : rule) (fp : flatprog) : list var :=
  match r with RCond => cond_syms fp | _ => [] end.

Definition constants_gen (r : rule) (fp : flatprog) : flatprog :=
  let bv := body_vars fp in
  let '(F, kept) := scan r bv (seen0 r fp) [] (fp_init fp) in
  {| fp_init := map (subst_ga F) kept;
     fp_body := map (subst_ga F) (fp_body fp) ++ map self_assign (others bv kept) |}.

Definition constants : flatprog -> flatprog := constants_gen RCond.     (* the code now *)
Definition constants_old : flatprog -> flatprog := constants_gen ROld.  (* before 3e6440d *)
Definition constants_cur : flatprog -> flatprog := constants_gen RCur.  (* 3e6440d .. 5e78f4d *)
Definition constants_fix : flatprog -> flatprog := constants_gen RFix.  (* 5e78f4d .. 99cc64b *)

(* the fixed constants with their folded expressions, and the folded variables *)
Definition fixed_gen (r : rule) (fp : flatprog) : smap := fst (scan r (body_vars fp) (seen0 r fp) [] (fp_init fp)).
Definition fixed : flatprog -> smap := fixed_gen RCond.
Definition folded (fp : flatprog) : list var := sdom (fixed fp).

(* ---- the hypothesis the proof forces ---- *)
Definition prob_one (g : gassign) : bool :=
  match ga_rhs g with RChoice [(EConst q, _)] => Qc_eqb q 1 | _ => false end.

(* x is not a fixed constant and no fixed value mentions it *)
Definition fresh_for (F : smap) (x : var) : bool :=
  negb (mem_var x (sdom F)) && forallb (fun ke => negb (mem_var x (evars (snd ke)))) F.

(* [rd]: variables read by the kept assignments met so far *)
Fixpoint scan_ok (r : rule) (bv seen : list var) (F : smap) (rd : list var) (l : list gassign) : bool :=
  match l with
  | [] => true
  | g :: l' =>
      match fold_value r bv seen (map ga_var l') F g with
      | Some v => prob_one g && negb (mem_var (ga_var g) rd)
                  && scan_ok r bv (ga_var g :: seen) ((ga_var g, v) :: F) rd l'
      | None => fresh_for F (ga_var g) && negb (mem_var (ga_default g) (sdom F))
                && scan_ok r bv (seen_kept g seen) F (ga_reads g ++ rd) l'
      end
  end.

(* needed for the invariant only: no folded value depends on a folded variable *)
Definition closed_map (F : smap) : bool := forallb (fun ke => disjointb (evars (snd ke)) (sdom F)) F.

Definition constants_ok_gen (r : rule) (fp : flatprog) : bool :=
  scan_ok r (body_vars fp) (seen0 r fp) [] [] (fp_init fp)
  && forallb (fun g => negb (mem_var (ga_default g) (sdom (fixed_gen r fp)))) (fp_body fp).
Definition constants_ok : flatprog -> bool := constants_ok_gen RCond.

(* structural well-formedness of the flat programs Polar builds (Assignment.__init__: the default
   of an initial assignment is its own variable; MultiAssignTransformer: the default of a body
   assignment is the variable itself or its previous version, both assigned in the body; a
   PolyAssignment with one alternative has probability 1) *)
Definition wf_init_ga (g : gassign) : bool :=
  var_eqb (ga_default g) (ga_var g) &&
  match ga_cond g, ga_rhs g with
  | CTrue, RChoice [(p, _)] => match p with EConst q => Qc_eqb q 1 | _ => false end
  | _, _ => true
  end.
Definition wf_flat (fp : flatprog) : bool :=
  forallb wf_init_ga (fp_init fp) && forallb (fun g => mem_var (ga_default g) (body_vars fp)) (fp_body fp).

(* ---- proofs ---- *)
(* s : state of the original program, s' : state of the transformed program *)
Definition Sub (F : smap) (s s' : state) : Prop := forall x, agree F s s' x.

Lemma Sub_nil s : Sub [] s s.
Proof. intros x. reflexivity. Qed.

Lemma upd_same s x v : upd s x v x = v.
Proof. unfold upd, var_eqb. rewrite String.eqb_refl. reflexivity. Qed.
Lemma upd_other s x v y : var_eqb y x = false -> upd s x v y = s y.
Proof. unfold upd. intros ->. reflexivity. Qed.

Lemma fresh_for_spec F x : fresh_for F x = true ->
  slookup F x = None /\ forall k v, In (k, v) F -> ~ In x (evars v).
Proof.
  unfold fresh_for. intros H. apply andb_true_iff in H. destruct H as [H1 H2]. split.
  - apply slookup_none. destruct (mem_var x (sdom F)); [discriminate | reflexivity].
  - intros k v Hin Hx. rewrite forallb_forall in H2. specialize (H2 (k, v) Hin). cbn [snd] in H2.
    rewrite (mem_var_In _ _ Hx) in H2. discriminate.
Qed.

(* writing the same value to a variable that no fixed value depends on keeps Sub *)
Lemma Sub_upd F s s' x val :
  Sub F s s' -> slookup F x = None ->
  (forall k v, In (k, v) F -> eval v (upd s' x val) = eval v s') ->
  Sub F (upd s x val) (upd s' x val).
Proof.
  intros HS Hx Hind y. specialize (HS y). unfold agree in *.
  destruct (slookup F y) as [v|] eqn:Ey.
  - rewrite (Hind y v (slookup_some_in _ _ _ Ey)), HS.
    unfold upd. destruct (var_eqb y x) eqn:E; [|reflexivity].
    apply String.eqb_eq in E. subst. congruence.
  - unfold upd. destruct (var_eqb y x); [reflexivity | exact HS].
Qed.

Lemma eval_upd_indep v s x val : ~ In x (vars_of v) -> eval v (upd s x val) = eval v s.
Proof.
  intros H. apply eval_ext. intros y Hy. unfold upd. destruct (var_eqb y x) eqn:E; [|reflexivity].
  apply String.eqb_eq in E. subst. contradiction.
Qed.
Lemma eval_upd_indep_e v s x val : ~ In x (evars v) -> eval v (upd s x val) = eval v s.
Proof.
  intros H. apply eval_evars_ext. intros y Hy. unfold upd. destruct (var_eqb y x) eqn:E; [|reflexivity].
  apply String.eqb_eq in E. subst. contradiction.
Qed.

(* folding: the original program executes  k = e , the transformed one nothing *)
Lemma Sub_fold F s s' k e :
  Sub F s s' -> Sub ((k, subst_e F e) :: F) (upd s k (eval e s)) s'.
Proof.
  intros HS y. unfold agree. cbn [slookup]. destruct (var_eqb y k) eqn:E.
  - apply String.eqb_eq in E. subst. rewrite upd_same. apply subst_e_eval. intros x _. apply HS.
  - rewrite (upd_other _ _ _ _ E). apply HS.
Qed.

Lemma fold_value_shape r bv seen rest F g v :
  fold_value r bv seen rest F g = Some v ->
  mem_var (ga_var g) bv = false /\ ga_cond g = CTrue /\
  exists p e, ga_rhs g = RChoice [(p, e)] /\ v = subst_e F e /\
              (strict r = true -> disjointb (evars v) bv = true).
Proof.
  unfold fold_value. destruct (mem_var (ga_var g) bv); [discriminate|].
  destruct (ga_cond g); try discriminate. destruct (ga_rhs g) as [alts|]; [|discriminate].
  destruct alts as [|[p e] [|]]; try discriminate.
  intros H. split; [reflexivity|]. split; [reflexivity|]. exists p, e. split; [reflexivity|].
  destruct r.
  - injection H as <-. split; [reflexivity | discriminate].
  - destruct (disjointb (evars (subst_e F e)) bv) eqn:Ed; [|discriminate]. injection H as <-.
    split; [reflexivity | intros _; exact Ed].
  - destruct (disjointb (evars (subst_e F e)) bv) eqn:Ed; [|discriminate]. cbn [andb] in H.
    destruct (negb (mem_var (ga_var g) seen) && negb (mem_var (ga_var g) rest) && disjointb (evars (subst_e F e)) rest); [|discriminate].
    injection H as <-. split; [reflexivity | intros _; exact Ed].
  - destruct (disjointb (evars (subst_e F e)) bv) eqn:Ed; [|discriminate]. cbn [andb] in H.
    destruct (negb (mem_var (ga_var g) seen) && negb (mem_var (ga_var g) rest) && disjointb (evars (subst_e F e)) rest); [|discriminate].
    injection H as <-. split; [reflexivity | intros _; exact Ed].
Qed.

(* variables read by the kept assignments are not folded (again) later *)
Lemma scan_stable r bv l : forall seen F rd F' kept,
  scan r bv seen F l = (F', kept) -> scan_ok r bv seen F rd l = true ->
  forall x, In x rd -> slookup F' x = slookup F x.
Proof.
  induction l as [|g l IH]; cbn [scan scan_ok]; intros seen F rd F' kept Hs Hok x Hx.
  - injection Hs as <- _. reflexivity.
  - destruct (fold_value r bv seen (map ga_var l) F g) as [v|] eqn:Ef.
    + apply andb_true_iff in Hok. destruct Hok as [Hok Hl]. apply andb_true_iff in Hok. destruct Hok as [_ Hrd].
      rewrite (IH _ _ _ _ _ Hs Hl x Hx). cbn [slookup].
      destruct (var_eqb x (ga_var g)) eqn:E; [|reflexivity].
      apply String.eqb_eq in E. subst. rewrite (mem_var_In _ _ Hx) in Hrd. discriminate.
    + destruct (scan r bv (seen_kept g seen) F l) as [F1 k1] eqn:Es. injection Hs as <- _.
      apply andb_true_iff in Hok. destruct Hok as [_ Hl].
      apply (IH _ _ _ _ _ Es Hl x). apply in_or_app; right; exact Hx.
Qed.

(* fixed variables are not loop variables, fixed values do not depend on loop variables *)
Definition body_indep (bv : list var) (F : smap) : Prop :=
  forall k v, In (k, v) F -> mem_var k bv = false /\ disjointb (evars v) bv = true.
Lemma scan_body_indep r bv l : strict r = true -> forall seen F F' kept,
  scan r bv seen F l = (F', kept) -> body_indep bv F -> body_indep bv F'.
Proof.
  intros Hr. induction l as [|g l IH]; cbn [scan]; intros seen F F' kept Hs HF.
  - injection Hs as <- _. exact HF.
  - destruct (fold_value r bv seen (map ga_var l) F g) as [v|] eqn:Ef.
    + apply (IH _ _ _ _ Hs). intros k v0 [Hin|Hin]; [|apply HF; exact Hin].
      injection Hin as <- <-. destruct (fold_value_shape _ _ _ _ _ _ _ Ef) as [Hb [_ [p [e [_ [-> Hd]]]]]].
      split; [exact Hb | apply Hd; exact Hr].
    + destruct (scan r bv (seen_kept g seen) F l) as [F1 k1] eqn:Es. injection Hs as <- _. eapply IH; eauto.
Qed.

Section Constants.
  Variable law : string -> list Qc -> dist Qc.

  (* initial block: the original block from s against the kept, substituted assignments
     from s' *)
  Lemma init_sim r bv l : forall seen F rd F' kept,
    scan r bv seen F l = (F', kept) -> scan_ok r bv seen F rd l = true ->
    forall s s', Sub F s s' ->
    coupled (Sub F') (exec_gas law l s) (exec_gas law (map (subst_ga F') kept) s').
  Proof.
    induction l as [|g l IH]; cbn [scan scan_ok]; intros seen F rd F' kept Hs Hok s s' HS.
    - injection Hs as <- <-. cbn [map exec_gas]. apply coupled_ret. exact HS.
    - destruct (fold_value r bv seen (map ga_var l) F g) as [v|] eqn:Ef.
      + (* folded *)
        apply andb_true_iff in Hok. destruct Hok as [Hok Hl]. apply andb_true_iff in Hok. destruct Hok as [Hp _].
        destruct (fold_value_shape _ _ _ _ _ _ _ Ef) as [_ [Hc [p [e [Hr [-> _]]]]]].
        cbn [exec_gas]. unfold exec_ga. rewrite Hc, Hr. cbn [holds sample map fst snd bind ret].
        unfold prob_one in Hp. rewrite Hr in Hp. destruct p as [q| | | |]; try discriminate.
        apply Qc_eqb_true in Hp. subst q. unfold ret, dscale. cbn [eval map fst snd app]. cbn [bind].
        apply coupled_one_l; [ring|].
        apply (IH _ _ _ _ _ Hs Hl). apply Sub_fold. exact HS.
      + (* kept *)
        destruct (scan r bv (seen_kept g seen) F l) as [F1 k1] eqn:Es. injection Hs as <- <-.
        apply andb_true_iff in Hok. destruct Hok as [Hok Hl]. apply andb_true_iff in Hok. destruct Hok as [Hfr Hdef].
        destruct (fresh_for_spec _ _ Hfr) as [Hx Hvals].
        cbn [map exec_gas]. apply (coupled_bind (Sub F)).
        * apply exec_ga_subst.
          -- intros x Hx0. unfold agree.
             rewrite (scan_stable _ _ _ _ _ _ _ _ Es Hl x) by (apply in_or_app; left; exact Hx0). apply HS.
          -- specialize (HS (ga_default g)). unfold agree in HS. rewrite slookup_none in HS; [exact HS|].
             destruct (mem_var (ga_default g) (sdom F)); [discriminate | reflexivity].
          -- intros val. apply Sub_upd; [exact HS | exact Hx|].
             intros k v Hin. apply eval_upd_indep_e. apply (Hvals k v Hin).
        * intros t t' Ht. apply (IH _ _ _ _ _ Es Hl). exact Ht.
  Qed.

  Lemma exec_self k s : exec_ga law (self_assign k) s = [(mkq 1 1 * 1, upd s k (s k))].
  Proof. reflexivity. Qed.
  Lemma one_one : mkq 1 1 * 1 = 1.
  Proof. apply Qc_is_canon. reflexivity. Qed.

  (* the appended  c = c  assignments do nothing observable *)
  Lemma tail_sim F ks : forall s s', Sub F s s' ->
    coupled (Sub F) (ret s) (exec_gas law (map self_assign ks) s').
  Proof.
    induction ks as [|k ks IH]; cbn [map exec_gas]; intros s s' HS; [apply coupled_ret; exact HS|].
    rewrite exec_self. cbn [bind]. apply coupled_one_r; [apply one_one|].
    apply IH. intros x. specialize (HS x). unfold agree in *.
    assert (Hu : forall e, eval e (upd s' k (s' k)) = eval e s').
    { intros e. apply eval_ext. intros y _. unfold upd. destruct (var_eqb y k) eqn:E; [|reflexivity].
      apply String.eqb_eq in E. subst. reflexivity. }
    destruct (slookup F x); [rewrite Hu; exact HS|].
    unfold upd. destruct (var_eqb x k) eqn:E; [|exact HS]. apply String.eqb_eq in E. subst. exact HS.
  Qed.

  Lemma body_sim bv F ks l :
    body_indep bv F ->
    (forall g, In g l -> In (ga_var g) bv /\ mem_var (ga_default g) (sdom F) = false) ->
    forall s s', Sub F s s' ->
    coupled (Sub F) (exec_gas law l s) (exec_gas law (map (subst_ga F) l ++ map self_assign ks) s').
  Proof.
    intros HF. induction l as [|g l IH]; intros Hl s s' HS.
    - cbn [map app exec_gas]. apply tail_sim. exact HS.
    - cbn [map app exec_gas]. destruct (Hl g (or_introl eq_refl)) as [Hv Hd].
      apply (coupled_bind (Sub F)).
      + apply exec_ga_subst.
        * intros x _. apply HS.
        * specialize (HS (ga_default g)). unfold agree in HS. rewrite (slookup_none _ _ Hd) in HS. exact HS.
        * intros val. apply Sub_upd; [exact HS| |].
          -- destruct (slookup F (ga_var g)) as [v|] eqn:Ev; [|reflexivity].
             destruct (HF _ _ (slookup_some_in _ _ _ Ev)) as [Hm _].
             rewrite (mem_var_In _ _ Hv) in Hm. discriminate.
          -- intros k v Hin. destruct (HF k v Hin) as [_ Hdis].
             apply eval_upd_indep_e. intros Hx. exact (disjointb_spec _ _ Hdis _ Hx Hv).
      + intros t t' Ht. apply IH; [|exact Ht]. intros g0 Hg0. apply Hl. right; exact Hg0.
  Qed.

  Theorem constants_gen_coupled r fp : strict r = true -> constants_ok_gen r fp = true ->
    forall n s0, coupled (Sub (fixed_gen r fp)) (frun law fp n s0) (frun law (constants_gen r fp) n s0).
  Proof.
    unfold constants_ok_gen, constants_gen, fixed_gen. intros Hr Hok.
    apply andb_true_iff in Hok. destruct Hok as [Hscan Hdef].
    set (bv := body_vars fp) in *.
    destruct (scan r bv (seen0 r fp) [] (fp_init fp)) as [F kept] eqn:Es. cbn [fst] in *.
    intros n s0. induction n as [|n IH]; cbn [frun fp_init fp_body].
    - apply (init_sim r bv _ _ _ _ _ _ Es Hscan s0 s0). apply Sub_nil.
    - apply (coupled_bind (Sub F)); [exact IH|].
      intros s s' HS. unfold fstep. cbn [fp_body]. apply (body_sim bv); [| |exact HS].
      + apply (scan_body_indep r bv _ Hr _ _ _ _ Es). intros k v [].
      + intros g Hg. split.
        * unfold bv, body_vars. apply in_map. exact Hg.
        * rewrite forallb_forall in Hdef. specialize (Hdef g Hg). cbn beta in Hdef.
          destruct (mem_var (ga_default g) (sdom F)); [discriminate | reflexivity].
  Qed.

  (* a function of the state that does not read the folded variables (in particular it
     does not distinguish states that are equal at every variable) *)
  Definition ignores (vs : list var) (f : state -> Qc) : Prop :=
    forall s s', (forall x, mem_var x vs = false -> s x = s' x) -> f s = f s'.

  Theorem constants_gen_preserves r fp : strict r = true -> constants_ok_gen r fp = true ->
    forall n s0 f, ignores (sdom (fixed_gen r fp)) f ->
    E (frun law (constants_gen r fp) n s0) f = E (frun law fp n s0) f.
  Proof.
    intros Hr Hok n s0 f Hf. symmetry.
    apply (coupled_E _ _ _ _ _ (constants_gen_coupled r fp Hr Hok n s0)).
    intros s s' HS. apply Hf. intros x Hx. specialize (HS x). unfold agree in HS.
    rewrite (slookup_none _ _ Hx) in HS. symmetry. exact HS.
  Qed.

  (* the invariant that makes the substitution right *)
  Theorem constants_gen_invariant r fp : strict r = true -> constants_ok_gen r fp = true ->
    closed_map (fixed_gen r fp) = true ->
    forall n s0 s, supp (frun law fp n s0) s ->
    forall k v, slookup (fixed_gen r fp) k = Some v -> s k = eval v s.
  Proof.
    intros Hr Hok Hcl n s0 s Hs k v Hk.
    destruct (coupled_supp_l _ _ _ _ (constants_gen_coupled r fp Hr Hok n s0) Hs) as [s' [_ HS]].
    pose proof (HS k) as Hk'. unfold agree in Hk'. rewrite Hk in Hk'. rewrite <- Hk'.
    unfold closed_map in Hcl. rewrite forallb_forall in Hcl.
    specialize (Hcl (k, v) (slookup_some_in _ _ _ Hk)). cbn [snd] in Hcl.
    apply eval_evars_ext. intros x Hx. specialize (HS x). unfold agree in HS.
    rewrite slookup_none in HS; [exact HS|].
    destruct (mem_var x (sdom (fixed_gen r fp))) eqn:Em; [|reflexivity].
    exfalso. exact (disjointb_spec _ _ Hcl x Hx (mem_var_true _ _ Em)).
  Qed.

  (* ---- the current rule: the hypothesis holds by construction ---- *)
  Lemma fold_fix_conditions r bv seen rest F g v : is_fix r = true ->
    fold_value r bv seen rest F g = Some v ->
    mem_var (ga_var g) seen = false /\ mem_var (ga_var g) rest = false /\ disjointb (evars v) rest = true.
  Proof.
    intros Hr. unfold fold_value. destruct (mem_var (ga_var g) bv); [discriminate|].
    destruct (ga_cond g); try discriminate. destruct (ga_rhs g) as [alts|]; [|discriminate].
    destruct alts as [|[p e] [|]]; try discriminate.
    assert (G : (if disjointb (evars (subst_e F e)) bv && negb (mem_var (ga_var g) seen) && negb (mem_var (ga_var g) rest)
                    && disjointb (evars (subst_e F e)) rest then Some (subst_e F e) else None) = Some v ->
                mem_var (ga_var g) seen = false /\ mem_var (ga_var g) rest = false /\ disjointb (evars v) rest = true).
    { destruct (disjointb (evars (subst_e F e)) bv); [|discriminate]. cbn [andb].
      destruct (mem_var (ga_var g) seen); [discriminate|]. destruct (mem_var (ga_var g) rest); [discriminate|].
      cbn [negb andb]. destruct (disjointb (evars (subst_e F e)) rest) eqn:Ed; [|discriminate].
      intros H. injection H as <-. auto. }
    destruct r; try discriminate Hr; exact G.
  Qed.

  Lemma scan_ok_fix r bv l : is_fix r = true -> forall seen F rd,
    forallb wf_init_ga l = true -> incl rd seen ->
    (forall k, In k (sdom F) -> ~ In k (map ga_var l)) ->
    (forall k v, In (k, v) F -> forall x, In x (evars v) -> ~ In x (map ga_var l)) ->
    scan_ok r bv seen F rd l = true.
  Proof.
    intros Hfix. induction l as [|g l IH]; intros seen F rd Hwf Hrd H1 H2; [reflexivity|].
    cbn [forallb] in Hwf. apply andb_true_iff in Hwf. destruct Hwf as [Hg Hl].
    cbn [scan_ok map] in *. destruct (fold_value r bv seen (map ga_var l) F g) as [v|] eqn:Ef.
    - destruct (fold_fix_conditions _ _ _ _ _ _ _ Hfix Ef) as [Hseen [Hrest Hdis]].
      destruct (fold_value_shape _ _ _ _ _ _ _ Ef) as [_ [Hc [p [e [Hr _]]]]].
      apply andb_true_iff. split; [apply andb_true_iff; split|].
      + unfold wf_init_ga in Hg. apply andb_true_iff in Hg. destruct Hg as [_ Hg]. rewrite Hc, Hr in Hg.
        unfold prob_one. rewrite Hr. exact Hg.
      + destruct (mem_var (ga_var g) rd) eqn:Em; [|reflexivity].
        rewrite (mem_var_In _ _ (Hrd _ (mem_var_true _ _ Em))) in Hseen. discriminate.
      + apply IH; [exact Hl | intros y Hy; right; apply Hrd, Hy | |].
        * intros k [<-|Hk]; [apply mem_var_false; exact Hrest | intros Hin; apply (H1 k Hk); right; exact Hin].
        * intros k v0 [Hin|Hin] x Hx.
          -- injection Hin as <- <-. exact (disjointb_spec _ _ Hdis x Hx).
          -- intros Hl'. apply (H2 k v0 Hin x Hx). right; exact Hl'.
    - unfold wf_init_ga in Hg. apply andb_true_iff in Hg. destruct Hg as [Hd _].
      apply String.eqb_eq in Hd.
      assert (Hx : mem_var (ga_var g) (sdom F) = false).
      { destruct (mem_var (ga_var g) (sdom F)) eqn:Em; [|reflexivity].
        exfalso. apply (H1 _ (mem_var_true _ _ Em)). left; reflexivity. }
      apply andb_true_iff. split; [apply andb_true_iff; split|].
      + unfold fresh_for. rewrite Hx. cbn [negb andb]. apply forallb_forall. intros [k v] Hin. cbn [snd].
        destruct (mem_var (ga_var g) (evars v)) eqn:Em; [|reflexivity].
        exfalso. apply (H2 k v Hin _ (mem_var_true _ _ Em)). left; reflexivity.
      + rewrite Hd, Hx. reflexivity.
      + apply IH; [exact Hl | | |].
        * unfold seen_kept. intros y Hy. right. right. apply in_app_or in Hy. apply in_or_app.
          destruct Hy as [Hy|Hy]; [left; exact Hy | right; apply Hrd, Hy].
        * intros k Hk Hin. apply (H1 k Hk). right; exact Hin.
        * intros k v Hin x Hxv Hl'. apply (H2 k v Hin x Hxv). right; exact Hl'.
  Qed.

  (* folded variables are not loop variables *)
  Lemma scan_dom_not_body r bv l : forall seen F F' kept,
    scan r bv seen F l = (F', kept) -> (forall k, In k (sdom F) -> mem_var k bv = false) ->
    forall k, In k (sdom F') -> mem_var k bv = false.
  Proof.
    induction l as [|g l IH]; cbn [scan]; intros seen F F' kept Hs HF.
    - injection Hs as <- _. exact HF.
    - destruct (fold_value r bv seen (map ga_var l) F g) as [v|] eqn:Ef.
      + apply (IH _ _ _ _ Hs). intros k [<-|Hk]; [|apply HF, Hk].
        destruct (fold_value_shape _ _ _ _ _ _ _ Ef) as [Hb _]. exact Hb.
      + destruct (scan r bv (seen_kept g seen) F l) as [F1 k1] eqn:Es. injection Hs as <- _. eapply IH; eauto.
  Qed.

  Theorem constants_ok_by_construction fp : wf_flat fp = true -> constants_ok fp = true.
  Proof.
    unfold wf_flat, constants_ok, constants_ok_gen, fixed_gen. intros H.
    apply andb_true_iff in H. destruct H as [Hi Hb]. apply andb_true_iff. split.
    - apply scan_ok_fix; [reflexivity | exact Hi | intros y [] | intros k [] | intros k v []].
    - apply forallb_forall. intros g Hg. rewrite forallb_forall in Hb. specialize (Hb g Hg).
      destruct (scan RCond (body_vars fp) (seen0 RCond fp) [] (fp_init fp)) as [F kept] eqn:Es. cbn [fst].
      destruct (mem_var (ga_default g) (sdom F)) eqn:Em; [|reflexivity].
      rewrite (scan_dom_not_body _ _ _ _ _ _ _ Es (fun k (Hk : In k (sdom [])) => match Hk with end) _ (mem_var_true _ _ Em)) in Hb.
      discriminate.
  Qed.

  (* the code as it is now (rule RCond) *)
  Theorem constants_coupled fp : constants_ok fp = true ->
    forall n s0, coupled (Sub (fixed fp)) (frun law fp n s0) (frun law (constants fp) n s0).
  Proof. apply (constants_gen_coupled RCond fp eq_refl). Qed.
  Theorem constants_preserves fp : constants_ok fp = true ->
    forall n s0 f, ignores (folded fp) f ->
    E (frun law (constants fp) n s0) f = E (frun law fp n s0) f.
  Proof. apply (constants_gen_preserves RCond fp eq_refl). Qed.
  Theorem constants_preserves_wf fp : wf_flat fp = true ->
    forall n s0 f, ignores (folded fp) f ->
    E (frun law (constants fp) n s0) f = E (frun law fp n s0) f.
  Proof. intros H. apply constants_preserves, constants_ok_by_construction, H. Qed.
  Theorem constants_invariant fp : constants_ok fp = true -> closed_map (fixed fp) = true ->
    forall n s0 s, supp (frun law fp n s0) s ->
    forall k v, slookup (fixed fp) k = Some v -> s k = eval v s.
  Proof. apply (constants_gen_invariant RCond fp eq_refl). Qed.

  (* the superseded rule RFix (5e78f4d .. 99cc64b: it also folded constants that occur in
     conditions) was sound as well: same theorem, same structural hypothesis *)
  Theorem constants_fix_ok_by_construction fp : wf_flat fp = true -> constants_ok_gen RFix fp = true.
  Proof.
    unfold wf_flat, constants_ok_gen, fixed_gen. intros H.
    apply andb_true_iff in H. destruct H as [Hi Hb]. apply andb_true_iff. split.
    - apply scan_ok_fix; [reflexivity | exact Hi | intros y [] | intros k [] | intros k v []].
    - apply forallb_forall. intros g Hg. rewrite forallb_forall in Hb. specialize (Hb g Hg).
      destruct (scan RFix (body_vars fp) (seen0 RFix fp) [] (fp_init fp)) as [F kept] eqn:Es. cbn [fst].
      destruct (mem_var (ga_default g) (sdom F)) eqn:Em; [|reflexivity].
      rewrite (scan_dom_not_body _ _ _ _ _ _ _ Es (fun k (Hk : In k (sdom [])) => match Hk with end) _ (mem_var_true _ _ Em)) in Hb.
      discriminate.
  Qed.
  Theorem constants_fix_preserves fp : wf_flat fp = true ->
    forall n s0 f, ignores (sdom (fixed_gen RFix fp)) f ->
    E (frun law (constants_fix fp) n s0) f = E (frun law fp n s0) f.
  Proof. intros H. apply (constants_gen_preserves RFix fp eq_refl), constants_fix_ok_by_construction, H. Qed.

  (* the superseded rule RCur (3e6440d .. 5e78f4d) satisfied the same theorem, but only under
     the hypothesis, which its own choices could violate (constants_cur_without_ok_refuted) *)
  Theorem constants_cur_preserves fp : constants_ok_gen RCur fp = true ->
    forall n s0 f, ignores (sdom (fixed_gen RCur fp)) f ->
    E (frun law (constants_cur fp) n s0) f = E (frun law fp n s0) f.
  Proof. apply (constants_gen_preserves RCur fp eq_refl). Qed.
End Constants.

(* ---- the pre-repair rule is unsound ---- *)
Open Scope string_scope.
Definition refute_prog : flatprog :=
  {| fp_init := [ {| ga_var := "x"; ga_cond := CTrue; ga_default := "x"; ga_rhs := RDet (EConst (mkq 3 1)) |};
                  {| ga_var := "k"; ga_cond := CTrue; ga_default := "k";
                     ga_rhs := RDet (EAdd (EVar "x") (EConst (mkq 1 1))) |} ];
     fp_body := [ {| ga_var := "x"; ga_cond := CTrue; ga_default := "x";
                     ga_rhs := RDet (EAdd (EVar "x") (EVar "k")) |} ] |}.
Definition obs_x : state -> Qc := fun s => s "x".

Theorem constants_old_refuted :
  exists fp n s0 f, ignores (sdom (fixed_gen ROld fp)) f /\
    E (frun no_law (constants_old fp) n s0) f <> E (frun no_law fp n s0) f.
Proof.
  exists refute_prog, 2%nat, st0, obs_x. split.
  - intros s s' H. unfold obs_x. apply H. vm_compute. reflexivity.
  - assert (H1 : E (frun no_law (constants_old refute_prog) 2 st0) obs_x = mkq 15 1) by (vm_compute; reflexivity).
    assert (H2 : E (frun no_law refute_prog 2 st0) obs_x = mkq 11 1) by (vm_compute; reflexivity).
    rewrite H1, H2. intros H. discriminate H.
Qed.

(* ---- the hypothesis [constants_ok] is needed (the real code has the same defect) ---- *)
Definition det (x : var) (e : expr) : gassign :=
  {| ga_var := x; ga_cond := CTrue; ga_default := x; ga_rhs := RDet e |}.
Definition qc (z : Z) : expr := EConst (mkq z 1).
Definition wit_a : flatprog :=
  {| fp_init := [det "k" (qc 1); det "y" (EVar "k"); det "k" (qc 2)];
     fp_body := [det "y" (EAdd (EVar "y") (EVar "k"))] |}.
Definition wit_b : flatprog :=
  {| fp_init := [det "k" (qc 1);
                 {| ga_var := "k"; ga_cond := CTrue; ga_default := "k"; ga_rhs := RDraw (DBern (EConst (mkq 1 2))) |};
                 det "x" (qc 0)];
     fp_body := [det "x" (EAdd (EVar "x") (EVar "k"))] |}.


Definition obs (x : var) : state -> Qc := fun s => s x.
Theorem constants_cur_without_ok_refuted :
  exists (fp : flatprog) (n : nat) (s0 : state) (f : state -> Qc),
    ignores (sdom (fixed_gen RCur fp)) f /\ E (frun no_law (constants_cur fp) n s0) f <> E (frun no_law fp n s0) f.
Proof.
  exists wit_a, 0%nat, st0, (obs "y"). split.
  - intros s s' H. apply H. vm_compute. reflexivity.
  - assert (H1 : E (frun no_law (constants_cur wit_a) 0 st0) (obs "y") = mkq 2 1) by (vm_compute; reflexivity).
    assert (H2 : E (frun no_law wit_a 0 st0) (obs "y") = mkq 1 1) by (vm_compute; reflexivity).
    rewrite H1, H2. intros H. discriminate H.
Qed.

(* ---- structural comparison with Polar's output (correspondence check) ---- *)
Fixpoint cond_eq_poly (c d : cond) : bool :=
  match c, d with
  | CTrue, CTrue | CFalse, CFalse => true
  | CAtom a o b, CAtom a' o' b' =>
      poly_eqb a a' && poly_eqb b b' &&
      match o, o' with Ceq, Ceq | Cle, Cle | Cge, Cge | Clt, Clt | Cgt, Cgt => true | _, _ => false end
  | CNot c1, CNot d1 => cond_eq_poly c1 d1
  | CAnd c1 c2, CAnd d1 d2 | COr c1 c2, COr d1 d2 => cond_eq_poly c1 d1 && cond_eq_poly c2 d2
  | _, _ => false
  end.
Fixpoint list_eqb {A} (eqb : A -> A -> bool) (l1 l2 : list A) : bool :=
  match l1, l2 with
  | [], [] => true
  | a :: l1', b :: l2' => eqb a b && list_eqb eqb l1' l2'
  | _, _ => false
  end.
Definition draw_eq_poly (d e : draw) : bool :=
  match d, e with
  | DBern p, DBern q => poly_eqb p q
  | DCat ps, DCat qs => list_eqb poly_eqb ps qs
  | DUnif a b, DUnif a' b' => Z.eqb a a' && Z.eqb b b'
  | DCont f args, DCont f' args' => String.eqb f f' && list_eqb poly_eqb args args'
  | _, _ => false
  end.
Definition rhs_eq_poly (r r' : rhs) : bool :=
  match r, r' with
  | RChoice a, RChoice b => list_eqb (fun x y => poly_eqb (fst x) (fst y) && poly_eqb (snd x) (snd y)) a b
  | RDraw d, RDraw e => draw_eq_poly d e
  | _, _ => false
  end.
Definition ga_eq_poly (g h : gassign) : bool :=
  var_eqb (ga_var g) (ga_var h) && var_eqb (ga_default g) (ga_default h)
  && cond_eq_poly (ga_cond g) (ga_cond h) && rhs_eq_poly (ga_rhs g) (ga_rhs h).

(* body: the model's  c = c  tail may come in any order (Python set) *)
Fixpoint remove_first (g : gassign) (l : list gassign) : option (list gassign) :=
  match l with
  | [] => None
  | h :: l' => if ga_eq_poly g h then Some l'
               else match remove_first g l' with Some r => Some (h :: r) | None => None end
  end.
Fixpoint perm_eq (l1 l2 : list gassign) : bool :=
  match l1 with
  | [] => match l2 with [] => true | _ => false end
  | g :: l1' => match remove_first g l2 with Some r => perm_eq l1' r | None => false end
  end.
(* Assignment.subs also substitutes the DEFAULT variable; the result is a variable only if no
   default is a folded constant — otherwise the output is not a flat program of the model
   (this only happens outside [constants_ok]) *)
Definition constants_in_model_gen (r : rule) (fp : flatprog) : bool :=
  let '(F, kept) := scan r (body_vars fp) (seen0 r fp) [] (fp_init fp) in
  forallb (fun g => negb (mem_var (ga_default g) (sdom F))) (kept ++ fp_body fp).

Definition constants_matches_gen (r : rule) (fp out : flatprog) : bool :=
  let m := constants_gen r fp in
  let nb := List.length (fp_body fp) in
  list_eqb ga_eq_poly (fp_init m) (fp_init out)
  && list_eqb ga_eq_poly (firstn nb (fp_body m)) (firstn nb (fp_body out))
  && perm_eq (skipn nb (fp_body m)) (skipn nb (fp_body out)).

Definition constants_in_model : flatprog -> bool := constants_in_model_gen RCond.
Definition constants_matches : flatprog -> flatprog -> bool := constants_matches_gen RCond.
