(* C02, shared infrastructure of the passes that work on FLAT programs (lists of guarded
   assignments): variables read/written by a guarded assignment, states that agree outside
   a set G of generated names, observation functions that only read the other variables,
   the frame lemma, the lifting of a one-execution theorem to all iterations, and the
   decimal names of generated variables. *)
From Coq Require Import List String QArith Qcanon ZArith Bool Lia.
From Coq Require Import DecimalString DecimalNat Decimal.
From Polar Require Import Qcx Dist Syntax Sem Types.
Import ListNotations.
Local Open Scope Qc_scope.

(* ---- decimal numerals as Python's str(int) ---- *)
Definition nat_str (k : nat) : string := NilEmpty.string_of_uint (Nat.to_uint k).
Lemma nat_str_inj j k : nat_str j = nat_str k -> j = k.
Proof.
  unfold nat_str. intros H.
  assert (Hu : Nat.to_uint j = Nat.to_uint k).
  { pose proof (NilEmpty.usu (Nat.to_uint j)) as A. pose proof (NilEmpty.usu (Nat.to_uint k)) as B.
    rewrite H in A. rewrite A in B. inversion B. reflexivity. }
  rewrite <- (Unsigned.of_to j), <- (Unsigned.of_to k), Hu. reflexivity.
Qed.

Lemma append_inj_l (p a b : string) : (p ++ a = p ++ b)%string -> a = b.
Proof. induction p as [|c p IH]; cbn [append]; intros H; [exact H | inversion H; auto]. Qed.

(* ---- membership in lists of names ---- *)
Definition smem (x : var) (l : list var) : bool := existsb (var_eqb x) l.
Lemma smem_In x l : smem x l = true <-> In x l.
Proof.
  unfold smem. rewrite existsb_exists. split.
  - intros [y [Hy E]]. apply String.eqb_eq in E. subst. exact Hy.
  - intros H. exists x. split; [exact H | apply String.eqb_refl].
Qed.
Lemma smem_false x l : smem x l = false <-> ~ In x l.
Proof.
  split.
  - intros H Hin. apply smem_In in Hin. rewrite Hin in H. discriminate.
  - intros H. destruct (smem x l) eqn:E; [apply smem_In in E; contradiction | reflexivity].
Qed.
Definition sdisjoint (a b : list var) : bool := forallb (fun x => negb (smem x b)) a.
Lemma sdisjoint_spec a b : sdisjoint a b = true -> forall x, In x a -> ~ In x b.
Proof.
  unfold sdisjoint. rewrite forallb_forall. intros H x Ha. specialize (H x Ha).
  apply negb_true_iff in H. apply smem_false. exact H.
Qed.

Lemma var_eqb_refl x : var_eqb x x = true.
Proof. apply String.eqb_refl. Qed.
Lemma var_eqb_neq x y : x <> y -> var_eqb x y = false.
Proof. intros H. apply String.eqb_neq. exact H. Qed.
Lemma var_eqb_eq x y : var_eqb x y = true -> x = y.
Proof. apply String.eqb_eq. Qed.

Lemma upd_same s x v : upd s x v x = v.
Proof. unfold upd. rewrite var_eqb_refl. reflexivity. Qed.
Lemma upd_other s x v y : y <> x -> upd s x v y = s y.
Proof. intros H. unfold upd. rewrite var_eqb_neq by exact H. reflexivity. Qed.

(* ---- variables of the parts of a guarded assignment ---- *)
Fixpoint cond_vars (c : cond) : list var :=
  match c with
  | CTrue | CFalse => []
  | CAtom a _ b => vars_of a ++ vars_of b
  | CNot c1 => cond_vars c1
  | CAnd c1 c2 | COr c1 c2 => cond_vars c1 ++ cond_vars c2
  end.
Definition draw_vars (d : draw) : list var :=
  match d with
  | DBern p => vars_of p
  | DCat ps => flat_map vars_of ps
  | DUnif _ _ => []
  | DCont _ args => flat_map vars_of args
  end.
Definition rhs_vars (r : rhs) : list var :=
  match r with
  | RChoice alts => flat_map (fun pe => vars_of (fst pe) ++ vars_of (snd pe)) alts
  | RDraw d => draw_vars d
  end.
(* everything a guarded assignment mentions: target, default, condition, right-hand side *)
Definition ga_vars (g : gassign) : list var :=
  ga_var g :: ga_default g :: cond_vars (ga_cond g) ++ rhs_vars (ga_rhs g).
Definition gas_vars (l : list gassign) : list var := flat_map ga_vars l.

Lemma holds_ext c s s' : (forall x, In x (cond_vars c) -> s x = s' x) -> holds c s = holds c s'.
Proof.
  induction c as [| |a o b|c IH|c1 IH1 c2 IH2|c1 IH1 c2 IH2]; cbn [holds cond_vars]; intros H; try reflexivity.
  - rewrite (eval_ext a s s'), (eval_ext b s s'); [reflexivity| |]; intros x Hx; apply H; apply in_or_app; auto.
  - rewrite IH; [reflexivity | exact H].
  - rewrite IH1, IH2; [reflexivity| |]; intros x Hx; apply H; apply in_or_app; auto.
  - rewrite IH1, IH2; [reflexivity| |]; intros x Hx; apply H; apply in_or_app; auto.
Qed.

Lemma map_eval_ext (l : list expr) s s' :
  (forall x, In x (flat_map vars_of l) -> s x = s' x) -> map (fun e => eval e s) l = map (fun e => eval e s') l.
Proof.
  induction l as [|e l IH]; cbn [map flat_map]; intros H; [reflexivity|].
  rewrite (eval_ext e s s'), IH; [reflexivity| |]; intros x Hx; apply H; apply in_or_app; auto.
Qed.

Section Flat.
  Variable law : string -> list Qc -> dist Qc.

  Lemma sample_ext r s s' : (forall x, In x (rhs_vars r) -> s x = s' x) -> sample law r s = sample law r s'.
  Proof.
    destruct r as [alts|d]; cbn [sample rhs_vars].
    - induction alts as [|[p e] alts IH]; cbn [map flat_map fst snd]; intros H; [reflexivity|].
      rewrite (eval_ext p s s'), (eval_ext e s s'), IH; [reflexivity| | |];
        intros x Hx; apply H; apply in_or_app; [right|left|left]; try exact Hx; apply in_or_app; auto.
    - destruct d as [p|ps|a b|f args]; cbn [draw_law draw_vars]; intros H.
      + rewrite (eval_ext p s s') by exact H. reflexivity.
      + rewrite (map_eval_ext ps s s') by exact H. reflexivity.
      + reflexivity.
      + rewrite (map_eval_ext args s s') by exact H. reflexivity.
  Qed.

  (* expectation of one guarded assignment / of a list, in continuation form *)
  Lemma E_exec_ga g s (K : state -> Qc) :
    E (exec_ga law g s) K =
    if holds (ga_cond g) s
    then E (sample law (ga_rhs g) s) (fun v => K (upd s (ga_var g) v))
    else K (upd s (ga_var g) (s (ga_default g))).
  Proof.
    unfold exec_ga. destruct (holds (ga_cond g) s).
    - rewrite E_bind. apply E_ext. intros v. apply E_ret.
    - apply E_ret.
  Qed.
  Lemma E_exec_gas_cons g l s f :
    E (exec_gas law (g :: l) s) f = E (exec_ga law g s) (fun t => E (exec_gas law l t) f).
  Proof. cbn [exec_gas]. apply E_bind. Qed.
  Lemma E_exec_gas_nil s f : E (exec_gas law [] s) f = f s.
  Proof. cbn [exec_gas]. apply E_ret. Qed.

  (* two guarded assignments that read the same values in their respective states and whose
     continuations agree on the updated states have the same expectation *)
  Lemma E_exec_ga_rel g g' s s' (K K' : state -> Qc) :
    holds (ga_cond g') s' = holds (ga_cond g) s ->
    sample law (ga_rhs g') s' = sample law (ga_rhs g) s ->
    s' (ga_default g') = s (ga_default g) ->
    (forall v, K' (upd s' (ga_var g') v) = K (upd s (ga_var g) v)) ->
    E (exec_ga law g' s') K' = E (exec_ga law g s) K.
  Proof.
    intros Hc Hs Hd HK. rewrite !E_exec_ga, Hc, Hs, Hd.
    destruct (holds (ga_cond g) s); [apply E_ext; intros v; apply HK | apply HK].
  Qed.

  (* ---- agreement outside a set of generated names ---- *)
  Definition agree (G : var -> Prop) (s s' : state) : Prop := forall x, ~ G x -> s' x = s x.
  Definition respects (G : var -> Prop) (f : state -> Qc) : Prop := forall s s', agree G s s' -> f s' = f s.

  Lemma agree_refl G s : agree G s s.
  Proof. intros x _. reflexivity. Qed.
  Lemma agree_sym G s s' : agree G s s' -> agree G s' s.
  Proof. intros H x Hx. symmetry. apply H. exact Hx. Qed.
  Lemma agree_trans G s1 s2 s3 : agree G s1 s2 -> agree G s2 s3 -> agree G s1 s3.
  Proof. intros H1 H2 x Hx. rewrite H2, H1 by exact Hx. reflexivity. Qed.
  Lemma agree_upd G s s' x v : agree G s s' -> agree G (upd s x v) (upd s' x v).
  Proof. intros H y Hy. unfold upd. destruct (var_eqb y x); [reflexivity | apply H; exact Hy]. Qed.
  Lemma agree_upd_gen G s s' x v : agree G s s' -> G x -> agree G s (upd s' x v).
  Proof.
    intros H Hx y Hy. rewrite upd_other; [apply H; exact Hy | intros ->; contradiction].
  Qed.

  (* frame: a list of assignments that does not mention G behaves the same from states that
     agree outside G *)
  Lemma exec_gas_frame (G : var -> Prop) l :
    (forall x, In x (gas_vars l) -> ~ G x) ->
    forall s s' f, agree G s s' -> respects G f ->
      E (exec_gas law l s') f = E (exec_gas law l s) f.
  Proof.
    induction l as [|g l IH]; intros Hv s s' f Ha Hf.
    - rewrite !E_exec_gas_nil. apply Hf. exact Ha.
    - assert (Hg : forall x, In x (ga_vars g) -> ~ G x).
      { intros x Hx. apply Hv. cbn [gas_vars flat_map]. apply in_or_app. left. exact Hx. }
      assert (Hl : forall x, In x (gas_vars l) -> ~ G x).
      { intros x Hx. apply Hv. cbn [gas_vars flat_map]. apply in_or_app. right. exact Hx. }
      rewrite !E_exec_gas_cons. apply E_exec_ga_rel.
      + apply holds_ext. intros x Hx. apply Ha, Hg. unfold ga_vars. right. right. apply in_or_app. left. exact Hx.
      + apply sample_ext. intros x Hx. apply Ha, Hg. unfold ga_vars. right. right. apply in_or_app. right. exact Hx.
      + apply Ha, Hg. unfold ga_vars. right. left. reflexivity.
      + intros v. apply IH; [exact Hl | apply agree_upd; exact Ha | exact Hf].
  Qed.

  (* ---- from one execution to all iterations ---- *)
  Definition sim_on (G : var -> Prop) (l l' : list gassign) : Prop :=
    forall s s' f, agree G s s' -> respects G f -> E (exec_gas law l' s') f = E (exec_gas law l s) f.

  Theorem frun_lift (G : var -> Prop) (fp fp' : flatprog) :
    sim_on G (fp_init fp) (fp_init fp') -> sim_on G (fp_body fp) (fp_body fp') ->
    forall n s0 s0' f, agree G s0 s0' -> respects G f ->
      E (frun law fp' n s0') f = E (frun law fp n s0) f.
  Proof.
    intros Hi Hb n. induction n as [|n IH]; intros s0 s0' f Ha Hf; cbn [frun].
    - apply Hi; assumption.
    - rewrite !E_bind. unfold fstep.
      set (F' := fun t => E (exec_gas law (fp_body fp') t) f).
      set (F := fun t => E (exec_gas law (fp_body fp) t) f).
      assert (HFF : forall t, F' t = F t).
      { intros t. unfold F', F. apply Hb; [apply agree_refl | exact Hf]. }
      assert (HF' : respects G F').
      { intros t t' Ht. unfold F'.
        rewrite (Hb t t' f Ht Hf). symmetry. apply Hb; [apply agree_refl | exact Hf]. }
      rewrite (IH s0 s0' F' Ha HF'). apply E_ext. exact HFF.
  Qed.
End Flat.
