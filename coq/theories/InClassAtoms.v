(* C18: small faithful models of the three code sites behind the refusals INSIDE the documented
   class that do not need a model of a whole pass:

   program/condition/atom_cond.py
     is_reduced     = poly1.is_Symbol and poly2.is_Integer
     is_normalized  = poly1.is_Symbol and poly2.is_Number and cop == "=="     (a5588d1; before: is_Integer)
     get_normalized = NormalizingException unless reduced; (self, [self]) if the variable has no
                      finite type; else the Or-chain of  var == v  over get_valid_values(type, cop, value)
     to_arithm      = ArithmConversionException unless is_normalized / finitely typed
     subs           = substitution in both polynomials
   program/transformer/constants_transformer.py   assign.subs(fixed_constants) AFTER ConditionsReducer;
                      since 99cc64b a constant occurring in a condition is not folded
   recurrences/rec_builder.py:_get_last_assign_index   self.program.var_to_index[v]  (a dict lookup);
                      since 84580b5 the goal is folded first and unknown symbols are skipped

   The models follow the REPAIRED code (/repo a5588d1, 99cc64b, 84580b5): the positive theorems
   hold without extra hypotheses.  The rules of the code before the repairs are kept as *_old
   definitions; the *_old_rule_refuted theorems are the witnesses of defects 17, 19 and 18 of
   DESIGN section 6 on them (regression witnesses). *)
From Coq Require Import List String QArith Qcanon ZArith Bool Arith Lia.
From Polar Require Import Qcx Dist Syntax Sem Types.
Import ListNotations.
Local Open Scope string_scope.

Definition is_int (q : Qc) : bool := Pos.eqb (Qden (this q)) 1.

Definition atom := (expr * cop * expr)%type.

Definition is_reduced (a : atom) : bool :=
  match a with (EVar _, _, EConst q) => is_int q | _ => false end.
Definition cop_is_eq (o : cop) : bool := match o with Ceq => true | _ => false end.
Definition is_normalized (a : atom) : bool :=
  match a with (EVar _, o, EConst _) => cop_is_eq o | _ => false end.
(* the rule before /repo a5588d1 *)
Definition is_normalized_old (a : atom) : bool :=
  match a with (EVar _, o, EConst q) => is_int q && cop_is_eq o | _ => false end.

(* get_valid_values *)
Definition valid_values (vs : list Qc) (o : cop) (q : Qc) : list Qc := filter (fun v => cop_holds o v q) vs.

Definition eq_atom (x : var) (v : Qc) : cond := CAtom (EVar x) Ceq (EConst v).
Definition or_chain (x : var) (vs : list Qc) : cond :=
  match vs with
  | [] => CFalse
  | v :: vs' => fold_left (fun c w => COr c (eq_atom x w)) vs' (eq_atom x v)
  end.

Inductive norm_result :=
| NErr                 (* NormalizingException "... cannot be normalized because it's not reduced" *)
| NFailed (a : atom)   (* returned unchanged in the list of failed atoms *)
| NOk (c : cond).

Definition get_normalized (T : tenv) (a : atom) : norm_result :=
  if is_reduced a then
    match a with
    | (EVar x, o, EConst q) =>
        match tlookup T x with
        | Some vs => NOk (or_chain x (valid_values vs o q))
        | None => NFailed a
        end
    | _ => NErr
    end
  else NErr.

(* to_arithm raises no exception on c; [norm] is the is_normalized test in force *)
Fixpoint arithm_defined_with (norm : atom -> bool) (T : tenv) (c : cond) : bool :=
  match c with
  | CTrue | CFalse => true
  | CAtom a o b =>
      norm (a, o, b) &&
      match a with EVar x => match tlookup T x with Some _ => true | None => false end | _ => false end
  | CNot c1 => arithm_defined_with norm T c1
  | CAnd c1 c2 | COr c1 c2 => arithm_defined_with norm T c1 && arithm_defined_with norm T c2
  end.
Definition arithm_defined := arithm_defined_with is_normalized.
Definition arithm_defined_old := arithm_defined_with is_normalized_old.

Definition int_valued (T : tenv) : Prop :=
  forall x vs, tlookup T x = Some vs -> forallb is_int vs = true.

Lemma arithm_defined_chain norm T x ws c0 :
  arithm_defined_with norm T c0 = true ->
  (forall w, In w ws -> arithm_defined_with norm T (eq_atom x w) = true) ->
  arithm_defined_with norm T (fold_left (fun c w => COr c (eq_atom x w)) ws c0) = true.
Proof.
  revert c0; induction ws as [|w ws IH]; intros c0 H0 H; cbn [fold_left]; [exact H0|].
  apply IH.
  - cbn [arithm_defined_with]. rewrite H0. apply H. left; reflexivity.
  - intros w' Hw'. apply H. right; exact Hw'.
Qed.

Lemma normalized_arithmetizable_with norm T a c :
  (forall x vs w, tlookup T x = Some vs -> In w vs -> norm (EVar x, Ceq, EConst w) = true) ->
  get_normalized T a = NOk c -> arithm_defined_with norm T c = true.
Proof.
  intros HT H. unfold get_normalized in H. destruct (is_reduced a) eqn:Er; [|discriminate].
  destruct a as [[p o] b]. destruct p as [|x| | |]; try discriminate. destruct b as [q| | | |]; try discriminate.
  destruct (tlookup T x) as [vs|] eqn:Ex; [|discriminate]. injection H as <-.
  assert (Hall : forall w, In w (valid_values vs o q) -> arithm_defined_with norm T (eq_atom x w) = true).
  { intros w Hw. unfold valid_values in Hw. apply filter_In in Hw. destruct Hw as [Hw _].
    cbn [arithm_defined_with eq_atom]. rewrite Ex, (HT x vs w Ex Hw). reflexivity. }
  unfold or_chain. destruct (valid_values vs o q) as [|v vs'] eqn:Ev; [reflexivity|].
  apply arithm_defined_chain.
  - apply Hall. left; reflexivity.
  - intros w Hw. apply Hall. right; exact Hw.
Qed.

(* repaired code: whatever ConditionsNormalizer produces can be arithmetised — ANY finite types *)
Theorem normalized_arithmetizable T a c :
  get_normalized T a = NOk c -> arithm_defined T c = true.
Proof. apply normalized_arithmetizable_with. intros x vs w _ _. reflexivity. Qed.

(* the rule before a5588d1 needed integer-valued types ... *)
Theorem normalized_arithmetizable_old_rule T a c :
  int_valued T -> get_normalized T a = NOk c -> arithm_defined_old T c = true.
Proof.
  intros HT. apply normalized_arithmetizable_with. intros x vs w Ex Hw.
  cbn [is_normalized_old cop_is_eq]. pose proof (HT x vs Ex) as Hi. rewrite forallb_forall in Hi.
  rewrite (Hi w Hw). reflexivity.
Qed.

(* ... defect 17: without it the normal form was refused by to_arithm
   (x = 1/2 {1/2} 3/2; if x < 1: ...  ->  x == 1/2  ->  "Atom x == 1/2 is not normalized") *)
Theorem normalized_arithmetizable_old_rule_refuted :
  exists T a c, get_normalized T a = NOk c /\ arithm_defined_old T c = false /\ arithm_defined T c = true.
Proof.
  exists [("x", [mkq 1 2; mkq 3 2])], (EVar "x", Clt, EConst (mkq 1 1)), (eq_atom "x" (mkq 1 2)).
  repeat split; vm_compute; reflexivity.
Qed.

(* ---- ConstantsTransformer after ConditionsReducer ---- *)
Fixpoint esubst (x : var) (v : Qc) (e : expr) : expr :=
  match e with
  | EConst q => EConst q
  | EVar y => if var_eqb y x then EConst v else EVar y
  | EAdd a b => EAdd (esubst x v a) (esubst x v b)
  | EMul a b => EMul (esubst x v a) (esubst x v b)
  | EPow a k => EPow (esubst x v a) k
  end.
Definition atom_subs (x : var) (v : Qc) (a : atom) : atom :=
  match a with (p, o, q) => (esubst x v p, o, esubst x v q) end.

Definition atom_vars (a : atom) : list var := match a with (p, _, q) => vars_of p ++ vars_of q end.
Definition mem_v (x : var) (l : list var) : bool := existsb (var_eqb x) l.

(* ConstantsTransformer on the (already reduced) conditions of a program.  Old rule: substitute the
   fixed constant everywhere.  Rule since 99cc64b: a constant that occurs in some condition is not
   folded at all (it stays a variable and gets a singleton type). *)
Definition fold_constant_old (k : var) (v : Qc) (conds : list atom) : list atom := map (atom_subs k v) conds.
Definition fold_constant (k : var) (v : Qc) (conds : list atom) : list atom :=
  if mem_v k (flat_map atom_vars conds) then conds else map (atom_subs k v) conds.

(* folding a fixed constant keeps a reduced atom reduced iff the atom is not ABOUT the constant *)
Theorem subs_keeps_reduced k v a :
  is_reduced a = true -> (forall o q, a <> (EVar k, o, q)) -> is_reduced (atom_subs k v a) = true.
Proof.
  intros H Hne. destruct a as [[p o] b]. destruct p as [|y| | |]; try discriminate. destruct b as [q| | | |]; try discriminate.
  cbn [atom_subs esubst]. destruct (var_eqb y k) eqn:E; [|exact H].
  apply String.eqb_eq in E. subst. exfalso. exact (Hne o (EConst q) eq_refl).
Qed.

(* repaired code: reduced conditions stay reduced, whatever the constant — no hypothesis *)
Theorem fold_constant_keeps_reduced k v conds :
  forallb is_reduced conds = true -> forallb is_reduced (fold_constant k v conds) = true.
Proof.
  intros H. unfold fold_constant. destruct (mem_v k (flat_map atom_vars conds)) eqn:Em; [exact H|].
  rewrite forallb_forall in *. intros a' Ha'. apply in_map_iff in Ha'. destruct Ha' as (a & <- & Ha).
  apply subs_keeps_reduced; [apply H; exact Ha|].
  intros o q ->. assert (Hin : mem_v k (flat_map atom_vars conds) = true); [|congruence].
  unfold mem_v. apply existsb_exists. exists k. split; [|apply String.eqb_refl].
  apply in_flat_map. exists (EVar k, o, q). split; [exact Ha | left; reflexivity].
Qed.

(* defect 19 (rule before 99cc64b):  a = 1 (never assigned in the loop);  if a == 0: ...   ->
   "Atom 1 == 0 cannot be normalized because it's not reduced" *)
Theorem constants_after_reducer_old_rule_refuted :
  exists k v conds T, forallb is_reduced conds = true /\
    existsb (fun a => match get_normalized T a with NErr => true | _ => false end) (fold_constant_old k v conds) = true /\
    forallb is_reduced (fold_constant k v conds) = true.
Proof.
  exists "a", (mkq 1 1), [(EVar "a", Ceq, EConst (mkq 0 1))], []. repeat split; vm_compute; reflexivity.
Qed.

(* ---- RecBuilder._get_last_assign_index: a lookup in the index of LOOP-BODY variables ---- *)
Fixpoint var_index (body_vars : list var) (x : var) (i : nat) : option nat :=
  match body_vars with [] => None | y :: l => if var_eqb x y then Some i else var_index l x (S i) end.
(* rule before 84580b5: a variable outside the index is a KeyError (None) *)
Fixpoint last_assign_index_old (body_vars : list var) (xs : list var) : option nat :=
  match xs with
  | [] => Some O
  | x :: xs' => match var_index body_vars x 0, last_assign_index_old body_vars xs' with
                | Some i, Some j => Some (Nat.max (S i) j) | _, _ => None end
  end.
(* rule since 84580b5: the goal's folded constants are replaced by their values first ([consts]),
   symbols that are assigned nowhere are skipped *)
Fixpoint last_assign_index (body_vars : list var) (xs : list var) : option nat :=
  match xs with
  | [] => Some O
  | x :: xs' => match last_assign_index body_vars xs' with
                | Some j => match var_index body_vars x 0 with Some i => Some (Nat.max (S i) j) | None => Some j end
                | None => None
                end
  end.
Definition goal_index (consts body_vars goal_vars : list var) : option nat :=
  last_assign_index body_vars (filter (fun x => negb (existsb (var_eqb x) consts)) goal_vars).

Lemma var_index_some l x : In x l -> forall i, var_index l x i <> None.
Proof.
  induction l as [|y l IH]; intros H i; [destruct H|]. cbn [var_index].
  destruct (var_eqb x y) eqn:E; [discriminate|]. apply IH. destruct H as [->|H]; [|exact H].
  unfold var_eqb in E. rewrite String.eqb_refl in E. discriminate.
Qed.
Theorem goal_over_body_variables_indexed_old_rule body_vars xs :
  incl xs body_vars -> last_assign_index_old body_vars xs <> None.
Proof.
  induction xs as [|x xs IH]; intros H; cbn [last_assign_index_old]; [discriminate|].
  destruct (var_index body_vars x 0) eqn:E; [|exfalso; revert E; apply var_index_some; apply H; left; reflexivity].
  destruct (last_assign_index_old body_vars xs) eqn:E2; [discriminate|].
  exfalso. apply IH; [intros y Hy; apply H; right; exact Hy | reflexivity].
Qed.
(* repaired code: every goal is indexed — no hypothesis on its variables *)
Theorem goal_indexed consts body_vars goal_vars : goal_index consts body_vars goal_vars <> None.
Proof.
  unfold goal_index. generalize (filter (fun x => negb (existsb (var_eqb x) consts)) goal_vars).
  induction l as [|x l IH]; cbn [last_assign_index]; [discriminate|].
  destruct (last_assign_index body_vars l); [|exact IH].
  destruct (var_index body_vars x 0); discriminate.
Qed.
(* defect 18 (rule before 84580b5):  k = 2; x = 0; while true: x = x + k  — k is folded away, goal E(k*x) *)
Theorem goal_over_folded_constant_old_rule_refuted :
  exists consts body_vars xs, last_assign_index_old body_vars xs = None /\ goal_index consts body_vars xs = Some 1%nat.
Proof. exists ["k"], ["x"], ["k"; "x"]. split; reflexivity. Qed.
