(* C15 — composition of the parts: from an accepted BIF file to the law of the generated
   program and the two query answers; the limit of the sampling time; a small model of the
   symbol mismatch in cli.common.transform_to_after_loop. *)
From Coq Require Import String Arith Bool QArith Qcanon Lia List Permutation Reals.
From Coquelicot Require Import Coquelicot.
From Polar Require Import Qcx BayesNet BayesNetSem BayesNetSpec BayesNetTopo BayesNetCpt BayesNetQuery
     BayesNetJoint BayesNetLimit.
Import ListNotations.
Open Scope nat_scope.

(* a network whose topological sort succeeds lists no parent twice (the Python assert) *)
Lemma gen_body_nodup net body :
  wf_network net -> gen_body net = Some body ->
  forall x v, nth_error net x = Some v -> NoDup (nv_par v).
Proof.
  intros Hwf Hg x v Hx. unfold gen_body in Hg.
  destruct (topo_sort (map nv_par net)) as [ord|] eqn:E; [|discriminate].
  assert (Hb : forall i ps, nth_error (map nv_par net) i = Some ps ->
                       forall p, In p ps -> p < length (map nv_par net)).
  { intros i ps Hi p Hp. rewrite map_length.
    rewrite nth_error_map in Hi. destruct (nth_error net i) as [vi|] eqn:Ei; [|discriminate].
    cbn in Hi. injection Hi as <-. destruct (Hwf i vi Ei) as (_ & Hlt & _). apply Hlt, Hp. }
  pose proof (topo_sort_nodup _ _ Hb E) as Hw.
  destruct (Hw x (nv_par v)) as [Hnd _]; [|exact Hnd].
  rewrite nth_error_map, Hx. reflexivity.
Qed.

Lemma codegen_gen_body net q p : codegen net q = Some p -> exists body, gen_body net = Some body.
Proof.
  unfold codegen. destruct (gen_body net) as [b|]; [intros _; exists b; reflexivity | discriminate].
Qed.

Section FromNetwork.
  Variable net : network.
  Hypothesis Hwf : wf_network net.

  Theorem joint_of_wf_network body :
    gen_body net = Some body ->
    forall s0 a, In a (all_assignments net) ->
      mass (exec_body body s0) (fun s => nats_eqb (read (length net) s) a) = joint_prob net a.
  Proof. intros Hg. exact (generated_body_is_joint net Hwf (gen_body_nodup net body Hwf Hg) body Hg). Qed.

  Theorem support_of_wf_network body :
    gen_body net = Some body ->
    forall s0,
      expect (exec_body body s0) (fun _ => 1%Qc) = 1%Qc /\
      forall ws, In ws (exec_body body s0) ->
        In (read (length net) (snd ws)) (all_assignments net) /\
        forall y, length net <= y -> snd ws y = s0 y.
  Proof.
    intros Hg s0. pose proof (gen_body_nodup net body Hwf Hg) as Hnd. split.
    - exact (generated_body_total net Hwf Hnd body Hg s0).
    - exact (generated_body_support net Hwf Hnd body Hg s0).
  Qed.

  Theorem enumeration_of_wf_network body :
    gen_body net = Some body ->
    forall s0 (g : list nat -> Qc),
      expect (exec_body body s0) (fun s => g (read (length net) s)) = joint_expect net g.
  Proof. intros Hg. exact (body_expect_by_enumeration net Hwf (gen_body_nodup net body Hwf Hg) body Hg). Qed.

  Theorem exact_inference_of_wf_network tn ev p :
    codegen net (QExact tn ev) = Some p ->
    exists c t, resolve_evidence net ev = Some c /\ find_nvar net tn = Some t /\
      forall n k,
        expect (run p (S n)) (fun s => qpow (qnat (s (S (length net)))) (S k))
          = joint_expect net (fun a => (ind (ev_holds c a) * qpow (qnat (nth t a O)) (S k))%Qc) /\
        expect (run p (S n)) (fun s => qnat (s (length net)))
          = joint_expect net (fun a => ind (ev_holds c a)).
  Proof.
    intros Hc. destruct (codegen_gen_body _ _ _ Hc) as [body Hg].
    exact (exact_inference_program net tn ev p Hwf (gen_body_nodup net body Hwf Hg) Hc).
  Qed.

  Theorem sampling_time_of_wf_network ev p :
    codegen net (QSample ev) = Some p ->
    exists c, resolve_evidence net ev = Some c /\
      let q := joint_expect net (fun a => ind (ev_holds c a)) in
      (forall n, expect (run p n) (fun s => qnat (s (length net))) = geom (1 - q) n) /\
      (forall n, (q * geom (1 - q) n = 1 - qpow (1 - q) (S n))%Qc).
  Proof.
    intros Hc. destruct (codegen_gen_body _ _ _ Hc) as [body Hg].
    destruct (sampling_time_program net ev p Hwf (gen_body_nodup net body Hwf Hg) Hc) as [c [Hr Hn]].
    exists c. split; [exact Hr|]. cbv zeta. split; [exact Hn|].
    intros n. apply sampling_closed_form.
  Qed.

  (* the limit (real numbers: Coquelicot, hence the axioms of Coq's Reals) *)
  Theorem sampling_time_limit_of_wf_network ev p :
    codegen net (QSample ev) = Some p ->
    exists c, resolve_evidence net ev = Some c /\
      let q := joint_expect net (fun a => ind (ev_holds c a)) in
      ((0 < q)%Qc -> (q <= 1)%Qc ->
       is_lim_seq (fun n => Q2R (expect (run p n) (fun s => qnat (s (length net))))) (/ Q2R q)%R).
  Proof.
    intros Hc. destruct (sampling_time_of_wf_network ev p Hc) as [c [Hr [Hn _]]].
    exists c. split; [exact Hr|]. cbv zeta in *. intros H0 H1.
    apply (is_lim_seq_ext (fun n => Q2R (geom (1 - joint_expect net (fun a => ind (ev_holds c a))) n))).
    - intros n. rewrite Hn. reflexivity.
    - apply sampling_time_limit; assumption.
  Qed.
End FromNetwork.

(* ------------------------------------------------------------------ the after-loop limit
   cli.common.transform_to_after_loop calls limit_seq(e, Symbol("n", integer=True)) (repaired, /repo 6cf1f48);
   the closed forms of the solvers are expressions in Symbol("n", integer=True).  In sympy two symbols
   are equal iff name AND assumptions agree.  Model: closed forms a + b * r^n over one symbol;
   limit_seq with respect to a symbol the expression does not contain returns the expression
   unchanged.  The OLD rule used the plain Symbol("n") and is kept only as transform_to_after_loop_old_rule. *)
Record sym := { sy_name : string; sy_integer : bool }.
Definition sym_eqb (x y : sym) : bool := String.eqb (sy_name x) (sy_name y) && Bool.eqb (sy_integer x) (sy_integer y).
Record geo := { g_a : Qc; g_b : Qc; g_r : Qc; g_sym : sym }.           (* a + b * r^n *)
Definition geo_eval (e : geo) (n : nat) : Qc := (g_a e + g_b e * qpow (g_r e) n)%Qc.
Inductive lim_result := LConst (c : Qc) | LExpr (e : geo).
(* limit_seq(e, s) for |r| < 1: if e does not contain s it is constant with respect to s *)
Definition limit_seq_model (e : geo) (s : sym) : lim_result :=
  if sym_eqb (g_sym e) s then LConst (g_a e) else LExpr e.
Definition n_plain : sym := {| sy_name := "n"; sy_integer := false |}.
Definition n_integer : sym := {| sy_name := "n"; sy_integer := true |}.
Definition transform_to_after_loop_model (e : geo) : lim_result := limit_seq_model e n_integer.
Definition transform_to_after_loop_old_rule (e : geo) : lim_result := limit_seq_model e n_plain.

(* E[count]_n of a sampling-time query with evidence probability q, as the solver returns it *)
Definition count_closed_form (q : Qc) : geo :=
  {| g_a := (1 / q)%Qc; g_b := (- ((1 - q) / q))%Qc; g_r := (1 - q)%Qc; g_sym := n_integer |}.

Lemma count_closed_form_ok q n : q <> 0%Qc -> geo_eval (count_closed_form q) n = geom (1 - q) n.
Proof.
  intros Hq. unfold geo_eval, count_closed_form. cbn [g_a g_b g_r].
  pose proof (sampling_closed_form q n) as H. cbn [qpow] in H.
  assert (E : geom (1 - q) n = ((1 - (1 - q) * qpow (1 - q) n) / q)%Qc).
  { rewrite <- H. field. exact Hq. }
  rewrite E. field. exact Hq.
Qed.

(* the repaired rule returns the limit 1/q of the sampling-time closed form, for every q *)
Theorem after_loop_takes_limit :
  forall q : Qc, transform_to_after_loop_model (count_closed_form q) = LConst (1 / q)%Qc.
Proof. intros q. reflexivity. Qed.

(* "transform_to_after_loop returns the limit" was false for the OLD rule (plain symbol n): the
   result was still the n-dependent closed form *)
Theorem after_loop_symbol_old_rule_refuted :
  exists q : Qc, (0 < q)%Qc /\ (q <= 1)%Qc /\
    transform_to_after_loop_old_rule (count_closed_form q) = LExpr (count_closed_form q) /\
    geo_eval (count_closed_form q) 0 <> (1 / q)%Qc.
Proof.
  exists (mkq 1 2). repeat split; try reflexivity; try (vm_compute; discriminate).
Qed.
