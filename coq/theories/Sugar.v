(* C19 — the source-level sugar of Polar's input language means what the parser turns it
   into, under the reference semantics Sem.v, for ALL programs / states / test functions:
     elif chains            = nested else-if
     simultaneous assignment = assign fresh temporaries, then copy back   (structure_transformer._assign_simult)
     omitted last probability = 1 - (sum of the listed ones)               (structure_transformer._assign_categorical)
   and a choice is a probability law iff its constant probabilities are >= 0 and sum to <= 1;
   the faithful model of PolyAssignment.__init__ accepts every probability vector. *)
From Coq Require Import String List QArith Qcanon ZArith Bool Lia.
From Polar Require Import Qcx Dist Syntax Sem.
Import ListNotations.
Local Open Scope Qc_scope.

Lemma mkq_1_1 : mkq 1 1 = 1.
Proof. apply Qc_is_canon. reflexivity. Qed.
Lemma mkq_m1_1 : mkq (-1) 1 = - (1).
Proof. apply Qc_is_canon. reflexivity. Qed.

Section WithLaw.
  Variable law : string -> list Qc -> dist Qc.

  (* ================= elif ================================================================ *)
  (* the nested form: each elif becomes an if in the else block of the previous one *)
  Fixpoint nest (bs : branches) (els : block) : block :=
    match bs with
    | BrNil => els
    | BrCons c b bs' => BCons (SIf (BrCons c b BrNil) (nest bs' els)) BNil
    end.

  Lemma E_single (st : stmt) s (f : state -> Qc) :
    E (exec_block law (BCons st BNil) s) f = E (exec_stmt law st s) f.
  Proof. cbn [exec_block]. rewrite E_bind. apply E_ext. intros a. cbn [exec_block]. apply E_ret. Qed.

  Theorem elif_is_nested_else_if : forall bs els s (f : state -> Qc),
    E (exec_stmt law (SIf bs els) s) f = E (exec_block law (nest bs els) s) f.
  Proof.
    induction bs as [|c b bs IH]; intros els s f.
    - reflexivity.
    - cbn [nest]. rewrite (E_single (SIf (BrCons c b BrNil) (nest bs els)) s f). cbn [exec_stmt exec_branches].
      destruct (holds c s); [reflexivity|].
      rewrite <- IH. reflexivity.
  Qed.

  (* one step, in the shape of the property text: if/elif.../else = if/else{ if.../else } *)
  Corollary elif_one_step : forall c b bs els s (f : state -> Qc),
    E (exec_stmt law (SIf (BrCons c b bs) els) s) f =
    E (exec_stmt law (SIf (BrCons c b BrNil) (BCons (SIf bs els) BNil)) s) f.
  Proof.
    intros. cbn [exec_stmt exec_branches]. destruct (holds c s); [reflexivity|].
    symmetry. exact (E_single (SIf bs els) s f).
  Qed.

  (* ================= variables read by a right-hand side ================================== *)
  Fixpoint evars (e : expr) : list var :=
    match e with
    | EConst _ => []
    | EVar x => [x]
    | EAdd a b | EMul a b => evars a ++ evars b
    | EPow a _ => evars a
    end.
  Definition dvars (d : draw) : list var :=
    match d with
    | DBern p => evars p
    | DCat ps => flat_map evars ps
    | DUnif _ _ => []
    | DCont _ args => flat_map evars args
    end.
  Definition rvars (r : rhs) : list var :=
    match r with
    | RChoice alts => flat_map (fun pe => evars (fst pe) ++ evars (snd pe)) alts
    | RDraw d => dvars d
    end.

  Lemma eval_agree e s s' : (forall x, In x (evars e) -> s x = s' x) -> eval e s = eval e s'.
  Proof.
    induction e; simpl; intros H; try reflexivity.
    - apply H. left. reflexivity.
    - rewrite IHe1, IHe2; [reflexivity | |]; intros x Hx; apply H; apply in_or_app; auto.
    - rewrite IHe1, IHe2; [reflexivity | |]; intros x Hx; apply H; apply in_or_app; auto.
    - rewrite IHe; [reflexivity | exact H].
  Qed.

  Lemma map_eval_agree es s s' :
    (forall x, In x (flat_map evars es) -> s x = s' x) -> map (fun e => eval e s) es = map (fun e => eval e s') es.
  Proof.
    intros H. apply map_ext_in. intros e He. apply eval_agree. intros x Hx. apply H.
    apply in_flat_map. exists e. split; assumption.
  Qed.

  Lemma sample_agree r s s' : (forall x, In x (rvars r) -> s x = s' x) -> sample law r s = sample law r s'.
  Proof.
    destruct r as [alts | d]; simpl; intros H.
    - apply map_ext_in. intros [p e] Hin. simpl.
      rewrite (eval_agree p s s'), (eval_agree e s s'); [reflexivity | |];
        intros x Hx; apply H; apply in_flat_map; exists (p, e); (split; [exact Hin|]); simpl; apply in_or_app; auto.
    - destruct d as [p | ps | a b | fam args]; simpl in *.
      + rewrite (eval_agree p s s' H). reflexivity.
      + rewrite (map_eval_agree ps s s' H). reflexivity.
      + reflexivity.
      + rewrite (map_eval_agree args s s' H). reflexivity.
  Qed.

  (* ================= simultaneous assignment ============================================== *)
  Fixpoint samples (rs : list rhs) (s : state) : dist (list Qc) :=
    match rs with
    | [] => ret []
    | r :: rs' => bind (sample law r s) (fun v => bind (samples rs' s) (fun vs => ret (v :: vs)))
    end.
  Fixpoint upds (t : state) (xs : list var) (vs : list Qc) : state :=
    match xs, vs with
    | x :: xs', v :: vs' => upds (upd t x v) xs' vs'
    | _, _ => t
    end.

  Lemma simult_samples : forall l s t (f : state -> Qc),
    E (exec_simult law l s t) f = E (samples (map snd l) s) (fun vs => f (upds t (map fst l) vs)).
  Proof.
    induction l as [|[x r] l IH]; intros s t f; cbn [exec_simult samples map fst snd].
    - rewrite !E_ret. reflexivity.
    - rewrite !E_bind. apply E_ext. intros v. rewrite IH, E_bind. apply E_ext. intros vs.
      rewrite E_ret. reflexivity.
  Qed.

  Lemma samples_length : forall rs s vs, supp (samples rs s) vs -> length vs = length rs.
  Proof.
    induction rs as [|r rs IH]; intros s vs H; cbn [samples] in H.
    - apply supp_ret in H. subst. reflexivity.
    - apply supp_bind in H. destruct H as (v & _ & H).
      apply supp_bind in H. destruct H as (vs' & Hvs & H).
      apply supp_ret in H. subst. simpl. rewrite (IH s vs' Hvs). reflexivity.
  Qed.

  Definition copy (x t : var) : stmt := SAssign x (RDet (EVar t)).
  Fixpoint assign_temps (l : list (var * rhs)) (ts : list var) : list stmt :=
    match l, ts with
    | (_, r) :: l', t :: ts' => SAssign t r :: assign_temps l' ts'
    | _, _ => []
    end.
  Fixpoint copy_back (l : list (var * rhs)) (ts : list var) : list stmt :=
    match l, ts with
    | (x, _) :: l', t :: ts' => copy x t :: copy_back l' ts'
    | _, _ => []
    end.
  (* what _assign_simult returns: assignments1 + assignments2 *)
  Definition temps_block (l : list (var * rhs)) (ts : list var) : block :=
    block_of_list (assign_temps l ts ++ copy_back l ts).

  Lemma exec_list_app : forall l1 l2 s (f : state -> Qc),
    E (exec_block law (block_of_list (l1 ++ l2)) s) f =
    E (exec_block law (block_of_list l1) s) (fun s' => E (exec_block law (block_of_list l2) s') f).
  Proof.
    induction l1 as [|st l1 IH]; intros l2 s f; cbn [app block_of_list exec_block].
    - rewrite E_ret. reflexivity.
    - rewrite !E_bind. apply E_ext. intros a. apply IH.
  Qed.

  Definition agree_off (T : list var) (a b : state) : Prop := forall y, ~ In y T -> a y = b y.

  Lemma upd_other s x v y : y <> x -> upd s x v y = s y.
  Proof.
    intros H. unfold upd, var_eqb. destruct (String.eqb y x) eqn:E; [|reflexivity].
    apply String.eqb_eq in E. contradiction.
  Qed.
  Lemma upd_same s x v : upd s x v x = v.
  Proof. unfold upd, var_eqb. rewrite String.eqb_refl. reflexivity. Qed.

  Lemma upds_off : forall xs vs s y, ~ In y xs -> upds s xs vs y = s y.
  Proof.
    induction xs as [|x xs IH]; intros vs s y H; [reflexivity|].
    destruct vs as [|v vs]; [reflexivity|]. cbn [upds]. rewrite IH.
    - apply upd_other. intros ->. apply H. left. reflexivity.
    - intros Hin. apply H. right. exact Hin.
  Qed.

  Lemma upds_agree T : forall xs vs a b, agree_off T a b -> agree_off T (upds a xs vs) (upds b xs vs).
  Proof.
    induction xs as [|x xs IH]; intros vs a b H; [exact H|].
    destruct vs as [|v vs]; [exact H|]. cbn [upds]. apply IH.
    intros y Hy. unfold upd. destruct (var_eqb y x); [reflexivity | apply H; exact Hy].
  Qed.

  Lemma map_upds_self : forall ts vs s, NoDup ts -> length vs = length ts -> map (upds s ts vs) ts = vs.
  Proof.
    induction ts as [|t ts IH]; intros vs s Hnd Hlen; destruct vs as [|v vs]; try discriminate Hlen; [reflexivity|].
    inversion Hnd as [|? ? Hnotin Hnd']; subst. cbn [upds map]. f_equal.
    - rewrite upds_off; [apply upd_same | exact Hnotin].
    - apply IH; [exact Hnd' | simpl in Hlen; lia].
  Qed.

  Lemma assign_temps_sem T s0 : forall l ts cur (g : state -> Qc),
    length ts = length l -> (forall t, In t ts -> In t T) ->
    (forall r x, In r (map snd l) -> In x (rvars r) -> ~ In x T) ->
    agree_off T cur s0 ->
    E (exec_block law (block_of_list (assign_temps l ts)) cur) g =
    E (samples (map snd l) s0) (fun vs => g (upds cur ts vs)).
  Proof.
    induction l as [|[x r] l IH]; intros ts cur g Hlen HT Hfresh Hag; destruct ts as [|t ts]; try discriminate Hlen.
    - cbn [assign_temps block_of_list exec_block map samples]. rewrite !E_ret. reflexivity.
    - cbn [assign_temps block_of_list exec_block exec_stmt map snd samples].
      rewrite !E_bind.
      rewrite (sample_agree r cur s0).
      + apply E_ext. intros v. rewrite E_ret.
        rewrite IH.
        * rewrite E_bind. apply E_ext. intros vs. rewrite E_ret. reflexivity.
        * simpl in Hlen. lia.
        * intros t' Ht'. apply HT. right. exact Ht'.
        * intros r' x' Hr' Hx'. apply (Hfresh r' x'); [right; exact Hr' | exact Hx'].
        * intros y Hy. rewrite upd_other; [apply Hag; exact Hy|].
          intros ->. apply Hy. apply HT. left. reflexivity.
      + intros y Hy. apply Hag. apply (Hfresh r y); [left; reflexivity | exact Hy].
  Qed.

  Lemma copy_back_sem : forall l ts cur (f : state -> Qc),
    length ts = length l -> (forall x, In x (map fst l) -> ~ In x ts) ->
    E (exec_block law (block_of_list (copy_back l ts)) cur) f = f (upds cur (map fst l) (map cur ts)).
  Proof.
    induction l as [|[x r] l IH]; intros ts cur f Hlen Hdisj; destruct ts as [|t ts]; try discriminate Hlen.
    - cbn [copy_back block_of_list exec_block map]. rewrite E_ret. reflexivity.
    - cbn [copy_back block_of_list exec_block exec_stmt copy RDet sample map fst snd eval bind dscale ret app].
      rewrite E_app, E_dscale. cbn [E]. rewrite IH.
      + cbn [upds map fst].
        replace (map (upd cur x (cur t)) ts) with (map cur ts).
        * rewrite mkq_1_1. ring.
        * apply map_ext_in. intros y Hy. symmetry. apply upd_other.
          intros ->. apply (Hdisj x); [left; reflexivity | right; exact Hy].
      + simpl in Hlen. lia.
      + intros y Hy Hin. apply (Hdisj y); [right; exact Hy | right; exact Hin].
  Qed.

  (* Simultaneous assignment = temporaries, on every test function that does not read the
     temporaries.  Freshness of the temporaries: pairwise distinct, not assigned by the
     statement, not read by any right-hand side. *)
  Theorem simult_is_temporaries : forall l ts s (f : state -> Qc),
    length ts = length l -> NoDup ts ->
    (forall x, In x (map fst l) -> ~ In x ts) ->
    (forall r x, In r (map snd l) -> In x (rvars r) -> ~ In x ts) ->
    (forall a b, agree_off ts a b -> f a = f b) ->
    E (exec_stmt law (SSimult l) s) f = E (exec_block law (temps_block l ts) s) f.
  Proof.
    intros l ts s f Hlen Hnd Hdisj Hfresh Hf.
    cbn [exec_stmt]. rewrite simult_samples.
    unfold temps_block. rewrite exec_list_app.
    rewrite (assign_temps_sem ts s l ts s); [| exact Hlen | auto | exact Hfresh | intros y _; reflexivity].
    apply E_ext_in. intros w vs Hin.
    assert (Hl : length vs = length ts).
    { rewrite Hlen, <- (map_length snd l). apply (samples_length _ s). exists w. exact Hin. }
    rewrite copy_back_sem; [| exact Hlen | exact Hdisj].
    rewrite (map_upds_self ts vs s Hnd Hl).
    apply Hf. apply upds_agree. intros y Hy. symmetry. apply upds_off. exact Hy.
  Qed.

  (* ================= implicit last probability ============================================ *)
  Definition qsum (l : list Qc) : Qc := fold_right Qcplus 0 l.
  (* the expression the parser builds: 1 - p1 - p2 - ... *)
  Definition one_minus (ps : list expr) : expr := fold_left ESub ps (EConst (mkq 1 1)).
  Definition fill_last (alts : list (expr * expr)) (e : expr) : rhs :=
    RChoice (alts ++ [(one_minus (map fst alts), e)]).

  Lemma eval_ESub a b s : eval (ESub a b) s = eval a s - eval b s.
  Proof. unfold ESub, ENeg. cbn [eval]. rewrite mkq_m1_1. ring. Qed.

  Lemma eval_fold_sub : forall ps acc s,
    eval (fold_left ESub ps acc) s = eval acc s - qsum (map (fun p => eval p s) ps).
  Proof.
    induction ps as [|p ps IH]; intros acc s; cbn [fold_left map qsum fold_right].
    - ring.
    - rewrite IH, eval_ESub. unfold qsum. ring.
  Qed.

  Lemma eval_one_minus ps s : eval (one_minus ps) s = 1 - qsum (map (fun p => eval p s) ps).
  Proof. unfold one_minus. rewrite eval_fold_sub. cbn [eval]. rewrite mkq_1_1. reflexivity. Qed.

  Lemma E_choice_app alts1 alts2 s (f : Qc -> Qc) :
    E (sample law (RChoice (alts1 ++ alts2)) s) f =
    E (sample law (RChoice alts1) s) f + E (sample law (RChoice alts2) s) f.
  Proof. cbn [sample]. rewrite map_app, E_app. reflexivity. Qed.

  (* an explicit last probability that equals 1 - sum gives the same law as omitting it *)
  Theorem implicit_last_probability : forall alts q e s (f : Qc -> Qc),
    eval q s = 1 - qsum (map (fun pe => eval (fst pe) s) alts) ->
    E (sample law (RChoice (alts ++ [(q, e)])) s) f = E (sample law (fill_last alts e) s) f.
  Proof.
    intros alts q e s f Hq. unfold fill_last. rewrite !E_choice_app. f_equal.
    cbn [sample map E fst snd]. rewrite eval_one_minus, Hq, map_map. reflexivity.
  Qed.

  Lemma mass_choice alts s :
    mass (sample law (RChoice alts) s) = qsum (map (fun pe => eval (fst pe) s) alts).
  Proof.
    unfold mass. induction alts as [|[p e] alts IH]; cbn [sample map E fst snd qsum fold_right] in *.
    - reflexivity.
    - rewrite IH. unfold qsum. ring.
  Qed.

  (* with the omitted probability filled in, the weights always add up to 1 *)
  Theorem implicit_last_total_mass : forall alts e s, mass (sample law (fill_last alts e) s) = 1.
  Proof.
    intros alts e s. unfold fill_last. rewrite mass_choice, map_app.
    cbn [map fst]. rewrite eval_one_minus, map_map. unfold qsum. rewrite fold_right_app.
    cbn [fold_right].
    assert (H : forall l a, fold_right Qcplus a l = fold_right Qcplus 0 l + a)
      by (induction l as [|x l IHl]; intros a; cbn [fold_right]; [ring | rewrite IHl; ring]).
    rewrite H. ring.
  Qed.

  (* ================= validity of probability vectors ======================================= *)
  Definition weights {A} (d : dist A) : list Qc := map fst d.
  Definition is_prob_law {A} (d : dist A) : Prop := Forall (fun w => 0 <= w) (weights d) /\ mass d = 1.
  (* constant probabilities p1..pk listed, last one omitted *)
  Definition valid_probs (ps : list Qc) : Prop := Forall (fun p => 0 <= p) ps /\ qsum ps <= 1.
  Definition const_alts (ps : list Qc) (es : list expr) : list (expr * expr) := combine (map EConst ps) es.

  Lemma const_alts_probs : forall ps es s, length es = length ps ->
    map (fun pe => eval (fst pe) s) (const_alts ps es) = ps.
  Proof.
    induction ps as [|p ps IH]; intros es s H; destruct es as [|e es]; try discriminate H; [reflexivity|].
    unfold const_alts in *. cbn [map combine fst eval]. f_equal. apply IH. simpl in H. lia.
  Qed.

  Lemma weights_choice alts s : weights (sample law (RChoice alts) s) = map (fun pe => eval (fst pe) s) alts.
  Proof. unfold weights. cbn [sample]. rewrite map_map. reflexivity. Qed.

  Theorem choice_is_probability_iff_valid : forall ps es e s, length es = length ps ->
    (is_prob_law (sample law (fill_last (const_alts ps es) e) s) <-> valid_probs ps).
  Proof.
    intros ps es e s Hlen. unfold is_prob_law, valid_probs.
    rewrite implicit_last_total_mass. unfold fill_last. rewrite weights_choice, map_app.
    cbn [map fst]. rewrite eval_one_minus, map_map, (const_alts_probs ps es s Hlen).
    rewrite Forall_app.
    assert (Hle : 0 <= 1 - qsum ps <-> qsum ps <= 1).
    { split; intros H.
      - apply Qcle_minus_iff. exact H.
      - apply Qcle_minus_iff in H. exact H. }
    split.
    - intros [[H1 H2] _]. split; [exact H1|]. apply Hle. inversion H2; assumption.
    - intros [H1 H2]. split; [|reflexivity]. split; [exact H1|]. constructor; [apply Hle; exact H2 | constructor].
  Qed.

  (* all probabilities listed: a law iff all >= 0 and the sum is exactly 1 *)
  Theorem choice_all_listed_iff : forall ps es s, length es = length ps ->
    (is_prob_law (sample law (RChoice (const_alts ps es)) s) <-> Forall (fun p => 0 <= p) ps /\ qsum ps = 1).
  Proof.
    intros ps es s Hlen. unfold is_prob_law.
    rewrite mass_choice, weights_choice, (const_alts_probs ps es s Hlen). reflexivity.
  Qed.
End WithLaw.

(* ================= PolyAssignment.__init__ ====================================================
   program/assignment/poly_assignment.py: __init__(variable, polynomials, probabilities).
   Since /repo commit 626892e: when every probability is a number, raise unless each lies in [0,1]
   and they sum to 1 (the parser has already filled in an omitted last probability as 1 - sum).
   Before that commit there was no check at all (the OLD rule, kept below with its refutation). *)
Definition const_probs (probs : list expr) : option (list Qc) :=
  fold_right (fun e acc => match e, acc with EConst q, Some l => Some (q :: l) | _, _ => None end) (Some []) probs.
Definition probs_ok (ps : list Qc) : bool :=
  forallb (fun p => Qc_leb 0 p && Qc_leb p 1) ps && Qc_eqb (qsum ps) 1.
Definition poly_assignment_init (x : var) (polys probs : list expr) : option stmt :=
  match const_probs probs with
  | Some ps => if probs_ok ps then Some (SAssign x (RChoice (combine probs polys))) else None
  | None => Some (SAssign x (RChoice (combine probs polys)))
  end.
Definition poly_assignment_init_old (x : var) (polys probs : list expr) : option stmt :=
  Some (SAssign x (RChoice (combine probs polys))).

Lemma const_probs_map ps : const_probs (map EConst ps) = Some ps.
Proof. induction ps as [|p ps IH]; [reflexivity|]. cbn [map const_probs fold_right]. fold (const_probs (map EConst ps)). rewrite IH. reflexivity. Qed.

Lemma Qc_leb_le x y : Qc_leb x y = true <-> x <= y.
Proof.
  unfold Qc_leb, Qcle, Qccompare. rewrite Qle_alt.
  destruct (this x ?= this y)%Q; split; intros H; try reflexivity; try discriminate; try (intros E; discriminate E).
  exfalso. apply H. reflexivity.
Qed.

Lemma qsum_nonneg ps : Forall (fun p => 0 <= p) ps -> 0 <= qsum ps.
Proof.
  induction 1 as [|p ps Hp _ IH]; cbn [qsum fold_right].
  - apply Qcle_refl.
  - replace 0 with (0 + 0) by ring. apply Qcplus_le_compat; [exact Hp | exact IH].
Qed.

Lemma qsum_ge ps p : Forall (fun p => 0 <= p) ps -> In p ps -> p <= qsum ps.
Proof.
  induction 1 as [|a ps Ha Hps IH]; intros Hin; [destruct Hin|].
  cbn [qsum fold_right]. fold (qsum ps). destruct Hin as [->|Hin].
  - replace p with (p + 0) at 1 by ring. apply Qcplus_le_compat; [apply Qcle_refl | apply qsum_nonneg; exact Hps].
  - replace p with (0 + p) by ring. apply Qcplus_le_compat; [exact Ha | apply IH; exact Hin].
Qed.

Lemma probs_ok_iff ps : probs_ok ps = true <-> Forall (fun p => 0 <= p) ps /\ qsum ps = 1.
Proof.
  unfold probs_ok. rewrite andb_true_iff, forallb_forall. split.
  - intros [H1 H2]. split.
    + apply Forall_forall. intros p Hp. specialize (H1 p Hp). apply andb_true_iff in H1. apply Qc_leb_le, H1.
    + apply Qc_eqb_true. exact H2.
  - intros [H1 H2]. split.
    + intros p Hp. apply andb_true_iff. split; apply Qc_leb_le.
      * rewrite Forall_forall in H1. apply H1. exact Hp.
      * rewrite <- H2. apply qsum_ge; assumption.
    + rewrite H2. apply Qc_eqb_refl.
Qed.

(* the repaired constructor accepts a constant vector iff it is a probability vector, i.e. iff the
   choice denotes a probability law *)
Theorem repaired_constructor_accepts_iff_valid : forall law x (ps : list Qc) (es : list expr) s,
  length es = length ps ->
  (poly_assignment_init x es (map EConst ps) <> None <->
   is_prob_law (sample law (RChoice (const_alts ps es)) s)).
Proof.
  intros law x ps es s Hlen. rewrite (choice_all_listed_iff law ps es s Hlen), <- probs_ok_iff.
  unfold poly_assignment_init. rewrite const_probs_map.
  destruct (probs_ok ps); split; intros H; try reflexivity; try discriminate; try (intros E; discriminate E).
  exfalso. apply H. reflexivity.
Qed.

(* with the last probability omitted in the text: accepted iff the listed ones are >= 0 and sum to <= 1 *)
Theorem repaired_constructor_implicit_last : forall x (ps : list Qc) (es : list expr),
  (poly_assignment_init x es (map EConst (ps ++ [1 - qsum ps])) <> None <-> valid_probs ps).
Proof.
  intros x ps es. unfold poly_assignment_init. rewrite const_probs_map.
  assert (Hs : qsum (ps ++ [1 - qsum ps]) = 1).
  { unfold qsum. rewrite fold_right_app. cbn [fold_right].
    assert (H : forall l a, fold_right Qcplus a l = fold_right Qcplus 0 l + a)
      by (induction l as [|y l IHl]; intros a; cbn [fold_right]; [ring | rewrite IHl; ring]).
    rewrite H. ring. }
  assert (Hiff : probs_ok (ps ++ [1 - qsum ps]) = true <-> valid_probs ps).
  { rewrite probs_ok_iff, Forall_app. unfold valid_probs. split.
    - intros [[H1 H2] _]. split; [exact H1|]. inversion H2 as [|? ? H3 _]. apply Qcle_minus_iff. exact H3.
    - intros [H1 H2]. split; [|exact Hs]. split; [exact H1|]. constructor; [|constructor].
      apply Qcle_minus_iff in H2. exact H2. }
  destruct (probs_ok (ps ++ [1 - qsum ps])); split; intros H.
  - apply Hiff. reflexivity.
  - intros E; discriminate E.
  - exfalso. apply H. reflexivity.
  - apply Hiff in H. discriminate H.
Qed.

(* the OLD rule (before 626892e): "a choice whose constant probabilities are negative or add up to
   more than 1 is rejected" is FALSE of it:  x = 1 {3/2} 2  is accepted, with weights 3/2 and -1/2
   (and E(x) = 1/2) *)
Definition three_halves_choice : list (expr * expr) :=
  [(EConst (mkq 3 2), EConst (mkq 1 1))].

Theorem invalid_probs_accepted_old_rule_refuted :
  ~ (forall x ps es e st, length es = length ps ->
       poly_assignment_init_old x (es ++ [e]) (map EConst ps ++ [one_minus (map EConst ps)]) = Some st ->
       valid_probs ps).
Proof.
  intros H.
  specialize (H "x"%string [mkq 3 2] [EConst (mkq 1 1)] (EConst (mkq 2 1)) _ eq_refl eq_refl).
  destruct H as [_ H]. cbn in H. vm_compute in H. apply H. reflexivity.
Qed.

(* ... and the repaired constructor rejects that witness *)
Example three_halves_rejected :
  poly_assignment_init "x"%string [EConst (mkq 1 1); EConst (mkq 2 1)] [EConst (mkq 3 2); EConst (1 - mkq 3 2)] = None.
Proof. vm_compute. reflexivity. Qed.

Example three_halves_not_a_law :
  ~ is_prob_law (sample no_law (fill_last three_halves_choice (EConst (mkq 2 1))) st0).
Proof.
  intros [H _]. unfold weights in H. inversion H as [|? ? _ H2]. inversion H2 as [|? ? H3 _].
  vm_compute in H3. apply H3. reflexivity.
Qed.

Example three_halves_mean :
  E (sample no_law (fill_last three_halves_choice (EConst (mkq 2 1))) st0) (fun v => v) = mkq 1 2.
Proof. apply Qc_is_canon. vm_compute. reflexivity. Qed.
