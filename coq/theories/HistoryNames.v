(* C20, part 3 — the global name counter of /repo/utils/identifiers.py:
     _count_unique_var = 0
     def get_unique_var(name="u"):
         var = "_" + name + str(_count_unique_var); _count_unique_var += 1; return var
   The counter value at the start of an analysis is process history (how many names earlier
   analyses in the same process consumed).  Proved here: the generated names never collide
   (for tags that do not end in a decimal digit: all tags in /repo are the literals
   u k c t a prob old r diff_symbol inv b s), and a different start value only renames the
   auxiliary names by the injective renaming "add d to the counter part".
   A tag ending in a digit breaks uniqueness: "_x1"+"2" = "_x"+"12" ([*_refuted]). *)
From Coq Require Import List Bool Arith Lia String Ascii Decimal DecimalString DecimalNat.
Import ListNotations.
Local Open Scope string_scope.

(* str(k) for a Python int k >= 0 *)
Definition dec (k : nat) : string := NilZero.string_of_uint (Nat.to_uint k).
Definition gen_name (tag : string) (k : nat) : string := "_" ++ tag ++ dec k.
Definition fresh (tag : string) (k : nat) : string * nat := (gen_name tag k, S k).

(* ---- the decimal printer has a left inverse ---- *)
Lemma to_uint_nonnil k : Nat.to_uint k <> Nil.
Proof.
  rewrite <- (Unsigned.of_to k) at 1. rewrite Unsigned.to_of. unfold unorm.
  destruct (nzhead (Nat.to_uint k)); discriminate.
Qed.

Lemma dec_nilempty k : dec k = NilEmpty.string_of_uint (Nat.to_uint k).
Proof.
  unfold dec, NilZero.string_of_uint. pose proof (to_uint_nonnil k) as H.
  destruct (Nat.to_uint k); [contradiction H; reflexivity | reflexivity ..].
Qed.

Definition undec (s : string) : option nat :=
  match NilEmpty.uint_of_string s with Some d => Some (Nat.of_uint d) | None => None end.

Lemma undec_dec k : undec (dec k) = Some k.
Proof. unfold undec. rewrite dec_nilempty, NilEmpty.usu, Unsigned.of_to. reflexivity. Qed.

Lemma dec_injective k k' : dec k = dec k' -> k = k'.
Proof.
  intros H. apply (f_equal undec) in H. rewrite !undec_dec in H. inversion H; reflexivity.
Qed.

Lemma dec_nonempty k : exists c r, dec k = String c r.
Proof.
  rewrite dec_nilempty. pose proof (to_uint_nonnil k) as H.
  destruct (Nat.to_uint k); [contradiction H; reflexivity | cbn; eauto ..].
Qed.

(* ---- digits ---- *)
Definition is_digit (c : ascii) : bool :=
  match uint_of_char c (Some Nil) with Some _ => true | None => false end.

Fixpoint all_digits (s : string) : bool :=
  match s with "" => true | String c r => is_digit c && all_digits r end.
Fixpoint digit_free (s : string) : bool :=
  match s with "" => true | String c r => negb (is_digit c) && digit_free r end.
(* the weakest condition on tags under which names are unambiguous *)
Fixpoint ends_nondigit (s : string) : bool :=
  match s with
  | "" => true
  | String c r => match r with "" => negb (is_digit c) | _ => ends_nondigit r end
  end.

Lemma all_digits_uint d : all_digits (NilEmpty.string_of_uint d) = true.
Proof. induction d; cbn [NilEmpty.string_of_uint all_digits]; try rewrite IHd; reflexivity. Qed.

Lemma all_digits_dec k : all_digits (dec k) = true.
Proof. rewrite dec_nilempty. apply all_digits_uint. Qed.

Lemma digit_free_ends_nondigit s : digit_free s = true -> ends_nondigit s = true.
Proof.
  induction s as [|c r IH]; [reflexivity|]. cbn [digit_free ends_nondigit]. intros H.
  apply andb_true_iff in H. destruct H as [H1 H2]. destruct r; [exact H1 | apply IH; exact H2].
Qed.

Lemma ends_nondigit_tail c r : ends_nondigit (String c r) = true -> ends_nondigit r = true.
Proof. cbn [ends_nondigit]. destruct r; [reflexivity | auto]. Qed.

(* ---- parsing a generated name: maximal digit suffix ---- *)
Definition is_empty (s : string) : bool := match s with "" => true | _ => false end.

Fixpoint split_digits (s : string) : string * string :=
  match s with
  | "" => ("", "")
  | String c r =>
      let pd := split_digits r in
      if is_empty (fst pd) && is_digit c then ("", String c (snd pd))
      else (String c (fst pd), snd pd)
  end.

Lemma split_all_digits ds : all_digits ds = true -> split_digits ds = ("", ds).
Proof.
  induction ds as [|c r IH]; [reflexivity|]. cbn [all_digits split_digits]. intros H.
  apply andb_true_iff in H. destruct H as [H1 H2]. rewrite (IH H2). cbn [fst snd is_empty].
  rewrite H1. reflexivity.
Qed.

Lemma split_tag_digits t ds :
  ends_nondigit t = true -> all_digits ds = true -> split_digits (t ++ ds) = (t, ds).
Proof.
  intros Ht Hd. induction t as [|c r IH]; [apply split_all_digits; exact Hd|].
  cbn [append split_digits]. rewrite (IH (ends_nondigit_tail _ _ Ht)). cbn [fst snd].
  destruct r as [|c' r'].
  - cbn [ends_nondigit] in Ht. cbn [is_empty]. apply negb_true_iff in Ht. rewrite Ht. reflexivity.
  - reflexivity.
Qed.

Definition parse_name (s : string) : option (string * nat) :=
  match s with
  | String "_" r =>
      let pd := split_digits r in
      if is_empty (snd pd) then None
      else match undec (snd pd) with Some k => Some (fst pd, k) | None => None end
  | _ => None
  end.

Theorem parse_gen_name t k : ends_nondigit t = true -> parse_name (gen_name t k) = Some (t, k).
Proof.
  intros Ht. unfold gen_name. cbn [append parse_name].
  rewrite (split_tag_digits t (dec k) Ht (all_digits_dec k)). cbn [fst snd].
  rewrite undec_dec. destruct (dec_nonempty k) as [c [r E]]. rewrite E. reflexivity.
Qed.

(* ---- (a) one tag: different counter values give different names, for EVERY tag ---- *)
Lemma append_inv_head (t a b : string) : t ++ a = t ++ b -> a = b.
Proof. induction t as [|c r IH]; cbn [append]; intros H; [exact H | inversion H; auto]. Qed.

Theorem gen_name_injective tag k k' : gen_name tag k = gen_name tag k' -> k = k'.
Proof.
  unfold gen_name. cbn [append]. intros H. inversion H as [H1].
  apply append_inv_head in H1. apply dec_injective; exact H1.
Qed.

(* ---- (b) tags that do not end in a digit: tag and counter are both determined ---- *)
Theorem gen_name_injective_tags t t' k k' :
  ends_nondigit t = true -> ends_nondigit t' = true ->
  gen_name t k = gen_name t' k' -> t = t' /\ k = k'.
Proof.
  intros Ht Ht' H. apply (f_equal parse_name) in H.
  rewrite (parse_gen_name t k Ht), (parse_gen_name t' k' Ht') in H. inversion H; auto.
Qed.

Corollary gen_name_injective_digit_free t t' k k' :
  digit_free t = true -> digit_free t' = true ->
  gen_name t k = gen_name t' k' -> t = t' /\ k = k'.
Proof. intros Ht Ht'. apply gen_name_injective_tags; apply digit_free_ends_nondigit; assumption. Qed.

(* the side condition is necessary *)
Theorem gen_name_digit_tag_refuted :
  exists t t' k k', gen_name t k = gen_name t' k' /\ t <> t' /\ k <> k'.
Proof. exists "x1", "x", 2, 12. split; [vm_compute; reflexivity | split; discriminate]. Qed.

(* ---- (c) running [fresh] along a sequence of tags ---- *)
Fixpoint names_from (tags : list string) (k : nat) : list string :=
  match tags with
  | [] => []
  | t :: ts => fst (fresh t k) :: names_from ts (snd (fresh t k))
  end.
Fixpoint counter_after (tags : list string) (k : nat) : nat :=
  match tags with [] => k | t :: ts => counter_after ts (snd (fresh t k)) end.

Lemma counter_after_length tags k : counter_after tags k = k + List.length tags.
Proof. revert k; induction tags as [|t ts IH]; intros k; cbn [counter_after fresh snd List.length]; [lia | rewrite IH; lia]. Qed.

Lemma names_from_In ts : forall k nm, In nm (names_from ts k) ->
  exists t j, In t ts /\ k <= j /\ nm = gen_name t j.
Proof.
  induction ts as [|t ts IH]; intros k nm; cbn [names_from fresh fst snd]; intros H; [destruct H|].
  destruct H as [H|H].
  - exists t, k. split; [left; reflexivity | split; [lia | auto]].
  - destruct (IH _ _ H) as [t' [j [H1 [H2 H3]]]]. exists t', j. split; [right; exact H1 | split; [lia | exact H3]].
Qed.

Lemma names_from_NoDup_gen tags :
  (forall t t' k k', In t tags -> In t' tags -> gen_name t k = gen_name t' k' -> k = k') ->
  forall k0, NoDup (names_from tags k0).
Proof.
  induction tags as [|t ts IH]; intros Hinj k0; cbn [names_from fresh fst snd]; constructor.
  - intros Hin. destruct (names_from_In _ _ _ Hin) as [t' [j [H1 [H2 H3]]]].
    apply Hinj in H3; [lia | left; reflexivity | right; exact H1].
  - apply IH. intros t1 t2 k k' H1 H2. apply Hinj; right; assumption.
Qed.

(* every start value, every sequence of tags not ending in a digit: pairwise distinct *)
Theorem fresh_never_collides tags k0 :
  Forall (fun t => ends_nondigit t = true) tags -> NoDup (names_from tags k0).
Proof.
  intros Hf. rewrite Forall_forall in Hf. apply names_from_NoDup_gen.
  intros t t' k k' Ht Ht' H. apply (gen_name_injective_tags t t' k k'); auto.
Qed.

(* arbitrary tag, used repeatedly *)
Theorem fresh_never_collides_one_tag t n k0 : NoDup (names_from (repeat t n) k0).
Proof.
  apply names_from_NoDup_gen. intros t1 t2 k k' H1 H2 H.
  apply repeat_spec in H1. apply repeat_spec in H2. subst. apply (gen_name_injective t); exact H.
Qed.

(* a name generated later never equals a name generated earlier *)
Theorem fresh_old_new_distinct t t' k k1 k2 :
  t = t' \/ (ends_nondigit t = true /\ ends_nondigit t' = true) ->
  k1 < k -> k <= k2 -> gen_name t k1 <> gen_name t' k2.
Proof.
  intros [E|[Ht Ht']] H1 H2 H.
  - subst. apply gen_name_injective in H. lia.
  - apply gen_name_injective_tags in H; auto. lia.
Qed.

(* two analyses one after the other in one process = one long sequence: the names of the
   second are disjoint from those of the first *)
Lemma names_from_app ts1 ts2 k :
  names_from (ts1 ++ ts2) k = (names_from ts1 k ++ names_from ts2 (counter_after ts1 k))%list.
Proof.
  revert k; induction ts1 as [|t ts IH]; intros k; [reflexivity|].
  change ((t :: ts) ++ ts2)%list with (t :: (ts ++ ts2))%list. cbn [names_from counter_after].
  rewrite IH. reflexivity.
Qed.

Lemma NoDup_app_disj {A} (l1 l2 : list A) x : NoDup (l1 ++ l2)%list -> In x l1 -> In x l2 -> False.
Proof.
  induction l1 as [|a l IH]; cbn; intros Hn H1 H2; [exact H1|].
  inversion Hn as [|a' l' Hnin Hn']; subst. destruct H1 as [->|H1].
  - apply Hnin. apply in_or_app. right; exact H2.
  - exact (IH Hn' H1 H2).
Qed.

Theorem fresh_runs_disjoint ts1 ts2 k0 nm :
  Forall (fun t => ends_nondigit t = true) (ts1 ++ ts2) ->
  In nm (names_from ts1 k0) -> In nm (names_from ts2 (counter_after ts1 k0)) -> False.
Proof.
  intros Hf H1 H2. pose proof (fresh_never_collides _ k0 Hf) as Hn.
  rewrite names_from_app in Hn. exact (NoDup_app_disj _ _ _ Hn H1 H2).
Qed.

(* with digit-ending tags (never used by /repo) one run can produce the same name twice *)
Theorem fresh_digit_tag_refuted : exists tags k0, ~ NoDup (names_from tags k0).
Proof.
  exists ["x1"; "u"; "u"; "u"; "u"; "u"; "u"; "u"; "u"; "u"; "x"], 2.
  intros H. inversion H as [|a l Hnin _]; subst. apply Hnin. vm_compute. tauto.
Qed.

(* ---- (d) a different start value is an injective renaming of the generated names ---- *)
Fixpoint pnames_from (tags : list string) (k : nat) : list (string * nat) :=
  match tags with [] => [] | t :: ts => (t, k) :: pnames_from ts (S k) end.
Definition render (p : string * nat) : string := gen_name (fst p) (snd p).
Definition shift (d : nat) (p : string * nat) : string * nat := (fst p, snd p + d).

Lemma names_from_render tags k : names_from tags k = map render (pnames_from tags k).
Proof. revert k; induction tags as [|t ts IH]; intros k; cbn; [reflexivity | rewrite IH; reflexivity]. Qed.

Lemma shift_injective d p q : shift d p = shift d q -> p = q.
Proof.
  destruct p as [t k], q as [t' k']; unfold shift; cbn [fst snd]. intros H; inversion H.
  f_equal. lia.
Qed.

Lemma pnames_from_shift tags k0 d :
  pnames_from tags (k0 + d) = map (shift d) (pnames_from tags k0).
Proof.
  revert k0; induction tags as [|t ts IH]; intros k0; cbn [pnames_from map]; [reflexivity|].
  unfold shift at 1; cbn [fst snd]. f_equal. apply (IH (S k0)).
Qed.

(* the renaming on strings: parse, add d, print; other strings are left alone *)
Definition shift_name (d : nat) (s : string) : string :=
  match parse_name s with Some p => render (shift d p) | None => s end.

Lemma shift_name_gen d t k : ends_nondigit t = true -> shift_name d (gen_name t k) = gen_name t (k + d).
Proof. intros Ht. unfold shift_name. rewrite (parse_gen_name t k Ht). reflexivity. Qed.

Theorem shift_name_injective_on_generated d t t' k k' :
  ends_nondigit t = true -> ends_nondigit t' = true ->
  shift_name d (gen_name t k) = shift_name d (gen_name t' k') -> gen_name t k = gen_name t' k'.
Proof.
  intros Ht Ht'. rewrite !shift_name_gen by assumption. intros H.
  apply gen_name_injective_tags in H; auto. destruct H as [-> H]. f_equal. lia.
Qed.

Theorem counter_shift_alpha tags k0 d :
  Forall (fun t => ends_nondigit t = true) tags ->
  names_from tags (k0 + d) = map (shift_name d) (names_from tags k0).
Proof.
  revert k0; induction tags as [|t ts IH]; intros k0 Hf; [reflexivity|].
  inversion Hf as [|t0 l Ht Hts]; subst.
  cbn [names_from fresh fst snd map]. rewrite (shift_name_gen d t k0 Ht). f_equal.
  apply (IH (S k0) Hts).
Qed.

(* the same at the level of (tag, counter) pairs, for ALL tags *)
Theorem counter_shift_alpha_pairs tags k0 d :
  names_from tags (k0 + d) = map render (map (shift d) (pnames_from tags k0)).
Proof. rewrite names_from_render, pnames_from_shift. reflexivity. Qed.


(* ---- a GLOBALLY injective version of the renaming (needed to use it as a variable
   renaming of whole programs, HistoryAlpha): only canonical generated names (no leading
   zeros, i.e. exactly the strings get_unique_var can return) are shifted ---- *)
Lemma split_digits_prefix_ok s : ends_nondigit (fst (split_digits s)) = true.
Proof.
  induction s as [|c r IH]; [reflexivity|]. cbn [split_digits].
  destruct (is_empty (fst (split_digits r)) && is_digit c) eqn:E; cbn [fst]; [reflexivity|].
  cbn [ends_nondigit]. destruct (fst (split_digits r)) as [|c' r'] eqn:Ep.
  - cbn [is_empty andb] in E. rewrite E. reflexivity.
  - exact IH.
Qed.

Definition parse_canon (s : string) : option (string * nat) :=
  match parse_name s with
  | Some p => if String.eqb (render p) s then Some p else None
  | None => None
  end.

Lemma parse_canon_spec s p : parse_canon s = Some p -> s = render p /\ ends_nondigit (fst p) = true.
Proof.
  unfold parse_canon. destruct (parse_name s) as [q|] eqn:E; [|discriminate].
  destruct (String.eqb_spec (render q) s) as [Er|]; [|discriminate]. intros H; inversion H; subst q.
  split; [auto|]. unfold parse_name in E. destruct s as [|c r]; [discriminate|].
  destruct c as [[] [] [] [] [] [] [] []]; try discriminate.
  destruct (is_empty (snd (split_digits r))); [discriminate|].
  destruct (undec (snd (split_digits r))); [|discriminate]. inversion E; subst. cbn [fst].
  apply split_digits_prefix_ok.
Qed.

Lemma parse_canon_gen t k : ends_nondigit t = true -> parse_canon (gen_name t k) = Some (t, k).
Proof.
  intros Ht. unfold parse_canon. rewrite (parse_gen_name t k Ht). unfold render; cbn [fst snd].
  rewrite String.eqb_refl. reflexivity.
Qed.

Definition cshift (d : nat) (s : string) : string :=
  match parse_canon s with Some p => render (shift d p) | None => s end.

Lemma cshift_gen d t k : ends_nondigit t = true -> cshift d (gen_name t k) = gen_name t (k + d).
Proof. intros Ht. unfold cshift. rewrite (parse_canon_gen t k Ht). reflexivity. Qed.

Theorem cshift_injective d s1 s2 : cshift d s1 = cshift d s2 -> s1 = s2.
Proof.
  unfold cshift.
  destruct (parse_canon s1) as [[t1 k1]|] eqn:E1; destruct (parse_canon s2) as [[t2 k2]|] eqn:E2.
  - apply parse_canon_spec in E1. apply parse_canon_spec in E2.
    destruct E1 as [-> H1], E2 as [-> H2]. unfold render, shift; cbn [fst snd] in *. intros H.
    apply gen_name_injective_tags in H; auto. destruct H as [-> H]. f_equal. lia.
  - apply parse_canon_spec in E1. destruct E1 as [_ H1]. cbn [fst] in H1.
    unfold render, shift; cbn [fst snd]. intros H. rewrite <- H in E2.
    rewrite (parse_canon_gen _ _ H1) in E2. discriminate.
  - apply parse_canon_spec in E2. destruct E2 as [_ H2]. cbn [fst] in H2.
    unfold render, shift; cbn [fst snd]. intros H. rewrite H in E1.
    rewrite (parse_canon_gen _ _ H2) in E1. discriminate.
  - auto.
Qed.

Theorem counter_shift_alpha_canon tags k0 d :
  Forall (fun t => ends_nondigit t = true) tags ->
  names_from tags (k0 + d) = map (cshift d) (names_from tags k0).
Proof.
  revert k0; induction tags as [|t ts IH]; intros k0 Hf; [reflexivity|].
  inversion Hf as [|t0 l Ht Hts]; subst.
  cbn [names_from fresh fst snd map]. rewrite (cshift_gen d t k0 Ht). f_equal.
  apply (IH (S k0) Hts).
Qed.

(* the tags /repo passes to get_unique_var *)
Definition polar_tags : list string :=
  ["u"; "k"; "c"; "t"; "a"; "prob"; "old"; "r"; "diff_symbol"; "inv"; "b"; "s"].
Lemma polar_tags_ok : Forall (fun t => digit_free t = true) polar_tags.
Proof. repeat constructor. Qed.
