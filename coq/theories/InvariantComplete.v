(* C07 — degree-bounded completeness of a reported invariant basis (PARTIAL by design).
   Polynomials of degree <= D in k goals are coefficient vectors x over the explicit list
   [mons k D] of ALL exponent vectors of total degree <= D.  A polynomial that vanishes on the
   goal sequences for all n >= n0 vanishes at the N sample points n0 .. n0+N-1, i.e. x is in the
   kernel of the evaluation matrix (recomputed here from the closed forms).  With the kernel
   certificate of Lattice.v and cofactor identities  K_l = sum_i q_li * g_i  (checked by
   polynomial multiplication and the sound zero test of Invariant.v) every such polynomial is a
   polynomial combination of the reported basis G. *)
From Coq Require Import List Bool Arith Lia Ring.
From Polar Require Import CRing ExpPoly Lattice Invariant.
Import ListNotations.

(* all exponent vectors of length k with sum <= D *)
Fixpoint mons (k D : nat) : list (list nat) :=
  match k with
  | O => [[]]
  | S k' => flat_map (fun e => map (cons e) (mons k' (D - e))) (seq 0 (S D))
  end.

Lemma mons_spec k : forall D es, In es (mons k D) <-> (length es = k /\ list_sum es <= D).
Proof.
  induction k as [|k IH]; intros D es; cbn [mons].
  - split.
    + intros [<-|[]]. split; [reflexivity | simpl; lia].
    + intros [H _]. destruct es; [left; reflexivity | discriminate].
  - rewrite in_flat_map. split.
    + intros [e [He Hin]]. apply in_seq in He. apply in_map_iff in Hin. destruct Hin as [es' [<- Hes']].
      apply IH in Hes'. destruct Hes' as [HL HS]. split; [simpl; lia | simpl; lia].
    + intros [HL HS]. destruct es as [|e es']; [discriminate|]. simpl in HL, HS.
      exists e. split; [apply in_seq; lia|]. apply in_map. apply IH. split; lia.
Qed.

Section Complete.
  Variable R : cring.
  Add Ring Rring : (rth R).
  Local Open Scope cr_scope.
  Local Notation z0 := (@r0 R).

  Definition poly_of (x : list R) (Ms : list (list nat)) : mpoly R := combine x Ms.

  Lemma poly_of_eval x : forall Ms xs,
    poly_eval (poly_of x Ms) xs = vdot x (map (fun es => mon_eval es xs) Ms).
  Proof.
    induction x as [|a x IH]; intros [|es Ms] xs; cbn [poly_of combine poly_eval map vdot]; try reflexivity.
    fold (poly_of x Ms). rewrite IH. reflexivity.
  Qed.

  (* evaluation matrix: one row per monomial, one column per sample point n0 + t *)
  Definition evt (F : list (epoly R)) (Ms : list (list nat)) (n0 N : nat) : list (list R) :=
    map (fun es => map (fun t => mon_eval es (evalF F (n0 + t))) (seq 0 N)) Ms.

  Lemma col_evt F Ms n0 N t : t < N ->
    col t (evt F Ms n0 N) = map (fun es => mon_eval es (evalF F (n0 + t))) Ms.
  Proof.
    intros Ht. unfold col, evt. rewrite map_map. apply map_ext. intros es.
    unfold nz. rewrite nth_indep with (d' := mon_eval es (evalF F (n0 + N))) by (rewrite map_length, seq_length; exact Ht).
    rewrite map_nth with (d := N). rewrite seq_nth by exact Ht. reflexivity.
  Qed.
  Lemma evt_rows_len F Ms n0 N : Forall (fun b => length b = N) (evt F Ms n0 N).
  Proof.
    apply Forall_forall. intros b Hb. unfold evt in Hb. apply in_map_iff in Hb. destruct Hb as [es [<- _]].
    rewrite map_length, seq_length. reflexivity.
  Qed.

  (* a polynomial vanishing on the sequences from n0 on is in the kernel of the evaluation matrix *)
  Lemma vanishing_in_kernel F Ms n0 N x :
    (forall n, n0 <= n -> poly_eval (poly_of x Ms) (evalF F n) = z0) ->
    veq (lincomb N x (evt F Ms n0 N)) [].
  Proof.
    intros H t. rewrite nz_nil. destruct (Nat.lt_ge_cases t N) as [Ht|Ht].
    - rewrite nz_lincomb, (col_evt F Ms n0 N t Ht), <- poly_of_eval. apply H. lia.
    - apply nz_beyond. rewrite (length_lincomb R N x _ (evt_rows_len F Ms n0 N)). exact Ht.
  Qed.

  (* ---- ideal membership in evaluation form ---- *)
  Fixpoint comb_eval (ts : list (mpoly R * mpoly R)) (xs : list R) : R :=
    match ts with [] => z0 | t :: ts' => poly_eval (fst t) xs * poly_eval (snd t) xs + comb_eval ts' xs end.
  Definition in_ideal (k : nat) (G : list (mpoly R)) (p : mpoly R) : Prop :=
    exists ts : list (mpoly R * mpoly R),
      (forall t, In t ts -> In (snd t) G) /\
      forall xs, length xs = k -> poly_eval p xs = comb_eval ts xs.

  Fixpoint sum_prod (ts : list (mpoly R * mpoly R)) : mpoly R :=
    match ts with [] => [] | t :: ts' => mpmul (fst t) (snd t) ++ sum_prod ts' end.
  Definition terms_ok (k : nat) (ts : list (mpoly R * mpoly R)) : bool :=
    forallb (fun t => exps_ok k (fst t) && exps_ok k (snd t)) ts.
  Lemma sum_prod_eval k ts xs : length xs = k -> terms_ok k ts = true ->
    poly_eval (sum_prod ts) xs = comb_eval ts xs.
  Proof.
    intros Hk. induction ts as [|t ts IH]; intros H; cbn [sum_prod comb_eval]; [reflexivity|].
    cbn [terms_ok forallb] in H. apply andb_true_iff in H. destruct H as [Ht Hts].
    apply andb_true_iff in Ht. destruct Ht as [H1 H2]. subst k.
    rewrite poly_eval_app, poly_eval_mpmul, (IH Hts) by assumption. reflexivity.
  Qed.
  Lemma comb_eval_app a b xs : comb_eval (a ++ b) xs = comb_eval a xs + comb_eval b xs.
  Proof. induction a as [|t a IH]; cbn [app comb_eval]; [ring | rewrite IH; ring]. Qed.
  Definition scale_terms (c : R) (ts : list (mpoly R * mpoly R)) : list (mpoly R * mpoly R) :=
    map (fun t => (mpscale c (fst t), snd t)) ts.
  Lemma comb_eval_scale c ts xs : comb_eval (scale_terms c ts) xs = c * comb_eval ts xs.
  Proof.
    induction ts as [|t ts IH]; cbn [scale_terms map comb_eval fst snd]; [ring|].
    fold (scale_terms c ts). rewrite IH, poly_eval_mpscale. ring.
  Qed.

  (* one kernel row with its cofactors:  K_l = sum_i Cof_li * g_i  as a polynomial identity *)
  Definition check_row (k : nat) (Ms : list (list nat)) (G : list (mpoly R)) (kc : list R * list (mpoly R)) : bool :=
    let ts := combine (snd kc) G in
    terms_ok k ts && mpeq (poly_of (fst kc) Ms) (sum_prod ts).

  Lemma check_row_sound k Ms G kc xs : check_row k Ms G kc = true -> length xs = k ->
    poly_eval (poly_of (fst kc) Ms) xs = comb_eval (combine (snd kc) G) xs.
  Proof.
    unfold check_row. intros H Hk. apply andb_true_iff in H. destruct H as [H1 H2].
    rewrite (mpeq_sound R _ _ H2 xs). apply (sum_prod_eval k); assumption.
  Qed.

  Fixpoint all_terms (c : list R) (KC : list (list R * list (mpoly R))) (G : list (mpoly R)) :=
    match c, KC with
    | a :: c', kc :: KC' => scale_terms a (combine (snd kc) G) ++ all_terms c' KC' G
    | _, _ => []
    end.
  Lemma all_terms_in c : forall KC G t, In t (all_terms c KC G) -> In (snd t) G.
  Proof.
    induction c as [|a c IH]; intros [|kc KC] G t H; cbn [all_terms] in H; try contradiction.
    apply in_app_or in H. destruct H as [H|H]; [|apply (IH KC G t H)].
    unfold scale_terms in H. apply in_map_iff in H. destruct H as [u [<- Hu]]. cbn [snd].
    destruct u as [u1 u2]. apply in_combine_r in Hu. exact Hu.
  Qed.
  Lemma all_terms_eval k Ms G xs : length xs = k -> forall KC c,
    forallb (check_row k Ms G) KC = true ->
    vdot c (map (fun kc => poly_eval (poly_of (fst kc) Ms) xs) KC) = comb_eval (all_terms c KC G) xs.
  Proof.
    intros Hk. induction KC as [|kc KC IH]; intros [|a c] H; cbn [map vdot all_terms comb_eval]; try reflexivity.
    cbn [forallb] in H. apply andb_true_iff in H. destruct H as [H1 H2].
    rewrite comb_eval_app, comb_eval_scale, (IH c H2), (check_row_sound k Ms G kc xs H1 Hk). reflexivity.
  Qed.

  (* ---- the checker ---- *)
  Definition check_complete (k D n0 N : nat) (F : list (epoly R)) (G : list (mpoly R))
             (KC : list (list R * list (mpoly R))) (P Q : list (list R)) (d dinv : R) : bool :=
    let Ms := mons k D in
    let m := length Ms in
    Nat.eqb (length F) k &&
    check_kernel_cert m (evt F Ms n0 N) (map fst KC) P Q d dinv &&
    forallb (check_row k Ms G) KC.

  Theorem complete_deg_sound k D n0 N F G KC P Q d dinv :
    check_complete k D n0 N F G KC P Q d dinv = true ->
    forall x : list R, length x = length (mons k D) ->
      (forall n, n0 <= n -> poly_eval (poly_of x (mons k D)) (evalF F n) = z0) ->
      in_ideal k G (poly_of x (mons k D)).
  Proof.
    unfold check_complete. intros H x Hx Hvan.
    apply andb_true_iff in H. destruct H as [H HC].
    apply andb_true_iff in H. destruct H as [_ HK].
    set (Ms := mons k D) in *. set (m := length Ms) in *.
    pose proof (vanishing_in_kernel F Ms n0 N x Hvan) as Hker.
    pose proof (kernel_cert_sound R m _ _ P Q d dinv HK x N Hx Hker) as Hx'.
    set (c := vscale dinv (lincomb (length (map fst KC)) x P)) in *.
    exists (all_terms c KC G). split; [apply all_terms_in|].
    intros xs Hxs. rewrite poly_of_eval. rewrite Hx' at 1.
    rewrite vdot_lincomb, map_map.
    rewrite <- (all_terms_eval k Ms G xs Hxs KC c HC).
    f_equal. apply map_ext. intros kc. symmetry. apply poly_of_eval.
  Qed.

  (* empty reported basis, trivial kernel: NO non-zero polynomial of degree <= D vanishes *)
  Theorem no_invariants_sound k D n0 N F P Q d dinv :
    check_complete k D n0 N F [] [] P Q d dinv = true ->
    forall x : list R, length x = length (mons k D) ->
      (forall n, n0 <= n -> poly_eval (poly_of x (mons k D)) (evalF F n) = z0) ->
      x = zeros (length (mons k D)).
  Proof.
    unfold check_complete. intros H x Hx Hvan.
    apply andb_true_iff in H. destruct H as [H _].
    apply andb_true_iff in H. destruct H as [_ HK].
    pose proof (vanishing_in_kernel F (mons k D) n0 N x Hvan) as Hker.
    pose proof (kernel_cert_sound R _ _ _ P Q d dinv HK x N Hx Hker) as Hx'.
    cbn [map length] in Hx'. rewrite Hx'. destruct (vscale dinv (lincomb 0 x P)); reflexivity.
  Qed.
End Complete.

Arguments poly_of {R} _ _. Arguments evt {R} _ _ _ _. Arguments in_ideal {R} _ _ _.
Arguments comb_eval {R} _ _. Arguments check_complete {R} _ _ _ _ _ _ _ _ _ _ _.
Arguments check_row {R} _ _ _ _.
