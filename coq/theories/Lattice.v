(* Linear algebra on lists over a commutative ring, in "row vector x matrix" form, and the
   certificate theorems used by C16 (exponent lattices) and C07 (degree-bounded
   completeness).

   A vector is a list; a matrix is the list of its rows.  Lists denote finitely supported
   sequences: [nz v i] reads component i (0 beyond the end) and [veq] is equality of the
   denoted sequences.  [lincomb k c B] is the combination  sum_j c_j * B_j  of the rows of
   B (a vector of length k when the rows of B have length k).  All certificate checkers are
   executable booleans; their soundness theorems quantify over ALL vectors. *)
From Coq Require Import List Bool Arith Lia Ring ZArith.
From Polar Require Import CRing.
Import ListNotations.

Section Mat.
  Variable R : cring.
  Add Ring Rring : (rth R).
  Local Open Scope cr_scope.
  Local Notation z0 := (@r0 R).
  Local Notation z1 := (@r1 R).

  Definition nz (v : list R) (i : nat) : R := nth i v z0.
  Definition veq (u v : list R) : Prop := forall i, nz u i = nz v i.

  Fixpoint vadd (p q : list R) : list R :=
    match p, q with
    | [], _ => q
    | _, [] => p
    | a :: p', b :: q' => (a + b) :: vadd p' q'
    end.
  Definition vscale (c : R) (p : list R) : list R := map (fun a => c * a) p.
  Definition zeros (k : nat) : list R := repeat z0 k.
  Fixpoint vdot (r x : list R) : R :=
    match r, x with a :: r', b :: x' => a * b + vdot r' x' | _, _ => z0 end.
  Fixpoint lincomb (k : nat) (c : list R) (B : list (list R)) : list R :=
    match c, B with
    | a :: c', b :: B' => vadd (vscale a b) (lincomb k c' B')
    | _, _ => zeros k
    end.
  Definition mmul (k : nat) (A B : list (list R)) : list (list R) := map (fun r => lincomb k r B) A.
  Definition col (i : nat) (B : list (list R)) : list R := map (fun b => nz b i) B.

  (* diagonal matrix d * I_k *)
  Fixpoint sident (d : R) (k : nat) : list (list R) :=
    match k with O => [] | S k => (d :: zeros k) :: map (cons z0) (sident d k) end.
  Definition ident (k : nat) := sident z1 k.

  Definition vzero (v : list R) : bool := forallb (fun x => reqb x z0) v.
  Fixpoint vec_eqb (x y : list R) : bool :=
    match x, y with
    | [], [] => true
    | a :: x', b :: y' => reqb a b && vec_eqb x' y'
    | _, _ => false
    end.
  Fixpoint mat_eqb (x y : list (list R)) : bool :=
    match x, y with
    | [], [] => true
    | a :: x', b :: y' => vec_eqb a b && mat_eqb x' y'
    | _, _ => false
    end.

  (* ---- reading components ---- *)
  Lemma nz_nil i : nz [] i = z0.
  Proof. destruct i; reflexivity. Qed.
  Lemma nz_cons_0 a v : nz (a :: v) O = a.
  Proof. reflexivity. Qed.
  Lemma nz_cons_S a v i : nz (a :: v) (S i) = nz v i.
  Proof. reflexivity. Qed.
  Lemma nz_vadd u v i : nz (vadd u v) i = nz u i + nz v i.
  Proof.
    revert v i; induction u as [|a u IH]; intros [|b v] i.
    - cbn [vadd]. rewrite !nz_nil; ring.
    - cbn [vadd]. rewrite nz_nil; ring.
    - cbn [vadd]. rewrite nz_nil; ring.
    - cbn [vadd]. destruct i; [reflexivity|]. rewrite !nz_cons_S. apply IH.
  Qed.
  Lemma nz_vscale c u i : nz (vscale c u) i = c * nz u i.
  Proof.
    revert i; induction u as [|a u IH]; intros i.
    - cbn [vscale map]. rewrite nz_nil; ring.
    - cbn [vscale map]. destruct i; [reflexivity|]. rewrite !nz_cons_S. apply IH.
  Qed.
  Lemma nz_zeros k i : nz (zeros k) i = z0.
  Proof.
    revert i; induction k as [|k IH]; intros i; [apply nz_nil|].
    destruct i; [reflexivity|]. cbn [zeros repeat]. rewrite nz_cons_S. apply IH.
  Qed.
  Lemma nz_beyond v i : (length v <= i)%nat -> nz v i = z0.
  Proof. intros H; unfold nz; apply nth_overflow; exact H. Qed.

  (* ---- veq ---- *)
  Lemma veq_refl u : veq u u.
  Proof. intros i; reflexivity. Qed.
  Lemma veq_sym u v : veq u v -> veq v u.
  Proof. intros H i; symmetry; apply H. Qed.
  Lemma veq_trans u v w : veq u v -> veq v w -> veq u w.
  Proof. intros H1 H2 i; rewrite H1; apply H2. Qed.
  Lemma veq_eq u v : length u = length v -> veq u v -> u = v.
  Proof.
    revert v; induction u as [|a u IH]; intros [|b v] HL HE; simpl in HL; try discriminate; [reflexivity|].
    f_equal.
    - exact (HE O).
    - apply IH; [lia|]. intros i; exact (HE (S i)).
  Qed.
  Lemma veq_tl u v : veq u v -> veq (tl u) (tl v).
  Proof.
    intros H i. specialize (H (S i)).
    destruct u, v; simpl tl; rewrite ?nz_nil in *; rewrite ?nz_cons_S in H; auto.
  Qed.
  Lemma vzero_veq v : vzero v = true -> veq v [].
  Proof.
    induction v as [|a v IH]; intros H i; [reflexivity|].
    cbn [vzero forallb] in H. apply andb_true_iff in H; destruct H as [Ha Hv].
    apply reqb_eq in Ha; subst a. rewrite nz_nil. destruct i; [reflexivity|].
    rewrite nz_cons_S, (IH Hv i). apply nz_nil.
  Qed.
  Lemma zeros_veq k : veq (zeros k) [].
  Proof. intros i; rewrite nz_zeros, nz_nil; reflexivity. Qed.
  Lemma veq_nil_all u : veq u [] -> forall i, nz u i = z0.
  Proof. intros H i; rewrite H; apply nz_nil. Qed.
  Lemma veq_nil_Forall u : veq u [] -> Forall (fun x => x = z0) u.
  Proof.
    induction u as [|a u IH]; intros H; constructor.
    - exact (H O).
    - apply IH. intros i. rewrite nz_nil. specialize (H (S i)). rewrite nz_nil in H. exact H.
  Qed.

  (* ---- dot products ---- *)
  Lemma vdot_nil_r r : vdot r [] = z0.
  Proof. destruct r; reflexivity. Qed.
  Lemma vdot_vadd_l u v w : vdot (vadd u v) w = vdot u w + vdot v w.
  Proof.
    revert v w; induction u as [|a u IH]; intros [|b v] [|c w]; cbn [vadd vdot]; try ring.
    rewrite IH; ring.
  Qed.
  Lemma vdot_vscale_l a u w : vdot (vscale a u) w = a * vdot u w.
  Proof.
    revert w; induction u as [|b u IH]; intros [|c w]; cbn [vscale map vdot]; try ring.
    fold (vscale a u). rewrite IH; ring.
  Qed.
  Lemma vdot_zeros_l k w : vdot (zeros k) w = z0.
  Proof.
    revert w; induction k as [|k IH]; intros [|c w]; cbn [zeros repeat vdot]; try reflexivity.
    fold (zeros k). rewrite IH; ring.
  Qed.
  Lemma vdot_cons_r u x xs : vdot u (x :: xs) = nz u O * x + vdot (tl u) xs.
  Proof. destruct u as [|a u]; cbn [vdot tl]; [rewrite nz_nil; cbn [vdot]; ring | reflexivity]. Qed.
  Lemma vdot_veq_l u u' w : veq u u' -> vdot u w = vdot u' w.
  Proof.
    revert u u'; induction w as [|x w IH]; intros u u' H.
    - rewrite !vdot_nil_r; reflexivity.
    - rewrite !vdot_cons_r, (H O), (IH _ _ (veq_tl _ _ H)); reflexivity.
  Qed.
  Lemma vdot_map0 {A} e (l : list A) : vdot e (map (fun _ => z0) l) = z0.
  Proof.
    revert e; induction l as [|x l IH]; intros [|a e]; cbn [map vdot]; try reflexivity.
    rewrite IH; ring.
  Qed.
  Lemma vdot_app y1 y2 w1 w2 : length y1 = length w1 ->
    vdot (y1 ++ y2) (w1 ++ w2) = vdot y1 w1 + vdot y2 w2.
  Proof.
    revert w1; induction y1 as [|a y1 IH]; intros [|b w1] H; simpl in H; try discriminate.
    - cbn [app vdot]; ring.
    - cbn [app vdot]. rewrite IH by lia. ring.
  Qed.

  (* ---- linear combinations of rows ---- *)
  Lemma nz_lincomb k c B i : nz (lincomb k c B) i = vdot c (col i B).
  Proof.
    revert B; induction c as [|a c IH]; intros [|b B]; cbn [lincomb col map vdot]; try apply nz_zeros.
    rewrite nz_vadd, nz_vscale, IH; reflexivity.
  Qed.
  Lemma vdot_lincomb k e A w : vdot (lincomb k e A) w = vdot e (map (fun r => vdot r w) A).
  Proof.
    revert A; induction e as [|a e IH]; intros [|r A]; cbn [lincomb map vdot]; try apply vdot_zeros_l.
    rewrite vdot_vadd_l, vdot_vscale_l, IH; reflexivity.
  Qed.
  Lemma col_mmul k A B i : col i (mmul k A B) = map (fun r => vdot r (col i B)) A.
  Proof.
    unfold col, mmul. rewrite map_map. apply map_ext. intros r. apply nz_lincomb.
  Qed.
  Lemma lincomb_assoc k k' k'' e A B :
    veq (lincomb k (lincomb k' e A) B) (lincomb k e (mmul k'' A B)).
  Proof.
    intros i. rewrite !nz_lincomb, col_mmul. apply vdot_lincomb.
  Qed.
  Lemma lincomb_veq k k' c c' B : veq c c' -> veq (lincomb k c B) (lincomb k' c' B).
  Proof. intros H i. rewrite !nz_lincomb. apply vdot_veq_l; exact H. Qed.
  Lemma lincomb_nil_veq k c B : veq c [] -> veq (lincomb k c B) [].
  Proof.
    intros H. apply veq_trans with (lincomb k [] B); [apply lincomb_veq; exact H|].
    cbn [lincomb]. apply zeros_veq.
  Qed.
  Lemma lincomb_vadd k u v M :
    veq (lincomb k (vadd u v) M) (vadd (lincomb k u M) (lincomb k v M)).
  Proof. intros i. rewrite nz_vadd, !nz_lincomb. apply vdot_vadd_l. Qed.
  Lemma lincomb_app k y1 y2 M1 M2 : length y1 = length M1 ->
    veq (lincomb k (y1 ++ y2) (M1 ++ M2)) (vadd (lincomb k y1 M1) (lincomb k y2 M2)).
  Proof.
    intros H i. rewrite nz_vadd, !nz_lincomb. unfold col. rewrite map_app.
    apply vdot_app. rewrite map_length; exact H.
  Qed.
  (* a matrix all of whose rows denote 0 *)
  Lemma lincomb_zero_rows k c M : (forall r, In r M -> veq r []) -> veq (lincomb k c M) [].
  Proof.
    intros H i. rewrite nz_lincomb, nz_nil.
    replace (col i M) with (map (fun _ : list R => z0) M); [apply vdot_map0|].
    unfold col. apply map_ext_in. intros r Hr. rewrite (H r Hr i). symmetry; apply nz_nil.
  Qed.

  (* ---- d * identity ---- *)
  Lemma vdot_col_sident d k : forall e i, (length e <= k)%nat ->
    vdot e (col i (sident d k)) = d * nz e i.
  Proof.
    induction k as [|k IH]; intros e i HL.
    - destruct e; [|simpl in HL; lia]. cbn [sident col map vdot]. rewrite nz_nil; ring.
    - destruct e as [|a e].
      + cbn [vdot]. rewrite nz_nil; ring.
      + simpl in HL. cbn [sident col map vdot]. fold (col i (map (cons z0) (sident d k))).
        destruct i as [|i].
        * rewrite !nz_cons_0.
          replace (col O (map (cons z0) (sident d k))) with (map (fun _ : list R => z0) (sident d k)).
          { rewrite vdot_map0; ring. }
          unfold col. rewrite map_map. apply map_ext. intros r. reflexivity.
        * rewrite !nz_cons_S, nz_zeros.
          replace (col (S i) (map (cons z0) (sident d k))) with (col i (sident d k)).
          { rewrite IH by lia. ring. }
          unfold col. rewrite map_map. apply map_ext. intros r. reflexivity.
  Qed.
  Lemma lincomb_sident kk d k e : (length e <= k)%nat ->
    veq (lincomb kk e (sident d k)) (vscale d e).
  Proof. intros H i. rewrite nz_lincomb, nz_vscale. apply vdot_col_sident; exact H. Qed.
  Lemma lincomb_ident kk k e : (length e <= k)%nat -> veq (lincomb kk e (ident k)) e.
  Proof.
    intros H i. unfold ident. rewrite (lincomb_sident kk z1 k e H i), nz_vscale. ring.
  Qed.

  (* ---- lengths ---- *)
  Lemma length_vadd u v : length (vadd u v) = Nat.max (length u) (length v).
  Proof.
    revert v; induction u as [|a u IH]; intros [|b v]; cbn [vadd length]; try reflexivity.
    rewrite IH; reflexivity.
  Qed.
  Lemma length_vscale c u : length (vscale c u) = length u.
  Proof. apply map_length. Qed.
  Lemma length_zeros k : length (zeros k) = k.
  Proof. apply repeat_length. Qed.
  Lemma length_lincomb k c B : Forall (fun b => length b = k) B -> length (lincomb k c B) = k.
  Proof.
    revert B; induction c as [|a c IH]; intros [|b B] H; cbn [lincomb]; try apply length_zeros.
    inversion H; subst. rewrite length_vadd, length_vscale, IH by assumption. lia.
  Qed.

  (* ---- boolean equality ---- *)
  Lemma vec_eqb_eq x y : vec_eqb x y = true -> x = y.
  Proof.
    revert y; induction x as [|a x IH]; intros [|b y]; simpl; intros H; try discriminate; auto.
    apply andb_true_iff in H; destruct H as [H1 H2].
    apply reqb_eq in H1; subst; f_equal; auto.
  Qed.
  Lemma mat_eqb_eq x y : mat_eqb x y = true -> x = y.
  Proof.
    revert y; induction x as [|a x IH]; intros [|b y]; simpl; intros H; try discriminate; auto.
    apply andb_true_iff in H; destruct H as [H1 H2].
    apply vec_eqb_eq in H1; subst; f_equal; auto.
  Qed.
  Lemma forallb_len_Forall k (B : list (list R)) :
    forallb (fun b => Nat.eqb (length b) k) B = true -> Forall (fun b => length b = k) B.
  Proof.
    intros H. apply Forall_forall. intros b Hb.
    rewrite forallb_forall in H. apply Nat.eqb_eq. apply H; exact Hb.
  Qed.

  (* ---- matrix sum (row by row) ---- *)
  Definition madd (A B : list (list R)) : list (list R) :=
    map (fun ab => vadd (fst ab) (snd ab)) (combine A B).
  Lemma vdot_col_madd e A B i : length A = length B ->
    vdot e (col i (madd A B)) = vdot e (col i A) + vdot e (col i B).
  Proof.
    revert e B; induction A as [|a A IH]; intros e [|b B] H; simpl in H; try discriminate.
    - cbn [madd combine map col]. rewrite vdot_nil_r; ring.
    - destruct e as [|x e]; [cbn [vdot]; ring|].
      cbn [madd combine map col vdot fst snd]. fold (madd A B). fold (col i (madd A B)).
      fold (col i A). fold (col i B). rewrite IH by lia. rewrite nz_vadd. ring.
  Qed.
  Lemma lincomb_madd k e A B : length A = length B ->
    veq (lincomb k e (madd A B)) (vadd (lincomb k e A) (lincomb k e B)).
  Proof. intros H i. rewrite nz_vadd, !nz_lincomb. apply vdot_col_madd; exact H. Qed.

  Lemma veq_vadd u u' v v' : veq u u' -> veq v v' -> veq (vadd u v) (vadd u' v').
  Proof. intros H1 H2 i. rewrite !nz_vadd, H1, H2; reflexivity. Qed.
  Lemma vadd_nil_l_veq u v : veq u [] -> veq (vadd u v) v.
  Proof. intros H i. rewrite nz_vadd, H, nz_nil. ring. Qed.
  Lemma vadd_nil_r_veq u v : veq v [] -> veq (vadd u v) u.
  Proof. intros H i. rewrite nz_vadd, H, nz_nil. ring. Qed.

  Lemma rows_zero_In (M N : list (list R)) :
    forallb (fun b => vzero (lincomb O b N)) M = true ->
    forall r, In r (mmul O M N) -> veq r [].
  Proof.
    intros H r Hr. unfold mmul in Hr. apply in_map_iff in Hr. destruct Hr as [b [<- Hb]].
    rewrite forallb_forall in H. apply vzero_veq. apply H; exact Hb.
  Qed.

  (* ================================================================================ *)
  (* Kernel certificate (C07; also the shape of the lattice argument).  The constraint
     matrix Ev has one ROW per unknown (so "x is in the kernel" reads  x * Ev ~ 0, x a
     row vector of length m).  Certificate:  P * K + Ev * Q = I_m  and  K * Ev = 0.  Then
     EVERY kernel vector x is the combination  (x * P) * K  of the rows of K. *)
  Definition check_kernel_cert (m : nat) (Ev K P Q : list (list R)) (d dinv : R) : bool :=
    forallb (fun b => Nat.eqb (length b) m) K &&
    forallb (fun b => vzero (lincomb O b Ev)) K &&
    Nat.eqb (length P) (length Ev) &&
    mat_eqb (madd (mmul m P K) (mmul m Ev Q)) (sident d m) &&
    reqb (d * dinv) z1.

  Lemma lincomb_vscale k c x M : veq (lincomb k (vscale c x) M) (vscale c (lincomb k x M)).
  Proof. intros i. rewrite nz_vscale, !nz_lincomb. apply vdot_vscale_l. Qed.

  (* P*K + Ev*Q = d*I (d invertible; d is a common denominator so that P, Q can be integral) *)
  Theorem kernel_cert_sound m Ev K P Q d dinv :
    check_kernel_cert m Ev K P Q d dinv = true ->
    forall x kk, length x = m -> veq (lincomb kk x Ev) [] ->
      x = lincomb m (vscale dinv (lincomb (length K) x P)) K.
  Proof.
    unfold check_kernel_cert. intros H x kk Hx Hker.
    apply andb_true_iff in H; destruct H as [H Hd].
    apply andb_true_iff in H; destruct H as [H HI].
    apply andb_true_iff in H; destruct H as [H HPE].
    apply andb_true_iff in H; destruct H as [HK HKE].
    apply forallb_len_Forall in HK. apply mat_eqb_eq in HI. apply Nat.eqb_eq in HPE. apply reqb_eq in Hd.
    apply veq_eq; [rewrite length_lincomb by exact HK; exact Hx|].
    (* d * x ~ (x*P)*K *)
    assert (E : veq (vscale d x) (lincomb m (lincomb (length K) x P) K)).
    { apply veq_trans with (lincomb m x (sident d m)); [apply veq_sym, lincomb_sident; lia|].
      rewrite <- HI.
      eapply veq_trans; [apply lincomb_madd; unfold mmul; rewrite !map_length; exact HPE|].
      eapply veq_trans.
      { apply veq_vadd; apply veq_sym; apply lincomb_assoc. }
      apply vadd_nil_r_veq.
      apply lincomb_nil_veq. exact Hker. }
    eapply veq_trans; [|apply veq_sym, lincomb_vscale].
    intros i. rewrite nz_vscale, <- (E i), nz_vscale.
    transitivity ((d * dinv) * nz x i); [rewrite Hd; ring | ring].
  Qed.

  (* the rows of K really are kernel vectors, and so is every combination of them *)
  Theorem kernel_cert_rows m Ev K P Q d dinv :
    check_kernel_cert m Ev K P Q d dinv = true ->
    forall c kk k2, veq (lincomb kk (lincomb k2 c K) Ev) [].
  Proof.
    unfold check_kernel_cert. intros H c kk k2.
    apply andb_true_iff in H; destruct H as [H Hd].
    apply andb_true_iff in H; destruct H as [H HI].
    apply andb_true_iff in H; destruct H as [H HPE].
    apply andb_true_iff in H; destruct H as [HK HKE].
    eapply veq_trans; [apply (lincomb_assoc kk k2 O)|].
    apply lincomb_zero_rows. apply rows_zero_In; exact HKE.
  Qed.

  (* ================================================================================ *)
  (* Linear independence certificate:  B * Rb = d * I_r  with d cancellable. *)
  Definition check_independent (B Rb : list (list R)) (d : R) : bool :=
    mat_eqb (mmul (length B) B Rb) (sident d (length B)).

  Theorem independent_cert_sound B Rb d :
    (forall x, d * x = z0 -> x = z0) ->
    check_independent B Rb d = true ->
    forall c kk, length c = length B -> veq (lincomb kk c B) [] -> Forall (fun x => x = z0) c.
  Proof.
    intros Hd H c kk Hc Hz. apply mat_eqb_eq in H.
    apply veq_nil_Forall. intros i. rewrite nz_nil. apply Hd.
    rewrite <- nz_vscale.
    rewrite <- (lincomb_sident O d (length B) c (Nat.eq_le_incl _ _ Hc) i), <- H.
    rewrite <- (lincomb_assoc O kk (length B) c B Rb i).
    rewrite (lincomb_nil_veq O _ Rb Hz i). apply nz_nil.
  Qed.

  (* ================================================================================ *)
  (* Generation certificate (C16).  Vals has one row per coordinate of e (the "valuation
     vector" of base i), so the constraint on e (length k) is  e * Vals ~ 0.
       B   (r x k)  candidate basis, rows in the kernel:  B * Vals = 0
       V1  (s x k)  complement rows;  Wa (k x s), Wc (k x r)  with  Wa*V1 + Wc*B = I_k
       Rt           with  (V1 * Vals) * Rt = d * I_s,  d cancellable
     Then EVERY e in the kernel is the combination (e * Wc) of the rows of B. *)
  Definition check_generates (k : nat) (Vals B V1 Wa Wc Rt : list (list R)) (d : R) : bool :=
    forallb (fun b => Nat.eqb (length b) k) B &&
    forallb (fun b => Nat.eqb (length b) (length V1)) Wa &&
    forallb (fun b => Nat.eqb (length b) (length B)) Wc &&
    Nat.eqb (length Wa) (length Wc) &&
    mat_eqb (madd (mmul k Wa V1) (mmul k Wc B)) (ident k) &&
    forallb (fun b => vzero (lincomb O b Vals)) B &&
    mat_eqb (mmul (length V1) (mmul O V1 Vals) Rt) (sident d (length V1)).

  Theorem generates_cert_sound k Vals B V1 Wa Wc Rt d :
    (forall x, d * x = z0 -> x = z0) ->
    check_generates k Vals B V1 Wa Wc Rt d = true ->
    forall e kk, length e = k -> veq (lincomb kk e Vals) [] ->
      length (lincomb (length B) e Wc) = length B /\
      e = lincomb k (lincomb (length B) e Wc) B.
  Proof.
    unfold check_generates. intros Hd H e kk He Hker.
    apply andb_true_iff in H; destruct H as [H HR].
    apply andb_true_iff in H; destruct H as [H HBV].
    apply andb_true_iff in H; destruct H as [H HI].
    apply andb_true_iff in H; destruct H as [H HW].
    apply andb_true_iff in H; destruct H as [H HWc].
    apply andb_true_iff in H; destruct H as [HB HWa].
    apply forallb_len_Forall in HB. apply forallb_len_Forall in HWa. apply forallb_len_Forall in HWc.
    split; [apply length_lincomb; exact HWc|].
    apply mat_eqb_eq in HI. apply mat_eqb_eq in HR. apply Nat.eqb_eq in HW.
    set (s := length V1) in *. set (r := length B) in *.
    set (a := lincomb s e Wa). set (c := lincomb r e Wc).
    (* e ~ a*V1 + c*B *)
    assert (Hdec : veq e (vadd (lincomb k a V1) (lincomb k c B))).
    { apply veq_trans with (lincomb k e (ident k)); [apply veq_sym, lincomb_ident; lia|].
      rewrite <- HI.
      eapply veq_trans; [apply lincomb_madd; unfold mmul; rewrite !map_length; exact HW|].
      apply veq_vadd; apply veq_sym; apply lincomb_assoc. }
    (* (c*B)*Vals ~ 0 *)
    assert (HcB : veq (lincomb O (lincomb k c B) Vals) []).
    { eapply veq_trans; [apply (lincomb_assoc O k O)|].
      apply lincomb_zero_rows. apply rows_zero_In; exact HBV. }
    (* hence (a*V1)*Vals ~ 0 *)
    assert (HaV : veq (lincomb O (lincomb k a V1) Vals) []).
    { intros i.
      pose proof (lincomb_veq kk O _ _ Vals Hdec i) as E1.
      rewrite (Hker i) in E1.
      rewrite (lincomb_vadd O _ _ Vals i), nz_vadd, (HcB i), !nz_nil in E1.
      rewrite nz_nil, E1. ring. }
    (* d * a ~ 0 *)
    assert (Ha : veq a []).
    { intros i. rewrite nz_nil. apply Hd. rewrite <- nz_vscale.
      assert (La : (length a <= s)%nat).
      { unfold a. rewrite length_lincomb by exact HWa. lia. }
      rewrite <- (lincomb_sident O d s a La i), <- HR.
      rewrite <- (lincomb_assoc O O s a (mmul O V1 Vals) Rt i).
      assert (Hz : veq (lincomb O a (mmul O V1 Vals)) []).
      { eapply veq_trans; [apply veq_sym, (lincomb_assoc O k O)| exact HaV]. }
      rewrite (lincomb_nil_veq O _ Rt Hz i). apply nz_nil. }
    apply veq_eq; [rewrite length_lincomb by exact HB; exact He|].
    eapply veq_trans; [exact Hdec|].
    apply vadd_nil_l_veq. apply lincomb_nil_veq; exact Ha.
  Qed.
End Mat.

Arguments nz {R} _ _. Arguments veq {R} _ _. Arguments vadd {R} _ _. Arguments vscale {R} _ _.
Arguments zeros {R} _. Arguments vdot {R} _ _. Arguments lincomb {R} _ _ _.
Arguments col {R} _ _. Arguments mmul {R} _ _ _. Arguments madd {R} _ _. Arguments sident {R} _ _. Arguments ident {R} _.
Arguments vzero {R} _. Arguments vec_eqb {R} _ _. Arguments mat_eqb {R} _ _.
Arguments check_kernel_cert {R} _ _ _ _ _ _ _. Arguments check_independent {R} _ _ _.
Arguments check_generates {R} _ _ _ _ _ _ _ _.

(* ---- the ring of integers ---- *)
Lemma Z_eqb_eq : forall x y : Z, Z.eqb x y = true -> x = y.
Proof. intros x y H. apply Z.eqb_eq; exact H. Qed.
Definition Z_cring : cring :=
  {| car := Z; r0 := 0%Z; r1 := 1%Z; radd := Z.add; rmul := Z.mul; rsub := Z.sub;
     ropp := Z.opp; reqb := Z.eqb; rth := InitialRing.Zth; reqb_eq := Z_eqb_eq |}.

Lemma Z_cancel d : d <> 0%Z -> forall x : Z, (d * x = 0 -> x = 0)%Z.
Proof. intros Hd x H. apply Z.mul_eq_0 in H. destruct H; [contradiction | assumption]. Qed.

Definition zlincomb (k : nat) (c : list Z) (B : list (list Z)) : list Z := lincomb (R := Z_cring) k c B.

Definition check_generates_Z k (Vals B V1 Wa Wc Rt : list (list Z)) (d : Z) : bool :=
  negb (Z.eqb d 0) && check_generates (R := Z_cring) k Vals B V1 Wa Wc Rt d.
Definition check_independent_Z (B Rb : list (list Z)) (d : Z) : bool :=
  negb (Z.eqb d 0) && check_independent (R := Z_cring) B Rb d.

Theorem check_generates_Z_sound k Vals B V1 Wa Wc Rt d :
  check_generates_Z k Vals B V1 Wa Wc Rt d = true ->
  forall (e : list Z) (m : nat), length e = k ->
    zlincomb m e Vals = zeros (R := Z_cring) m ->
    exists c : list Z, length c = length B /\ e = zlincomb k c B.
Proof.
  unfold check_generates_Z. intros H e m He Hker.
  apply andb_true_iff in H; destruct H as [Hd H].
  apply negb_true_iff in Hd. apply Z.eqb_neq in Hd.
  exists (lincomb (R := Z_cring) (length B) e Wc).
  apply (generates_cert_sound Z_cring k Vals B V1 Wa Wc Rt d (Z_cancel d Hd) H e m He).
  unfold zlincomb in Hker. rewrite Hker. apply zeros_veq.
Qed.

Theorem check_independent_Z_sound B Rb d :
  check_independent_Z B Rb d = true ->
  forall c : list Z, length c = length B ->
    forall k, zlincomb k c B = zeros (R := Z_cring) k -> Forall (fun x => x = 0%Z) c.
Proof.
  unfold check_independent_Z. intros H c Hc k Hz.
  apply andb_true_iff in H; destruct H as [Hd H].
  apply negb_true_iff in Hd. apply Z.eqb_neq in Hd.
  apply (independent_cert_sound Z_cring B Rb d (Z_cancel d Hd) H c k Hc).
  unfold zlincomb in Hz. rewrite Hz. apply zeros_veq.
Qed.
