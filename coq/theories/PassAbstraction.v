(* C02, pass ConditionsNormalizer: the BERNOULLI ABSTRACTION of conditions over variables
   without a finite type (program/transformer/conditions_normalizer.py,
   _normalize_conditions / _try_abstract_failed_condition / _partition_condition).

   When an atom of the condition of a guarded assignment is over a variable without a finite
   type (d = DiscreteUniform(1,30): more values than the typer's limit), the conjuncts C that
   touch such variables are replaced by  a == 1  where  a = Bernoulli(p)  is a fresh coin
   inserted right before the assignment and p is a SYMBOL standing for P(C); the same C met
   again later in the iteration reuses the coin.

   This file:
   (a) the semantic core over Dist.v (weighted lists): [abstraction_lemma] (consulting C(d) for
       d ~ D is tossing a coin with probability E D [C], when D has mass 1; [_mass]: general
       mass, the draw is kept), [abstraction_reuse] (two uses, ONE coin), and the two refuted
       variants: two different conditions over one draw with two independent coins
       ([two_conditions_two_coins_refuted]), a continuation that also reads d itself
       ([continuation_reads_draw_refuted], the E(d*x) defect repaired in /repo c349038);
   (b) the program transformation [abstract_at] on Syntax.flatprog, the boolean side-condition
       checker [abstraction_ok] and [abstraction_sound]: for every n, start state with
       s0 p = [abs_prob] and every observation f that ignores the hidden variables and the
       coin, E (frun (abstract_at ...) n s0) f = E (frun fp n s0) f.
       HIDDEN variables H (a parameter, superset of the variables of C): variables assigned
       before the coin, in the same iteration, by UNCONDITIONAL assignments of total mass 1
       that read only hidden variables assigned earlier in the same iteration (direct draws
       with constant parameters AND deterministic / random functions of them, e.g. the
       ConditionsReducer's  _r0 = d - 15); nothing else in the body reads a hidden variable,
       except the conditions after the coin through conjuncts syntactically equal to C.
       DISCRETE draws only: a continuous family (DCont, whose law is a parameter of Sem.v of
       unknown mass) among the hidden assignments makes [abstraction_ok] false;
   (c) chains of abstractions ([abstract_many], [many_ok], [abstract_many_sound]), the
       composition with the verified model of the rest of the pass
       (PassCondNorm.cn_pass: [abs_then_cn_sound]) and the functions that compute the
       parameters of an abstraction from the program and the types ([auto_specs]: only the
       position and the two generated names are read off Polar's output).

   What [abstraction_ok] does NOT cover although Polar accepts it at this stage: statements
   that read a hidden variable after the draw (y = y + d).  There the pass does not preserve
   the joint law of (x, y) — Polar relies on RecBuilder._check_abstraction_is_independent
   (c349038) to refuse the affected moments later; such programs are validated only
   (harness/pass_abstraction.py, exact oracle). *)
From Coq Require Import List String QArith Qcanon ZArith Bool Ring Field Lia.
From Polar Require Import Qcx Dist DistBase Syntax Sem Types PassGuard PassCNBase PassCondNorm.
From Polar Require PassIfAux.
Import ListNotations.
Local Open Scope Qc_scope.

(* ====================================================================================== *)
(* (a) the semantic core                                                                   *)
(* ====================================================================================== *)
Definition coin (q : Qc) : dist bool := [(q, true); (1 - q, false)].
Definition ind {A} (C : A -> bool) (a : A) : Qc := if C a then 1 else 0.
Definition prob_of {A} (D : dist A) (C : A -> bool) : Qc := E D (ind C).

Lemma E_if_split {A} (D : dist A) (C : A -> bool) (X Y : Qc) :
  E D (fun d => if C d then X else Y) = prob_of D C * X + (mass D - prob_of D C) * Y.
Proof.
  unfold prob_of, mass. induction D as [|[w a] D IH]; cbn [E]; [ring|].
  rewrite IH. unfold ind. destruct (C a); ring.
Qed.

Lemma E_coin {B} q (k : bool -> dist B) f :
  E (bind (coin q) k) f = q * E (k true) f + (1 - q) * E (k false) f.
Proof. rewrite E_bind. unfold coin. cbn [E]. ring. Qed.

(* the abstraction lemma: a continuation that consults the draw only through C *)
Theorem abstraction_lemma {A B} (D : dist A) (C : A -> bool) (k : bool -> dist B) (f : B -> Qc) :
  mass D = 1 ->
  E (bind D (fun d => k (C d))) f = E (bind (coin (prob_of D C)) k) f.
Proof.
  intros Hm. rewrite E_coin, E_bind.
  rewrite (E_ext D (fun d => E (k (C d)) f) (fun d => if C d then E (k true) f else E (k false) f))
    by (intros d; destruct (C d); reflexivity).
  rewrite E_if_split, Hm. ring.
Qed.

(* any mass (the draw stays in the program, as in Polar's output): q * mass D = E D [C] *)
Theorem abstraction_lemma_mass {A B} (D : dist A) (C : A -> bool) (q : Qc) (k : bool -> dist B) (f : B -> Qc) :
  q * mass D = prob_of D C ->
  E (bind D (fun d => k (C d))) f = E (bind D (fun _ => bind (coin q) k)) f.
Proof.
  intros Hq. rewrite !E_bind.
  rewrite (E_ext D (fun d => E (k (C d)) f) (fun d => if C d then E (k true) f else E (k false) f))
    by (intros d; destruct (C d); reflexivity).
  rewrite E_if_split.
  unfold coin. cbn [E]. rewrite E_const, <- Hq. ring.
Qed.

(* the same condition consulted twice: ONE coin, reused *)
Theorem abstraction_reuse {A B B'} (D : dist A) (C : A -> bool)
        (k1 : bool -> dist B) (k2 : B -> bool -> dist B') (f : B' -> Qc) :
  mass D = 1 ->
  E (bind D (fun d => bind (k1 (C d)) (fun x => k2 x (C d)))) f =
  E (bind (coin (prob_of D C)) (fun b => bind (k1 b) (fun x => k2 x b))) f.
Proof. intros Hm. apply (abstraction_lemma D C (fun b => bind (k1 b) (fun x => k2 x b)) f Hm). Qed.

Lemma Qc_neq_by_eqb x y : Qc_eqb x y = false -> x <> y.
Proof. intros H ->. rewrite Qc_eqb_refl in H. discriminate H. Qed.

(* two DIFFERENT conditions over the same draw must not get two independent coins:
   D fair on {true,false}, C1 = id, C2 = negb, both hold with probability 0, not 1/4 *)
Theorem two_conditions_two_coins_refuted :
  exists (D : dist bool) (C1 C2 : bool -> bool) (k : bool -> bool -> dist bool) (f : bool -> Qc),
    mass D = 1 /\
    E (bind D (fun d => k (C1 d) (C2 d))) f <>
    E (bind (coin (prob_of D C1)) (fun b1 => bind (coin (prob_of D C2)) (fun b2 => k b1 b2))) f.
Proof.
  exists [(mkq 1 2, true); (mkq 1 2, false)], (fun b : bool => b), negb, (fun b1 b2 : bool => ret (b1 && b2)),
         (fun b : bool => if b then 1 else 0).
  split; [apply Qc_is_canon; vm_compute; reflexivity | apply Qc_neq_by_eqb; vm_compute; reflexivity].
Qed.

(* a continuation that reads the draw itself, not only C d, breaks the equation
   (E(d * [d == 1]) = 1/2, but E(d) * P(d == 1) = 1/4): the c349038 defect *)
Theorem continuation_reads_draw_refuted :
  exists (D : dist Qc) (C : Qc -> bool) (k : Qc -> bool -> dist Qc) (f : Qc -> Qc),
    mass D = 1 /\
    E (bind D (fun d => k d (C d))) f <>
    E (bind D (fun d => bind (coin (prob_of D C)) (k d))) f.
Proof.
  exists [(mkq 1 2, 0); (mkq 1 2, 1)], (fun d : Qc => Qc_eqb d 1), (fun (d : Qc) (b : bool) => ret (d * (if b then 1 else 0))),
         (fun x : Qc => x).
  split; [apply Qc_is_canon; vm_compute; reflexivity | apply Qc_neq_by_eqb; vm_compute; reflexivity].
Qed.

(* ====================================================================================== *)
(* (b) flat programs                                                                       *)
(* ====================================================================================== *)
Definition agree_off (U : list var) (s t : state) : Prop := forall y, ~ In y U -> s y = t y.
Definition ignores (U : list var) (f : state -> Qc) : Prop := forall s t, agree_off U s t -> f s = f t.

Lemma agree_off_refl U s : agree_off U s s.
Proof. intros y _. reflexivity. Qed.
Lemma agree_off_upd U s t x v : agree_off U s t -> agree_off U (upd s x v) (upd t x v).
Proof. intros H y Hy. unfold upd. destruct (var_eqb y x); [reflexivity | apply H; exact Hy]. Qed.
Lemma upd_eq s x v : upd s x v x = v.
Proof. unfold upd, var_eqb. rewrite String.eqb_refl. reflexivity. Qed.
Lemma upd_neq s x v y : y <> x -> upd s x v y = s y.
Proof.
  intros H. unfold upd, var_eqb. destruct (String.eqb y x) eqn:E; [|reflexivity].
  apply String.eqb_eq in E. contradiction.
Qed.
Lemma agree_off_upd_l U s x v : In x U -> agree_off U (upd s x v) s.
Proof. intros Hx y Hy. apply upd_neq. intros ->. exact (Hy Hx). Qed.
Lemma agree_off_mono U U' s t : (forall x, In x U -> In x U') -> agree_off U s t -> agree_off U' s t.
Proof. intros Hs H y Hy. apply H. intros Hin. exact (Hy (Hs y Hin)). Qed.
Lemma ignores_mono U U' f : (forall x, In x U -> In x U') -> ignores U' f -> ignores U f.
Proof. intros Hs H s t Hst. apply H. exact (agree_off_mono U U' s t Hs Hst). Qed.

Definition subsetv (a b : list var) : bool := forallb (fun x => mem_var x b) a.
Lemma subsetv_spec a b : subsetv a b = true -> forall x, In x a -> In x b.
Proof. unfold subsetv. intros H x Hx. rewrite forallb_forall in H. apply mem_var_true, H, Hx. Qed.

Lemma holds_ext c s t : (forall x, In x (cvars c) -> s x = t x) -> holds c s = holds c t.
Proof.
  induction c as [| |a o b|c1 IH|c1 IH1 c2 IH2|c1 IH1 c2 IH2]; cbn [cvars holds]; intros H; try reflexivity.
  - rewrite (eval_ext a s t), (eval_ext b s t); [reflexivity| |]; intros x Hx; apply H, in_or_app; auto.
  - rewrite IH by exact H. reflexivity.
  - rewrite IH1, IH2; [reflexivity| |]; intros x Hx; apply H, in_or_app; auto.
  - rewrite IH1, IH2; [reflexivity| |]; intros x Hx; apply H, in_or_app; auto.
Qed.

Lemma map_eval_ext es s t :
  (forall x, In x (flat_map vars_of es) -> s x = t x) -> map (fun e => eval e s) es = map (fun e => eval e t) es.
Proof.
  intros H. apply map_ext_in. intros e He. apply eval_ext. intros x Hx. apply H.
  apply in_flat_map. exists e. split; assumption.
Qed.

Lemma sample_ext law r s t : (forall x, In x (rvars r) -> s x = t x) -> sample law r s = sample law r t.
Proof.
  destruct r as [alts|d]; cbn [rvars sample]; intros H.
  - apply map_ext_in. intros [p e] Hin. cbn [fst snd].
    rewrite (eval_ext p s t), (eval_ext e s t); [reflexivity| |];
      intros x Hx; apply H; apply in_flat_map; exists (p, e); (split; [exact Hin|]); cbn [fst snd]; apply in_or_app; auto.
  - destruct d as [p|ps|a b|fam args]; cbn [dvars draw_law] in *.
    + rewrite (eval_ext p s t H). reflexivity.
    + rewrite (map_eval_ext ps s t H). reflexivity.
    + reflexivity.
    + rewrite (map_eval_ext args s t H). reflexivity.
Qed.

(* ---- total mass one, independent of the continuous laws ---- *)
Definition mass_one_rhs (r : rhs) : bool :=
  match r with
  | RDraw (DCont _ _) => false
  | _ => PassIfAux.rhs_mass1 r
  end.

Lemma mass_one_sound law r : mass_one_rhs r = true -> forall s c, E (sample law r s) (fun _ => c) = c.
Proof.
  destruct r as [alts|d]; cbn [mass_one_rhs PassIfAux.rhs_mass1 sample]; intros H s c.
  - rewrite PassIfAux.E_choice_const, (PassIfAux.sums_to_one_sound _ H). ring.
  - destruct d as [p|ps|a b|f args]; cbn [draw_law]; cbn [PassIfAux.rhs_mass1] in H.
    + cbn [E]. ring.
    + rewrite PassIfAux.E_cat_const, (PassIfAux.sums_to_one_sound _ H). ring.
    + apply Z.leb_le in H. rewrite PassIfAux.E_unif_const.
      destruct (Z.to_nat (b - a + 1)) as [|m] eqn:En; [lia|].
      rewrite (Qcmult_inv_r (qnat (S m))) by apply qnat_S_neq0. ring.
    + discriminate H.
Qed.

Lemma sample_no_law law r s : mass_one_rhs r = true -> sample law r s = sample no_law r s.
Proof. destruct r as [alts|[p|ps|a b|f args]]; cbn [mass_one_rhs]; intros H; [reflexivity..|discriminate H]. Qed.

(* ---- expectation of one guarded assignment / of a block ---- *)
Lemma E_exec_ga law g s (F : state -> Qc) :
  E (exec_ga law g s) F =
  if holds (ga_cond g) s then E (sample law (ga_rhs g) s) (fun v => F (upd s (ga_var g) v))
  else F (upd s (ga_var g) (s (ga_default g))).
Proof.
  unfold exec_ga. destruct (holds (ga_cond g) s).
  - rewrite E_bind. apply E_ext. intros v. apply E_ret.
  - apply E_ret.
Qed.
Lemma E_exec_gas_cons law g l s (F : state -> Qc) :
  E (exec_gas law (g :: l) s) F = E (exec_ga law g s) (fun t => E (exec_gas law l t) F).
Proof. cbn [exec_gas]. apply E_bind. Qed.
Lemma E_exec_gas_nil law s (F : state -> Qc) : E (exec_gas law [] s) F = F s.
Proof. cbn [exec_gas]. apply E_ret. Qed.
Lemma E_exec_gas_app law l1 l2 s (F : state -> Qc) :
  E (exec_gas law (l1 ++ l2) s) F = E (exec_gas law l1 s) (fun t => E (exec_gas law l2 t) F).
Proof.
  revert s; induction l1 as [|g l1 IH]; intros s.
  - rewrite E_exec_gas_nil. reflexivity.
  - rewrite <- app_comm_cons, !E_exec_gas_cons. apply E_ext. intros t. apply IH.
Qed.
Lemma E_mulr {A} (d : dist A) (g : A -> Qc) c : E d (fun a => g a * c) = E d g * c.
Proof. induction d as [|[w a] d IH]; cbn [E]; [ring | rewrite IH; ring]. Qed.

(* variables that are not assigned keep their value *)
Lemma exec_ga_keeps law x g s t : ga_var g <> x -> supp (exec_ga law g s) t -> t x = s x.
Proof.
  intros Hx Ht. unfold exec_ga in Ht. destruct (holds (ga_cond g) s).
  - apply supp_bind in Ht. destruct Ht as [v [_ Ht]]. apply supp_ret in Ht. subst t.
    apply upd_neq. intros E. apply Hx. symmetry. exact E.
  - apply supp_ret in Ht. subst t. apply upd_neq. intros E. apply Hx. symmetry. exact E.
Qed.
Lemma exec_gas_keeps law x l : (forall g, In g l -> ga_var g <> x) ->
  forall s t, supp (exec_gas law l s) t -> t x = s x.
Proof.
  induction l as [|g l IH]; intros Hl s t Ht; cbn [exec_gas] in Ht.
  - apply supp_ret in Ht. subst. reflexivity.
  - apply supp_bind in Ht. destruct Ht as [s1 [H1 H2]].
    rewrite (IH (fun g0 H0 => Hl g0 (or_intror H0)) s1 t H2).
    apply (exec_ga_keeps law x g s s1); [apply Hl; left; reflexivity | exact H1].
Qed.
Lemma frun_keeps law x fp : (forall g, In g (fp_init fp ++ fp_body fp) -> ga_var g <> x) ->
  forall n s0 t, supp (frun law fp n s0) t -> t x = s0 x.
Proof.
  intros Hl n s0. induction n as [|n IH]; intros t Ht; cbn [frun] in Ht.
  - apply (exec_gas_keeps law x (fp_init fp)); [|exact Ht]. intros g Hg. apply Hl, in_or_app. left. exact Hg.
  - apply supp_bind in Ht. destruct Ht as [s1 [H1 H2]]. rewrite <- (IH s1 H1).
    apply (exec_gas_keeps law x (fp_body fp)); [|exact H2]. intros g Hg. apply Hl, in_or_app. right. exact Hg.
Qed.

(* ---- conjuncts, syntactic equality of conditions ---- *)
Fixpoint conjuncts (c : cond) : list cond :=
  match c with CAnd c1 c2 => conjuncts c1 ++ conjuncts c2 | _ => [c] end.
Definition conj_list (l : list cond) : cond := fold_left and_s l CTrue.
Definition touches (bv : list var) (c : cond) : bool := existsb (fun x => mem_var x bv) (cvars c).

Lemma holds_conjuncts c s : holds c s = forallb (fun d => holds d s) (conjuncts c).
Proof.
  induction c as [| |a o b|c1 IH|c1 IH1 c2 IH2|c1 IH1 c2 IH2]; cbn [conjuncts holds forallb];
    try (rewrite andb_true_r; reflexivity).
  rewrite forallb_app, IH1, IH2. reflexivity.
Qed.
Lemma holds_fold_and_s l acc s :
  holds (fold_left and_s l acc) s = holds acc s && forallb (fun d => holds d s) l.
Proof.
  revert acc; induction l as [|d l IH]; intros acc; cbn [fold_left forallb].
  - rewrite andb_true_r. reflexivity.
  - rewrite IH, holds_and_s, andb_assoc. reflexivity.
Qed.
Lemma holds_conj_list l s : holds (conj_list l) s = forallb (fun d => holds d s) l.
Proof. unfold conj_list. rewrite holds_fold_and_s. reflexivity. Qed.
Lemma forallb_filter_split {A} (f P : A -> bool) l :
  forallb f l = forallb f (filter P l) && forallb f (filter (fun x => negb (P x)) l).
Proof.
  induction l as [|x l IH]; cbn [forallb filter]; [reflexivity|].
  rewrite IH. destruct (P x); cbn [negb forallb]; destruct (f x); cbn [andb]; try reflexivity.
  rewrite andb_false_r. reflexivity.
Qed.

Lemma expr_eqb_eq a b : expr_eqb a b = true -> a = b.
Proof.
  revert b; induction a as [q|x|a1 IH1 a2 IH2|a1 IH1 a2 IH2|a1 IH1 k]; intros b H; destruct b; cbn [expr_eqb] in H; try discriminate.
  - apply Qc_eqb_true in H. subst. reflexivity.
  - apply String.eqb_eq in H. subst. reflexivity.
  - apply andb_true_iff in H. destruct H as [Ha Hb]. rewrite (IH1 _ Ha), (IH2 _ Hb). reflexivity.
  - apply andb_true_iff in H. destruct H as [Ha Hb]. rewrite (IH1 _ Ha), (IH2 _ Hb). reflexivity.
  - apply andb_true_iff in H. destruct H as [Ha Hk]. apply Nat.eqb_eq in Hk. rewrite (IH1 _ Ha), Hk. reflexivity.
Qed.
Lemma cop_eqb_eq a b : cop_eqb a b = true -> a = b.
Proof. destruct a, b; cbn; intros H; try discriminate; reflexivity. Qed.

Fixpoint cond_eqb (c d : cond) : bool :=
  match c, d with
  | CTrue, CTrue | CFalse, CFalse => true
  | CAtom a o b, CAtom a' o' b' => expr_eqb a a' && cop_eqb o o' && expr_eqb b b'
  | CNot c1, CNot d1 => cond_eqb c1 d1
  | CAnd c1 c2, CAnd d1 d2 | COr c1 c2, COr d1 d2 => cond_eqb c1 d1 && cond_eqb c2 d2
  | _, _ => false
  end.
Lemma cond_eqb_eq c d : cond_eqb c d = true -> c = d.
Proof.
  revert d; induction c as [| |a o b|c1 IH|c1 IH1 c2 IH2|c1 IH1 c2 IH2]; intros d H; destruct d; cbn [cond_eqb] in H; try discriminate.
  - reflexivity.
  - reflexivity.
  - apply andb_true_iff in H. destruct H as [H Hb]. apply andb_true_iff in H. destruct H as [Ha Ho].
    rewrite (expr_eqb_eq _ _ Ha), (cop_eqb_eq _ _ Ho), (expr_eqb_eq _ _ Hb). reflexivity.
  - rewrite (IH _ H). reflexivity.
  - apply andb_true_iff in H. destruct H as [H1 H2]. rewrite (IH1 _ H1), (IH2 _ H2). reflexivity.
  - apply andb_true_iff in H. destruct H as [H1 H2]. rewrite (IH1 _ H1), (IH2 _ H2). reflexivity.
Qed.
Fixpoint cond_list_eqb (l1 l2 : list cond) : bool :=
  match l1, l2 with
  | [], [] => true
  | c :: l1', d :: l2' => cond_eqb c d && cond_list_eqb l1' l2'
  | _, _ => false
  end.
Lemma cond_list_eqb_eq l1 l2 : cond_list_eqb l1 l2 = true -> l1 = l2.
Proof.
  revert l2; induction l1 as [|c l1 IH]; intros [|d l2] H; cbn [cond_list_eqb] in H; try discriminate; [reflexivity|].
  apply andb_true_iff in H. destruct H as [H1 H2]. rewrite (cond_eqb_eq _ _ H1), (IH _ H2). reflexivity.
Qed.

(* ---- the transformation ---- *)
(* _partition_condition: conjuncts touching the failed variables [bv] are "bad"; if the bad
   part IS the abstracted condition C the result is  good /\ a == 1  (And(...).simplify()) *)
Definition abs_split (bv : list var) (C : cond) (c : cond) : option cond :=
  let cs := conjuncts c in
  match filter (touches bv) cs with
  | [] => None
  | bad => if cond_list_eqb bad (conjuncts C)
           then Some (conj_list (filter (fun x => negb (touches bv x)) cs))
           else None
  end.
Definition abs_cond (bv : list var) (C : cond) (a : var) (c : cond) : cond :=
  match abs_split bv C c with
  | Some good => and_s good (eq_atom a 1)
  | None => c
  end.
Definition abs_ga (bv : list var) (C : cond) (a : var) (g : gassign) : gassign :=
  {| ga_var := ga_var g; ga_cond := abs_cond bv C a (ga_cond g); ga_default := ga_default g; ga_rhs := ga_rhs g |}.
Definition coin_ga (a p : var) : gassign :=
  {| ga_var := a; ga_cond := CTrue; ga_default := a; ga_rhs := RDraw (DBern (EVar p)) |}.

(* insert  a = Bernoulli(p)  before body position i; replace the bad conjuncts C by  a == 1
   in the assignments from position i on *)
Definition abstract_at (fp : flatprog) (i : nat) (bv : list var) (C : cond) (a p : var) : flatprog :=
  {| fp_init := fp_init fp;
     fp_body := firstn i (fp_body fp) ++ coin_ga a p :: map (abs_ga bv C a) (skipn i (fp_body fp)) |}.

Lemma abs_split_sound bv C c good : abs_split bv C c = Some good ->
  forall s, holds c s = holds good s && holds C s.
Proof.
  unfold abs_split. intros H s.
  destruct (filter (touches bv) (conjuncts c)) as [|b0 bad] eqn:Eb; [discriminate|].
  destruct (cond_list_eqb (b0 :: bad) (conjuncts C)) eqn:Ec; [|discriminate].
  injection H as <-. apply cond_list_eqb_eq in Ec.
  rewrite (holds_conjuncts c), (forallb_filter_split _ (touches bv)), Eb, Ec.
  rewrite <- (holds_conjuncts C), holds_conj_list. apply andb_comm.
Qed.

(* ---- the side conditions ---- *)
Definition clean (U : list var) (g : gassign) : bool :=
  negb (mem_var (ga_var g) U) && negb (mem_var (ga_default g) U) && disjointb (ga_reads g) U.
Definition hid_ok (H : list var) (g : gassign) : bool :=
  match ga_cond g with CTrue => true | _ => false end
  && mass_one_rhs (ga_rhs g) && subsetv (rvars (ga_rhs g)) H.
Definition pre_ok (U H : list var) (g : gassign) : bool :=
  if mem_var (ga_var g) H then hid_ok H g else clean U g.
Definition post_ok (U : list var) (bv : list var) (C : cond) (g : gassign) : bool :=
  negb (mem_var (ga_var g) U) && negb (mem_var (ga_default g) U) && disjointb (rvars (ga_rhs g)) U
  && match abs_split bv C (ga_cond g) with
     | Some good => disjointb (cvars good) U
     | None => disjointb (cvars (ga_cond g)) U
     end.
Definition onlyH (H : list var) (l : list gassign) : list gassign := filter (fun g => mem_var (ga_var g) H) l.
Definition nonH (H : list var) (l : list gassign) : list gassign := filter (fun g => negb (mem_var (ga_var g) H)) l.
(* every hidden assignment reads only hidden variables assigned EARLIER in this iteration,
   and all the variables of C are assigned: the law of C does not depend on the iteration *)
Fixpoint closed_from (C : cond) (A : list var) (l : list gassign) : bool :=
  match l with
  | [] => subsetv (cvars C) A
  | g :: l' => subsetv (rvars (ga_rhs g)) A && closed_from C (ga_var g :: A) l'
  end.

Definition abstraction_ok (fp : flatprog) (i : nat) (H bv : list var) (C : cond) (a p : var) : bool :=
  let U := H ++ [a] in
  let pre := firstn i (fp_body fp) in
  let post := skipn i (fp_body fp) in
  negb (mem_var a H) && negb (mem_var p H) && negb (var_eqb p a)
  && forallb (fun g => negb (var_eqb (ga_var g) p)) (fp_init fp ++ fp_body fp)
  && subsetv (cvars C) H
  && forallb (pre_ok U H) pre
  && closed_from C [] (onlyH H pre)
  && forallb (post_ok U bv C) post.

Definition cind (C : cond) (s : state) : Qc := if holds C s then 1 else 0.
(* the probability of C under the hidden assignments (computable: no continuous law) *)
Definition abs_prob (fp : flatprog) (i : nat) (H : list var) (C : cond) : Qc :=
  E (exec_gas no_law (onlyH H (firstn i (fp_body fp))) st0) (cind C).

Section Abstraction.
  Variable law : string -> list Qc -> dist Qc.

  Lemma clean_spec U g : clean U g = true ->
    ~ In (ga_var g) U /\ ~ In (ga_default g) U /\
    (forall x, In x (cvars (ga_cond g)) -> ~ In x U) /\ (forall x, In x (rvars (ga_rhs g)) -> ~ In x U).
  Proof.
    unfold clean. intros H. apply andb_true_iff in H. destruct H as [H Hr].
    apply andb_true_iff in H. destruct H as [Hv Hd].
    apply negb_true_iff in Hv, Hd. pose proof (disjointb_spec _ _ Hr) as Hs.
    repeat split.
    - apply mem_var_false. exact Hv.
    - apply mem_var_false. exact Hd.
    - intros x Hx. apply Hs. unfold ga_reads. apply in_or_app. left. exact Hx.
    - intros x Hx. apply Hs. unfold ga_reads. apply in_or_app. right. exact Hx.
  Qed.

  (* a block that neither reads nor writes U, observed by a function that ignores U *)
  Lemma block_insens U l : forallb (clean U) l = true ->
    forall s t (F : state -> Qc), agree_off U s t -> ignores U F ->
    E (exec_gas law l s) F = E (exec_gas law l t) F.
  Proof.
    induction l as [|g l IH]; intros Hl s t F Hst HF.
    - rewrite !E_exec_gas_nil. apply HF. exact Hst.
    - cbn [forallb] in Hl. apply andb_true_iff in Hl. destruct Hl as [Hg Hl].
      destruct (clean_spec U g Hg) as [Hv [Hd [Hc Hr]]].
      rewrite !E_exec_gas_cons, !E_exec_ga.
      rewrite (holds_ext (ga_cond g) s t) by (intros x Hx; apply Hst, Hc, Hx).
      rewrite (sample_ext law (ga_rhs g) s t) by (intros x Hx; apply Hst, Hr, Hx).
      rewrite (Hst (ga_default g) Hd).
      destruct (holds (ga_cond g) t).
      + apply E_ext. intros v. apply (IH Hl); [apply agree_off_upd; exact Hst | exact HF].
      + apply (IH Hl); [apply agree_off_upd; exact Hst | exact HF].
  Qed.

  Lemma hid_ok_spec H g : hid_ok H g = true ->
    ga_cond g = CTrue /\ mass_one_rhs (ga_rhs g) = true /\ (forall x, In x (rvars (ga_rhs g)) -> In x H).
  Proof.
    unfold hid_ok. intros Hh. apply andb_true_iff in Hh. destruct Hh as [Hh Hs].
    apply andb_true_iff in Hh. destruct Hh as [Hc Hm].
    repeat split; [destruct (ga_cond g); try discriminate; reflexivity | exact Hm | exact (subsetv_spec _ _ Hs)].
  Qed.

  Lemma E_hid law' H g s (F : state -> Qc) : hid_ok H g = true ->
    E (exec_ga law' g s) F = E (sample law' (ga_rhs g) s) (fun v => F (upd s (ga_var g) v)).
  Proof. intros Hh. destruct (hid_ok_spec H g Hh) as [Hc _]. rewrite E_exec_ga, Hc. reflexivity. Qed.

  Lemma nonH_clean U H l : forallb (pre_ok U H) l = true -> forallb (clean U) (nonH H l) = true.
  Proof.
    induction l as [|g l IH]; cbn [forallb nonH filter]; intros Hl; [reflexivity|].
    apply andb_true_iff in Hl. destruct Hl as [Hg Hl]. unfold pre_ok in Hg.
    destruct (mem_var (ga_var g) H); cbn [negb]; [apply IH, Hl|].
    cbn [forallb]. rewrite Hg. apply IH, Hl.
  Qed.
  Lemma onlyH_hid U H l : forallb (pre_ok U H) l = true -> forallb (hid_ok H) (onlyH H l) = true.
  Proof.
    induction l as [|g l IH]; cbn [forallb onlyH filter]; intros Hl; [reflexivity|].
    apply andb_true_iff in Hl. destruct Hl as [Hg Hl]. unfold pre_ok in Hg.
    destruct (mem_var (ga_var g) H); [|apply IH, Hl].
    cbn [forallb]. rewrite Hg. apply IH, Hl.
  Qed.

  (* observed by a function that ignores U ⊇ H, the hidden assignments can be dropped *)
  Lemma pre_insens U H l : (forall x, In x H -> In x U) -> forallb (pre_ok U H) l = true ->
    forall s (F : state -> Qc), ignores U F -> E (exec_gas law l s) F = E (exec_gas law (nonH H l) s) F.
  Proof.
    intros HU. induction l as [|g l IH]; intros Hl s F HF; [reflexivity|].
    pose proof (nonH_clean U H l) as Hcl.
    cbn [forallb] in Hl. apply andb_true_iff in Hl. destruct Hl as [Hg Hl]. specialize (Hcl Hl).
    unfold nonH. cbn [filter]. fold (nonH H l). unfold pre_ok in Hg.
    destruct (mem_var (ga_var g) H) eqn:EH; cbn [negb].
    - rewrite E_exec_gas_cons, (E_hid law H g s _ Hg).
      rewrite (E_ext _ _ (fun _ => E (exec_gas law (nonH H l) s) F)).
      + destruct (hid_ok_spec H g Hg) as [_ [Hm _]]. apply (mass_one_sound law _ Hm).
      + intros v. rewrite (IH Hl _ F HF).
        apply (block_insens U _ Hcl); [|exact HF].
        apply agree_off_upd_l, HU, mem_var_true, EH.
    - rewrite !E_exec_gas_cons. apply E_ext. intros t. apply (IH Hl t F HF).
  Qed.

  Definition reads_only (H : list var) (chi : state -> Qc) : Prop :=
    forall s t, (forall x, In x H -> s x = t x) -> chi s = chi t.

  Lemma onlyH_agree U H l : forallb (pre_ok U H) l = true ->
    forall s t chi, (forall x, In x H -> s x = t x) -> reads_only H chi ->
    E (exec_gas law (onlyH H l) s) chi = E (exec_gas law (onlyH H l) t) chi.
  Proof.
    induction l as [|g l IH]; intros Hl s t chi Hst Hchi.
    - cbn [onlyH filter]. rewrite !E_exec_gas_nil. apply Hchi, Hst.
    - cbn [forallb] in Hl. apply andb_true_iff in Hl. destruct Hl as [Hg Hl].
      unfold onlyH. cbn [filter]. fold (onlyH H l). unfold pre_ok in Hg.
      destruct (mem_var (ga_var g) H) eqn:EH; [|apply (IH Hl); assumption].
      destruct (hid_ok_spec H g Hg) as [_ [_ Hr]].
      rewrite !E_exec_gas_cons, !(E_hid law H g _ _ Hg).
      rewrite (sample_ext law (ga_rhs g) s t) by (intros x Hx; apply Hst, Hr, Hx).
      apply E_ext. intros v. apply (IH Hl); [|exact Hchi].
      intros x Hx. unfold upd. destruct (var_eqb x (ga_var g)); [reflexivity | apply Hst, Hx].
  Qed.

  (* independence: a function of the hidden variables times a function that ignores them *)
  Lemma pre_split U H l : (forall x, In x H -> In x U) -> forallb (pre_ok U H) l = true ->
    forall s chi psi, reads_only H chi -> ignores U psi ->
    E (exec_gas law l s) (fun t => chi t * psi t) =
    E (exec_gas law (onlyH H l) s) chi * E (exec_gas law l s) psi.
  Proof.
    intros HU. induction l as [|g l IH]; intros Hl s chi psi Hchi Hpsi.
    - cbn [onlyH filter]. rewrite !E_exec_gas_nil. reflexivity.
    - pose proof (nonH_clean U H l) as Hcl. pose proof (pre_insens U H l HU) as Hins.
      pose proof (onlyH_agree U H l) as Hag.
      cbn [forallb] in Hl. apply andb_true_iff in Hl. destruct Hl as [Hg Hl].
      specialize (Hcl Hl). specialize (Hins Hl). specialize (Hag Hl).
      unfold onlyH. cbn [filter]. fold (onlyH H l). unfold pre_ok in Hg.
      destruct (mem_var (ga_var g) H) eqn:EH.
      + (* hidden assignment *)
        destruct (hid_ok_spec H g Hg) as [_ [Hm _]].
        assert (HK : forall v, E (exec_gas law l (upd s (ga_var g) v)) psi = E (exec_gas law l s) psi).
        { intros v. rewrite !(Hins _ psi Hpsi). apply (block_insens U _ Hcl); [|exact Hpsi].
          apply agree_off_upd_l, HU, mem_var_true, EH. }
        rewrite !E_exec_gas_cons, !(E_hid law H g _ _ Hg).
        rewrite (E_ext _ _ (fun v => E (exec_gas law (onlyH H l) (upd s (ga_var g) v)) chi * E (exec_gas law l s) psi)).
        2:{ intros v. rewrite (IH Hl _ chi psi Hchi Hpsi), HK. reflexivity. }
        rewrite E_mulr. f_equal.
        rewrite (E_ext (sample law (ga_rhs g) s) (fun v => E (exec_gas law l (upd s (ga_var g) v)) psi)
                       (fun _ => E (exec_gas law l s) psi) HK).
        symmetry. apply (mass_one_sound law _ Hm).
      + (* an assignment that does not touch U *)
        destruct (clean_spec U g Hg) as [Hv _].
        assert (HA : forall w, E (exec_gas law (onlyH H l) (upd s (ga_var g) w)) chi = E (exec_gas law (onlyH H l) s) chi).
        { intros w. apply Hag; [|exact Hchi]. intros x Hx. apply upd_neq. intros ->. apply Hv, HU, Hx. }
        rewrite !E_exec_gas_cons, !E_exec_ga.
        destruct (holds (ga_cond g) s).
        * rewrite (E_ext _ _ (fun v => E (exec_gas law (onlyH H l) s) chi * E (exec_gas law l (upd s (ga_var g) v)) psi)).
          2:{ intros v. rewrite (IH Hl _ chi psi Hchi Hpsi), HA. reflexivity. }
          apply E_cmul.
        * rewrite (IH Hl _ chi psi Hchi Hpsi), HA. reflexivity.
  Qed.

  Lemma hid_mass H l : forallb (hid_ok H) l = true -> forall s c, E (exec_gas law l s) (fun _ => c) = c.
  Proof.
    induction l as [|g l IH]; intros Hl s c; [apply E_exec_gas_nil|].
    cbn [forallb] in Hl. apply andb_true_iff in Hl. destruct Hl as [Hg Hl].
    destruct (hid_ok_spec H g Hg) as [_ [Hm _]].
    rewrite E_exec_gas_cons, (E_hid law H g _ _ Hg).
    rewrite (E_ext _ _ (fun _ => c)) by (intros v; apply (IH Hl)).
    apply (mass_one_sound law _ Hm).
  Qed.

  (* the law of C after the hidden assignments is the same from every state, for every law *)
  Lemma closed_sound H C l : forallb (hid_ok H) l = true ->
    forall A s t, closed_from C A l = true -> (forall x, In x A -> s x = t x) ->
    E (exec_gas law l s) (cind C) = E (exec_gas no_law l t) (cind C).
  Proof.
    induction l as [|g l IH]; intros Hl A s t Hc Hst.
    - cbn [closed_from] in Hc. rewrite !E_exec_gas_nil. unfold cind.
      rewrite (holds_ext C s t); [reflexivity|]. intros x Hx. apply Hst, (subsetv_spec _ _ Hc), Hx.
    - cbn [forallb] in Hl. apply andb_true_iff in Hl. destruct Hl as [Hg Hl].
      cbn [closed_from] in Hc. apply andb_true_iff in Hc. destruct Hc as [Hr Hc].
      destruct (hid_ok_spec H g Hg) as [_ [Hm _]].
      rewrite !E_exec_gas_cons, (E_hid law H g _ _ Hg), (E_hid no_law H g _ _ Hg).
      rewrite (sample_no_law law _ s Hm).
      rewrite (sample_ext no_law (ga_rhs g) s t) by (intros x Hx; apply Hst, (subsetv_spec _ _ Hr), Hx).
      apply E_ext. intros v. apply (IH Hl (ga_var g :: A)); [exact Hc|].
      intros x [<-|Hx]; [rewrite !upd_eq; reflexivity|].
      unfold upd. destruct (var_eqb x (ga_var g)); [reflexivity | apply Hst, Hx].
  Qed.

  Definition bval (b : bool) : Qc := if b then 1 else 0.
  Lemma bval_eqb b : Qc_eqb (bval b) 1 = b.
  Proof. destruct b; vm_compute; reflexivity. Qed.

  Section One.
    Variables (fp : flatprog) (i : nat) (H bv : list var) (C : cond) (a p : var).
    Hypothesis Hok : abstraction_ok fp i H bv C a p = true.
    Let U := H ++ [a].
    Let pre := firstn i (fp_body fp).
    Let post := skipn i (fp_body fp).
    Let post' := map (abs_ga bv C a) post.
    Let q := abs_prob fp i H C.

    Lemma ok_parts :
      ~ In a H /\ ~ In p U /\
      (forall g, In g (fp_init fp ++ fp_body fp) -> ga_var g <> p) /\
      (forall x, In x (cvars C) -> In x H) /\
      forallb (pre_ok U H) pre = true /\ closed_from C [] (onlyH H pre) = true /\
      forallb (post_ok U bv C) post = true.
    Proof.
      pose proof Hok as Hk. unfold abstraction_ok in Hk. fold U pre post in Hk.
      apply andb_true_iff in Hk. destruct Hk as [Hk Hpost].
      apply andb_true_iff in Hk. destruct Hk as [Hk Hclosed].
      apply andb_true_iff in Hk. destruct Hk as [Hk Hpre].
      apply andb_true_iff in Hk. destruct Hk as [Hk HC].
      apply andb_true_iff in Hk. destruct Hk as [Hk Hp].
      apply andb_true_iff in Hk. destruct Hk as [Hk Hpa].
      apply andb_true_iff in Hk. destruct Hk as [HaH HpH].
      apply negb_true_iff in HaH, HpH, Hpa.
      repeat split; try assumption.
      - apply mem_var_false. exact HaH.
      - unfold U. intros Hin. apply in_app_or in Hin. destruct Hin as [Hin|[Hin|[]]].
        + apply (mem_var_false _ _ HpH). exact Hin.
        + subst. unfold var_eqb in Hpa. rewrite String.eqb_refl in Hpa. discriminate.
      - intros g Hg Heq. rewrite forallb_forall in Hp. specialize (Hp g Hg).
        rewrite Heq in Hp. unfold var_eqb in Hp. rewrite String.eqb_refl in Hp. discriminate.
      - exact (subsetv_spec _ _ HC).
    Qed.

    Lemma H_in_U x : In x H -> In x U.
    Proof. intros Hx. unfold U. apply in_or_app. left. exact Hx. Qed.
    Lemma a_in_U : In a U.
    Proof. unfold U. apply in_or_app. right. left. reflexivity. Qed.

    Lemma post_ok_spec g : post_ok U bv C g = true ->
      ~ In (ga_var g) U /\ ~ In (ga_default g) U /\ (forall x, In x (rvars (ga_rhs g)) -> ~ In x U) /\
      match abs_split bv C (ga_cond g) with
      | Some good => forall x, In x (cvars good) -> ~ In x U
      | None => forall x, In x (cvars (ga_cond g)) -> ~ In x U
      end.
    Proof.
      unfold post_ok. intros Hg. apply andb_true_iff in Hg. destruct Hg as [Hg Hc].
      apply andb_true_iff in Hg. destruct Hg as [Hg Hr]. apply andb_true_iff in Hg. destruct Hg as [Hv Hd].
      apply negb_true_iff in Hv, Hd. repeat split.
      - apply mem_var_false. exact Hv.
      - apply mem_var_false. exact Hd.
      - exact (disjointb_spec _ _ Hr).
      - destruct (abs_split bv C (ga_cond g)); exact (disjointb_spec _ _ Hc).
    Qed.

    (* after the coin: the original block from a state where C has truth value b and the
       abstracted block from a state where the coin shows b *)
    Lemma post_sim l : forallb (post_ok U bv C) l = true ->
      forall s t (F : state -> Qc), agree_off U s t -> t a = bval (holds C s) -> ignores U F ->
      E (exec_gas law l s) F = E (exec_gas law (map (abs_ga bv C a) l) t) F.
    Proof.
      destruct ok_parts as [HaH [HpU [_ [HC _]]]].
      induction l as [|g l IH]; intros Hl s t F Hst Hta HF.
      - cbn [map]. rewrite !E_exec_gas_nil. apply HF, Hst.
      - cbn [forallb] in Hl. apply andb_true_iff in Hl. destruct Hl as [Hg Hl].
        destruct (post_ok_spec g Hg) as [Hv [Hd [Hr Hc]]].
        cbn [map]. rewrite !E_exec_gas_cons, !E_exec_ga. cbn [abs_ga ga_cond ga_var ga_default ga_rhs].
        assert (Hcond : holds (abs_cond bv C a (ga_cond g)) t = holds (ga_cond g) s).
        { unfold abs_cond. destruct (abs_split bv C (ga_cond g)) as [good|] eqn:Es.
          - rewrite holds_and_s, (abs_split_sound bv C _ good Es s).
            cbn [eq_atom holds eval cop_holds]. rewrite Hta, bval_eqb.
            rewrite (holds_ext good t s); [reflexivity|]. intros x Hx. symmetry. apply Hst, Hc, Hx.
          - apply holds_ext. intros x Hx. symmetry. apply Hst, Hc, Hx. }
        rewrite Hcond.
        rewrite (sample_ext law (ga_rhs g) s t) by (intros x Hx; apply Hst, Hr, Hx).
        rewrite (Hst (ga_default g) Hd).
        assert (Hstep : forall w, E (exec_gas law l (upd s (ga_var g) w)) F =
                                  E (exec_gas law (map (abs_ga bv C a) l) (upd t (ga_var g) w)) F).
        { intros w. apply (IH Hl); [apply agree_off_upd; exact Hst | | exact HF].
          rewrite upd_neq by (intros Ea; apply Hv; rewrite <- Ea; exact a_in_U).
          rewrite Hta. f_equal. apply holds_ext. intros x Hx. symmetry. apply upd_neq.
          intros ->. apply Hv, H_in_U, HC, Hx. }
        destruct (holds (ga_cond g) s); [apply E_ext; intros v; apply Hstep | apply Hstep].
    Qed.

    (* the abstracted block does not read the hidden variables *)
    Lemma post_abs_insens l : forallb (post_ok U bv C) l = true ->
      forall s t (F : state -> Qc), agree_off U s t -> s a = t a -> ignores U F ->
      E (exec_gas law (map (abs_ga bv C a) l) s) F = E (exec_gas law (map (abs_ga bv C a) l) t) F.
    Proof.
      induction l as [|g l IH]; intros Hl s t F Hst Hsa HF.
      - cbn [map]. rewrite !E_exec_gas_nil. apply HF, Hst.
      - cbn [forallb] in Hl. apply andb_true_iff in Hl. destruct Hl as [Hg Hl].
        destruct (post_ok_spec g Hg) as [Hv [Hd [Hr Hc]]].
        cbn [map]. rewrite !E_exec_gas_cons, !E_exec_ga. cbn [abs_ga ga_cond ga_var ga_default ga_rhs].
        assert (Hcond : holds (abs_cond bv C a (ga_cond g)) s = holds (abs_cond bv C a (ga_cond g)) t).
        { unfold abs_cond. destruct (abs_split bv C (ga_cond g)) as [good|] eqn:Es.
          - rewrite !holds_and_s. cbn [eq_atom holds eval cop_holds]. rewrite Hsa.
            rewrite (holds_ext good s t); [reflexivity|]. intros x Hx. apply Hst, Hc, Hx.
          - apply holds_ext. intros x Hx. apply Hst, Hc, Hx. }
        rewrite Hcond.
        rewrite (sample_ext law (ga_rhs g) s t) by (intros x Hx; apply Hst, Hr, Hx).
        rewrite (Hst (ga_default g) Hd).
        assert (Hstep : forall w, E (exec_gas law (map (abs_ga bv C a) l) (upd s (ga_var g) w)) F =
                                  E (exec_gas law (map (abs_ga bv C a) l) (upd t (ga_var g) w)) F).
        { intros w. apply (IH Hl); [apply agree_off_upd; exact Hst | | exact HF].
          rewrite !upd_neq by (intros Ea; apply Hv; rewrite <- Ea; exact a_in_U). exact Hsa. }
        destruct (holds (abs_cond bv C a (ga_cond g)) t); [apply E_ext; intros v; apply Hstep | apply Hstep].
    Qed.

    (* the rest of the iteration after the coin has shown v *)
    Definition after_coin (F : state -> Qc) (v : Qc) (t : state) : Qc := E (exec_gas law post' (upd t a v)) F.

    Lemma after_coin_ignores F v : ignores U F -> ignores U (after_coin F v).
    Proof.
      destruct ok_parts as [_ [_ [_ [_ [_ [_ Hpost]]]]]].
      intros HF s t Hst. unfold after_coin, post'. apply (post_abs_insens post Hpost); [| |exact HF].
      - apply agree_off_upd. exact Hst.
      - rewrite !upd_eq. reflexivity.
    Qed.

    Definition mix (F : state -> Qc) (r : Qc) (t : state) : Qc :=
      r * after_coin F 1 t + (1 - r) * after_coin F 0 t.

    Lemma mix_ignores F r : ignores U F -> ignores U (mix F r).
    Proof.
      intros HF s t Hst. unfold mix.
      rewrite (after_coin_ignores F 1 HF s t Hst), (after_coin_ignores F 0 HF s t Hst). reflexivity.
    Qed.

    (* one iteration of the ORIGINAL program *)
    Lemma step_orig s (F : state -> Qc) : ignores U F ->
      E (fstep law fp s) F = E (exec_gas law (nonH H pre) s) (mix F q).
    Proof.
      destruct ok_parts as [HaH [HpU [_ [HC [Hpre [Hclosed Hpost]]]]]].
      intros HF. unfold fstep. rewrite <- (firstn_skipn i (fp_body fp)). fold pre post.
      rewrite E_exec_gas_app.
      (* after the hidden draws: C decides which of the two continuations runs *)
      assert (HPhi : forall t, E (exec_gas law post t) F =
                               cind C t * after_coin F 1 t + (1 - cind C t) * after_coin F 0 t).
      { intros t. unfold after_coin, post'.
        rewrite (post_sim post Hpost t (upd t a (bval (holds C t))) F).
        - unfold cind, bval. destruct (holds C t); ring.
        - intros y Hy. symmetry. apply upd_neq. intros ->. apply Hy, a_in_U.
        - apply upd_eq.
        - exact HF. }
      rewrite (E_ext _ _ _ HPhi), E_add.
      assert (Hchi1 : reads_only H (cind C)).
      { intros t t' Htt. unfold cind. rewrite (holds_ext C t t'); [reflexivity|]. intros x Hx. apply Htt, HC, Hx. }
      assert (Hchi0 : reads_only H (fun t => 1 - cind C t)).
      { intros t t' Htt. rewrite (Hchi1 t t' Htt). reflexivity. }
      rewrite (pre_split U H pre H_in_U Hpre s (cind C) (after_coin F 1) Hchi1 (after_coin_ignores F 1 HF)).
      rewrite (pre_split U H pre H_in_U Hpre s (fun t => 1 - cind C t) (after_coin F 0) Hchi0 (after_coin_ignores F 0 HF)).
      pose proof (onlyH_hid U H pre Hpre) as Hhid.
      assert (Hq : E (exec_gas law (onlyH H pre) s) (cind C) = q).
      { unfold q, abs_prob. fold pre. apply (closed_sound H C _ Hhid [] s st0 Hclosed). intros x []. }
      assert (Hq0 : E (exec_gas law (onlyH H pre) s) (fun t => 1 - cind C t) = 1 - q).
      { rewrite <- Hq.
        rewrite (E_ext _ (fun t => 1 - cind C t) (fun t => 1 + (-(1)) * cind C t)) by (intros t; ring).
        rewrite E_add, E_cmul, (hid_mass H _ Hhid). ring. }
      rewrite Hq, Hq0.
      rewrite !(pre_insens U H pre H_in_U Hpre s _ (after_coin_ignores F _ HF)).
      unfold mix. rewrite E_add, !E_cmul. reflexivity.
    Qed.

    (* one iteration of the ABSTRACTED program *)
    Lemma step_abs s (F : state -> Qc) : ignores U F ->
      E (fstep law (abstract_at fp i bv C a p) s) F =
      E (exec_gas law (nonH H pre) s) (fun t => mix F (t p) t).
    Proof.
      destruct ok_parts as [HaH [HpU [_ [HC [Hpre [Hclosed Hpost]]]]]].
      intros HF. unfold fstep, abstract_at. cbn [fp_body]. fold pre post post'.
      rewrite E_exec_gas_app.
      assert (Hc : forall t, E (exec_gas law (coin_ga a p :: post') t) F = mix F (t p) t).
      { intros t. rewrite E_exec_gas_cons, E_exec_ga.
        cbn [coin_ga ga_cond ga_rhs ga_var holds sample draw_law eval E]. unfold mix, after_coin. ring. }
      rewrite (E_ext _ _ _ Hc).
      apply (pre_insens U H pre H_in_U Hpre s).
      intros t t' Htt. rewrite (Htt p HpU). apply mix_ignores; assumption.
    Qed.

    Lemma nonH_keeps_p s t : supp (exec_gas law (nonH H pre) s) t -> t p = s p.
    Proof.
      destruct ok_parts as [_ [_ [Hp _]]].
      apply exec_gas_keeps. intros g Hg. apply Hp, in_or_app. right.
      unfold nonH in Hg. apply filter_In in Hg. destruct Hg as [Hg _].
      unfold pre in Hg. rewrite <- (firstn_skipn i (fp_body fp)). apply in_or_app. left. exact Hg.
    Qed.

    Lemma abs_vars_not_p g : In g (fp_init (abstract_at fp i bv C a p) ++ fp_body (abstract_at fp i bv C a p)) -> ga_var g <> p.
    Proof.
      destruct ok_parts as [_ [HpU [Hp _]]].
      unfold abstract_at. cbn [fp_init fp_body]. fold pre post. intros Hg.
      apply in_app_or in Hg. destruct Hg as [Hg|Hg]; [apply Hp, in_or_app; left; exact Hg|].
      apply in_app_or in Hg. destruct Hg as [Hg|[Hg|Hg]].
      - apply Hp, in_or_app. right. rewrite <- (firstn_skipn i (fp_body fp)). apply in_or_app. left. exact Hg.
      - subst g. cbn [coin_ga ga_var]. intros Ea. apply HpU. rewrite <- Ea. exact a_in_U.
      - apply in_map_iff in Hg. destruct Hg as [g0 [<- Hg0]]. cbn [abs_ga ga_var].
        apply Hp, in_or_app. right. rewrite <- (firstn_skipn i (fp_body fp)). apply in_or_app. right. exact Hg0.
    Qed.

    Theorem abstraction_sound_U : forall n s0 (f : state -> Qc),
      s0 p = q -> ignores U f ->
      E (frun law (abstract_at fp i bv C a p) n s0) f = E (frun law fp n s0) f.
    Proof.
      destruct ok_parts as [_ [_ [_ [_ [Hpre _]]]]].
      intros n s0 f Hp0. revert f. induction n as [|n IH]; intros f Hf.
      - reflexivity.
      - cbn [frun]. rewrite !E_bind.
        set (G := fun s => E (exec_gas law (nonH H pre) s) (mix f q)).
        assert (HG : ignores U G).
        { intros s t Hst. unfold G. apply (block_insens U _ (nonH_clean U H pre Hpre)); [exact Hst|].
          apply mix_ignores, Hf. }
        rewrite (E_ext (frun law fp n s0) _ G) by (intros s; apply step_orig, Hf).
        rewrite <- (IH G HG).
        apply E_ext_in. intros w s Hin.
        assert (Hsp : s p = q).
        { rewrite <- Hp0. apply (frun_keeps law p _ abs_vars_not_p n s0 s). exists w. exact Hin. }
        rewrite (step_abs s f Hf). unfold G. apply E_ext_in. intros w' t Hin'.
        rewrite (nonH_keeps_p s t) by (exists w'; exact Hin'). rewrite Hsp. reflexivity.
    Qed.
  End One.

  (* THE THEOREM: every n, every start state in which the probability symbol has the value
     P(C), every observation that reads neither the hidden variables nor the coin *)
  Theorem abstraction_sound fp i H bv C a p :
    abstraction_ok fp i H bv C a p = true ->
    forall n s0 (f : state -> Qc),
      s0 p = abs_prob fp i H C -> ignores (H ++ [a]) f ->
      E (frun law (abstract_at fp i bv C a p) n s0) f = E (frun law fp n s0) f.
  Proof. intros Hok n s0 f Hp Hf. apply (abstraction_sound_U fp i H bv C a p Hok n s0 f Hp Hf). Qed.

  (* direct draws: the hidden variables are exactly the variables of C *)
  Corollary abstraction_sound_direct fp i bv C a p :
    abstraction_ok fp i (cvars C) bv C a p = true ->
    forall n s0 (f : state -> Qc),
      s0 p = abs_prob fp i (cvars C) C -> ignores (cvars C ++ [a]) f ->
      E (frun law (abstract_at fp i bv C a p) n s0) f = E (frun law fp n s0) f.
  Proof. apply abstraction_sound. Qed.

  (* ---- chains of abstractions (several coins) ---- *)
  Record aspec := { as_i : nat; as_H : list var; as_bv : list var; as_C : cond; as_a : var; as_p : var }.
  Definition abstract_spec (fp : flatprog) (sp : aspec) : flatprog :=
    abstract_at fp (as_i sp) (as_bv sp) (as_C sp) (as_a sp) (as_p sp).
  Definition spec_ok (fp : flatprog) (sp : aspec) : bool :=
    abstraction_ok fp (as_i sp) (as_H sp) (as_bv sp) (as_C sp) (as_a sp) (as_p sp).
  Definition spec_prob (fp : flatprog) (sp : aspec) : Qc := abs_prob fp (as_i sp) (as_H sp) (as_C sp).
  Fixpoint abstract_many (fp : flatprog) (l : list aspec) : flatprog :=
    match l with [] => fp | sp :: l' => abstract_many (abstract_spec fp sp) l' end.
  Fixpoint many_ok (fp : flatprog) (l : list aspec) : bool :=
    match l with [] => true | sp :: l' => spec_ok fp sp && many_ok (abstract_spec fp sp) l' end.
  Fixpoint probs_ok (fp : flatprog) (l : list aspec) (s0 : state) : Prop :=
    match l with [] => True | sp :: l' => s0 (as_p sp) = spec_prob fp sp /\ probs_ok (abstract_spec fp sp) l' s0 end.
  Fixpoint many_probs (fp : flatprog) (l : list aspec) : list (var * Qc) :=
    match l with [] => [] | sp :: l' => (as_p sp, spec_prob fp sp) :: many_probs (abstract_spec fp sp) l' end.
  Definition hidden (l : list aspec) : list var := flat_map (fun sp => as_H sp ++ [as_a sp]) l.

  Theorem abstract_many_sound l : forall fp,
    many_ok fp l = true ->
    forall n s0 (f : state -> Qc), probs_ok fp l s0 -> ignores (hidden l) f ->
      E (frun law (abstract_many fp l) n s0) f = E (frun law fp n s0) f.
  Proof.
    induction l as [|sp l IH]; intros fp Hok n s0 f Hp Hf; [reflexivity|].
    cbn [many_ok] in Hok. apply andb_true_iff in Hok. destruct Hok as [Hsp Hl].
    cbn [probs_ok] in Hp. destruct Hp as [Hp0 Hp].
    cbn [abstract_many]. rewrite (IH _ Hl n s0 f Hp).
    - apply (abstraction_sound _ _ _ _ _ _ _ Hsp n s0 f Hp0).
      apply (ignores_mono _ (hidden (sp :: l))); [|exact Hf].
      intros x Hx. unfold hidden. cbn [flat_map]. apply in_or_app. left. exact Hx.
    - apply (ignores_mono _ (hidden (sp :: l))); [|exact Hf].
      intros x Hx. unfold hidden. cbn [flat_map]. apply in_or_app. right. exact Hx.
  Qed.

  (* the whole pass = abstraction of the failed conjuncts, then normalisation of the atoms over
     finitely typed variables (the coins have type {0,1}) by the verified PassCondNorm.cn_pass *)
  Theorem abs_then_cn_sound T fp l fp' :
    many_ok fp l = true ->
    cn_pass T (abstract_many fp l) = Some fp' ->
    check_types (abstract_many fp l) T = true ->
    forall s0, init_ok (abstract_many fp l) T s0 -> probs_ok fp l s0 ->
    forall n (f : state -> Qc), ignores (hidden l) f ->
      E (frun law fp' n s0) f = E (frun law fp n s0) f.
  Proof.
    intros Hok Hcn Hty s0 Hinit Hp n f Hf.
    rewrite (cn_pass_preserves law T _ fp' Hcn Hty s0 Hinit n f).
    apply (abstract_many_sound l fp Hok n s0 f Hp Hf).
  Qed.
End Abstraction.

(* a start state satisfying [probs_ok] exists whenever the probability symbols are pairwise
   distinct: non-vacuity of the hypothesis on s0 *)
Fixpoint set_probs (l : list (var * Qc)) (s : state) : state :=
  match l with [] => s | (x, v) :: l' => upd (set_probs l' s) x v end.
Lemma set_probs_lookup l s x v : NoDup (map fst l) -> In (x, v) l -> set_probs l s x = v.
Proof.
  induction l as [|[y w] l IH]; cbn [map fst set_probs]; intros Hnd Hin; [destruct Hin|].
  inversion Hnd as [|y0 l0 Hy Hnd']; subst. destruct Hin as [Hin|Hin].
  - injection Hin as -> ->. apply upd_eq.
  - rewrite upd_neq; [apply IH; assumption|].
    intros ->. apply Hy. change y with (fst (y, v)). apply in_map. exact Hin.
Qed.
Lemma probs_ok_all l : forall fp s0, (forall x v, In (x, v) (many_probs fp l) -> s0 x = v) -> probs_ok fp l s0.
Proof.
  induction l as [|sp l IH]; intros fp s0 H; cbn [probs_ok many_probs] in *; [exact I|].
  split; [apply H; left; reflexivity | apply IH; intros x v Hin; apply H; right; exact Hin].
Qed.
Theorem probs_ok_satisfiable fp l s :
  NoDup (map fst (many_probs fp l)) -> probs_ok fp l (set_probs (many_probs fp l) s).
Proof. intros Hnd. apply probs_ok_all. intros x v Hin. apply set_probs_lookup; assumption. Qed.

(* ====================================================================================== *)
(* (c) the parameters of an abstraction computed from the program and the types           *)
(* ====================================================================================== *)
(* Atom.get_normalized: a reduced atom over a variable without finite type "fails" *)
Fixpoint failed_vars (T : tenv) (c : cond) : list var :=
  match c with
  | CAtom (EVar x) _ (EConst _) => match tlookup T x with None => [x] | Some _ => [] end
  | CNot c1 => failed_vars T c1
  | CAnd c1 c2 | COr c1 c2 => failed_vars T c1 ++ failed_vars T c2
  | _ => []
  end.
Definition bad_of (bv : list var) (c : cond) : cond := conj_list (filter (touches bv) (conjuncts c)).
(* the variables the truth value of C is computed from: backwards closure over the
   assignments before the coin *)
Definition hid_of (pre : list gassign) (vs : list var) : list var :=
  fold_left (fun acc g => if mem_var (ga_var g) acc
                          then acc ++ filter (fun x => negb (mem_var x acc)) (nodup string_dec (rvars (ga_rhs g)))
                          else acc) (rev pre) vs.
Definition dummy_ga : gassign := {| ga_var := EmptyString; ga_cond := CTrue; ga_default := EmptyString; ga_rhs := RChoice [] |}.
Definition auto_spec (T : tenv) (fp : flatprog) (i : nat) (a p : var) : aspec :=
  let c := ga_cond (nth i (fp_body fp) dummy_ga) in
  let bv := nodup string_dec (failed_vars T c) in
  let C := bad_of bv c in
  {| as_i := i; as_H := hid_of (firstn i (fp_body fp)) (nodup string_dec (cvars C)); as_bv := bv; as_C := C; as_a := a; as_p := p |}.
Fixpoint auto_specs (T : tenv) (fp : flatprog) (l : list (nat * (var * var))) : list aspec :=
  match l with
  | [] => []
  | (i, (a, p)) :: l' => let sp := auto_spec T fp i a p in sp :: auto_specs T (abstract_spec fp sp) l'
  end.

(* ====================================================================================== *)
(* the side conditions are not superfluous: two shapes Polar accepted before /repo 50b0bdd  *)
(* resp. accepts at this stage (c349038 refuses the moment later), with concrete numbers     *)
(* ====================================================================================== *)
Local Open Scope string_scope.
Definition wq (z : Z) : expr := EConst (mkq z 1).
Definition wasg (x : var) (e : expr) : gassign := {| ga_var := x; ga_cond := CTrue; ga_default := x; ga_rhs := RDet e |}.
Definition wdrw (x : var) (d : draw) : gassign := {| ga_var := x; ga_cond := CTrue; ga_default := x; ga_rhs := RDraw d |}.
Definition wgasg (x : var) (c : cond) (e : expr) : gassign := {| ga_var := x; ga_cond := c; ga_default := x; ga_rhs := RDet e |}.
Definition wle (x : var) (k : Z) : cond := CAtom (EVar x) Cle (wq k).
(* d = DiscreteUniform(1,2); if d <= 1: x = x + 1 end; y = y + d *)
Definition wit_later_read : flatprog :=
  {| fp_init := [wasg "x" (wq 0); wasg "y" (wq 0)];
     fp_body := [wdrw "d" (DUnif 1 2); wgasg "x" (wle "d" 1) (EAdd (EVar "x") (wq 1)); wasg "y" (EAdd (EVar "y") (EVar "d"))] |}.
(* d = DiscreteUniform(1,2); y = d; if d <= 1: x = x + y end *)
Definition wit_reads_copy : flatprog :=
  {| fp_init := [wasg "x" (wq 0); wasg "y" (wq 0)];
     fp_body := [wdrw "d" (DUnif 1 2); wasg "y" (EVar "d"); wgasg "x" (wle "d" 1) (EAdd (EVar "x") (EVar "y"))] |}.

Lemma wit_ignores_xy : ignores (["d"] ++ ["_a0"]) (fun s => s "x" * s "y").
Proof.
  intros s t Hst. rewrite (Hst "x"), (Hst "y"); [reflexivity| |]; intros [H|[H|[]]]; discriminate H.
Qed.
Lemma wit_ignores_x : ignores (["d"] ++ ["_a0"]) (fun s => s "x").
Proof. intros s t Hst. apply Hst. intros [H|[H|[]]]; discriminate H. Qed.

Theorem abstract_at_later_read_refuted :
  exists (fp : flatprog) (i : nat) (H bv : list var) (C : cond) (a p : var) (n : nat) (s0 : state) (f : state -> Qc),
    abstraction_ok fp i H bv C a p = false /\ s0 p = abs_prob fp i H C /\ ignores (H ++ [a]) f /\
    E (frun no_law (abstract_at fp i bv C a p) n s0) f <> E (frun no_law fp n s0) f.
Proof.
  exists wit_later_read, 1%nat, ["d"], ["d"], (wle "d" 1), "_a0", "_prob1", 1%nat, (upd st0 "_prob1" (mkq 1 2)), (fun s => s "x" * s "y").
  split; [vm_compute; reflexivity|]. split; [apply Qc_is_canon; vm_compute; reflexivity|]. split; [exact wit_ignores_xy|].
  apply Qc_neq_by_eqb. vm_compute. reflexivity.
Qed.
Theorem abstract_at_reads_copy_refuted :
  exists (fp : flatprog) (i : nat) (H bv : list var) (C : cond) (a p : var) (n : nat) (s0 : state) (f : state -> Qc),
    abstraction_ok fp i H bv C a p = false /\ s0 p = abs_prob fp i H C /\ ignores (H ++ [a]) f /\
    E (frun no_law (abstract_at fp i bv C a p) n s0) f <> E (frun no_law fp n s0) f.
Proof.
  exists wit_reads_copy, 2%nat, ["d"], ["d"], (wle "d" 1), "_a0", "_prob1", 1%nat, (upd st0 "_prob1" (mkq 1 2)), (fun s => s "x").
  split; [vm_compute; reflexivity|]. split; [apply Qc_is_canon; vm_compute; reflexivity|]. split; [exact wit_ignores_x|].
  apply Qc_neq_by_eqb. vm_compute. reflexivity.
Qed.
