(* C10 — sensitivity analysis, part 1: the algebra.
   * dual numbers  D = R[eps]/(eps^2)  over any commutative ring R form a commutative ring;
   * evaluating a polynomial P (coefficient list over R) at the dual number (x, 1) gives
     (P(x), P'(x)) with P' the FORMAL derivative [pderiv]   (product rule, induction);
   * iterating a matrix of dual numbers  A + eps A'  on  v + eps v'  is, componentwise,
     iterating the block matrix [[A,0],[A',A]] on (v, v')                    (all n);
   * hence for every linear system  x(n+1) = A(p) x(n), x(0) = v(p)  whose entries are
     polynomials in the parameter p, the "sensitivity recurrences"  [[A,0],[A',A]], (v,v')
     compute, at every parameter value and every n, the value and the formal p-derivative
     of the polynomial (A^n v)(p)                                            [deriv_system]. *)
From Coq Require Import List Bool Arith Lia Ring.
From Polar Require Import CRing ExpPoly ClosedForm.
Import ListNotations.

(* ------------------------------------------------------------------------------------ *)
Section Dual.
  Variable R : cring.
  Add Ring Rring : (rth R).
  Local Open Scope cr_scope.

  Definition dcar : Type := (R * R)%type.
  Definition d0 : dcar := (r0, r0).
  Definition d1 : dcar := (r1, r0).
  Definition dadd (x y : dcar) : dcar := (fst x + fst y, snd x + snd y).
  (* (a + eps a') (b + eps b') = ab + eps (a b' + a' b) *)
  Definition dmul (x y : dcar) : dcar := (fst x * fst y, fst x * snd y + snd x * fst y).
  Definition dopp (x : dcar) : dcar := (- fst x, - snd x).
  Definition dsub (x y : dcar) : dcar := (fst x - fst y, snd x - snd y).
  Definition deqb (x y : dcar) : bool := reqb (fst x) (fst y) && reqb (snd x) (snd y).

  Lemma dual_rth : ring_theory d0 d1 dadd dmul dsub dopp (@eq dcar).
  Proof.
    constructor; unfold d0, d1, dadd, dmul, dsub, dopp; intros;
      repeat match goal with x : dcar |- _ => destruct x end; simpl; f_equal; ring.
  Qed.

  Lemma deqb_eq : forall x y, deqb x y = true -> x = y.
  Proof.
    intros [a b] [a' b']; unfold deqb; simpl; intros H.
    apply andb_true_iff in H; destruct H as [H1 H2].
    apply reqb_eq in H1; apply reqb_eq in H2; subst; reflexivity.
  Qed.

  Definition dual_cring : cring :=
    {| car := dcar; r0 := d0; r1 := d1; radd := dadd; rmul := dmul; rsub := dsub;
       ropp := dopp; reqb := deqb; rth := dual_rth; reqb_eq := deqb_eq |}.

  (* eps^2 = 0 *)
  Lemma dual_eps_sq : dmul (r0, r1) (r0, r1) = d0.
  Proof. unfold dmul, d0; simpl; f_equal; ring. Qed.

  (* R embeds as a subring *)
  Definition dinj (a : R) : dual_cring := (a, r0).
  Lemma dinj_add a b : dinj (a + b) = radd (c := dual_cring) (dinj a) (dinj b).
  Proof. unfold dinj; simpl; unfold dadd; simpl; f_equal; ring. Qed.
  Lemma dinj_mul a b : dinj (a * b) = rmul (c := dual_cring) (dinj a) (dinj b).
  Proof. unfold dinj; simpl; unfold dmul; simpl; f_equal; ring. Qed.
End Dual.

Arguments dinj {R} _.

(* ------------------------------------------------------------------------------------ *)
(* Formal derivative of a polynomial given by its coefficient list (low -> high). *)
Section Deriv.
  Variable R : cring.
  Add Ring Rring2 : (rth R).
  Local Open Scope cr_scope.
  Notation "0" := (@r0 R).
  Notation "1" := (@r1 R).
  Notation D := (dual_cring R).

  (* (a + x Q)' = Q + x Q' *)
  Fixpoint pderiv (P : list R) : list R :=
    match P with [] => [] | _ :: Q => padd R Q (0 :: pderiv Q) end.

  (* it is the usual formal derivative: coefficient k of P' is (k+1) * coefficient k+1 of P *)
  Lemma nth_padd (P Q : list R) k : nth k (padd R P Q) 0 = nth k P 0 + nth k Q 0.
  Proof.
    revert Q k; induction P as [|a P IH]; intros [|b Q] [|k]; simpl; try ring.
    apply IH.
  Qed.
  Lemma pderiv_coeff P : forall k, nth k (pderiv P) 0 = (rnat k + 1) * nth (S k) P 0.
  Proof.
    induction P as [|a P IH]; intros k.
    - simpl. destruct k; simpl; ring.
    - cbn [pderiv]. rewrite nth_padd. destruct k as [|k].
      + cbn [nth rnat]. ring.
      + cbn [nth]. rewrite IH. cbn [rnat]. ring.
  Qed.

  (* ... and it is the derivative in the analytic sense: P(x+h) = P(x) + h P'(x) + h^2 T(x,h)
     with T a polynomial expression (so the difference quotient tends to P'(x)) *)
  Fixpoint ptay (P : list R) (x h : R) : R :=
    match P with [] => 0 | _ :: Q => peval (pderiv Q) x + (x + h) * ptay Q x h end.
  Theorem pderiv_taylor P x h :
    peval P (x + h) = peval P x + h * peval (pderiv P) x + h * h * ptay P x h.
  Proof.
    induction P as [|a P IH]; [simpl; ring|].
    cbn [peval pderiv ptay]. rewrite IH, peval_padd. cbn [peval]. ring.
  Qed.

  (* product rule, in the only form needed: P evaluated at the dual number x + eps *)
  Theorem peval_dual (P : list R) (x : R) :
    peval (R := D) (map dinj P) (x, 1) = (peval P x, peval (pderiv P) x).
  Proof.
    induction P as [|a P IH]; [reflexivity|].
    cbn [map peval pderiv]. rewrite IH. rewrite peval_padd. cbn [peval].
    simpl. unfold dadd, dmul, dinj; simpl. f_equal; ring.
  Qed.

  (* a polynomial without p (all higher coefficients zero) has derivative 0 everywhere *)
  Definition mentions (P : list R) : bool := negb (pzero R (tl P)).
  Lemma pderiv_const P x : mentions P = false -> peval (pderiv P) x = 0.
  Proof.
    unfold mentions; intros H. apply negb_false_iff in H.
    destruct P as [|a Q]; [reflexivity|]. cbn [tl] in H. cbn [pderiv].
    rewrite peval_padd. cbn [peval].
    assert (HQ : forall y, peval Q y = 0) by (apply pzero_sound; exact H).
    assert (HD : peval (pderiv Q) x = 0).
    { clear a. revert H HQ. generalize x. induction Q as [|b Q IH]; intros y H HQ; [reflexivity|].
      cbn [pderiv]. rewrite peval_padd. cbn [peval].
      cbn [pzero forallb] in H. apply andb_true_iff in H. destruct H as [_ H].
      assert (HQ' : forall z, peval Q z = 0) by (apply pzero_sound; exact H).
      rewrite HQ', (IH y H HQ'). ring. }
    rewrite HQ, HD. ring.
  Qed.

  (* the embedding commutes with the polynomial operations *)
  Lemma map_dinj_padd P Q : map dinj (padd R P Q) = padd D (map dinj P) (map dinj Q).
  Proof.
    revert Q; induction P as [|a P IH]; intros [|b Q]; simpl; try reflexivity.
    rewrite IH. f_equal. apply dinj_add.
  Qed.
  Lemma map_dinj_pscale c P : map dinj (pscale R c P) = pscale D (dinj c) (map dinj P).
  Proof.
    unfold pscale. rewrite !map_map. apply map_ext. intros a. apply dinj_mul.
  Qed.
  Lemma map_dinj_pmul P Q : map dinj (pmul R P Q) = pmul D (map dinj P) (map dinj Q).
  Proof.
    induction P as [|a P IH]; [reflexivity|].
    cbn [pmul map]. rewrite map_dinj_padd, map_dinj_pscale. cbn [map]. rewrite IH. reflexivity.
  Qed.
End Deriv.

Arguments pderiv {R} _. Arguments mentions {R} _. Arguments ptay {R} _ _ _.

(* ------------------------------------------------------------------------------------ *)
(* Matrices over the dual numbers versus block matrices over R. *)
Section Block.
  Variable R : cring.
  Add Ring Rring3 : (rth R).
  Local Open Scope cr_scope.
  Notation "0" := (@r0 R).
  Notation D := (dual_cring R).

  Definition zeros {X} (l : list X) : list R := map (fun _ => 0) l.

  (* [[A, 0], [A', A]] *)
  Definition block (A A' : list (list R)) : list (list R) :=
    map (fun r => r ++ zeros r) A ++ map (fun rr => fst rr ++ snd rr) (combine A' A).

  Definition fstM (A : list (list D)) : list (list R) := map (map fst) A.
  Definition sndM (A : list (list D)) : list (list R) := map (map snd) A.

  Lemma dot_nil_r (r : list R) : dot r [] = 0.
  Proof. destruct r; reflexivity. Qed.

  Lemma dot_zeros {X} (l : list X) (x : list R) : dot (zeros l) x = 0.
  Proof.
    revert x; induction l as [|a l IH]; intros [|b x]; simpl; try reflexivity.
    fold (zeros l). rewrite IH. ring.
  Qed.

  Lemma dot_app (r1 r2 x1 x2 : list R) : length r1 = length x1 ->
    dot (r1 ++ r2) (x1 ++ x2) = dot r1 x1 + dot r2 x2.
  Proof.
    revert x1; induction r1 as [|a r1 IH]; intros [|b x1] H; simpl in *; try discriminate.
    - ring.
    - rewrite IH by lia. ring.
  Qed.

  Lemma dot_dual (r x : list D) :
    dot (R := D) r x =
    (dot (map fst r) (map fst x), dot (map fst r) (map snd x) + dot (map snd r) (map fst x)).
  Proof.
    revert x; induction r as [|a r IH]; intros [|b x]; simpl.
    - unfold d0. f_equal. ring.
    - unfold d0. f_equal. ring.
    - unfold d0. f_equal. ring.
    - rewrite IH. destruct a as [a a'], b as [b b']. simpl. unfold dadd, dmul; simpl. f_equal; ring.
  Qed.

  Lemma block_dual (A : list (list D)) :
    block (fstM A) (sndM A)
    = map (fun r => map fst r ++ zeros r) A ++ map (fun r => map snd r ++ map fst r) A.
  Proof.
    unfold block, fstM, sndM. f_equal.
    - rewrite map_map. apply map_ext. intros r. unfold zeros. rewrite map_map. reflexivity.
    - induction A as [|r A IH]; [reflexivity|]. simpl. rewrite IH. reflexivity.
  Qed.

  Definition wfM {X} (k : nat) (A : list (list X)) : Prop :=
    length A = k /\ Forall (fun r => length r = k) A.

  Lemma mvec_block (A : list (list D)) (x : list D) :
    Forall (fun r => length r = length x) A ->
    mvec (block (fstM A) (sndM A)) (map fst x ++ map snd x)
    = map fst (mvec A x) ++ map snd (mvec A x).
  Proof.
    intros H. rewrite block_dual. unfold mvec. rewrite map_app, !map_map. f_equal.
    - apply map_ext_Forall. revert H. apply Forall_impl. intros r Hr.
      rewrite dot_app by (rewrite !map_length; exact Hr).
      rewrite dot_zeros, dot_dual. simpl. ring.
    - apply map_ext_Forall. revert H. apply Forall_impl. intros r Hr.
      rewrite dot_app by (rewrite !map_length; exact Hr).
      rewrite dot_dual. simpl. ring.
  Qed.

  Lemma mvec_length {S : cring} (A : list (list S)) x : length (mvec A x) = length A.
  Proof. unfold mvec. apply map_length. Qed.

  Lemma iter_mat_length {S : cring} (A : list (list S)) n x :
    length A = length x -> length (iter_mat A n x) = length x.
  Proof. intros H. destruct n; simpl; [reflexivity | rewrite mvec_length; exact H]. Qed.

  (* the dual iteration IS the block iteration, componentwise, for every n *)
  Theorem iter_block (A : list (list D)) (v : list D) k :
    wfM k A -> length v = k -> forall n,
    iter_mat (block (fstM A) (sndM A)) n (map fst v ++ map snd v)
    = map fst (iter_mat A n v) ++ map snd (iter_mat A n v).
  Proof.
    intros [HA HR] Hv n. induction n as [|n IH]; [reflexivity|].
    cbn [iter_mat]. rewrite IH. apply mvec_block.
    rewrite iter_mat_length by congruence. rewrite Hv. exact HR.
  Qed.

  (* the first component is the original system *)
  Theorem iter_fst (A : list (list D)) (v : list D) n :
    map fst (iter_mat A n v) = iter_mat (fstM A) n (map fst v).
  Proof.
    induction n as [|n IH]; [reflexivity|].
    cbn [iter_mat]. rewrite <- IH. unfold mvec, fstM. rewrite !map_map.
    apply map_ext. intros r. rewrite dot_dual. reflexivity.
  Qed.
End Block.

Arguments block {R} _ _. Arguments zeros {R X} _. Arguments wfM {X} _ _.

(* ------------------------------------------------------------------------------------ *)
(* Linear systems whose entries are polynomials in the parameter. *)
Section PolySystem.
  Variable R : cring.
  Add Ring Rring4 : (rth R).
  Local Open Scope cr_scope.
  Notation D := (dual_cring R).
  Notation poly := (list R).

  Definition evalV (Pv : list poly) (x : R) : list R := map (fun P => peval P x) Pv.
  Definition evalM (PA : list (list poly)) (x : R) : list (list R) := map (fun r => evalV r x) PA.
  Definition derivV (Pv : list poly) : list poly := map pderiv Pv.
  Definition derivM (PA : list (list poly)) : list (list poly) := map derivV PA.

  (* the same iteration carried out on polynomials: (A^n v)(p) as a vector of polynomials *)
  Fixpoint pdot (r x : list poly) : poly :=
    match r, x with a :: r', b :: x' => padd R (pmul R a b) (pdot r' x') | _, _ => [] end.
  Definition pmvec (PA : list (list poly)) (x : list poly) : list poly := map (fun r => pdot r x) PA.
  Fixpoint piter (PA : list (list poly)) (n : nat) (Pv : list poly) : list poly :=
    match n with O => Pv | S n => pmvec PA (piter PA n Pv) end.

  Section AnyRing.
    (* evaluation in any ring S receiving R through a map phi that commutes with padd/pmul
       on coefficient lists (instances: identity, and the embedding into dual numbers) *)
    Variable S : cring.
    Variable lift : poly -> list S.
    Hypothesis lift_nil : lift [] = [].
    Hypothesis lift_padd : forall P Q, lift (padd R P Q) = padd S (lift P) (lift Q).
    Hypothesis lift_pmul : forall P Q, lift (pmul R P Q) = pmul S (lift P) (lift Q).
    Variable X : S.
    Add Ring Sring : (rth S).

    Definition ev (P : poly) : S := peval (lift P) X.

    Lemma ev_pdot r x : ev (pdot r x) = dot (map ev r) (map ev x).
    Proof.
      revert x; induction r as [|a r IH]; intros [|b x]; simpl;
        try (unfold ev; rewrite lift_nil; reflexivity).
      unfold ev in *. rewrite lift_padd, peval_padd, lift_pmul, peval_pmul, IH. reflexivity.
    Qed.

    Lemma ev_piter PA n Pv :
      map ev (piter PA n Pv) = iter_mat (map (map ev) PA) n (map ev Pv).
    Proof.
      induction n as [|n IH]; [reflexivity|].
      cbn [piter iter_mat]. rewrite <- IH. unfold pmvec, mvec. rewrite !map_map.
      apply map_ext. intros r. apply ev_pdot.
    Qed.
  End AnyRing.

  (* the polynomial iteration evaluates to the matrix iteration at every parameter value *)
  Theorem piter_eval PA Pv x n :
    evalV (piter PA n Pv) x = iter_mat (evalM PA x) n (evalV Pv x).
  Proof.
    exact (ev_piter R (fun P => P) eq_refl (fun _ _ => eq_refl) (fun _ _ => eq_refl) x PA n Pv).
  Qed.

  Lemma wfM_map {X Y} (f : X -> Y) k (A : list (list X)) : wfM k A -> wfM k (map (map f) A).
  Proof.
    intros [H1 H2]. split; [rewrite map_length; exact H1|].
    apply Forall_map. revert H2. apply Forall_impl. intros r Hr. rewrite map_length. exact Hr.
  Qed.

  (* [deriv_system]: for ALL polynomial systems, ALL parameter values x and ALL n, the
     extended ("sensitivity") system built from the entrywise formal derivatives iterates
     to the value and the formal derivative of the polynomial vector A^n v. *)
  Theorem deriv_system (PA : list (list poly)) (Pv : list poly) k :
    wfM k PA -> length Pv = k -> forall (x : R) (n : nat),
    iter_mat (block (evalM PA x) (evalM (derivM PA) x)) n (evalV Pv x ++ evalV (derivV Pv) x)
    = evalV (piter PA n Pv) x ++ evalV (derivV (piter PA n Pv)) x.
  Proof.
    intros HA Hv x n.
    set (X := ((x, r1) : D)).
    set (evD := ev D (map dinj) X).
    assert (E : forall P, evD P = (peval P x, peval (pderiv P) x)) by (intros P; apply peval_dual).
    assert (Efst : forall l, map fst (map evD l) = evalV l x).
    { intros l. unfold evalV. rewrite map_map. apply map_ext. intros P. rewrite E. reflexivity. }
    assert (Esnd : forall l, map snd (map evD l) = evalV (derivV l) x).
    { intros l. unfold evalV, derivV. rewrite !map_map. apply map_ext. intros P. rewrite E. reflexivity. }
    pose proof (ev_piter D (map dinj) eq_refl (map_dinj_padd R) (map_dinj_pmul R) X PA n Pv) as HI.
    fold evD in HI.
    assert (EA : fstM R (map (map evD) PA) = evalM PA x).
    { unfold fstM, evalM. rewrite map_map. apply map_ext. intros r. apply Efst. }
    assert (EA' : sndM R (map (map evD) PA) = evalM (derivM PA) x).
    { unfold sndM, evalM, derivM. rewrite !map_map. apply map_ext. intros r. apply Esnd. }
    rewrite <- EA, <- EA', <- (Efst Pv), <- (Esnd Pv).
    rewrite (iter_block R _ _ k); [| apply wfM_map; exact HA | rewrite map_length; exact Hv].
    rewrite <- HI, Efst, Esnd. reflexivity.
  Qed.
End PolySystem.

Arguments evalV {R} _ _. Arguments evalM {R} _ _. Arguments derivV {R} _. Arguments derivM {R} _.
Arguments piter {R} _ _ _. Arguments pdot {R} _ _.
