(* C18: model of utils/graph.py — the variable dependency graph with linear (1) and
   non-linear (2) edge labels, its DFS, and Graph.get_defective_nodes — with the theorem that
   the nodes it marks are EXACTLY those reachable from a cycle that contains a non-linear
   edge (for ALL finite graphs; DFS with fuel = number of nodes).

   Python (utils/graph.py):
     def _dfs(self, v, mark):
         mark[v] = True
         for i in range(self.V):
             if (self.adj[v][i] > 0) and (not mark[i]): self._dfs(i, mark)
     def get_defective_nodes(self):
         bad = [False] * self.V
         for v in range(self.V):
             for u in range(self.V):
                 if v == u:
                     if self.adj[v][u] == 2:  mark = fresh; self._dfs(v, mark); bad |= mark
                     continue
                 if self.adj[v][u] == 2:
                     mark = fresh; self._dfs(u, mark)
                     if mark[v]:  mark = fresh; self._dfs(v, mark); bad |= mark
   The mark array (a Python list of V booleans, mutated in place) is a function nat -> bool
   that is threaded through the calls; the recursion gets explicit fuel. *)
From Coq Require Import List Arith Bool Lia.
Import ListNotations.

Section Graph.
  Variable V : nat.
  Variable adj : nat -> nat -> nat.

  Definition marks := nat -> bool.
  Definition none : marks := fun _ => false.
  Definition mset (m : marks) (v : nat) : marks := fun i => if Nat.eqb i v then true else m i.
  Definition munion (a b : marks) : marks := fun i => a i || b i.

  Definition dfs_step (rec : nat -> marks -> marks) (v : nat) (m : marks) (i : nat) : marks :=
    if (0 <? adj v i) && negb (m i) then rec i m else m.

  Fixpoint dfs (fuel : nat) (v : nat) (m : marks) : marks :=
    match fuel with
    | O => m
    | S f => fold_left (dfs_step (dfs f) v) (seq 0 V) (mset m v)
    end.

  (* mark = [False]*V; self._dfs(v, mark) *)
  Definition mark_from (v : nat) : marks := dfs V v none.

  (* the body of the double loop of get_defective_nodes *)
  Definition defective_step (v : nat) (bad : marks) (u : nat) : marks :=
    if Nat.eqb v u then
      (if Nat.eqb (adj v u) 2 then munion bad (mark_from v) else bad)
    else if Nat.eqb (adj v u) 2 then
      (if mark_from u v then munion bad (mark_from v) else bad)
    else bad.

  Definition get_defective : marks :=
    fold_left (fun bad v => fold_left (defective_step v) (seq 0 V) bad) (seq 0 V) none.

  Definition defective_list : list nat := filter get_defective (seq 0 V).

  (* ---- specification ---- *)
  Definition edge (a b : nat) : Prop := b < V /\ 0 < adj a b.
  Inductive reach : nat -> nat -> Prop :=
  | reach_refl a : reach a a
  | reach_step a b c : reach a b -> edge b c -> reach a c.

  Lemma reach_trans a b c : reach a b -> reach b c -> reach a c.
  Proof.
    intros Hab Hbc; revert Hab; induction Hbc as [b|b c d Hbc IH Hcd]; intros Hab; [exact Hab|].
    apply reach_step with (b := c); [apply IH; exact Hab | exact Hcd].
  Qed.
  Lemma reach_lt a b : a < V -> reach a b -> b < V.
  Proof. intros Ha H; induction H; [exact Ha | destruct H0; assumption]. Qed.

  (* w lies on a cycle that contains the non-linear edge v -> u *)
  Definition on_nl_cycle (w : nat) : Prop :=
    exists v u, v < V /\ u < V /\ adj v u = 2 /\ reach u w /\ reach w v.
  (* the docstring of get_defective_nodes: on such a cycle, or reachable from a vertex of one *)
  Definition defective_spec (i : nat) : Prop := exists w, on_nl_cycle w /\ reach w i.

  (* ---- counting unmarked nodes: the fuel argument ---- *)
  Definition unmarked (m : marks) : nat := List.length (filter (fun i => negb (m i)) (seq 0 V)).
  Definition mle (a b : marks) : Prop := forall i, a i = true -> b i = true.

  Lemma filter_length_le {A} (f g : A -> bool) l :
    (forall x, In x l -> g x = true -> f x = true) ->
    List.length (filter g l) <= List.length (filter f l).
  Proof.
    induction l as [|a l IH]; simpl; intros H; [lia|].
    assert (IH' := IH (fun x Hx => H x (or_intror Hx))).
    destruct (g a) eqn:Eg.
    - rewrite (H a (or_introl eq_refl) Eg). simpl. lia.
    - destruct (f a); simpl; lia.
  Qed.
  Lemma filter_length_lt {A} (f g : A -> bool) l a :
    (forall x, In x l -> g x = true -> f x = true) -> In a l -> f a = true -> g a = false ->
    List.length (filter g l) < List.length (filter f l).
  Proof.
    induction l as [|b l IH]; simpl; intros H Hin Hf Hg; [destruct Hin|].
    assert (Hle := filter_length_le f g l (fun x Hx => H x (or_intror Hx))).
    destruct Hin as [->|Hin].
    - rewrite Hf, Hg. simpl. lia.
    - assert (IH' := IH (fun x Hx => H x (or_intror Hx)) Hin Hf Hg).
      destruct (g b) eqn:Eg.
      + rewrite (H b (or_introl eq_refl) Eg). simpl. lia.
      + destruct (f b); simpl; lia.
  Qed.

  Lemma unmarked_mono a b : mle a b -> unmarked b <= unmarked a.
  Proof.
    intros H. apply filter_length_le. intros x _ Hx.
    destruct (a x) eqn:E; [rewrite (H x E) in Hx; discriminate | reflexivity].
  Qed.
  Lemma unmarked_mset m v : v < V -> m v = false -> unmarked (mset m v) < unmarked m.
  Proof.
    intros Hv Hm. apply filter_length_lt with (a := v).
    - intros x _ Hx. unfold mset in Hx. destruct (Nat.eqb x v); [discriminate | exact Hx].
    - apply in_seq; lia.
    - rewrite Hm; reflexivity.
    - unfold mset. rewrite Nat.eqb_refl. reflexivity.
  Qed.
  Lemma unmarked_pos m v : v < V -> m v = false -> 0 < unmarked m.
  Proof. intros Hv Hm. pose proof (unmarked_mset m v Hv Hm). lia. Qed.

  Lemma mle_refl a : mle a a. Proof. intros i H; exact H. Qed.
  Lemma mle_trans a b c : mle a b -> mle b c -> mle a c.
  Proof. intros H1 H2 i H; auto. Qed.
  Lemma mle_mset m v : mle m (mset m v).
  Proof. intros i H. unfold mset. destruct (Nat.eqb i v); [reflexivity | exact H]. Qed.

  (* what one call [dfs fuel v M] guarantees when v is unmarked and the fuel covers the
     unmarked nodes: marks only grow, v is marked, every newly marked node is reachable from
     v, and every newly marked node has all its successors marked *)
  Definition dfs_post (v : nat) (M M' : marks) : Prop :=
    mle M M' /\ M' v = true /\
    (forall u, M' u = true -> M u = false -> reach v u) /\
    (forall u, M' u = true -> M u = false -> forall w, edge u w -> M' w = true).

  Definition dfs_ok (fuel : nat) : Prop :=
    forall v M, v < V -> M v = false -> unmarked M <= fuel -> dfs_post v M (dfs fuel v M).

  (* invariant of the loop "for i in range(V)" inside _dfs *)
  Definition loop_inv (f : nat) (v : nat) (M m : marks) : Prop :=
    mle M m /\ m v = true /\
    (forall u, m u = true -> M u = false -> reach v u) /\
    (forall u, u <> v -> m u = true -> M u = false -> forall w, edge u w -> m w = true) /\
    unmarked m <= f.

  Lemma loop_spec f v M : dfs_ok f -> v < V ->
    forall l m, (forall i, In i l -> i < V) -> loop_inv f v M m ->
    let m' := fold_left (dfs_step (dfs f) v) l m in
    loop_inv f v M m' /\ mle m m' /\ (forall i, In i l -> 0 < adj v i -> m' i = true).
  Proof.
    intros IH Hv. induction l as [|i l IHl]; intros m Hl Hinv; cbn [fold_left].
    - split; [exact Hinv|]. split; [apply mle_refl | intros i []].
    - assert (Hi : i < V) by (apply Hl; left; reflexivity).
      assert (Hl' : forall j, In j l -> j < V) by (intros j Hj; apply Hl; right; exact Hj).
      set (m1 := dfs_step (dfs f) v m i).
      assert (H1 : loop_inv f v M m1 /\ mle m m1 /\ (0 < adj v i -> m1 i = true)).
      { unfold m1, dfs_step. destruct (0 <? adj v i) eqn:Ea; cbn [andb].
        - apply Nat.ltb_lt in Ea. destruct (m i) eqn:Em; cbn [negb].
          + split; [exact Hinv|]. split; [apply mle_refl | intros _; exact Em].
          + destruct Hinv as (Hmono & Hvm & Hsound & Hclosed & Hcnt).
            destruct (IH i m Hi Em Hcnt) as (Pmono & Pi & Psound & Pclosed).
            split; [|split; [exact Pmono | intros _; exact Pi]].
            split; [eapply mle_trans; eauto|].
            split; [apply Pmono; exact Hvm|].
            split.
            { intros u Hu HMu. destruct (m u) eqn:Emu.
              - apply Hsound; assumption.
              - apply reach_trans with (b := i).
                + eapply reach_step; [apply reach_refl | split; assumption].
                + apply Psound; assumption. }
            split.
            { intros u Hne Hu HMu w Hw. destruct (m u) eqn:Emu.
              - apply Pmono. eapply Hclosed; eauto.
              - eapply Pclosed; eauto. }
            pose proof (unmarked_mono _ _ Pmono). lia.
        - split; [exact Hinv|]. split; [apply mle_refl|].
          apply Nat.ltb_ge in Ea. intros H; lia. }
      destruct H1 as (Hinv1 & Hm1 & Hi1).
      destruct (IHl m1 Hl' Hinv1) as (Hinv' & Hmono' & Hsucc').
      split; [exact Hinv'|]. split; [eapply mle_trans; eauto|].
      intros j [<-|Hj] Hadj; [apply Hmono'; apply Hi1; exact Hadj | apply Hsucc'; assumption].
  Qed.

  Lemma dfs_ok_all fuel : dfs_ok fuel.
  Proof.
    induction fuel as [|f IH]; intros v M Hv HM Hcnt.
    - pose proof (unmarked_pos M v Hv HM). lia.
    - cbn [dfs].
      assert (Hinv : loop_inv f v M (mset M v)).
      { split; [apply mle_mset|].
        split; [unfold mset; rewrite Nat.eqb_refl; reflexivity|].
        split.
        { intros u Hu HMu. unfold mset in Hu. destruct (Nat.eqb u v) eqn:E.
          - apply Nat.eqb_eq in E; subst; apply reach_refl.
          - congruence. }
        split.
        { intros u Hne Hu HMu. unfold mset in Hu. destruct (Nat.eqb u v) eqn:E.
          - apply Nat.eqb_eq in E; contradiction.
          - congruence. }
        pose proof (unmarked_mset M v Hv HM). lia. }
      destruct (loop_spec f v M IH Hv (seq 0 V) (mset M v)
                  (fun i Hi => proj2 (proj1 (in_seq _ _ _) Hi)) Hinv)
        as ((Hmono & Hvm & Hsound & Hclosed & _) & _ & Hsucc).
      split; [exact Hmono|]. split; [exact Hvm|]. split; [exact Hsound|].
      intros u Hu HMu w Hw. destruct (Nat.eq_dec u v) as [->|Hne].
      + destruct Hw as [Hw Ha]. apply Hsucc; [apply in_seq; lia | exact Ha].
      + eapply Hclosed; eauto.
  Qed.

  (* the DFS from a fresh mark array computes exactly the reachable set *)
  Theorem mark_from_spec v i : v < V -> (mark_from v i = true <-> reach v i).
  Proof.
    intros Hv. unfold mark_from.
    assert (Hc : unmarked none <= V).
    { unfold unmarked.
      assert (G : forall l : list nat, List.length (filter (fun i => negb (none i)) l) <= List.length l).
      { induction l as [|a l IHl]; cbn [filter List.length]; [lia|]. destruct (negb (none a)); cbn [List.length]; lia. }
      specialize (G (seq 0 V)). rewrite seq_length in G. exact G. }
    destruct (dfs_ok_all V v none Hv eq_refl Hc) as (_ & Hvm & Hsound & Hclosed).
    split.
    - intros H. apply Hsound; [exact H | reflexivity].
    - intros H. induction H as [a|a b c Hab IHab Hbc]; [exact Hvm|].
      eapply Hclosed; [apply IHab; assumption | reflexivity | exact Hbc].
  Qed.

  (* ---- get_defective_nodes ---- *)
  Definition contrib (v u : nat) : marks :=
    if Nat.eqb (adj v u) 2 then
      if Nat.eqb v u then mark_from v else if mark_from u v then mark_from v else none
    else none.

  Lemma defective_step_contrib v bad u i :
    defective_step v bad u i = bad i || contrib v u i.
  Proof.
    unfold defective_step, contrib, munion, none.
    destruct (Nat.eqb v u); destruct (Nat.eqb (adj v u) 2); try (rewrite orb_false_r; reflexivity);
      try reflexivity.
    destruct (mark_from u v); [reflexivity | rewrite orb_false_r; reflexivity].
  Qed.

  Lemma inner_fold v l bad i :
    fold_left (defective_step v) l bad i = bad i || existsb (fun u => contrib v u i) l.
  Proof.
    revert bad; induction l as [|u l IH]; intros bad; cbn [fold_left existsb].
    - rewrite orb_false_r; reflexivity.
    - rewrite IH, defective_step_contrib, orb_assoc. reflexivity.
  Qed.
  Lemma outer_fold l l2 bad i :
    fold_left (fun bad v => fold_left (defective_step v) l2 bad) l bad i
    = bad i || existsb (fun v => existsb (fun u => contrib v u i) l2) l.
  Proof.
    revert bad; induction l as [|v l IH]; intros bad; cbn [fold_left existsb].
    - rewrite orb_false_r; reflexivity.
    - rewrite IH, inner_fold, orb_assoc. reflexivity.
  Qed.

  Lemma get_defective_pairs i :
    get_defective i = true <->
    exists v u, v < V /\ u < V /\ adj v u = 2 /\ reach u v /\ reach v i.
  Proof.
    unfold get_defective. rewrite outer_fold. cbn [none orb]. rewrite existsb_exists. split.
    - intros (v & Hv & H). apply existsb_exists in H. destruct H as (u & Hu & H).
      apply in_seq in Hv. apply in_seq in Hu. exists v, u.
      unfold contrib in H. destruct (Nat.eqb (adj v u) 2) eqn:Ea; [|discriminate].
      apply Nat.eqb_eq in Ea. split; [lia|]. split; [lia|]. split; [exact Ea|].
      destruct (Nat.eqb v u) eqn:Evu.
      + apply Nat.eqb_eq in Evu; subst u. split; [apply reach_refl|].
        apply mark_from_spec; [lia | exact H].
      + destruct (mark_from u v) eqn:Emu; [|discriminate].
        split; [apply mark_from_spec; [lia | exact Emu] | apply mark_from_spec; [lia | exact H]].
    - intros (v & u & Hv & Hu & Ea & Huv & Hvi).
      exists v. split; [apply in_seq; lia|]. apply existsb_exists.
      exists u. split; [apply in_seq; lia|].
      unfold contrib. rewrite Ea. cbn [Nat.eqb].
      destruct (Nat.eqb v u) eqn:Evu.
      + apply mark_from_spec; assumption.
      + apply (mark_from_spec u v Hu) in Huv. rewrite Huv. apply mark_from_spec; assumption.
  Qed.

  (* soundness and completeness of get_defective_nodes w.r.t. its docstring *)
  Theorem get_defective_correct i : get_defective i = true <-> defective_spec i.
  Proof.
    rewrite get_defective_pairs. unfold defective_spec, on_nl_cycle. split.
    - intros (v & u & Hv & Hu & Ea & Huv & Hvi).
      exists v. split; [|exact Hvi]. exists v, u. repeat split; auto. apply reach_refl.
    - intros (w & (v & u & Hv & Hu & Ea & Huw & Hwv) & Hwi).
      exists v, u. repeat split; auto.
      + eapply reach_trans; eauto.
      + apply reach_trans with (b := u); [eapply reach_step; [apply reach_refl | split; [exact Hu | lia]]|].
        eapply reach_trans; eauto.
  Qed.

  (* only nodes of the graph are ever marked *)
  Lemma defective_spec_lt i : defective_spec i -> i < V.
  Proof.
    intros (w & (v & u & Hv & Hu & _ & Huw & _) & Hwi).
    eapply reach_lt; [|exact Hwi]. eapply reach_lt; eauto.
  Qed.

  (* consequence used by in_class: no defective node iff no non-linear edge lies on a cycle *)
  Corollary no_defective_iff :
    defective_list = [] <-> (forall v u, v < V -> u < V -> adj v u = 2 -> ~ reach u v).
  Proof.
    unfold defective_list. split.
    - intros H v u Hv Hu Ea Huv.
      assert (Hd : get_defective v = true).
      { apply get_defective_pairs. exists v, u. repeat split; auto. apply reach_refl. }
      assert (Hin : In v (filter get_defective (seq 0 V))) by (apply filter_In; split; [apply in_seq; lia | exact Hd]).
      rewrite H in Hin. destruct Hin.
    - intros H. destruct (filter get_defective (seq 0 V)) as [|i l] eqn:E; [reflexivity|].
      assert (Hin : In i (filter get_defective (seq 0 V))) by (rewrite E; left; reflexivity).
      apply filter_In in Hin. destruct Hin as [_ Hd].
      apply get_defective_pairs in Hd. destruct Hd as (v & u & Hv & Hu & Ea & Huv & _).
      exfalso. exact (H v u Hv Hu Ea Huv).
  Qed.
End Graph.

(* adjacency matrices as Python has them: a list of rows *)
Definition adj_of (rows : list (list nat)) : nat -> nat -> nat :=
  fun v u => nth u (nth v rows []) 0.
Definition defective_of (rows : list (list nat)) : list nat :=
  defective_list (List.length rows) (adj_of rows).
