(* C05: the result of the typer model (Typer.typer_run) is a post-fixpoint accepted by the
   verified validator Types.check_types, for every flat program.  Part 1: values of
   expressions and of assignments. *)
From Coq Require Import List String QArith Qcanon ZArith Bool Arith Lia.
From Polar Require Import Qcx Dist Syntax Sem Types Poly PassCNBase Typer.
Import ListNotations.
Local Open Scope Qc_scope.

(* ---- value sets ---- *)
Lemma val_eqb_eq a b : val_eqb a b = true <-> a = b.
Proof.
  destruct a as [x|], b as [y|]; cbn [val_eqb]; split; intros H; try discriminate; try reflexivity.
  - f_equal. apply Qc_eqb_true; exact H.
  - injection H as ->. apply Qc_eqb_refl.
Qed.

Lemma vmem_In v l : vmem v l = true <-> In v l.
Proof.
  induction l as [|w l IH]; cbn [vmem In]; [split; [discriminate | tauto]|].
  rewrite orb_true_iff, IH, val_eqb_eq. split; intros [H|H]; auto.
Qed.

Lemma vsubset_In a b : vsubset a b = true <-> (forall v, In v a -> In v b).
Proof.
  unfold vsubset. rewrite forallb_forall. split; intros H v Hv.
  - apply vmem_In, H, Hv.
  - apply vmem_In, H, Hv.
Qed.

Lemma In_vadd acc v w : In w (vadd acc v) <-> In w acc \/ w = v.
Proof.
  unfold vadd. destruct (vmem v acc) eqn:E.
  - apply vmem_In in E. split; [auto | intros [H| ->]; auto].
  - rewrite in_app_iff. cbn [In]. split; intros [H|H]; auto.
    + destruct H as [H|[]]; auto.
Qed.

Lemma In_vunion a b w : In w (vunion a b) <-> In w a \/ In w b.
Proof.
  unfold vunion. revert a; induction b as [|v b IH]; intros a; cbn [fold_left In]; [tauto|].
  rewrite IH, In_vadd. split; intros H; intuition.
Qed.

Lemma is_nil_false {A} (l : list A) : is_nil l = false -> l <> [].
Proof. destruct l; [discriminate | intros _ H; discriminate]. Qed.

Lemma mem_complete q vs : In q vs -> mem q vs = true.
Proof.
  induction vs as [|v vs IH]; cbn [In mem]; intros H; [destruct H|].
  apply orb_true_iff. destruct H as [->|H]; [left; apply Qc_eqb_refl | right; auto].
Qed.
Lemma subset_complete a b : (forall q, In q a -> In q b) -> subset a b = true.
Proof. intros H. unfold subset. apply forallb_forall. intros q Hq. apply mem_complete, H, Hq. Qed.

Lemma In_nums q l : In q (nums l) <-> In (Some q) l.
Proof.
  unfold nums. rewrite in_flat_map. split.
  - intros [v [Hv Hq]]. destruct v as [q'|]; [destruct Hq as [->|[]]; exact Hv | destruct Hq].
  - intros H. exists (Some q); split; [exact H | left; reflexivity].
Qed.

(* ---- partially substituted expressions ---- *)
Definition pp_equiv (a b : pp) : Prop :=
  match a, b with
  | None, None => True
  | Some p, Some q => forall s, eval_poly p s = eval_poly q s
  | _, _ => False
  end.

Lemma pp_eqb_equiv a b : pp_eqb a b = true -> pp_equiv a b.
Proof.
  destruct a as [p|], b as [q|]; cbn [pp_eqb pp_equiv]; intros H; try discriminate; auto.
  intros s. pose proof (pzero_sound _ H s) as E0. rewrite eval_psub in E0.
  transitivity (eval_poly p s - eval_poly q s + eval_poly q s); [ring | rewrite E0; ring].
Qed.
Lemma pp_equiv_refl a : pp_equiv a a.
Proof. destruct a; cbn [pp_equiv]; auto. Qed.

Lemma pp_mem_equiv p l : pp_mem p l = true -> exists q, In q l /\ pp_equiv p q.
Proof.
  induction l as [|q l IH]; cbn [pp_mem]; intros H; [discriminate|].
  apply orb_true_iff in H. destruct H as [H|H].
  - exists q; split; [left; reflexivity | apply pp_eqb_equiv; exact H].
  - destruct (IH H) as [q' [Hin He]]. exists q'; split; [right; exact Hin | exact He].
Qed.

Lemma pp_add_keeps acc p q : In q acc -> In q (pp_add acc p).
Proof. unfold pp_add. destruct (pp_mem p acc); [auto | intros H; apply in_or_app; left; exact H]. Qed.
Lemma pp_add_has acc p : exists q, In q (pp_add acc p) /\ pp_equiv p q.
Proof.
  unfold pp_add. destruct (pp_mem p acc) eqn:E.
  - apply pp_mem_equiv; exact E.
  - exists p; split; [apply in_or_app; right; left; reflexivity | apply pp_equiv_refl].
Qed.

Lemma pp_fold_keeps l acc q : In q acc -> In q (fold_left pp_add l acc).
Proof.
  revert acc; induction l as [|p l IH]; intros acc H; cbn [fold_left]; [exact H|].
  apply IH, pp_add_keeps, H.
Qed.
Lemma pp_fold_has l acc p : In p l -> exists q, In q (fold_left pp_add l acc) /\ pp_equiv p q.
Proof.
  revert acc; induction l as [|p' l IH]; intros acc H; [destruct H|]. cbn [fold_left].
  destruct H as [->|H].
  - destruct (pp_add_has acc p) as [q [Hin He]]. exists q; split; [apply pp_fold_keeps; exact Hin | exact He].
  - apply IH; exact H.
Qed.
Lemma pp_dedup_has l p : In p l -> exists q, In q (pp_dedup l) /\ pp_equiv p q.
Proof. apply pp_fold_has. Qed.
Lemma pp_dedup_nil : pp_dedup [] = [].
Proof. reflexivity. Qed.

Lemma eval_psubst1 x q p s : eval_poly (psubst1 x q p) s = eval_poly p (upd s x q).
Proof.
  unfold psubst1. induction p as [|[c m] p IH]; cbn [map eval_poly fst snd]; [reflexivity|].
  rewrite IH, (eval_mono_upd x m s q). ring.
Qed.

Lemma pp_val_num p c : pp_val (Some p) = Some c -> forall s, eval_poly p s = c.
Proof.
  cbn [pp_val]. intros H s. rewrite <- eval_pclean.
  destruct (pclean p) as [|[c' m] r]; [injection H as <-; reflexivity|].
  destruct m as [|? ?]; [|discriminate]. destruct r; [|discriminate].
  injection H as <-. cbn [eval_poly eval_mono]. ring.
Qed.

(* override a state on the listed variables *)
Fixpoint ovf (xs : list var) (f : state) (s : state) : state :=
  match xs with [] => s | x :: xs' => upd (ovf xs' f s) x (f x) end.
Lemma ovf_in xs f s y : In y xs -> ovf xs f s y = f y.
Proof.
  induction xs as [|x xs IH]; cbn [ovf In]; intros H; [destruct H|].
  unfold upd. destruct (var_eqb y x) eqn:E.
  - apply String.eqb_eq in E; subst; reflexivity.
  - destruct H as [->|H]; [unfold var_eqb in E; rewrite String.eqb_refl in E; discriminate | apply IH; exact H].
Qed.

Section Values.
  Variable P : tparams.
  Variable syms : list var.

  Notation rd := (rd syms).
  Notation subst_vars := (subst_vars P syms).
  Notation values_for_expr := (values_for_expr P syms).
  Notation assign_values := (assign_values P syms).

  Lemma subst_vars_nil st xs res' : subst_vars st xs [] = Some res' -> res' = [].
  Proof.
    revert res'; induction xs as [|x xs IH]; cbn [Typer.subst_vars]; intros res' H; [injection H as <-; reflexivity|].
    destruct (s_fail (rd st x)); [discriminate|]. cbn [flat_map] in H. rewrite pp_dedup_nil in H.
    destruct (Nat.ltb (tp_max P) (List.length (@nil pp))); [discriminate|]. apply IH; exact H.
  Qed.

  Lemma flat_map_map_nil {A B C} (g : A -> C -> B) (res : list A) :
    flat_map (fun p : A => map (fun v : C => g p v) []) res = [].
  Proof. induction res as [|p res IH]; cbn [flat_map map app]; [reflexivity | exact IH]. Qed.

  Lemma subst_vars_none st xs res res' :
    subst_vars st xs res = Some res' -> In None res -> res' = [] \/ In None res'.
  Proof.
    revert res res'; induction xs as [|x xs IH]; cbn [Typer.subst_vars]; intros res res' H Hn; [injection H as <-; right; exact Hn|].
    destruct (s_fail (rd st x)); [discriminate|].
    destruct (s_vals (rd st x)) as [|v vs] eqn:Ev.
    - rewrite (flat_map_map_nil (fun p v => pp_subst x v p)), pp_dedup_nil in H.
      destruct (Nat.ltb (tp_max P) (List.length (@nil pp))); [discriminate|].
      left. eapply subst_vars_nil; eauto.
    - set (new := pp_dedup _) in H.
      destruct (Nat.ltb (tp_max P) (List.length new)); [discriminate|].
      apply (IH new res' H).
      assert (Hin : In None (flat_map (fun p : pp => map (fun v0 : val => pp_subst x v0 p) (v :: vs)) res)).
      { apply in_flat_map. exists None; split; [exact Hn|]. left. destruct v; reflexivity. }
      destruct (pp_dedup_has _ _ Hin) as [q [Hq He]]. destruct q; [destruct He | exact Hq].
  Qed.

  Lemma subst_vars_bad st xs res res' x :
    subst_vars st xs res = Some res' -> res <> [] -> In x xs -> In None (s_vals (rd st x)) ->
    res' = [] \/ In None res'.
  Proof.
    revert res res'; induction xs as [|y xs IH]; cbn [Typer.subst_vars]; intros res res' H Hne Hx Hbad; [destruct Hx|].
    destruct (s_fail (rd st y)) eqn:Ef; [discriminate|].
    set (new := pp_dedup _) in H.
    destruct (Nat.ltb (tp_max P) (List.length new)) eqn:El; [discriminate|].
    destruct Hx as [->|Hx].
    - destruct res as [|p res]; [congruence|].
      assert (Hin : In None (flat_map (fun p : pp => map (fun v0 : val => pp_subst x v0 p) (s_vals (rd st x))) (p :: res))).
      { apply in_flat_map. exists p; split; [left; reflexivity|]. apply in_map_iff. exists None; split; [reflexivity | exact Hbad]. }
      destruct (pp_dedup_has _ _ Hin) as [q [Hq He]].
      eapply subst_vars_none; eauto. destruct q; [destruct He | exact Hq].
    - destruct new as [|p new'] eqn:En.
      + left. eapply subst_vars_nil; eauto.
      + apply (IH (p :: new') res' H); [discriminate | exact Hx | exact Hbad].
  Qed.

  Lemma subst_vars_notfail st xs res res' x :
    subst_vars st xs res = Some res' -> In x xs -> s_fail (rd st x) = false.
  Proof.
    revert res res'; induction xs as [|y xs IH]; cbn [Typer.subst_vars]; intros res res' H Hx; [destruct Hx|].
    destruct (s_fail (rd st y)) eqn:Ef; [discriminate|].
    destruct (Nat.ltb _ _); [discriminate|].
    destruct Hx as [->|Hx]; [exact Ef | eapply IH; eauto].
  Qed.

  (* every typed valuation is represented in the final set *)
  Lemma subst_vars_complete st (f : state) xs res res' p :
    subst_vars st xs res = Some res' ->
    (forall x, In x xs -> In (Some (f x)) (s_vals (rd st x))) ->
    In (Some p) res ->
    exists p', In (Some p') res' /\ forall s, eval_poly p' s = eval_poly p (ovf xs f s).
  Proof.
    revert res res' p; induction xs as [|x xs IH]; cbn [Typer.subst_vars]; intros res res' p H Hf Hp.
    - injection H as <-. exists p; split; [exact Hp | reflexivity].
    - destruct (s_fail (rd st x)); [discriminate|].
      set (new := pp_dedup _) in H.
      destruct (Nat.ltb (tp_max P) (List.length new)); [discriminate|].
      assert (Hin : In (Some (pclean (psubst1 x (f x) p)))
                       (flat_map (fun p0 : pp => map (fun v : val => pp_subst x v p0) (s_vals (rd st x))) res)).
      { apply in_flat_map. exists (Some p); split; [exact Hp|]. apply in_map_iff.
        exists (Some (f x)); split; [reflexivity | apply Hf; left; reflexivity]. }
      destruct (pp_dedup_has _ _ Hin) as [q [Hq He]]. destruct q as [p1|]; [|destruct He].
      cbn [pp_equiv] in He.
      destruct (IH new res' p1 H (fun y Hy => Hf y (or_intror Hy)) Hq) as [p' [Hp' Hev]].
      exists p'; split; [exact Hp'|]. intros s. rewrite Hev, <- He, eval_pclean, eval_psubst1. reflexivity.
  Qed.

  Lemma var_order_In e x : In x (vars_of e) <-> In x (var_order P e).
  Proof.
    unfold var_order. destruct (tp_rev P).
    - rewrite <- in_rev. symmetry. apply nodup_In.
    - symmetry. apply nodup_In.
  Qed.

  Definition all_num (vs : list val) : Prop := ~ In None vs.

  (* _get_values_for_expr: if the result consists of numbers, every variable of the expression
     is usable (not failed, numbers only) and every typed valuation's value is in the result *)
  Lemma values_for_expr_spec st e vs :
    values_for_expr st e = Some vs -> all_num vs ->
    (forall x, In x (vars_of e) -> s_fail (rd st x) = false /\ all_num (s_vals (rd st x))) /\
    (forall f : state, (forall x, In x (vars_of e) -> In (Some (f x)) (s_vals (rd st x))) -> In (Some (eval e f)) vs).
  Proof.
    unfold Typer.values_for_expr. intros H Hnum.
    destruct (Typer.subst_vars P syms st (var_order P e) [Some (of_expr e)]) as [res|] eqn:Es; [|discriminate].
    destruct (is_nil (vunion [] (map pp_val res))) eqn:En; [discriminate|]. injection H as <-.
    assert (Hres : res <> []).
    { intros ->. cbn in En. discriminate. }
    assert (HnoN : ~ In None res).
    { intros Hn. apply Hnum. apply In_vunion. right. apply in_map_iff. exists None; split; [reflexivity | exact Hn]. }
    split.
    - intros x Hx. apply var_order_In in Hx. split; [eapply subst_vars_notfail; eauto|].
      intros Hbad. destruct (subst_vars_bad _ _ _ _ x Es) as [E|E]; try assumption; [discriminate | congruence | contradiction].
    - intros f Hf.
      destruct (subst_vars_complete st f _ _ _ (of_expr e) Es) as [p' [Hp' Hev]].
      + intros x Hx. apply Hf. apply var_order_In; exact Hx.
      + left; reflexivity.
      + assert (Hv : In (pp_val (Some p')) (vunion [] (map pp_val res))).
        { apply In_vunion. right. apply in_map. exact Hp'. }
        destruct (pp_val (Some p')) as [c|] eqn:Ec; [|contradiction].
        pose proof (pp_val_num _ _ Ec f) as E1. rewrite Hev, eval_of_expr in E1.
        rewrite (eval_ext e f (ovf (var_order P e) f f)); [rewrite E1; exact Hv|].
        intros x Hx. symmetry. apply ovf_in. apply var_order_In; exact Hx.
  Qed.

  (* ---- union of the parts of a support ---- *)
  Lemma union_parts_spec l acc vs :
    union_parts l acc = Some vs ->
    (forall v, In v acc -> In v vs) /\
    (forall part, In part l -> exists ws, part = Some ws /\ forall v, In v ws -> In v vs).
  Proof.
    revert acc; induction l as [|[ws|] l IH]; cbn [union_parts]; intros acc H; try discriminate.
    - injection H as <-. split; [auto | intros part []].
    - destruct (IH _ H) as [Hacc Hparts]. split.
      + intros v Hv. apply Hacc, In_vunion. left; exact Hv.
      + intros part [<-|Hp]; [|apply Hparts; exact Hp].
        exists ws; split; [reflexivity|]. intros v Hv. apply Hacc, In_vunion. right; exact Hv.
  Qed.

  Lemma assign_values_parts st g drop vs :
    assign_values st g drop = Some vs ->
    vs <> [] /\ forall part, In part (support_parts P syms st g drop) -> exists ws, part = Some ws /\ forall v, In v ws -> In v vs.
  Proof.
    unfold Typer.assign_values. destruct (union_parts _ []) as [us|] eqn:Eu; [|discriminate].
    destruct (Nat.ltb (tp_max P) (List.length us) || is_nil us) eqn:Eb; [discriminate|]. intros H; injection H as <-.
    apply orb_false_iff in Eb. destruct Eb as [_ En]. split; [apply is_nil_false; exact En|].
    apply (union_parts_spec _ _ _ Eu).
  Qed.
End Values.

(* ---- from the model's value sets to Types.eval_set / rhs_set over a type environment ---- *)
Lemma valuations_some R T xs :
  (forall x, In x xs -> R x = true /\ exists tx, tlookup T x = Some tx) -> exists envs, valuations R T xs = Some envs.
Proof.
  induction xs as [|x xs IH]; cbn [valuations]; intros H; [eexists; reflexivity|].
  destruct (H x (or_introl eq_refl)) as [HR [tx Hx]]. rewrite HR, Hx.
  destruct IH as [envs He]; [intros y Hy; apply H; right; exact Hy|]. rewrite He. eexists; reflexivity.
Qed.

Lemma valuations_typed R T xs envs env :
  valuations R T xs = Some envs -> In env envs ->
  forall x, In x xs -> exists tx, tlookup T x = Some tx /\ In (alookup env x) tx.
Proof.
  revert envs env; induction xs as [|y xs IH]; cbn [valuations]; intros envs env H Hin x Hx; [destruct Hx|].
  destruct (R y); [|discriminate].
  destruct (tlookup T y) as [ty|] eqn:Ey; [|discriminate].
  destruct (valuations R T xs) as [envs'|] eqn:Ev; [|discriminate].
  injection H as <-. apply in_flat_map in Hin. destruct Hin as [v [Hv Hin]].
  apply in_map_iff in Hin. destruct Hin as [env' [<- Hin']].
  cbn [alookup]. destruct (var_eqb x y) eqn:E.
  - apply String.eqb_eq in E; subst. exists ty; split; [exact Ey | exact Hv].
  - destruct Hx as [->|Hx]; [unfold var_eqb in E; rewrite String.eqb_refl in E; discriminate|].
    eapply IH; eauto.
Qed.

Lemma eval_set_from_values (T : tenv) (rdv : var -> list val) e (ws : list val) :
  (forall y, In y (vars_of e) -> exists ty, tlookup T y = Some ty /\ forall q, In q ty -> In (Some q) (rdv y)) ->
  (forall f : state, (forall y, In y (vars_of e) -> In (Some (f y)) (rdv y)) -> In (Some (eval e f)) ws) ->
  exists es, eval_set all_vars T e = Some es /\ forall q, In q es -> In (Some q) ws.
Proof.
  intros Hty Hall. unfold eval_set.
  destruct (valuations_some all_vars T (nodup string_dec (vars_of e))) as [envs He].
  { intros x Hx. apply nodup_In in Hx. split; [reflexivity|]. destruct (Hty x Hx) as [ty [H1 _]]. exists ty; exact H1. }
  rewrite He. eexists; split; [reflexivity|].
  intros q Hq. apply in_map_iff in Hq. destruct Hq as [env [<- Henv]].
  apply Hall. intros y Hy.
  destruct (valuations_typed _ _ _ _ _ He Henv y) as [ty [H1 H2]]; [apply nodup_In; exact Hy|].
  destruct (Hty y Hy) as [ty' [H1' H2']]. rewrite H1 in H1'. injection H1' as <-.
  apply H2'. exact H2.
Qed.

Lemma choice_set_from (T : tenv) (Pq : Qc -> Prop) alts :
  (forall pe, In pe alts -> exists es, eval_set all_vars T (snd pe) = Some es /\ forall q, In q es -> Pq q) ->
  exists rs, choice_set all_vars T alts = Some rs /\ forall q, In q rs -> Pq q.
Proof.
  induction alts as [|[p e] alts IH]; cbn [choice_set]; intros H; [exists []; split; [reflexivity | intros q []]|].
  destruct (H (p, e) (or_introl eq_refl)) as [es [He Hes]]. cbn [snd] in He. rewrite He.
  destruct IH as [rs [Hr Hrs]]; [intros pe Hpe; apply H; right; exact Hpe|]. rewrite Hr.
  eexists; split; [reflexivity|]. intros q Hq. apply in_app_or in Hq. destruct Hq; auto.
Qed.

(* ---- the state as a map ---- *)
Lemma sfind_sset_same st x s : sfind (sset st x s) x = Some s.
Proof.
  induction st as [|[y t] st IH]; cbn [sset sfind].
  - unfold var_eqb. rewrite String.eqb_refl. reflexivity.
  - destruct (var_eqb x y) eqn:E; cbn [sfind]; rewrite E; [reflexivity | exact IH].
Qed.
Lemma sfind_sset_other st x y s : var_eqb y x = false -> sfind (sset st x s) y = sfind st y.
Proof.
  intros Hyx. induction st as [|[z t] st IH]; cbn [sset sfind].
  - rewrite Hyx. reflexivity.
  - destruct (var_eqb x z) eqn:E; cbn [sfind].
    + apply String.eqb_eq in E; subst z. rewrite Hyx. reflexivity.
    + destruct (var_eqb y z); [reflexivity | exact IH].
Qed.
Lemma sget_sset_same st x s : sget (sset st x s) x = s.
Proof. unfold sget. rewrite sfind_sset_same. reflexivity. Qed.
Lemma sget_sset_other st x y s : var_eqb y x = false -> sget (sset st x s) y = sget st y.
Proof. intros H. unfold sget. rewrite sfind_sset_other by exact H. reflexivity. Qed.
Lemma shas_sset_same st x s : shas (sset st x s) x = true.
Proof. unfold shas. rewrite sfind_sset_same. reflexivity. Qed.
Lemma shas_sset_other st x y s : var_eqb y x = false -> shas (sset st x s) y = shas st y.
Proof. intros H. unfold shas. rewrite sfind_sset_other by exact H. reflexivity. Qed.
Lemma sfind_In st x s : sfind st x = Some s -> In (x, s) st.
Proof.
  induction st as [|[y t] st IH]; cbn [sfind]; intros H; [discriminate|].
  destruct (var_eqb x y) eqn:E; [apply String.eqb_eq in E; subst; injection H as <-; left; reflexivity | right; auto].
Qed.
Lemma sfind_keys st x : sfind st x = None <-> ~ In x (map fst st).
Proof.
  induction st as [|[y t] st IH]; cbn [sfind map fst In]; [tauto|].
  destruct (var_eqb x y) eqn:E.
  - apply String.eqb_eq in E; subst. split; [discriminate | intros H; exfalso; apply H; left; reflexivity].
  - rewrite IH. split; [intros H [->|H']; [unfold var_eqb in E; rewrite String.eqb_refl in E; discriminate | auto] | tauto].
Qed.
Lemma var_eqb_sym x y : var_eqb x y = var_eqb y x.
Proof. unfold var_eqb. apply String.eqb_sym. Qed.
Lemma var_eqb_refl x : var_eqb x x = true.
Proof. unfold var_eqb. apply String.eqb_refl. Qed.

(* ---- _extract_types as a lookup ---- *)
Lemma tlookup_flat_ok (ok : var -> bool) (v : var -> list Qc) ks x :
  tlookup (flat_map (fun y => if ok y then [(y, v y)] else []) ks) x =
  if in_dec string_dec x ks then (if ok x then Some (v x) else None) else None.
Proof.
  induction ks as [|y ks IH]; cbn [flat_map]; [reflexivity|].
  destruct (ok y) eqn:Ey; cbn [app tlookup].
  - destruct (var_eqb x y) eqn:E.
    + apply String.eqb_eq in E; subst y. rewrite Ey.
      destruct (in_dec string_dec x (x :: ks)) as [_|n]; [reflexivity | exfalso; apply n; left; reflexivity].
    + rewrite IH. destruct (in_dec string_dec x ks) as [i|n], (in_dec string_dec x (y :: ks)) as [i'|n']; try reflexivity.
      * exfalso; apply n'; right; exact i.
      * destruct i' as [->|i']; [rewrite var_eqb_refl in E; discriminate | contradiction].
  - rewrite IH. destruct (in_dec string_dec x ks) as [i|n], (in_dec string_dec x (y :: ks)) as [i'|n']; try reflexivity.
    + exfalso; apply n'; right; exact i.
    + destruct i' as [->|i']; [rewrite Ey; reflexivity | contradiction].
Qed.

Lemma tlookup_extract st x :
  tlookup (extract st) x = if s_ok (sget st x) then Some (nums (s_vals (sget st x))) else None.
Proof.
  unfold extract.
  rewrite (tlookup_flat_ok (fun y => s_ok (sget st y)) (fun y => nums (s_vals (sget st y)))).
  destruct (in_dec string_dec x (nodup string_dec (map fst st))) as [i|n]; [reflexivity|].
  assert (Hn : sfind st x = None). { apply sfind_keys. intros H. apply n, nodup_In, H. }
  unfold sget. rewrite Hn. reflexivity.
Qed.

Lemma s_ok_spec s : s_ok s = true <-> s_fail s = false /\ all_num (s_vals s).
Proof.
  unfold s_ok, all_num. rewrite andb_true_iff, negb_true_iff, forallb_forall. split; intros [H1 H2]; split; auto.
  - intros Hn. specialize (H2 None Hn). discriminate.
  - intros [q|] Hv; [reflexivity | contradiction].
Qed.

(* ---- one round of _progress ---- *)
Definition core_eq (st st' : tstate) : Prop :=
  forall x, s_vals (sget st x) = s_vals (sget st' x) /\ s_fail (sget st x) = s_fail (sget st' x) /\
            s_lock (sget st x) = s_lock (sget st' x).
Lemma core_eq_refl st : core_eq st st.
Proof. intros x; auto. Qed.
Lemma core_eq_trans a b c : core_eq a b -> core_eq b c -> core_eq a c.
Proof.
  intros H1 H2 x. destruct (H1 x) as [A1 [A2 A3]], (H2 x) as [B1 [B2 B3]].
  repeat split; congruence.
Qed.
Lemma core_eq_sym a b : core_eq a b -> core_eq b a.
Proof. intros H x. destruct (H x) as [A1 [A2 A3]]. auto. Qed.

(* values only grow, failures persist *)
Definition st_le (st st' : tstate) : Prop :=
  forall x, (s_fail (sget st x) = true -> s_fail (sget st' x) = true) /\
            (forall v, In v (s_vals (sget st x)) -> In v (s_vals (sget st' x))).
Lemma st_le_refl st : st_le st st.
Proof. intros x; auto. Qed.
Lemma st_le_trans a b c : st_le a b -> st_le b c -> st_le a c.
Proof. intros H1 H2 x. destruct (H1 x), (H2 x). split; auto. Qed.

Fixpoint nodupb (l : list var) : bool :=
  match l with [] => true | x :: l' => negb (mem_var x l') && nodupb l' end.

Section Rounds.
  Variable P : tparams.
  Variable syms : list var.
  Notation rd := (rd syms).
  Notation assign_values := (assign_values P syms).
  Notation step := (step P syms).
  Notation progress := (progress P syms).

  Lemma rd_core st st' x : core_eq st st' ->
    s_vals (rd st x) = s_vals (rd st' x) /\ s_fail (rd st x) = s_fail (rd st' x).
  Proof. intros H. unfold Typer.rd. destruct (mem_var x syms); [auto|]. destruct (H x) as [A [B _]]. auto. Qed.

  Lemma subst_vars_core st st' xs res : core_eq st st' ->
    subst_vars P syms st xs res = subst_vars P syms st' xs res.
  Proof.
    intros H. revert res; induction xs as [|x xs IH]; intros res; cbn [subst_vars]; [reflexivity|].
    destruct (rd_core st st' x H) as [A B]. rewrite A, B.
    destruct (s_fail (rd st' x)); [reflexivity|].
    destruct (Nat.ltb _ _); [reflexivity | apply IH].
  Qed.
  Lemma values_for_expr_core st st' e : core_eq st st' ->
    values_for_expr P syms st e = values_for_expr P syms st' e.
  Proof. intros H. unfold values_for_expr. rewrite (subst_vars_core st st' _ _ H). reflexivity. Qed.
  Lemma assign_values_core st st' g drop : core_eq st st' ->
    assign_values st g drop = assign_values st' g drop.
  Proof.
    intros H. unfold Typer.assign_values, support_parts.
    rewrite (values_for_expr_core st st' _ H).
    replace (match ga_rhs g with
             | RChoice alts => map (fun pe : expr * expr => values_for_expr P syms st (snd pe)) alts
             | RDraw d => [draw_vals d] end)
      with (match ga_rhs g with
            | RChoice alts => map (fun pe : expr * expr => values_for_expr P syms st' (snd pe)) alts
            | RDraw d => [draw_vals d] end); [reflexivity|].
    destruct (ga_rhs g) as [alts|d]; [|reflexivity].
    apply map_ext. intros pe. symmetry. apply values_for_expr_core; exact H.
  Qed.

  Definition stable_at (st : tstate) (gd : gassign * bool) : Prop :=
    s_lock (sget st (ga_var (fst gd))) = true \/
    exists new, assign_values st (fst gd) (snd gd) = Some new /\
                forall v, In v new -> In v (s_vals (sget st (ga_var (fst gd)))).

  Lemma step_other st gd y : var_eqb y (ga_var (fst gd)) = false -> sget (step st gd) y = sget st y.
  Proof.
    intros H. unfold Typer.step.
    destruct (s_lock (sget st (ga_var (fst gd)))); [apply sget_sset_other; exact H|].
    destruct (Typer.assign_values P syms st (fst gd) (snd gd)) as [new|]; [|apply sget_sset_other; exact H].
    destruct (vsubset new _); apply sget_sset_other; exact H.
  Qed.

  Lemma core_eq_set_chg st x b : core_eq st (sset st x (set_chg (sget st x) b)).
  Proof.
    intros y. destruct (var_eqb y x) eqn:E.
    - apply String.eqb_eq in E; subst y. rewrite sget_sset_same. cbn. auto.
    - rewrite sget_sset_other by exact E. auto.
  Qed.

  Lemma step_cases st gd :
    s_chg (sget (step st gd) (ga_var (fst gd))) = true \/
    (core_eq st (step st gd) /\ stable_at st gd).
  Proof.
    unfold Typer.step, stable_at. set (x := ga_var (fst gd)).
    destruct (s_lock (sget st x)) eqn:El.
    - right. split; [apply core_eq_set_chg | left; reflexivity].
    - destruct (Typer.assign_values P syms st (fst gd) (snd gd)) as [new|] eqn:Ea.
      + destruct (vsubset new (s_vals (sget st x))) eqn:Es.
        * right. split; [apply core_eq_set_chg|]. right. exists new; split; [reflexivity|].
          apply vsubset_In; exact Es.
        * left. rewrite sget_sset_same. reflexivity.
      + left. rewrite sget_sset_same. reflexivity.
  Qed.

  Lemma step_le st gd : st_le st (step st gd).
  Proof.
    intros y. destruct (var_eqb y (ga_var (fst gd))) eqn:E; [|rewrite step_other by exact E; auto].
    apply String.eqb_eq in E; subst y. unfold Typer.step. set (x := ga_var (fst gd)).
    destruct (s_lock (sget st x)); [rewrite sget_sset_same; cbn; auto|].
    destruct (Typer.assign_values P syms st (fst gd) (snd gd)) as [new|]; [|rewrite sget_sset_same; cbn; auto].
    destruct (vsubset new _); rewrite sget_sset_same; cbn; [auto|].
    split; [auto|]. intros v Hv. apply In_vunion. left; exact Hv.
  Qed.

  Lemma progress_other body st y :
    ~ In y (map (fun gd : gassign * bool => ga_var (fst gd)) body) -> sget (progress body st) y = sget st y.
  Proof.
    unfold Typer.progress. revert st; induction body as [|gd body IH]; intros st H; cbn [fold_left]; [reflexivity|].
    rewrite IH; [|intros Hin; apply H; right; exact Hin].
    apply step_other. destruct (var_eqb y (ga_var (fst gd))) eqn:E; [|reflexivity].
    apply String.eqb_eq in E. exfalso. apply H. left. symmetry; exact E.
  Qed.

  Lemma progress_le body st : st_le st (progress body st).
  Proof.
    unfold Typer.progress. revert st; induction body as [|gd body IH]; intros st; cbn [fold_left]; [apply st_le_refl|].
    eapply st_le_trans; [apply step_le | apply IH].
  Qed.

  Lemma stable_at_core st st' gd : core_eq st st' -> stable_at st gd -> stable_at st' gd.
  Proof.
    intros H [Hl|[new [Ha Hs]]]; unfold stable_at.
    - left. destruct (H (ga_var (fst gd))) as [_ [_ E]]. congruence.
    - right. exists new. rewrite <- (assign_values_core st st' _ _ H). split; [exact Ha|].
      destruct (H (ga_var (fst gd))) as [E _]. rewrite <- E. exact Hs.
  Qed.

  (* a round after which nobody has_changed changed nothing and every assignment is stable *)
  Lemma progress_stable body st :
    NoDup (map (fun gd : gassign * bool => ga_var (fst gd)) body) ->
    (forall gd, In gd body -> s_chg (sget (progress body st) (ga_var (fst gd))) = false) ->
    core_eq st (progress body st) /\ forall gd, In gd body -> stable_at (progress body st) gd.
  Proof.
    unfold Typer.progress. revert st; induction body as [|gd body IH]; intros st Hnd Hchg; cbn [fold_left].
    - split; [apply core_eq_refl | intros gd []].
    - cbn [map] in Hnd. inversion Hnd as [|? ? Hnotin Hnd']; subst.
      assert (Hx : s_chg (sget (step st gd) (ga_var (fst gd))) = false).
      { rewrite <- (progress_other body (step st gd) _ Hnotin). apply (Hchg gd). left; reflexivity. }
      destruct (step_cases st gd) as [Hc|[Hcore Hst]]; [congruence|].
      destruct (IH (step st gd) Hnd') as [Hcore' Hst'].
      { intros gd' Hin. apply (Hchg gd'). right; exact Hin. }
      split; [eapply core_eq_trans; eauto|].
      intros gd' [<-|Hin]; [|apply Hst'; exact Hin].
      eapply stable_at_core; [|exact Hst]. eapply core_eq_trans; eauto.
  Qed.

  Lemma fixedpoint_chg st x : fixedpoint st = true -> s_chg (sget st x) = false.
  Proof.
    unfold fixedpoint, sget. intros H. destruct (sfind st x) as [s|] eqn:E; [|reflexivity].
    rewrite forallb_forall in H. specialize (H (x, s) (sfind_In _ _ _ E)). cbn [snd] in H.
    apply negb_true_iff in H. exact H.
  Qed.

  (* ---- _fail_changed_variables ---- *)
  Lemma sfind_fail_changed st x :
    sfind (fail_changed st) x = option_map (fun s => if s_chg s then failed_of s else s) (sfind st x).
  Proof.
    unfold fail_changed. induction st as [|[y t] st IH]; cbn [map sfind fst snd option_map]; [reflexivity|].
    destruct (var_eqb x y); [reflexivity | exact IH].
  Qed.
  Lemma sget_fail_changed st x :
    sget (fail_changed st) x = if s_chg (sget st x) then failed_of (sget st x) else sget st x.
  Proof.
    unfold sget. rewrite sfind_fail_changed. destruct (sfind st x) as [s|]; cbn [option_map]; reflexivity.
  Qed.
  Lemma fail_changed_le st : st_le st (fail_changed st).
  Proof.
    intros x. rewrite sget_fail_changed. destruct (s_chg (sget st x)); cbn; auto.
  Qed.

  (* ---- invariant: only failed or declared variables are locked ---- *)
  Definition lock_inv (D : tenv) (st : tstate) : Prop :=
    forall x, s_lock (sget st x) = true -> s_fail (sget st x) = true \/ mem_var x (map fst D) = true.

  Lemma step_lock_inv D st gd : lock_inv D st -> lock_inv D (step st gd).
  Proof.
    intros H y. destruct (var_eqb y (ga_var (fst gd))) eqn:E; [|rewrite step_other by exact E; apply H].
    apply String.eqb_eq in E; subst y. unfold Typer.step. set (x := ga_var (fst gd)).
    destruct (s_lock (sget st x)) eqn:El; [rewrite sget_sset_same; cbn; intros _; apply H; exact El|].
    destruct (Typer.assign_values P syms st (fst gd) (snd gd)) as [new|]; [|rewrite sget_sset_same; cbn; auto].
    destruct (vsubset new _); rewrite sget_sset_same; cbn; congruence.
  Qed.
  Lemma progress_lock_inv D body st : lock_inv D st -> lock_inv D (progress body st).
  Proof.
    unfold Typer.progress. revert st; induction body as [|gd body IH]; intros st H; cbn [fold_left]; [exact H|].
    apply IH, step_lock_inv, H.
  Qed.
  Lemma fail_changed_lock_inv D st : lock_inv D st -> lock_inv D (fail_changed st).
  Proof.
    intros H x. rewrite sget_fail_changed. destruct (s_chg (sget st x)); cbn; [auto | apply H].
  Qed.

  (* ---- the two loops ---- *)
  Definition reach (D : tenv) (st0 st : tstate) : Prop := lock_inv D st /\ st_le st0 st.

  Lemma reach_progress D st0 body st : reach D st0 st -> reach D st0 (progress body st).
  Proof. intros [H1 H2]. split; [apply progress_lock_inv; exact H1 | eapply st_le_trans; [exact H2 | apply progress_le]]. Qed.
  Lemma reach_fail_changed D st0 st : reach D st0 st -> reach D st0 (fail_changed st).
  Proof. intros [H1 H2]. split; [apply fail_changed_lock_inv; exact H1 | eapply st_le_trans; [exact H2 | apply fail_changed_le]]. Qed.

  Definition after_round (D : tenv) (st0 : tstate) (body : list (gassign * bool)) (st r : tstate) : Prop :=
    r = st \/ exists st', reach D st0 st' /\ r = progress body st'.

  Lemma phase1_spec D st0 body n st : reach D st0 st ->
    reach D st0 (phase1 P syms body n st) /\ after_round D st0 body st (phase1 P syms body n st).
  Proof.
    revert st; induction n as [|n IH]; intros st Hr; cbn [phase1]; [split; [exact Hr | left; reflexivity]|].
    destruct (fixedpoint (progress body st)) eqn:Ef.
    - split; [apply reach_progress; exact Hr | right; exists st; split; [exact Hr | reflexivity]].
    - destruct (IH (progress body st) (reach_progress _ _ _ _ Hr)) as [H1 H2]. split; [exact H1|].
      destruct H2 as [->|H2]; [right; exists st; split; [exact Hr | reflexivity] | right; exact H2].
  Qed.

  Lemma cascade_spec D st0 body fuel st r : reach D st0 st -> cascade P syms body fuel st = Some r ->
    fixedpoint r = true /\ reach D st0 r /\ after_round D st0 body st r.
  Proof.
    revert st; induction fuel as [|fuel IH]; intros st Hr; cbn [cascade]; destruct (fixedpoint st) eqn:Ef; intros H; try discriminate.
    - injection H as <-. split; [exact Ef | split; [exact Hr | left; reflexivity]].
    - injection H as <-. split; [exact Ef | split; [exact Hr | left; reflexivity]].
    - pose proof (reach_fail_changed _ _ _ Hr) as Hr1.
      destruct (IH _ (reach_progress _ _ body _ Hr1) H) as [H1 [H2 H3]]. split; [exact H1 | split; [exact H2|]].
      destruct H3 as [->|H3]; [right; exists (fail_changed st); split; [exact Hr1 | reflexivity] | right; exact H3].
  Qed.
End Rounds.

(* ---- a stable assignment passes the validator's test ---- *)
Section Body.
  Variable P : tparams.
  Variable syms : list var.
  Notation rd := (rd syms).

  (* what a type environment must offer for the variables the model can use *)
  Definition offers (T : tenv) (st : tstate) : Prop :=
    forall y, s_fail (rd st y) = false -> all_num (s_vals (rd st y)) ->
              exists ty, tlookup T y = Some ty /\ forall q, In q ty -> In (Some q) (s_vals (rd st y)).

  Lemma rd_usable st y : s_fail (rd st y) = false -> all_num (s_vals (rd st y)) ->
    rd st y = sget st y /\ s_ok (sget st y) = true.
  Proof.
    unfold Typer.rd. destruct (mem_var y syms).
    - intros _ H. exfalso. apply H. left; reflexivity.
    - intros H1 H2. split; [reflexivity | apply s_ok_spec; auto].
  Qed.

  Lemma offers_extract st : offers (extract st) st.
  Proof.
    intros y H1 H2. destruct (rd_usable st y H1 H2) as [E Hok]. rewrite E, tlookup_extract, Hok.
    eexists; split; [reflexivity|]. intros q Hq. apply In_nums; exact Hq.
  Qed.

  Lemma all_num_sub (a b : list val) : (forall v, In v a -> In v b) -> all_num b -> all_num a.
  Proof. unfold all_num. intros H Hb Ha. apply Hb, H, Ha. Qed.

  Lemma expr_part T st e ws :
    offers T st -> values_for_expr P syms st e = Some ws -> all_num ws ->
    exists es, eval_set all_vars T e = Some es /\ forall q, In q es -> In (Some q) ws.
  Proof.
    intros HT Hv Hnum. destruct (values_for_expr_spec P syms st e ws Hv Hnum) as [Hvars Hall].
    apply (eval_set_from_values T (fun y => s_vals (rd st y))); [|exact Hall].
    intros y Hy. destruct (Hvars y Hy) as [H1 H2]. apply HT; assumption.
  Qed.

  Definition rhs_parts (st : tstate) (r : rhs) : list (option (list val)) :=
    match r with
    | RChoice alts => map (fun pe : expr * expr => values_for_expr P syms st (snd pe)) alts
    | RDraw d => [draw_vals d]
    end.

  Lemma rhs_part T st r (new : list val) :
    offers T st -> all_num new ->
    (forall part, In part (rhs_parts st r) -> exists ws, part = Some ws /\ forall v, In v ws -> In v new) ->
    exists rs, rhs_set all_vars T r = Some rs /\ forall q, In q rs -> In (Some q) new.
  Proof.
    intros HT Hnum Hparts. destruct r as [alts|d]; cbn [rhs_set rhs_parts] in *.
    - apply (choice_set_from T (fun q => In (Some q) new)). intros pe Hpe.
      destruct (Hparts (values_for_expr P syms st (snd pe))) as [ws [Hws Hsub]].
      { apply in_map_iff. exists pe; split; [reflexivity | exact Hpe]. }
      destruct (expr_part T st (snd pe) ws HT Hws (all_num_sub _ _ Hsub Hnum)) as [es [He Hes]].
      exists es; split; [exact He|]. intros q Hq. apply Hsub, Hes, Hq.
    - destruct (Hparts (draw_vals d) (or_introl eq_refl)) as [ws [Hws Hsub]].
      destruct d as [p|ps|a b|f args]; cbn [draw_vals] in Hws; try discriminate; injection Hws as <-;
        (eexists; split; [reflexivity|]); intros q Hq; apply Hsub.
      + destruct Hq as [<-|[<-|[]]]; cbn [In]; auto.
      + apply in_map; exact Hq.
      + apply in_map; exact Hq.
  Qed.

  Lemma with_default_neq g drop : ga_cond g <> CTrue -> with_default g drop = negb drop.
  Proof. unfold with_default. destruct (ga_cond g); intros H; try reflexivity. congruence. Qed.

  Lemma default_part T st d ws :
    offers T st -> values_for_expr P syms st (EVar d) = Some ws -> all_num ws ->
    exists ds, tlookup T d = Some ds /\ forall q, In q ds -> In (Some q) ws.
  Proof.
    intros HT Hv Hnum. destruct (values_for_expr_spec P syms st (EVar d) ws Hv Hnum) as [Hvars Hall].
    destruct (Hvars d (or_introl eq_refl)) as [H1 H2]. destruct (HT d H1 H2) as [ty [Hty Hin]].
    exists ty; split; [exact Hty|]. intros q Hq.
    apply (Hall (fun _ => q)). intros y [<-|[]]. apply Hin; exact Hq.
  Qed.

  Definition drop_harmless (g : gassign) (drop : bool) : bool :=
    negb drop || match ga_cond g with CTrue => true | _ => var_eqb (ga_default g) (ga_var g) end.

  Lemma check_ga_of_stable D st g drop :
    lock_inv D st -> stable_at P syms st (g, drop) ->
    mem_var (ga_var g) (map fst D) = false -> drop_harmless g drop = true ->
    check_ga (extract st) g = true.
  Proof.
    intros Hinv Hst HnD Hdrop. unfold check_ga. rewrite tlookup_extract.
    destruct (s_ok (sget st (ga_var g))) eqn:Eok; [|reflexivity].
    pose proof (proj1 (s_ok_spec _) Eok) as [Hnf Hnum].
    destruct Hst as [Hl|[new [Ha Hsub]]]; cbn [fst snd] in *.
    { destruct (Hinv _ Hl) as [H|H]; congruence. }
    destruct (assign_values_parts P syms st g drop new Ha) as [_ Hparts].
    pose proof (all_num_sub _ _ Hsub Hnum) as Hnewnum.
    destruct (rhs_part (extract st) st (ga_rhs g) new (offers_extract st) Hnewnum) as [rs [Hrs Hin]].
    { intros part Hp. apply Hparts. unfold support_parts. apply in_or_app. left. exact Hp. }
    rewrite Hrs. apply andb_true_iff. split.
    - apply subset_complete. intros q Hq. apply In_nums, Hsub, Hin, Hq.
    - assert (Hdef : ga_cond g <> CTrue ->
                     match tlookup (extract st) (ga_default g) with
                     | Some ds => subset ds (nums (s_vals (sget st (ga_var g))))
                     | None => false end = true).
      { intros Hc. destruct drop.
        - unfold drop_harmless in Hdrop. cbn [negb orb] in Hdrop.
          assert (E : var_eqb (ga_default g) (ga_var g) = true) by (destruct (ga_cond g); congruence).
          apply String.eqb_eq in E. rewrite E, tlookup_extract, Eok.
          apply subset_complete. auto.
        - destruct (Hparts (values_for_expr P syms st (EVar (ga_default g)))) as [ws [Hws Hsubw]].
          { unfold support_parts. apply in_or_app. right. rewrite (with_default_neq g false Hc). left; reflexivity. }
          destruct (default_part (extract st) st _ ws (offers_extract st) Hws (all_num_sub _ _ Hsubw Hnewnum)) as [ds [Hds Hind]].
          rewrite Hds. apply subset_complete. intros q Hq. apply In_nums, Hsub, Hsubw, Hind, Hq. }
      destruct (ga_cond g); try reflexivity; apply Hdef; discriminate.
  Qed.
End Body.

(* ---- _initialize_state ---- *)
Lemma nodupb_NoDup l : nodupb l = true -> NoDup l.
Proof.
  induction l as [|x l IH]; cbn [nodupb]; intros H; [constructor|].
  apply andb_true_iff in H. destruct H as [H1 H2]. apply negb_true_iff in H1.
  constructor; [apply mem_var_false; exact H1 | apply IH; exact H2].
Qed.

Lemma zip_drops_vars body drops :
  map (fun gd : gassign * bool => ga_var (fst gd)) (zip_drops body drops) = map ga_var body.
Proof. revert drops; induction body as [|g body IH]; intros drops; cbn [zip_drops map fst]; [reflexivity | rewrite IH; reflexivity]. Qed.
Lemma zip_drops_In body drops g : In g body -> exists d, In (g, d) (zip_drops body drops).
Proof.
  revert drops; induction body as [|g' body IH]; intros drops H; [destruct H|]. cbn [zip_drops].
  destruct H as [->|H]; [eexists; left; reflexivity|]. destruct (IH (tl drops) H) as [d Hd]. exists d; right; exact Hd.
Qed.

Lemma shas_false_missing st x : shas st x = false -> sget st x = st_missing.
Proof. unfold shas, sget. destruct (sfind st x); [discriminate | reflexivity]. Qed.

Definition drops_harmless (body : list gassign) (drops : list bool) : bool :=
  forallb (fun gd : gassign * bool => drop_harmless (fst gd) (snd gd)) (zip_drops body drops).
Definition body_single (fp : flatprog) : bool := nodupb (map ga_var (fp_body fp)).

Section Init.
  Variable P : tparams.
  Variable syms : list var.
  Variable D : tenv.

  (* a non-declared variable that has an entry in the initial state has_changed *)
  Definition chg_inv (st : tstate) : Prop :=
    forall x, mem_var x (map fst D) = false -> shas st x = true -> s_chg (sget st x) = true.

  Lemma declared_fold l st :
    (forall xt, In xt l -> mem_var (fst xt) (map fst D) = true) -> lock_inv D st -> chg_inv st ->
    let st' := fold_left (fun st xt => sset st (fst xt) {| s_vals := map Some (snd xt); s_chg := false; s_fail := false; s_lock := true |}) l st in
    lock_inv D st' /\ chg_inv st'.
  Proof.
    revert st; induction l as [|[x vs] l IH]; intros st Hl H1 H2; cbn [fold_left]; [split; assumption|].
    apply IH; [intros xt Hxt; apply Hl; right; exact Hxt | |].
    - intros y. cbn [fst snd]. destruct (var_eqb y x) eqn:E.
      + apply String.eqb_eq in E; subst y. intros _. right. apply (Hl (x, vs)). left; reflexivity.
      + rewrite sget_sset_other by exact E. apply H1.
    - intros y Hy. cbn [fst snd]. destruct (var_eqb y x) eqn:E.
      + apply String.eqb_eq in E; subst y. pose proof (Hl (x, vs) (or_introl eq_refl)) as Hx. cbn [fst] in Hx. congruence.
      + rewrite shas_sset_other, sget_sset_other by exact E. apply H2; exact Hy.
  Qed.

  Lemma lock_inv_nil : lock_inv D [].
  Proof. intros x _. left. reflexivity. Qed.
  Lemma chg_inv_nil : chg_inv [].
  Proof. intros x _ H. discriminate H. Qed.

  Lemma declared_state_inv : lock_inv D (declared_state D) /\ chg_inv (declared_state D).
  Proof.
    unfold declared_state. apply declared_fold; [|apply lock_inv_nil | apply chg_inv_nil].
    intros xt Hxt. apply mem_var_In. apply in_map. exact Hxt.
  Qed.

  Lemma init_step_inv st g : lock_inv D st /\ chg_inv st -> lock_inv D (init_step P syms D st g) /\ chg_inv (init_step P syms D st g).
  Proof.
    intros [H1 H2]. unfold init_step. destruct (mem_var (ga_var g) (map fst D)) eqn:Ed; [split; assumption|].
    destruct (assign_values P syms st g false) as [vs|]; split.
    - intros y. destruct (var_eqb y (ga_var g)) eqn:E; [apply String.eqb_eq in E; subst; rewrite sget_sset_same; cbn; discriminate|].
      rewrite sget_sset_other by exact E. apply H1.
    - intros y Hy. destruct (var_eqb y (ga_var g)) eqn:E; [apply String.eqb_eq in E; subst; rewrite sget_sset_same; reflexivity|].
      rewrite shas_sset_other, sget_sset_other by exact E. apply H2; exact Hy.
    - intros y. destruct (var_eqb y (ga_var g)) eqn:E; [apply String.eqb_eq in E; subst; rewrite sget_sset_same; cbn; auto|].
      rewrite sget_sset_other by exact E. apply H1.
    - intros y Hy. destruct (var_eqb y (ga_var g)) eqn:E; [apply String.eqb_eq in E; subst; rewrite sget_sset_same; reflexivity|].
      rewrite shas_sset_other, sget_sset_other by exact E. apply H2; exact Hy.
  Qed.

  Lemma init_fold_inv l st : lock_inv D st /\ chg_inv st ->
    lock_inv D (fold_left (init_step P syms D) l st) /\ chg_inv (fold_left (init_step P syms D) l st).
  Proof. revert st; induction l as [|g l IH]; intros st H; cbn [fold_left]; [exact H | apply IH, init_step_inv, H]. Qed.

  Lemma body_init_inv body implied running st : lock_inv D st /\ chg_inv st ->
    lock_inv D (body_init body implied running st) /\ chg_inv (body_init body implied running st).
  Proof.
    revert implied running st; induction body as [|g body IH]; intros implied running st H; cbn [body_init]; [exact H|].
    apply IH. destruct (shas st (ga_var g)) eqn:Eh; [exact H|]. destruct H as [H1 H2]. split.
    - intros y. destruct (var_eqb y (ga_var g)) eqn:E; [apply String.eqb_eq in E; subst; rewrite sget_sset_same; cbn; discriminate|].
      rewrite sget_sset_other by exact E. apply H1.
    - intros y Hy. destruct (var_eqb y (ga_var g)) eqn:E; [apply String.eqb_eq in E; subst; rewrite sget_sset_same; reflexivity|].
      rewrite shas_sset_other, sget_sset_other by exact E. apply H2; exact Hy.
  Qed.

  Lemma init_state_inv fp implied : lock_inv D (init_state P syms fp D implied) /\ chg_inv (init_state P syms fp D implied).
  Proof. unfold init_state. apply body_init_inv, init_fold_inv, declared_state_inv. Qed.

  (* variables already present keep their status in the pass over the body *)
  Lemma body_init_keeps body implied running st x :
    shas st x = true -> sget (body_init body implied running st) x = sget st x.
  Proof.
    revert implied running st; induction body as [|g body IH]; intros implied running st H; cbn [body_init]; [reflexivity|].
    destruct (shas st (ga_var g)) eqn:Eh; [apply IH; exact H|].
    assert (E : var_eqb x (ga_var g) = false).
    { destruct (var_eqb x (ga_var g)) eqn:E; [|reflexivity]. apply String.eqb_eq in E; subst. congruence. }
    rewrite IH; [apply sget_sset_other; exact E | rewrite shas_sset_other by exact E; exact H].
  Qed.
End Init.

(* ---- the body part of the post-fixpoint, for any declared types ---- *)
Theorem typer_state_body P syms fp D implied drops st :
  typer_state P syms fp D implied drops = Some st ->
  body_single fp = true -> drops_harmless (fp_body fp) drops = true ->
  forall g, In g (fp_body fp) -> mem_var (ga_var g) (map fst D) = false -> check_ga (extract st) g = true.
Proof.
  unfold typer_state. destruct (applicable fp); [|discriminate].
  set (body := zip_drops (fp_body fp) drops). set (st0 := init_state P syms fp D implied).
  intros Hc Hsingle Hdrops g Hg HgD.
  destruct (init_state_inv P syms D fp implied) as [Hlock0 Hchg0]. fold st0 in Hlock0, Hchg0.
  assert (Hr0 : reach D st0 st0) by (split; [exact Hlock0 | apply st_le_refl]).
  destruct (phase1_spec P syms D st0 body (tp_iters P) st0 Hr0) as [Hr1 Ha1].
  destruct (cascade_spec P syms D st0 body _ _ st Hr1 Hc) as [Hfix [Hr Ha]].
  assert (Hcases : st = st0 \/ exists st', reach D st0 st' /\ st = progress P syms body st').
  { destruct Ha as [->|Ha]; [exact Ha1 | right; exact Ha]. }
  destruct (zip_drops_In (fp_body fp) drops g Hg) as [d Hd]. fold body in Hd.
  destruct Hcases as [->|[st' [Hr' ->]]].
  - (* no round was run and nobody has_changed: only declared variables have entries *)
    unfold check_ga. rewrite tlookup_extract.
    destruct (s_ok (sget st0 (ga_var g))) eqn:Eok; [|reflexivity]. exfalso.
    destruct (shas st0 (ga_var g)) eqn:Eh.
    + pose proof (Hchg0 _ HgD Eh) as H1. rewrite (fixedpoint_chg st0 _ Hfix) in H1. discriminate.
    + rewrite (shas_false_missing _ _ Eh) in Eok. discriminate.
  - destruct (progress_stable P syms body st') as [_ Hst].
    + unfold body. rewrite zip_drops_vars. apply nodupb_NoDup. exact Hsingle.
    + intros gd _. apply fixedpoint_chg. exact Hfix.
    + apply (check_ga_of_stable P syms D _ g d); [apply Hr | apply (Hst (g, d) Hd) | exact HgD|].
      unfold drops_harmless in Hdrops. rewrite forallb_forall in Hdrops. apply (Hdrops (g, d) Hd).
Qed.

(* ---- the initial block (no declared types): the model's pass over the initial assignments
   computes supersets of the validator's flow-sensitive environment Types.init_env ---- *)
Section InitBlock.
  Variable P : tparams.
  Variable syms : list var.
  Variable D' : tenv.

  Definition init_rel (st : tstate) (L : tenv) : Prop :=
    forall y, s_ok (sget st y) = true ->
              exists ty, tlookup (L ++ D') y = Some ty /\ forall q, In q ty -> In (Some q) (s_vals (sget st y)).

  Lemma init_rel_offers st L : init_rel st L -> offers syms (L ++ D') st.
  Proof. intros H y H1 H2. destruct (rd_usable syms st y H1 H2) as [E Hok]. rewrite E. apply H; exact Hok. Qed.

  Lemma init_step_other st g y : var_eqb y (ga_var g) = false -> sget (init_step P syms [] st g) y = sget st y.
  Proof.
    intros E. unfold init_step. cbn [map mem_var existsb].
    destruct (assign_values P syms st g false); apply sget_sset_other; exact E.
  Qed.

  Lemma init_rel_step st L g : ga_cond g = CTrue -> init_rel st L ->
    init_rel (init_step P syms [] st g)
             (match rhs_set all_vars (L ++ D') (ga_rhs g) with
              | Some rs => (ga_var g, rs) :: L
              | None => remove_var (ga_var g) L end).
  Proof.
    intros Hc HR y Hok. destruct (var_eqb y (ga_var g)) eqn:E.
    - apply String.eqb_eq in E; subst y. unfold init_step in *. cbn [map mem_var existsb] in *.
      destruct (assign_values P syms st g false) as [vs|] eqn:Ea; rewrite sget_sset_same in *; [|discriminate Hok].
      apply s_ok_spec in Hok. cbn [s_vals s_fail] in Hok. destruct Hok as [_ Hnum].
      destruct (assign_values_parts P syms st g false vs Ea) as [_ Hparts].
      destruct (rhs_part P syms (L ++ D') st (ga_rhs g) vs (init_rel_offers _ _ HR) Hnum) as [rs [Hrs Hin]].
      { intros part Hp. apply Hparts. unfold support_parts. apply in_or_app. left. exact Hp. }
      rewrite Hrs. cbn [app tlookup]. rewrite var_eqb_refl. exists rs; split; [reflexivity | exact Hin].
    - rewrite init_step_other in * by exact E. destruct (HR y Hok) as [ty [Hty Hin]]. exists ty; split; [|exact Hin].
      destruct (rhs_set all_vars (L ++ D') (ga_rhs g)) as [rs|].
      + cbn [app tlookup]. rewrite E. exact Hty.
      + rewrite tlookup_app in *. rewrite (tlookup_remove_other _ _ _ E). exact Hty.
  Qed.

  Lemma init_rel_fold l st L :
    forallb (fun g => match ga_cond g with CTrue => true | _ => false end) l = true -> init_rel st L ->
    exists L', init_env D' L l = Some L' /\ init_rel (fold_left (init_step P syms []) l st) L'.
  Proof.
    revert st L; induction l as [|g l IH]; intros st L Hc HR; cbn [init_env fold_left]; [exists L; split; [reflexivity | exact HR]|].
    cbn [forallb] in Hc. apply andb_true_iff in Hc. destruct Hc as [Hg Hl].
    destruct (ga_cond g) eqn:Ec; try discriminate Hg.
    pose proof (init_rel_step st L g Ec HR) as HR'.
    destruct (rhs_set all_vars (L ++ D') (ga_rhs g)) as [rs|]; apply IH; assumption.
  Qed.

  Lemma init_step_has_same st g : shas (init_step P syms [] st g) (ga_var g) = true.
  Proof. unfold init_step. cbn [map mem_var existsb]. destruct (assign_values P syms st g false); apply shas_sset_same. Qed.
  Lemma init_step_has_keep st g y : shas st y = true -> shas (init_step P syms [] st g) y = true.
  Proof.
    intros H. destruct (var_eqb y (ga_var g)) eqn:E; [apply String.eqb_eq in E; subst; apply init_step_has_same|].
    unfold init_step. cbn [map mem_var existsb]. destruct (assign_values P syms st g false); rewrite shas_sset_other by exact E; exact H.
  Qed.
  Lemma init_fold_keep l st y : shas st y = true -> shas (fold_left (init_step P syms []) l st) y = true.
  Proof. revert st; induction l as [|g l IH]; intros st H; cbn [fold_left]; [exact H | apply IH, init_step_has_keep, H]. Qed.
  Lemma init_fold_has l st x : In x (map ga_var l) -> shas (fold_left (init_step P syms []) l st) x = true.
  Proof.
    revert st; induction l as [|g l IH]; intros st H; [destruct H|]. cbn [fold_left].
    destruct H as [<-|H]; [apply init_fold_keep, init_step_has_same | apply IH; exact H].
  Qed.
End InitBlock.

Lemma In_extract st x vs : In (x, vs) (extract st) -> s_ok (sget st x) = true /\ vs = nums (s_vals (sget st x)).
Proof.
  unfold extract. intros H. apply in_flat_map in H. destruct H as [y [_ H]].
  destruct (s_ok (sget st y)) eqn:E; [|destruct H]. destruct H as [H|[]]. injection H as <- <-. auto.
Qed.

Theorem typer_state_init P syms fp implied drops st :
  typer_state P syms fp [] implied drops = Some st -> check_init (extract st) (fp_init fp) = true.
Proof.
  unfold typer_state. destruct (applicable fp) eqn:Eapp; [|discriminate].
  set (body := zip_drops (fp_body fp) drops). set (st0 := init_state P syms fp [] implied).
  intros Hc.
  destruct (init_state_inv P syms [] fp implied) as [Hlock0 _]. fold st0 in Hlock0.
  assert (Hr0 : reach [] st0 st0) by (split; [exact Hlock0 | apply st_le_refl]).
  destruct (phase1_spec P syms [] st0 body (tp_iters P) st0 Hr0) as [Hr1 _].
  destruct (cascade_spec P syms [] st0 body _ _ st Hr1 Hc) as [_ [[_ Hle] _]].
  set (T := extract st). set (iv := map ga_var (fp_init fp)). set (D' := declared iv T).
  set (st2 := fold_left (init_step P syms []) (fp_init fp) []).
  destruct (init_rel_fold P syms D' (fp_init fp) [] []) as [L' [HL HR]]; [exact Eapp | intros y Hy; discriminate Hy|].
  fold st2 in HR.
  unfold check_init. fold iv. fold D'. rewrite HL. apply forallb_forall. intros [x vs] Hin. cbn [fst snd].
  destruct (mem_var x iv) eqn:Em; [|reflexivity].
  destruct (In_extract _ _ _ Hin) as [Hok ->].
  apply s_ok_spec in Hok. destruct Hok as [Hnf Hnum]. destruct (Hle x) as [Hlf Hlv].
  assert (E02 : sget st0 x = sget st2 x).
  { unfold st0, init_state. cbn [declared_state fold_left]. apply body_init_keeps.
    apply init_fold_has. apply mem_var_true. exact Em. }
  assert (Hok2 : s_ok (sget st2 x) = true).
  { rewrite <- E02. apply s_ok_spec. split.
    - destruct (s_fail (sget st0 x)) eqn:Ef; [rewrite (Hlf eq_refl) in Hnf; discriminate | reflexivity].
    - eapply all_num_sub; [exact Hlv | exact Hnum]. }
  destruct (HR x Hok2) as [ty [Hty Hsub]]. rewrite tlookup_app in Hty.
  destruct (tlookup L' x) as [rs|].
  - injection Hty as ->. apply subset_complete. intros q Hq. apply In_nums, Hlv. rewrite E02. apply Hsub, Hq.
  - unfold D' in Hty. rewrite (tlookup_declared_init iv T x Em) in Hty. discriminate.
Qed.

(* ---- the theorems ---- *)
Theorem typer_run_postfixpoint P syms fp implied drops T :
  typer_run P syms fp [] implied drops = Some T ->
  body_single fp = true -> drops_harmless (fp_body fp) drops = true ->
  check_types fp T = true.
Proof.
  unfold typer_run. destruct (typer_state P syms fp [] implied drops) as [st|] eqn:Es; [|discriminate].
  cbn [option_map]. intros H Hs Hd. injection H as <-. unfold check_types. apply andb_true_iff. split.
  - eapply typer_state_init; eauto.
  - apply forallb_forall. intros g Hg. eapply typer_state_body; eauto.
Qed.

(* no default dropped at all is a special case *)
Lemma drops_false_harmless body drops : forallb negb drops = true -> drops_harmless body drops = true.
Proof.
  unfold drops_harmless. revert drops; induction body as [|g body IH]; intros drops H; cbn [zip_drops forallb]; [reflexivity|].
  apply andb_true_iff. split.
  - unfold drop_harmless. cbn [fst snd]. destruct drops as [|d drops]; cbn [hd]; [reflexivity|].
    cbn [forallb] in H. apply andb_true_iff in H. destruct H as [H _]. rewrite H. reflexivity.
  - apply IH. destruct drops as [|d drops]; cbn [tl]; [reflexivity|]. cbn [forallb] in H. apply andb_true_iff in H. tauto.
Qed.

Theorem typer_run_sound P syms fp implied drops T :
  typer_run P syms fp [] implied drops = Some T ->
  body_single fp = true -> drops_harmless (fp_body fp) drops = true ->
  forall (law : string -> list Qc -> dist Qc) s0, init_ok fp T s0 ->
  forall n s, supp (frun law fp n s0) s -> typed T s.
Proof.
  intros H Hs Hd law s0 H0 n s Hsupp.
  eapply check_types_sound; eauto. eapply typer_run_postfixpoint; eauto.
Qed.

(* declared types are trusted by the typer (locked); the validator checks them: with declared
   types the theorem needs the validator's verdict on the initial block and on the declared
   variables' assignments as (evaluated) hypotheses.  What is missing for a full statement:
   a proof of check_init in the presence of declared types. *)
Definition declared_ok (fp : flatprog) (D T : tenv) : bool :=
  check_init T (fp_init fp) &&
  forallb (fun g => negb (mem_var (ga_var g) (map fst D)) || check_ga T g) (fp_body fp).

Theorem typer_run_postfixpoint_declared_partial P syms fp D implied drops T :
  typer_run P syms fp D implied drops = Some T ->
  body_single fp = true -> drops_harmless (fp_body fp) drops = true ->
  declared_ok fp D T = true ->
  check_types fp T = true.
Proof.
  unfold typer_run. destruct (typer_state P syms fp D implied drops) as [st|] eqn:Es; [|discriminate].
  cbn [option_map]. intros H Hs Hd Hdecl. injection H as <-. unfold check_types, declared_ok in *.
  apply andb_true_iff in Hdecl. destruct Hdecl as [Hi Hb]. apply andb_true_iff. split; [exact Hi|].
  apply forallb_forall. intros g Hg. rewrite forallb_forall in Hb. specialize (Hb g Hg).
  destruct (mem_var (ga_var g) (map fst D)) eqn:Em; [exact Hb|].
  eapply typer_state_body; eauto.
Qed.
