(* Faithful executable model of ExponentLattice.compute_basis for rational bases
   (/repo/invariants/exponent_lattice.py: is_trivially_empty, compute_basis_rational), tied
   to the real code by the correspondence check of harness/checks/c16.py on every run:
     - the multiplicity matrix (one row per prime; if some base is negative, a parity row
       and an auxiliary column holding 2),
     - sympy's Matrix.nullspace(): reduced row echelon form over Q, one vector per free
       column (free entry 1, pivot entries minus the echelon entries),
     - deletion of the auxiliary coordinate,
     - numpy .astype(int): truncation towards zero.
   The factorisations are an input (validated by LatticeRat.check_factorisation).

   TWO rules are modelled:
   - [old_*]: the code before /repo commits a4c7460 and 47f10be (rational nullspace truncated to
     integers; shortcut blind to a base equal to 1).  REFUTED: truncation_old_rule_refuted,
     trivially_empty_old_rule_refuted (statements about the old rule only).
   - [model_*]: the repaired code (integer kernel by unimodular row operations on [M^T | I];
     shortcut refused when a base equals 1).  This is the model compared with the real
     implementation on every run.  Its outputs are validated PER INSTANCE by the verified
     validators of Lattice*.v; a proof that it passes them for all inputs is not done. *)
From Coq Require Import List Bool Arith Lia ZArith QArith Qcanon.
From Polar Require Import Qcx CRing ExpPoly Lattice LatticeRel LatticeRat.
Import ListNotations.
Local Open Scope Qc_scope.

Definition qrow := list Qc.
Definition qz (z : Z) : Qc := Q2Qc (inject_Z z).

(* ---- reduced row echelon form over Qc ---- *)
Fixpoint pick (j : nat) (rows : list qrow) : option (qrow * list qrow) :=
  match rows with
  | [] => None
  | r :: rs =>
      if Qc_eqb (nth j r 0) 0 then
        match pick j rs with Some (p, o) => Some (p, r :: o) | None => None end
      else Some (r, rs)
  end.
Definition elim (j : nat) (p r : qrow) : qrow :=
  let c := nth j r 0 in map (fun xy => fst xy - c * snd xy) (combine r p).
Fixpoint rref_cols (cols : list nat) (done : list (nat * qrow)) (rest : list qrow) : list (nat * qrow) :=
  match cols with
  | [] => done
  | j :: cols' =>
      match pick j rest with
      | None => rref_cols cols' done rest
      | Some (p, others) =>
          let p' := map (Qcmult (/ nth j p 0)) p in
          rref_cols cols' (map (fun d => (fst d, elim j p' (snd d))) done ++ [(j, p')])
                    (map (elim j p') others)
      end
  end.
Definition rref (n : nat) (M : list qrow) : list (nat * qrow) := rref_cols (seq 0 n) [] M.

(* sympy nullspace convention *)
Definition nullspace (n : nat) (M : list qrow) : list qrow :=
  let R := rref n M in
  let pivots := map fst R in
  let free := filter (fun i => negb (existsb (Nat.eqb i) pivots)) (seq 0 n) in
  map (fun f =>
         map (fun i => if Nat.eqb i f then 1
                       else match find (fun d => Nat.eqb (fst d) i) R with
                            | Some d => - nth f (snd d) 0
                            | None => 0
                            end) (seq 0 n)) free.

(* int(Rational): truncation towards zero *)
Definition qtrunc (q : Qc) : Z := Z.quot (Qnum (this q)) (Zpos (Qden (this q))).

(* ---- compute_basis_rational ---- *)
Definition model_matrix (k m : nat) (facts : list (bool * list Z)) : bool * list qrow :=
  let has_neg := existsb fst facts in
  let prime_rows := map (fun j => map (fun f => qz (nth j (snd f) 0%Z)) facts) (seq 0 m) in
  if has_neg
  then (true, map (fun r => r ++ [0]) prime_rows ++ [map (fun f => qz (tz (fst f))) facts ++ [qz 2]])
  else (false, prime_rows).

Definition old_model_basis_rational (m : nat) (facts : list (bool * list Z)) : list (list Z) :=
  let k := length facts in
  let '(has_neg, M) := model_matrix k m facts in
  let n := if has_neg then S k else k in
  let ker := nullspace n M in
  let ker := if has_neg then map (fun v => removelast v) ker else ker in
  map (map qtrunc) ker.

(* ---- is_trivially_empty ---- *)
Fixpoint pairwise_coprime (l : list Z) : bool :=
  match l with
  | [] => true
  | x :: l' => forallb (fun y => Z.eqb (Z.gcd x y) 1) l' && pairwise_coprime l'
  end.
Definition old_model_trivially_empty (bs : list Qc) : bool :=
  let ns := filter (fun n => negb (Z.eqb n 1)) (map (fun b => Qnum (this b)) bs) in
  let ds := filter (fun n => negb (Z.eqb n 1)) (map (fun b => Zpos (Qden (this b))) bs) in
  forallb (fun n => Z.ltb 1 (Z.abs n)) ns && pairwise_coprime (ns ++ ds).

Definition old_model_compute_basis (bs : list Qc) (m : nat) (facts : list (bool * list Z)) : list (list Z) :=
  if old_model_trivially_empty bs then [] else old_model_basis_rational m facts.


(* ================================================================================== *)
(* The repaired rule: ExponentLattice._integer_kernel and the base-1 test (current /repo). *)

Definition zrow := list Z.
Definition zc (c : nat) (r : zrow) : Z := nth c r 0%Z.
Definition zsubrow (q : Z) (row p : zrow) : zrow := map (fun xy => (fst xy - q * snd xy)%Z) (combine row p).

(* indices r >= top whose entry in column c is non-zero *)
Definition nonzero_rows (c top : nat) (a : list zrow) : list nat :=
  filter (fun r => Nat.leb top r && negb (Z.eqb (zc c (nth r a [])) 0)) (seq 0 (length a)).

(* one pass of the inner while loop: pivot = FIRST row of minimal |entry| (Python min), every
   other non-zero row r gets  a[r] -= (a[r][c] // a[p][c]) * a[p]  (floor division) *)
Definition sweep (c top : nat) (a : list zrow) : option (list zrow) :=
  match nonzero_rows c top a with
  | [] => None
  | [_] => None
  | i0 :: rest =>
      let p := fold_left (fun best r => if Z.ltb (Z.abs (zc c (nth r a []))) (Z.abs (zc c (nth best a []))) then r else best) rest i0 in
      let ap := nth p a [] in
      Some (map (fun ir =>
                   let i := fst ir in let row := snd ir in
                   if Nat.leb top i && negb (Z.eqb (zc c row) 0) && negb (Nat.eqb i p)
                   then zsubrow (Z.div (zc c row) (zc c ap)) row ap else row)
                (combine (seq 0 (length a)) a))
  end.
Fixpoint reduce_col (fuel c top : nat) (a : list zrow) : list zrow :=
  match fuel with
  | O => a
  | S f => match sweep c top a with None => a | Some a' => reduce_col f c top a' end
  end.
Definition swap_rows (i j : nat) (a : list zrow) : list zrow :=
  map (fun ir => if Nat.eqb (fst ir) i then nth j a [] else if Nat.eqb (fst ir) j then nth i a [] else snd ir)
      (combine (seq 0 (length a)) a).
Definition col_fuel (c : nat) (a : list zrow) : nat :=
  S (Z.to_nat (fold_left (fun acc r => (acc + Z.abs (zc c r))%Z) a 0%Z)).
Definition kernel_step (st : list zrow * nat) (c : nat) : list zrow * nat :=
  let '(a, top) := st in
  let a := reduce_col (col_fuel c a) c top a in
  match nonzero_rows c top a with
  | [] => (a, top)
  | i0 :: _ => (swap_rows top i0 a, S top)
  end.
(* a0: one row per unknown, (column of M for that unknown) ++ (unit vector); m = number of rows of M *)
Definition integer_kernel (m : nat) (a0 : list zrow) : list zrow :=
  let '(a, top) := fold_left kernel_step (seq 0 m) (a0, O) in
  map (skipn m) (skipn top a).

Definition unit_row (n i : nat) : zrow := map (fun j => if Nat.eqb i j then 1%Z else 0%Z) (seq 0 n).

Definition model_basis_rational (m : nat) (facts : list (bool * list Z)) : list (list Z) :=
  let k := length facts in
  let has_neg := existsb fst facts in
  let n := if has_neg then S k else k in
  let mrows := if has_neg then S m else m in
  let base_rows :=
      map (fun ifc => let i := fst ifc in let f := snd ifc in
                      map (fun j => nth j (snd f) 0%Z) (seq 0 m) ++ (if has_neg then [tz (fst f)] else []) ++ unit_row n i)
          (combine (seq 0 k) facts) in
  let a0 := if has_neg then base_rows ++ [repeat 0%Z m ++ [2%Z] ++ unit_row n k] else base_rows in
  let ker := integer_kernel mrows a0 in
  if has_neg then map (fun v => removelast v) ker else ker.

Definition model_trivially_empty (bs : list Qc) : bool :=
  negb (existsb (fun b => Qc_eqb b 1) bs) && old_model_trivially_empty bs.

Definition model_compute_basis (bs : list Qc) (m : nat) (facts : list (bool * list Z)) : list (list Z) :=
  if model_trivially_empty bs then [] else model_basis_rational m facts.

(* ================================================================================== *)
(* The OLD rule does not compute a basis (kept as statements about the old rule only). *)

Definition q_of (n : Z) (d : positive) : Qc := Q2Qc (n # d).

Lemma Qc_neq_by_eqb (x y : Qc) : Qc_eqb x y = false -> x <> y.
Proof. intros H E. subst. rewrite Qc_eqb_refl in H. discriminate. Qed.

(* [4; 8]: the Q-nullspace vector (-3/2, 1) is truncated to (-1, 1), and 4^-1 * 8 = 2.
   [4; 1/2]: (1/2, 1) is truncated to (0, 1), and (1/2)^1 <> 1. *)
Theorem truncation_old_rule_refuted :
  (exists bs ps facts row,
      bs = [q_of 4 1; q_of 8 1] /\ check_factorisation ps facts bs = true /\
      old_model_compute_basis bs (length ps) facts = [row] /\ row = [(-1)%Z; 1%Z] /\ ~ qrelation bs row)
  /\
  (exists bs ps facts row,
      bs = [q_of 4 1; q_of 1 2] /\ check_factorisation ps facts bs = true /\
      old_model_compute_basis bs (length ps) facts = [row] /\ row = [0%Z; 1%Z] /\ ~ qrelation bs row).
Proof.
  split.
  - exists [q_of 4 1; q_of 8 1], [2%Z], [(false, [2%Z]); (false, [3%Z])], [(-1)%Z; 1%Z].
    split; [reflexivity|]. split; [vm_compute; reflexivity|]. split; [vm_compute; reflexivity|].
    split; [reflexivity|]. unfold qrelation, is_relation. apply Qc_neq_by_eqb. vm_compute. reflexivity.
  - exists [q_of 4 1; q_of 1 2], [2%Z], [(false, [2%Z]); (false, [(-1)%Z])], [0%Z; 1%Z].
    split; [reflexivity|]. split; [vm_compute; reflexivity|]. split; [vm_compute; reflexivity|].
    split; [reflexivity|]. unfold qrelation, is_relation. apply Qc_neq_by_eqb. vm_compute. reflexivity.
Qed.

(* [3; 1]: the shortcut filters the numerator 1 away BEFORE testing |numerator| > 1, declares
   the lattice trivial, but (0, 1) is a non-zero relation (3^0 * 1^1 = 1). *)
Theorem trivially_empty_old_rule_refuted :
  exists bs ps facts e,
    bs = [q_of 3 1; q_of 1 1] /\ check_factorisation ps facts bs = true /\
    old_model_compute_basis bs (length ps) facts = [] /\
    length e = length bs /\ qrelation bs e /\ e <> zeros (R := Z_cring) (length bs).
Proof.
  exists [q_of 3 1; q_of 1 1], [3%Z], [(false, [1%Z]); (false, [0%Z])], [0%Z; 1%Z].
  split; [reflexivity|]. split; [vm_compute; reflexivity|]. split; [vm_compute; reflexivity|].
  split; [reflexivity|]. split.
  - unfold qrelation, is_relation. apply (Qc_eqb_true). vm_compute. reflexivity.
  - intros E. discriminate.
Qed.
