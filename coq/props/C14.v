(* C14 — synthesized invariants and solvable loops agree with the unsolvable loop.
   Only property theorems, each closed by [exact] and followed by Print Assumptions. *)
From Coq Require Import List String QArith Qcanon ZArith.
From Polar Require Import Qcx CRing ExpPoly ClosedForm Dist Syntax Sem Types Poly Pipeline Wp Synth.
Import ListNotations.
Open Scope string_scope.

(* V: a pair (Q, f) accepted by the validator satisfies E[Q(state after n iterations)] = f(n)
   for EVERY n and every admissible start state.  The validator recomputes wp(Q) through the
   flat program (C03's exact model), finds k*Q in it, requires the rest to be a combination
   of monomials whose moments have validated closed forms (C03 + C04 validators, special
   cases included), f(0) = wp(init, Q), and f(n+1) = k f(n) + sum c_i E[M_i]_n for all n. *)
Theorem C14_check_synth_sound :
  forall law cmom, cmom_ok law cmom ->
  forall fp T Q k items f, check_synth cmom fp T Q k items f = true ->
  forall s0, init_ok fp T s0 ->
  forall n, E (frun law fp n s0) (eval_poly Q) = eevalQ f n.
Proof. exact check_synth_sound. Qed.
Print Assumptions C14_check_synth_sound.
