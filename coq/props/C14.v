(* C14 — synthesized invariants and solvable loops agree with the unsolvable loop.
   Only property theorems, each closed by [exact] and followed by Print Assumptions, and
   non-vacuity / refutation examples by vm_compute. *)
From Coq Require Import List String QArith Qcanon ZArith.
From Polar Require Import Qcx CRing ExpPoly ClosedForm Dist Syntax Sem Types Poly Pipeline Wp Synth.
Import ListNotations.
Open Scope string_scope.

(* V: a pair (Q, f) accepted by the validator satisfies E[Q(state after n iterations)] = f(n)
   for EVERY n and every admissible start state, for deterministic and probabilistic loops.
   The validator recomputes wp(Q) through the flat program (C03's exact model), removes k*Q,
   requires the rest to be a combination of monomials ("effective items", any number of them)
   whose moments have validated closed forms (C03 + C04 validators, special cases
   included; the constant is the empty monomial), f(0) = wp(init, Q), and
   f(n+1) = k f(n) + sum c_i E[M_i]_n  for all n (computed for the finitely many n touched by
   special cases, by the exponential-polynomial identity shift f = k f + sum c_i g_i beyond).
   f itself may carry special values fsp for n < length fsp. *)
Theorem C14_check_synth_sound :
  forall law cmom, cmom_ok law cmom ->
  forall fp T Q k items fsp f, check_synth cmom fp T Q k items fsp f = true ->
  forall s0, init_ok fp T s0 ->
  forall n, E (frun law fp n s0) (eval_poly Q) = fval fsp f n.
Proof. exact check_synth_sound. Qed.
Print Assumptions C14_check_synth_sound.

(* k need not be known: any of a list of candidates (the harness passes Polar's k and the
   coefficient ratios of wp(Q) and Q) *)
Theorem C14_check_synth_any_sound :
  forall law cmom, cmom_ok law cmom ->
  forall fp T Q ks items fsp f, check_synth_any cmom fp T Q ks items fsp f = true ->
  forall s0, init_ok fp T s0 ->
  forall n, E (frun law fp n s0) (eval_poly Q) = fval fsp f n.
Proof. exact check_synth_any_sound. Qed.
Print Assumptions C14_check_synth_any_sound.

(* the discrete instance is hypothesis-free: programs without continuous draws *)
Theorem C14_check_synth_sound_discrete :
  forall fp T Q ks items fsp f, check_synth_any cm0 fp T Q ks items fsp f = true ->
  forall s0, init_ok fp T s0 ->
  forall n, E (frun no_law fp n s0) (eval_poly Q) = fval fsp f n.
Proof. exact (check_synth_any_sound no_law cm0 cm0_ok). Qed.
Print Assumptions C14_check_synth_sound_discrete.

(* what the validator establishes about each effective monomial *)
Theorem C14_effective_item_sound :
  forall law cmom, cmom_ok law cmom ->
  forall fp T it, check_types fp T = true -> check_item cmom fp T it = true ->
  forall s0, init_ok fp T s0 ->
  forall n, E (frun law fp n s0) (eval_mono (ei_mono it)) = ei_val it n.
Proof. exact item_sound. Qed.
Print Assumptions C14_effective_item_sound.

(* the exact sequence E[Q]_0, E[Q]_1, ... from the validated items alone (no candidate closed
   form): what the search compares a rejected candidate with when path enumeration is too
   expensive or the program draws from a continuous family *)
Theorem C14_certified_values :
  forall law cmom, cmom_ok law cmom ->
  forall fp T Q k items N vs, synth_values cmom fp T Q k items N = Some vs ->
  forall s0, init_ok fp T s0 ->
  forall n, (n < N)%nat -> nth n vs 0%Qc = E (frun law fp n s0) (eval_poly Q).
Proof. exact synth_values_sound. Qed.
Print Assumptions C14_certified_values.

(* the k = 1 search and the general search (or synth_inv and synth_loop) may return the same Q
   with different closed forms: accepted ones denote the same sequence *)
Theorem C14_accepted_closed_forms_agree :
  forall law cmom, cmom_ok law cmom ->
  forall fp T Q k items fsp f k' items' fsp' f',
  check_synth cmom fp T Q k items fsp f = true -> check_synth cmom fp T Q k' items' fsp' f' = true ->
  forall s0, init_ok fp T s0 -> forall n, fval fsp f n = fval fsp' f' n.
Proof. exact check_synth_agree. Qed.
Print Assumptions C14_accepted_closed_forms_agree.

(* V: the synthesized solvable loop fpS with fresh variable sv simulates the original loop fpO:
   if a linear system over monomials ms (containing the effective monomials of wp(Q) - k*Q and
   the retained variables) is exact and closed in BOTH programs with equal initial values, and
   wp_S(sv) = k*sv + R where R = wp_O(Q) - k*Q, and sv starts at E[Q]_0, then for ALL n
   E_S[sv]_n = E_O[Q]_n and every monomial of the system has the same moment in both loops. *)
Theorem C14_synth_loop_simulates :
  forall law cmom, cmom_ok law cmom ->
  forall fpO TO fpS TS Q sv k ms A v, check_sim cmom fpO TO fpS TS Q sv k ms A v = true ->
  forall s0 s0', init_ok fpO TO s0 -> init_ok fpS TS s0' ->
  forall n,
    E (frun law fpS n s0') (fun s : state => s sv) = E (frun law fpO n s0) (eval_poly Q)
    /\ moments_vec law fpS ms n s0' = moments_vec law fpO ms n s0.
Proof. exact check_sim_sound. Qed.
Print Assumptions C14_synth_loop_simulates.

(* loops that are already solvable (no fresh variable): retained variables only *)
Theorem C14_synth_loop_retained_moments :
  forall law cmom, cmom_ok law cmom ->
  forall fpO TO fpS TS ms A v, check_sys_agree cmom fpO TO fpS TS ms A v = true ->
  forall s0 s0', init_ok fpO TO s0 -> init_ok fpS TS s0' ->
  forall n, moments_vec law fpS ms n s0' = moments_vec law fpO ms n s0.
Proof. exact check_sys_agree_sound. Qed.
Print Assumptions C14_synth_loop_retained_moments.

(* ---- non-vacuity: tests/unsolvable_benchmarks/squares.prob at x0 = 2, y0 = -1, _u = 1 ---- *)
Definition det (x : var) (e : expr) : gassign :=
  {| ga_var := x; ga_cond := CTrue; ga_default := x; ga_rhs := RDet e |}.
Definition q (a : Z) (b : positive) : expr := EConst (mkq a b).
Definition sq_fp : flatprog :=
  {| fp_init := [det "x" (q 2 1); det "y" (q (-1) 1); det "z" (q 0 1)];
     fp_body := [det "z" (ESub (q 1 1) (EVar "z"));
                 det "x" (EAdd (EAdd (EMul (q 2 1) (EVar "x")) (EPow (EVar "y") 2)) (EVar "z"));
                 det "y" (EAdd (ESub (EMul (q 2 1) (EVar "y")) (EPow (EVar "y") 2)) (EMul (q 2 1) (EVar "z")))] |}.
Definition sq_T : tenv := [("z", [mkq 0 1; mkq 1 1])].
Definition sq_Q : poly := [(mkq 1 3, [("x", 1%nat)]); (mkq 1 3, [("y", 1%nat)])].
Definition const_item : eitem :=
  {| ei_ms := [[]]; ei_A := [[mkq 1 1]]; ei_v := [mkq 1 1]; ei_F := [[(mkq 1 1, [mkq 1 1])]]; ei_sp := []; ei_idx := 0 |}.
Definition sq_item_z : eitem :=   (* E(z)_n = 1/2 - (-1)^n/2, as Polar's solver writes it: Piecewise with one special case *)
  {| ei_ms := [[("z", 1%nat)]; []]; ei_A := [[mkq (-1) 1; mkq 1 1]; [mkq 0 1; mkq 1 1]]; ei_v := [mkq 0 1; mkq 1 1];
     ei_F := [[(mkq 1 1, [mkq 1 2]); (mkq (-1) 1, [mkq (-1) 2])]; [(mkq 1 1, [mkq 1 1])]];
     ei_sp := [[mkq 0 1; mkq 1 1]]; ei_idx := 0 |}.
(* Polar: -(-1)^n (1/3 - (-2)^n/3)/2 + 5*2^n/6 - 1/2 *)
Definition sq_f : epolyQ := [(mkq 1 1, [mkq (-1) 2]); (mkq (-1) 1, [mkq (-1) 6]); (mkq 2 1, [mkq 1 1])].
Example C14_nonvacuous_squares :
  check_synth_any cm0 sq_fp sq_T sq_Q [mkq 2 1; mkq 0 1] [sq_item_z; const_item] [] sq_f = true.
Proof. vm_compute. reflexivity. Qed.
(* the validator is not trivially true: the same closed form one iteration ahead (f(n+1) for
   f(n): an off-by-one between n and n-1) and a wrong k are rejected *)
Example C14_rejects_shifted_closed_form :
  check_synth_any cm0 sq_fp sq_T sq_Q [mkq 2 1; mkq 0 1] [sq_item_z; const_item] []
    [(mkq 1 1, [mkq (-1) 2]); (mkq (-1) 1, [mkq 1 6]); (mkq 2 1, [mkq 2 1])] = false.
Proof. vm_compute. reflexivity. Qed.
Example C14_rejects_wrong_k :
  check_synth cm0 sq_fp sq_T sq_Q (mkq 3 1) [sq_item_z; const_item] [] sq_f = false.
Proof. vm_compute. reflexivity. Qed.

(* the synthesized loop of the same benchmark:  _t = 1 - z; _s = 2*_s + 1 - z; z = _t *)
Definition sq_S : flatprog :=
  {| fp_init := [det "_t" (q 0 1); det "_s" (q 1 3); det "z" (EVar "_t")];
     fp_body := [det "_t" (ESub (q 1 1) (EVar "z"));
                 det "_s" (EAdd (EAdd (EMul (q 2 1) (EVar "_s")) (q 1 1)) (EMul (q (-1) 1) (EVar "z")));
                 det "z" (EVar "_t")] |}.
Example C14_nonvacuous_squares_loop :
  check_sim cm0 sq_fp sq_T sq_S [] sq_Q "_s" (mkq 2 1) [[("z", 1%nat)]; []]
    [[mkq (-1) 1; mkq 1 1]; [mkq 0 1; mkq 1 1]] [mkq 0 1; mkq 1 1] = true.
Proof. vm_compute. reflexivity. Qed.
(* wrong wiring of the fresh variable (initialised with 0 instead of E[Q]_0) is rejected *)
Example C14_rejects_wrong_wiring :
  check_sim cm0 sq_fp sq_T
    {| fp_init := [det "_t" (q 0 1); det "_s" (q 0 1); det "z" (EVar "_t")]; fp_body := fp_body sq_S |}
    [] sq_Q "_s" (mkq 2 1) [[("z", 1%nat)]; []]
    [[mkq (-1) 1; mkq 1 1]; [mkq 0 1; mkq 1 1]] [mkq 0 1; mkq 1 1] = false.
Proof. vm_compute. reflexivity. Qed.

(* ---- finding 1 (utils/solvers.py:solve_rec_by_summing drops the special cases of the effective
   part), witness  z=5; x=1; y=2; while true: x=2x+y^2+z; y=2y-y^2+2z; z = 1 {1/2} 0 ---- *)
Definition w1_fp : flatprog :=
  {| fp_init := [det "z" (q 5 1); det "x" (q 1 1); det "y" (q 2 1)];
     fp_body := [det "x" (EAdd (EAdd (EMul (q 2 1) (EVar "x")) (EPow (EVar "y") 2)) (EVar "z"));
                 det "y" (EAdd (ESub (EMul (q 2 1) (EVar "y")) (EPow (EVar "y") 2)) (EMul (q 2 1) (EVar "z")));
                 {| ga_var := "z"; ga_cond := CTrue; ga_default := "z";
                    ga_rhs := RChoice [(q 1 2, q 1 1); (q 1 2, q 0 1)] |}] |}.
Definition w1_T : tenv := [("z", [mkq 0 1; mkq 1 1; mkq 5 1])].
Definition w1_Q : poly := [(mkq 1 1, [("x", 1%nat)]); (mkq 1 1, [("y", 1%nat)])].
Definition w1_item_z : eitem :=   (* E(z)_n = Piecewise((5, n <= 0), (1/2, True)) *)
  {| ei_ms := [[("z", 1%nat)]; []]; ei_A := [[mkq 0 1; mkq 1 2]; [mkq 0 1; mkq 1 1]]; ei_v := [mkq 5 1; mkq 1 1];
     ei_F := [[(mkq 1 1, [mkq 1 2])]; [(mkq 1 1, [mkq 1 1])]]; ei_sp := [[mkq 5 1; mkq 1 1]]; ei_idx := 0 |}.
(* Polar returns E(x+y) = 3*(3*2^n/2 - 1/2) *)
Definition w1_f_polar : epolyQ := [(mkq 2 1, [mkq 9 2]); (mkq 1 1, [mkq (-3) 2])].
Example C14_summing_defect_refuted :
  Qc_eqb (E (frun no_law w1_fp 1 st0) (eval_poly w1_Q)) (mkq 21 1) = true
  /\ Qc_eqb (eevalQ w1_f_polar 1) (mkq 15 2) = true
  /\ check_synth_any cm0 w1_fp w1_T w1_Q [mkq 2 1] [w1_item_z; const_item] [] w1_f_polar = false.
Proof. vm_compute. repeat split; reflexivity. Qed.
Example C14_summing_defect_certified_values :
  option_map (map qpair) (synth_values cm0 w1_fp w1_T w1_Q (mkq 2 1) [w1_item_z; const_item] 4)
  = Some [(3%Z, 1%positive); (21%Z, 1%positive); (87%Z, 2%positive); (177%Z, 2%positive)].
Proof. vm_compute. reflexivity. Qed.
(* the repaired result Piecewise((3, n <= 0), (3*(15*2^n - 2)/4, True)) is accepted: all n *)
Example C14_summing_defect_repaired :
  check_synth_any cm0 w1_fp w1_T w1_Q [mkq 2 1] [w1_item_z; const_item] [mkq 3 1]
    [(mkq 2 1, [mkq 45 4]); (mkq 1 1, [mkq (-3) 2])] = true.
Proof. vm_compute. reflexivity. Qed.

(* ---- finding 2 (SolvLoopSynthesizer derandomises the effective variables), witness
   z=0; x=1; y=2; while true: z = z+1 {1/2} z-1; x=2x+y^2+z^2; y=2y-y^2+2z;
   synthesized:  _t=0; _s=3; z=_t; while true: _t = z; _s = 2*_s + 1 + 2z + z^2; z = _t ---- *)
Definition w2_O : flatprog :=
  {| fp_init := [det "z" (q 0 1); det "x" (q 1 1); det "y" (q 2 1)];
     fp_body := [{| ga_var := "z"; ga_cond := CTrue; ga_default := "z";
                    ga_rhs := RChoice [(q 1 2, EAdd (EVar "z") (q 1 1)); (q 1 2, EAdd (EVar "z") (q (-1) 1))] |};
                 det "x" (EAdd (EAdd (EMul (q 2 1) (EVar "x")) (EPow (EVar "y") 2)) (EPow (EVar "z") 2));
                 det "y" (EAdd (ESub (EMul (q 2 1) (EVar "y")) (EPow (EVar "y") 2)) (EMul (q 2 1) (EVar "z")))] |}.
Definition w2_S : flatprog :=
  {| fp_init := [det "_t" (q 0 1); det "_s" (q 3 1); det "z" (EVar "_t")];
     fp_body := [det "_t" (EVar "z");
                 det "_s" (EAdd (EAdd (EAdd (EMul (q 2 1) (EVar "_s")) (q 1 1)) (EMul (q 2 1) (EVar "z"))) (EPow (EVar "z") 2));
                 det "z" (EVar "_t")] |}.
Example C14_derandomised_loop_refuted :
  Qc_eqb (E (frun no_law w2_O 2 st0) (eval_poly w1_Q)) (mkq 16 1) = true
  /\ Qc_eqb (E (frun no_law w2_S 2 st0) (fun s : state => s "_s")) (mkq 15 1) = true.
Proof. vm_compute. split; reflexivity. Qed.
(* the repaired loop (fresh variable first, original assignment of z kept) is accepted: all n *)
Definition w2_S' : flatprog :=
  {| fp_init := [det "_s" (q 3 1); det "z" (q 0 1)];
     fp_body := [det "_s" (EAdd (EAdd (EAdd (EMul (q 2 1) (EVar "_s")) (q 1 1)) (EMul (q 2 1) (EVar "z"))) (EPow (EVar "z") 2));
                 {| ga_var := "z"; ga_cond := CTrue; ga_default := "z";
                    ga_rhs := RChoice [(q 1 2, EAdd (EVar "z") (q 1 1)); (q 1 2, EAdd (EVar "z") (q (-1) 1))] |}] |}.
Example C14_derandomised_loop_repaired :
  check_sim cm0 w2_O [] w2_S' [] w1_Q "_s" (mkq 2 1) [[("z", 2%nat)]; [("z", 1%nat)]; []]
    [[mkq 1 1; mkq 0 1; mkq 1 1]; [mkq 0 1; mkq 1 1; mkq 0 1]; [mkq 0 1; mkq 0 1; mkq 1 1]]
    [mkq 0 1; mkq 0 1; mkq 1 1] = true.
Proof. vm_compute. reflexivity. Qed.
