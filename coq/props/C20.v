(* C20 — results are independent of process history, goal order and hash seed.
   Only property theorems, each closed by [exact] and followed by Print Assumptions, and
   non-vacuity examples by vm_compute.  Models and proofs: theories/History*.v. *)
From Coq Require Import String Ascii QArith Qcanon Arith Permutation List.
From Polar Require Import Qcx CRing ExpPoly ClosedForm Dist Syntax Sem History.
Import ListNotations.
Local Open Scope nat_scope.

(* ================= 1. goal order / worklist order / set iteration order ================= *)

(* the key lemma: a scalar product does not see a common reordering of its arguments *)
Theorem C20_dot_permute :
  forall (R : cring) (sigma : list nat) (k : nat) (r x : list R),
    Permutation sigma (seq 0 k) -> length r = k -> length x = k ->
    dot (permute sigma r) (permute sigma x) = dot r x.
Proof. exact dot_permute. Qed.
Print Assumptions C20_dot_permute.

(* (P A P^-1)^n (P v) = P (A^n v), every commutative ring, every k, every n: enumerating
   the monomials of a recurrence system in another order permutes the solution vector *)
Theorem C20_system_perm_invariant :
  forall (R : cring) (sigma : list nat) (k : nat) (A : list (list R)) (v : list R),
    Permutation sigma (seq 0 k) ->
    length A = k /\ Forall (fun r => length r = k) A ->
    length v = k ->
    forall n : nat,
      iter_mat (pmat sigma A) n (permute sigma v) = permute sigma (iter_mat A n v).
Proof. exact system_perm_invariant. Qed.
Print Assumptions C20_system_perm_invariant.

Theorem C20_system_perm_component :
  forall (R : cring) (sigma : list nat) (k : nat) (A : list (list R)) (v : list R),
    Permutation sigma (seq 0 k) ->
    length A = k /\ Forall (fun r => length r = k) A ->
    length v = k ->
    forall (n j : nat), j < k ->
      nth j (iter_mat (pmat sigma A) n (permute sigma v)) r0
      = nth (nth j sigma O) (iter_mat A n v) r0.
Proof. exact system_perm_component. Qed.
Print Assumptions C20_system_perm_component.

(* two arbitrary enumeration orders of the same system give the same value to the same
   monomial at every n *)
Theorem C20_two_orders_agree :
  forall (R : cring) (sigma tau : list nat) (k : nat) (A : list (list R)) (v : list R),
    Permutation sigma (seq 0 k) -> Permutation tau (seq 0 k) ->
    length A = k /\ Forall (fun r => length r = k) A ->
    length v = k ->
    forall (n i j : nat), i < k -> j < k -> nth i sigma O = nth j tau O ->
      nth i (iter_mat (pmat sigma A) n (permute sigma v)) r0
      = nth j (iter_mat (pmat tau A) n (permute tau v)) r0.
Proof. exact two_orders_agree. Qed.
Print Assumptions C20_two_orders_agree.

(* with the verified validator of C04: closed forms accepted for the system in the two
   orders agree under the permutation at every n *)
Theorem C20_accepted_perm_agree :
  forall (R : cring) (sigma : list nat) (k : nat) (A : list (list R)) (v : list R)
         (F : list (epoly R)) (sp : list (list R)) (F' : list (epoly R)) (sp' : list (list R)),
    Permutation sigma (seq 0 k) ->
    length A = k /\ Forall (fun r => length r = k) A ->
    length v = k ->
    check_solution A v F sp = true ->
    check_solution (pmat sigma A) (permute sigma v) F' sp' = true ->
    forall n : nat, pw_eval F' sp' n = permute sigma (pw_eval F sp n).
Proof. exact accepted_perm_agree. Qed.
Print Assumptions C20_accepted_perm_agree.

Theorem C20_accepted_perm_agree_component :
  forall (R : cring) (sigma : list nat) (k : nat) (A : list (list R)) (v : list R)
         (F : list (epoly R)) (sp : list (list R)) (F' : list (epoly R)) (sp' : list (list R)),
    Permutation sigma (seq 0 k) ->
    length A = k /\ Forall (fun r => length r = k) A ->
    length v = k ->
    check_solution A v F sp = true ->
    check_solution (pmat sigma A) (permute sigma v) F' sp' = true ->
    forall (n j : nat), j < k ->
      nth j (pw_eval F' sp' n) r0 = nth (nth j sigma O) (pw_eval F sp n) r0.
Proof. exact accepted_perm_agree_component. Qed.
Print Assumptions C20_accepted_perm_agree_component.

(* decidable side condition used by examples and generated case files *)
Theorem C20_is_permb_sound :
  forall (sigma : list nat) (k : nat), is_permb sigma k = true -> Permutation sigma (seq 0 k).
Proof. exact is_permb_sound. Qed.
Print Assumptions C20_is_permb_sound.

(* Or-chain built from a set popped in arbitrary order (Atom.get_normalized) *)
Theorem C20_or_chain_perm_invariant :
  forall (x : var) (vs vs' : list Qc),
    Permutation vs vs' ->
    forall s : state,
      holds (fold_right (fun v c => COr (CAtom (EVar x) Ceq (EConst v)) c) CFalse vs) s
      = holds (fold_right (fun v c => COr (CAtom (EVar x) Ceq (EConst v)) c) CFalse vs') s.
Proof. exact or_chain_perm_invariant. Qed.
Print Assumptions C20_or_chain_perm_invariant.

(* ================= 2. process history through caches ================= *)

(* lru_cache / dict cache in front of a pure function f: from ANY table consistent with f,
   for ANY interleaving of calls and table replacements that only forget or reorder
   ([shrinks]: every answer of the new table was an answer of the old one), the results are
   exactly [map f] of the arguments, and the final table is consistent *)
Theorem C20_memo_transparent :
  forall (K V : Type) (keqb : K -> K -> bool),
    (forall x y : K, keqb x y = true -> x = y) ->
    forall (f : K -> V) (evs : list (event K V)) (tbl : list (K * V)),
      (forall x v, lookup keqb tbl x = Some v -> v = f x) ->
      valid keqb f tbl evs ->
      fst (run keqb f tbl evs) = map f (calls evs)
      /\ (forall x v, lookup keqb (snd (run keqb f tbl evs)) x = Some v -> v = f x).
Proof. exact memo_transparent. Qed.
Print Assumptions C20_memo_transparent.

Theorem C20_memo_calls_transparent :
  forall (K V : Type) (keqb : K -> K -> bool),
    (forall x y : K, keqb x y = true -> x = y) ->
    forall (f : K -> V) (xs : list K) (tbl : list (K * V)),
      consistent keqb f tbl ->
      fst (run_calls keqb f tbl xs) = map f xs
      /\ consistent keqb f (snd (run_calls keqb f tbl xs)).
Proof. exact memo_calls_transparent. Qed.
Print Assumptions C20_memo_calls_transparent.

(* results do not depend on what earlier analyses left in the cache *)
Theorem C20_memo_history_independent :
  forall (K V : Type) (keqb : K -> K -> bool),
    (forall x y : K, keqb x y = true -> x = y) ->
    forall (f : K -> V) (xs : list K) (tbl1 tbl2 : list (K * V)),
      consistent keqb f tbl1 -> consistent keqb f tbl2 ->
      fst (run_calls keqb f tbl1 xs) = fst (run_calls keqb f tbl2 xs).
Proof. exact memo_history_independent. Qed.
Print Assumptions C20_memo_history_independent.

(* membership reading of eviction: the new table is any sub-multiset of the old entries;
   invariant: every entry (also shadowed ones) is correct *)
Theorem C20_memo_transparent_incl :
  forall (K V : Type) (keqb : K -> K -> bool),
    (forall x y : K, keqb x y = true -> x = y) ->
    forall (f : K -> V) (evs : list (event K V)) (tbl : list (K * V)),
      (forall k v, In (k, v) tbl -> v = f k) ->
      valid_incl keqb f tbl evs ->
      fst (run keqb f tbl evs) = map f (calls evs)
      /\ (forall k v, In (k, v) (snd (run keqb f tbl evs)) -> v = f k).
Proof. exact memo_transparent_incl. Qed.
Print Assumptions C20_memo_transparent_incl.

(* LRU truncation to maxsize, clearing and filtering by key are admissible replacements *)
Theorem C20_shrinks_firstn :
  forall (K V : Type) (keqb : K -> K -> bool) (m : nat) (tbl : list (K * V)),
    shrinks keqb tbl (firstn m tbl).
Proof. exact shrinks_firstn. Qed.
Print Assumptions C20_shrinks_firstn.

Theorem C20_shrinks_filter_keys :
  forall (K V : Type) (keqb : K -> K -> bool),
    (forall x y : K, keqb x y = true -> x = y) ->
    forall (p : K -> bool) (tbl : list (K * V)),
      shrinks keqb tbl (filter (fun kv => p (fst kv)) tbl).
Proof. exact shrinks_filter_keys. Qed.
Print Assumptions C20_shrinks_filter_keys.

(* purity is the premise: if the function changes between two calls with the same key
   (lru_cache keyed on a mutable object, Distribution.get_moment + subs), the second call
   returns the stale value *)
Theorem C20_memo_stale_refuted :
  exists (f f' : nat -> nat) (x : nat),
    fst (memo_call Nat.eqb f' (snd (memo_call Nat.eqb f [] x)) x) <> f' x.
Proof. exact memo_stale_refuted. Qed.
Print Assumptions C20_memo_stale_refuted.

(* ================= 3. the global name counter ================= *)

(* one tag (any tag): different counter values give different names *)
Theorem C20_gen_name_injective :
  forall (tag : string) (k k' : nat), gen_name tag k = gen_name tag k' -> k = k'.
Proof. exact gen_name_injective. Qed.
Print Assumptions C20_gen_name_injective.

(* tags that do not end in a decimal digit (weaker than digit-free): tag and counter are
   both determined by the name — [parse_name] is a left inverse of [gen_name] *)
Theorem C20_parse_gen_name :
  forall (t : string) (k : nat), ends_nondigit t = true -> parse_name (gen_name t k) = Some (t, k).
Proof. exact parse_gen_name. Qed.
Print Assumptions C20_parse_gen_name.

Theorem C20_gen_name_injective_tags :
  forall (t t' : string) (k k' : nat),
    ends_nondigit t = true -> ends_nondigit t' = true ->
    gen_name t k = gen_name t' k' -> t = t' /\ k = k'.
Proof. exact gen_name_injective_tags. Qed.
Print Assumptions C20_gen_name_injective_tags.

Theorem C20_gen_name_injective_digit_free :
  forall (t t' : string) (k k' : nat),
    digit_free t = true -> digit_free t' = true ->
    gen_name t k = gen_name t' k' -> t = t' /\ k = k'.
Proof. exact gen_name_injective_digit_free. Qed.
Print Assumptions C20_gen_name_injective_digit_free.

(* the side condition is necessary: "_x1"+"2" = "_x"+"12" *)
Theorem C20_gen_name_digit_tag_refuted :
  exists (t t' : string) (k k' : nat), gen_name t k = gen_name t' k' /\ t <> t' /\ k <> k'.
Proof. exact gen_name_digit_tag_refuted. Qed.
Print Assumptions C20_gen_name_digit_tag_refuted.

(* every start value, every sequence of admissible tags: the generated names are pairwise
   distinct *)
Theorem C20_fresh_never_collides :
  forall (tags : list string) (k0 : nat),
    Forall (fun t => ends_nondigit t = true) tags -> NoDup (names_from tags k0).
Proof. exact fresh_never_collides. Qed.
Print Assumptions C20_fresh_never_collides.

Theorem C20_fresh_never_collides_one_tag :
  forall (t : string) (n k0 : nat), NoDup (names_from (repeat t n) k0).
Proof. exact fresh_never_collides_one_tag. Qed.
Print Assumptions C20_fresh_never_collides_one_tag.

(* a name generated from a counter value >= k never equals one generated from a value < k *)
Theorem C20_fresh_old_new_distinct :
  forall (t t' : string) (k k1 k2 : nat),
    t = t' \/ (ends_nondigit t = true /\ ends_nondigit t' = true) ->
    k1 < k -> k <= k2 -> gen_name t k1 <> gen_name t' k2.
Proof. exact fresh_old_new_distinct. Qed.
Print Assumptions C20_fresh_old_new_distinct.

(* a second analysis in the same process never reuses a name of the first *)
Theorem C20_fresh_runs_disjoint :
  forall (ts1 ts2 : list string) (k0 : nat) (nm : string),
    Forall (fun t => ends_nondigit t = true) (ts1 ++ ts2) ->
    In nm (names_from ts1 k0) -> In nm (names_from ts2 (counter_after ts1 k0)) -> False.
Proof. exact fresh_runs_disjoint. Qed.
Print Assumptions C20_fresh_runs_disjoint.

(* with a digit-ending tag (not used by /repo) one run can return the same name twice *)
Theorem C20_fresh_digit_tag_refuted :
  exists (tags : list string) (k0 : nat), ~ NoDup (names_from tags k0).
Proof. exact fresh_digit_tag_refuted. Qed.
Print Assumptions C20_fresh_digit_tag_refuted.

(* a start value larger by d = the names renamed by "add d to the counter part" *)
Theorem C20_counter_shift_alpha :
  forall (tags : list string) (k0 d : nat),
    Forall (fun t => ends_nondigit t = true) tags ->
    names_from tags (k0 + d) = map (cshift d) (names_from tags k0).
Proof. exact counter_shift_alpha_canon. Qed.
Print Assumptions C20_counter_shift_alpha.

Theorem C20_cshift_gen :
  forall (d : nat) (t : string) (k : nat),
    ends_nondigit t = true -> cshift d (gen_name t k) = gen_name t (k + d).
Proof. exact cshift_gen. Qed.
Print Assumptions C20_cshift_gen.

(* and that renaming is injective on ALL strings *)
Theorem C20_cshift_injective :
  forall (d : nat) (s1 s2 : string), cshift d s1 = cshift d s2 -> s1 = s2.
Proof. exact cshift_injective. Qed.
Print Assumptions C20_cshift_injective.

(* the same on (tag, counter) pairs, for all tags *)
Theorem C20_counter_shift_alpha_pairs :
  forall (tags : list string) (k0 d : nat),
    names_from tags (k0 + d)
    = map (fun p => gen_name (fst p) (snd p)) (map (fun p => (fst p, snd p + d)) (pnames_from tags k0)).
Proof. exact counter_shift_alpha_pairs. Qed.
Print Assumptions C20_counter_shift_alpha_pairs.

(* semantic alpha-invariance of flat programs under any injective variable renaming: every
   n, every pair of start states / observables that correspond through rho *)
Theorem C20_frun_alpha_invariant :
  forall (law : string -> list Qc -> dist Qc) (rho : var -> var),
    (forall x y : var, rho x = rho y -> x = y) ->
    forall (fp : flatprog) (n : nat) (s' s : state) (g' g : state -> Qc),
      (forall x, s' (rho x) = s x) ->
      (forall t' t : state, (forall x, t' (rho x) = t x) -> g' t' = g t) ->
      E (frun law (rename_fp rho fp) n s') g' = E (frun law fp n s) g.
Proof. exact frun_alpha_invariant. Qed.
Print Assumptions C20_frun_alpha_invariant.

Theorem C20_frun_alpha_pullback :
  forall (law : string -> list Qc -> dist Qc) (rho : var -> var),
    (forall x y : var, rho x = rho y -> x = y) ->
    forall (fp : flatprog) (n : nat) (s' : state) (g : state -> Qc),
      (forall s1 s2 : state, (forall x, s1 x = s2 x) -> g s1 = g s2) ->
      E (frun law (rename_fp rho fp) n s') (fun t => g (fun x => t (rho x)))
      = E (frun law fp n (fun x => s' (rho x))) g.
Proof. exact frun_alpha_pullback. Qed.
Print Assumptions C20_frun_alpha_pullback.

(* instance: the counter shift.  (That Polar's transformers started at counter k0 + d emit
   [rename_fp (cshift d)] of what they emit at k0 is NOT proved here: it is checked on the
   real implementation by the harness.) *)
Theorem C20_counter_shift_semantic :
  forall (law : string -> list Qc -> dist Qc) (d : nat) (fp : flatprog) (n : nat)
         (s' : state) (g : state -> Qc),
    (forall s1 s2 : state, (forall x, s1 x = s2 x) -> g s1 = g s2) ->
    E (frun law (rename_fp (cshift d) fp) n s') (fun t => g (fun x => t (cshift d x)))
    = E (frun law fp n (fun x => s' (cshift d x))) g.
Proof. exact counter_shift_semantic. Qed.
Print Assumptions C20_counter_shift_semantic.

(* ---- the two name generators share one name space ---- *)
From Polar Require Import HistoryCollide.

(* OLD RULE (before /repo e4a742c): MultiAssignTransformer's version names "_"+var+str i ARE
   counter names; "version names never equal counter names" was false ... *)
Theorem C20_multiassign_collision_old_rule_refuted :
  ~ (forall var i tag k, In tag polar_tags -> ma_name var i <> gen_name tag k).
Proof. exact multiassign_collision_refuted. Qed.
Print Assumptions C20_multiassign_collision_old_rule_refuted.

(* ... precisely for tag-named variables, at one value of the counter ... *)
Theorem C20_multiassign_collision_iff :
  forall var i tag k, ends_nondigit var = true -> ends_nondigit tag = true ->
    (ma_name var i = gen_name tag k <-> var = tag /\ i = k).
Proof. exact multiassign_collision_iff. Qed.
Print Assumptions C20_multiassign_collision_iff.

(* ... so whether it happened depended on how many names earlier analyses consumed *)
Theorem C20_multiassign_collision_depends_on_history :
  forall var i j k0 k0', ends_nondigit var = true ->
    ma_name var i = gen_name var (k0 + j) -> ma_name var i = gen_name var (k0' + j) -> k0 = k0'.
Proof. exact multiassign_collision_depends_on_history. Qed.
Print Assumptions C20_multiassign_collision_depends_on_history.

(* RULE AS COMMITTED (156ba8a, e4a742c, 221667c): a version name is prefixed with "_" until it is neither an
   identifier of the program text nor an existing variable: it never equals one of those ... *)
Theorem C20_version_name_avoids_existing :
  forall avoid var i, ~ In (version_name avoid var i) avoid.
Proof. exact version_name_avoids. Qed.
Print Assumptions C20_version_name_avoids_existing.

(* ... get_unique_var skips reserved names and always advances the counter ... *)
Theorem C20_unique_var_avoids_reserved :
  forall reserved tag k,
    ~ In (fst (unique_var reserved (List.length reserved) tag k)) reserved /\
    k < snd (unique_var reserved (List.length reserved) tag k).
Proof. exact unique_var_avoids. Qed.
Print Assumptions C20_unique_var_avoids_reserved.

(* OLD RULE (e4a742c, before 221667c): version names were not registered: a name handed out LATER
   (ConditionsReducer's _r<k>, ...) could equal a version name, at one counter value (found by this check) *)
Theorem C20_version_then_counter_collision_old_rule_refuted :
  ~ (forall avoid reserved var i tag k,
       (forall x, In x reserved -> In x avoid) ->
       fst (unique_var reserved (List.length reserved) tag k) <> version_name avoid var i).
Proof. exact version_then_counter_collision_old_rule_refuted. Qed.
Print Assumptions C20_version_then_counter_collision_old_rule_refuted.

(* rule since 221667c: every version name is registered as reserved; then no later name equals it *)
Theorem C20_reserved_versions_never_collide :
  forall avoid reserved var i tag k,
    In (version_name avoid var i) reserved ->
    fst (unique_var reserved (List.length reserved) tag k) <> version_name avoid var i.
Proof. exact reserved_versions_never_collide. Qed.
Print Assumptions C20_reserved_versions_never_collide.

(* the transformer step as committed: the picked name is fresh for the program AND for every later get_unique_var *)
Theorem C20_later_names_avoid_versions :
  forall avoid reserved var i tag k,
  let '(nm, reserved') := register_version avoid reserved var i in
  fst (unique_var reserved' (List.length reserved') tag k) <> nm /\ ~ In nm avoid.
Proof. exact later_names_avoid_versions. Qed.
Print Assumptions C20_later_names_avoid_versions.

(* alternative repair (not taken): the spelling "_<var>_<i>" is never a counter name of one of Polar's tags *)
Theorem C20_multiassign_fixed_never_collides :
  forall var i tag k, In tag polar_tags -> ma_name_fixed var i <> gen_name tag k.
Proof. exact multiassign_fixed_never_collides_polar. Qed.
Print Assumptions C20_multiassign_fixed_never_collides.

(* ================= non-vacuity (tests by vm_compute, not theorems) ================= *)

Definition ex_A : list (list Qc_cring) :=
  [[mkq 1 2; mkq 1 1; mkq 0 1]; [mkq 0 1; mkq 2 1; mkq 1 3]; [mkq 0 1; mkq 0 1; mkq 1 1]].
Definition ex_v : list Qc_cring := [mkq 6 1; mkq (-1) 1; mkq 1 1].
Definition ex_sigma : list nat := [2; 0; 1].

Example C20_nonvacuous_perm_hyps :
  is_permb ex_sigma 3 = true
  /\ length ex_A = 3 /\ forallb (fun r => length r =? 3) ex_A = true /\ length ex_v = 3.
Proof. vm_compute. repeat split. Qed.

(* the permutation is not the identity and moves the data *)
Example C20_nonvacuous_perm_moves :
  vec_eqb (permute ex_sigma ex_v) ex_v = false
  /\ vec_eqb (permute ex_sigma ex_v) [mkq 1 1; mkq 6 1; mkq (-1) 1] = true.
Proof. vm_compute. split; reflexivity. Qed.

Example C20_nonvacuous_perm_iter :
  vec_eqb (iter_mat (pmat ex_sigma ex_A) 5 (permute ex_sigma ex_v))
          (permute ex_sigma (iter_mat ex_A 5 ex_v)) = true
  /\ vec_eqb (iter_mat (pmat ex_sigma ex_A) 5 (permute ex_sigma ex_v)) (iter_mat ex_A 5 ex_v) = false.
Proof. vm_compute. split; reflexivity. Qed.

(* a memo run with a hit, a miss, a truncation to one entry, and a pre-filled table *)
Example C20_nonvacuous_memo :
  run Nat.eqb (fun x => x * x) [(7, 49)] [Call 3; Call 7; Call 3; Replace [(3, 9)]; Call 7; Call 3]
  = ([9; 49; 9; 49; 9], [(7, 49); (3, 9)]).
Proof. vm_compute. reflexivity. Qed.

Example C20_nonvacuous_memo_hit :
  snd (memo_call Nat.eqb (fun x => x * x) [(3, 9)] 3) = [(3, 9)]
  /\ snd (memo_call Nat.eqb (fun x => x * x) [] 3) = [(3, 9)].
Proof. vm_compute. split; reflexivity. Qed.

Example C20_nonvacuous_names :
  names_from ["t"; "old"; "u"]%string 0 = ["_t0"; "_old1"; "_u2"]%string
  /\ gen_name "old" 12 = "_old12"%string
  /\ parse_name "_old12" = Some ("old"%string, 12)
  /\ names_from ["t"; "old"; "u"]%string 10 = map (cshift 10) ["_t0"; "_old1"; "_u2"]%string
  /\ cshift 10 "x"%string = "x"%string /\ cshift 3 "_t007"%string = "_t007"%string
  /\ forallb digit_free polar_tags = true.
Proof. vm_compute. repeat split. Qed.

Example C20_nonvacuous_collision :
  ma_name "t" 1 = gen_name "t" 1 /\ ma_name "t" 1 = "_t1"%string /\ ma_name_fixed "t" 1 = "_t_1"%string
  /\ nth 1 (names_from ["t"; "t"]%string 0) ""%string = ma_name "t" 1
  /\ In (ma_name "t" 1) (names_from ["t"; "t"]%string 2) = In "_t1"%string ["_t2"; "_t3"]%string.
Proof. vm_compute. repeat split. Qed.

(* the committed rule on the two witnesses: t (fixed: the temporary _t1 exists, so the version becomes __t1) and
   r (open: the version _r1 is picked first, the alias _r1 is handed out later) *)
Example C20_nonvacuous_version_rule :
  version_name ["t"; "x"; "y"; "_t0"; "_t1"]%string "t" 1 = "__t1"%string
  /\ version_name ["r"; "f"; "g"; "x"; "_old0"]%string "r" 1 = "_r1"%string
  /\ unique_var ["r"; "f"; "g"; "x"]%string 4 "r" 1 = ("_r1"%string, 2)
  /\ unique_var ["r"; "f"; "g"; "x"; "_r1"]%string 5 "r" 1 = ("_r2"%string, 3).
Proof. vm_compute. repeat split. Qed.

Example C20_nonvacuous_or_chain :
  holds (or_chain "x"%string [mkq 1 1; mkq 2 1; mkq 5 1]) (upd st0 "x"%string (mkq 5 1)) = true
  /\ holds (or_chain "x"%string [mkq 5 1; mkq 1 1; mkq 2 1]) (upd st0 "x"%string (mkq 5 1)) = true
  /\ holds (or_chain "x"%string [mkq 5 1; mkq 1 1; mkq 2 1]) (upd st0 "x"%string (mkq 3 1)) = false.
Proof. vm_compute. repeat split. Qed.
