(* C02 — pass ConditionsNormalizer (program/transformer/conditions_normalizer.py,
   Atom/And/Or/Not.get_normalized, utils/conditions.get_valid_values).
   Model: PassCondNorm.cn_pass (None = outside the model: the Bernoulli abstraction of atoms
   over variables without a finite type, and non-reduced atoms, which Polar refuses).
   Tie: harness/pass_condnorm.py evaluates the model on Polar's snapshot after TypeInferer
   (with the inferred types) and compares with the snapshot after ConditionsNormalizer. *)
From Coq Require Import List String QArith Qcanon ZArith Bool Permutation.
From Polar Require Import Qcx Dist Syntax Sem Types PassCondNorm.
Import ListNotations.
Open Scope string_scope.

(* pointwise: on every typed state the normalised condition has the same truth value *)
Theorem C02_cn_cond_sound :
  forall (T : tenv) (c c' : cond) (s : state),
    typed T s -> cn_cond T c = Some c' -> holds c' s = holds c s.
Proof. exact cn_cond_sound. Qed.
Print Assumptions C02_cn_cond_sound.

(* the truth value of an Or-chain depends only on the SET of its values: Python's set pop /
   iteration order (and hash seed) cannot change the meaning *)
Theorem C02_or_chain_order_irrelevant :
  forall (x : var) (vs vs' : list Qc),
    (forall v, In v vs <-> In v vs') ->
    forall s : state, holds (or_chain x vs) s = holds (or_chain x vs') s.
Proof. exact or_chain_order_irrelevant. Qed.
Print Assumptions C02_or_chain_order_irrelevant.

Theorem C02_or_chain_perm :
  forall (x : var) (vs vs' : list Qc),
    Permutation vs vs' -> forall s : state, holds (or_chain x vs) s = holds (or_chain x vs') s.
Proof. exact or_chain_perm. Qed.
Print Assumptions C02_or_chain_perm.

(* the output is in the normal form the later stages rely on (only  x == c  atoms) *)
Theorem C02_cn_cond_normal :
  forall (T : tenv) (c c' : cond), cn_cond T c = Some c' -> is_normal c' = true.
Proof. exact cn_cond_normal. Qed.
Print Assumptions C02_cn_cond_normal.

(* program level: for a flat program whose types are validated by the C05 validator
   (Types.check_types: every reachable state, at every program point, is typed), the
   normalised program has the same law at every iteration boundary for EVERY function of
   the state, from every admissible start state, for every law of the continuous families *)
Theorem C02_cn_pass_preserves :
  forall (law : string -> list Qc -> dist Qc) (T : tenv) (fp fp' : flatprog),
    cn_pass T fp = Some fp' -> check_types fp T = true ->
    forall s0 : state, init_ok fp T s0 ->
    forall (n : nat) (f : state -> Qc), E (frun law fp' n s0) f = E (frun law fp n s0) f.
Proof. exact cn_pass_preserves. Qed.
Print Assumptions C02_cn_pass_preserves.

(* ---- non-vacuity ---- *)
Definition qc (z : Z) : expr := EConst (mkq z 1).
Definition T0 : tenv := [("x", [mkq 0 1; mkq 1 1; mkq 2 1; mkq 3 1]); ("b", [mkq 0 1; mkq 1 1])].
Definition T1 : tenv := [("x", [mkq 0 1; mkq 1 1; mkq 2 1]); ("b", [mkq 0 1; mkq 1 1])].

Example cn_le : cn_cond T0 (CAtom (EVar "x") Cle (qc 1))
                = Some (COr (eq_atom "x" (mkq 0 1)) (eq_atom "x" (mkq 1 1))).
Proof. vm_compute. reflexivity. Qed.
Example cn_lt : cn_cond T0 (CAtom (EVar "x") Clt (qc 1)) = Some (eq_atom "x" (mkq 0 1)).
Proof. vm_compute. reflexivity. Qed.
Example cn_gt_none : cn_cond T0 (CAtom (EVar "x") Cgt (qc 3)) = Some CFalse.
Proof. vm_compute. reflexivity. Qed.
Example cn_ge3 : cn_cond T0 (CAtom (EVar "x") Cge (qc 1))
                 = Some (COr (COr (eq_atom "x" (mkq 1 1)) (eq_atom "x" (mkq 2 1))) (eq_atom "x" (mkq 3 1))).
Proof. vm_compute. reflexivity. Qed.
Example cn_nested :
  cn_cond T0 (CAnd (CNot (CAtom (EVar "x") Cgt (qc 0))) (COr (CAtom (EVar "b") Ceq (qc 1)) CTrue))
  = Some (CAnd (CNot (COr (COr (eq_atom "x" (mkq 1 1)) (eq_atom "x" (mkq 2 1))) (eq_atom "x" (mkq 3 1))))
               (COr (eq_atom "b" (mkq 1 1)) CTrue)).
Proof. vm_compute. reflexivity. Qed.
(* outside the model: untyped variable (Bernoulli abstraction), non-reduced atom *)
Example cn_untyped : cn_cond T0 (CAtom (EVar "z") Cle (qc 1)) = None.
Proof. vm_compute. reflexivity. Qed.
Example cn_not_reduced : cn_cond T0 (CAtom (EAdd (EVar "x") (EVar "b")) Cle (qc 1)) = None.
Proof. vm_compute. reflexivity. Qed.

(* a program on which all hypotheses of the program-level theorem hold and the pass changes
   the conditions:  x = 1; b = 1; while true: b = Bernoulli(1/2); x = 0 {1/2} 2 | x <= 1 && b >= 1 : x *)
Definition demo : flatprog :=
  {| fp_init := [{| ga_var := "x"; ga_cond := CTrue; ga_default := "x"; ga_rhs := RDet (qc 1) |};
                 {| ga_var := "b"; ga_cond := CTrue; ga_default := "b"; ga_rhs := RDet (qc 1) |}];
     fp_body := [{| ga_var := "b"; ga_cond := CTrue; ga_default := "b"; ga_rhs := RDraw (DBern (EConst (mkq 1 2))) |};
                 {| ga_var := "x"; ga_cond := CAnd (CAtom (EVar "x") Cle (qc 1)) (CAtom (EVar "b") Cge (qc 1));
                    ga_default := "x"; ga_rhs := RChoice [(EConst (mkq 1 2), qc 0); (EConst (mkq 1 2), qc 2)] |}] |}.
Example demo_types_ok : check_types demo T1 = true.
Proof. vm_compute. reflexivity. Qed.
Example demo_init_ok : init_ok demo T1 st0.
Proof. intros x vs H. vm_compute in H. discriminate H. Qed.
Example demo_pass :
  option_map (fun fp' => map ga_cond (fp_body fp')) (cn_pass T1 demo)
  = Some [CTrue; CAnd (COr (eq_atom "x" (mkq 0 1)) (eq_atom "x" (mkq 1 1))) (eq_atom "b" (mkq 1 1))].
Proof. vm_compute. reflexivity. Qed.
(* the comparison used by the correspondence check identifies chains with permuted values
   and distinguishes chains with different value sets *)
(* both sides of the theorem on this program (a test): the law of (x, b) is not trivial *)
Definition ex (fp : flatprog) (n : nat) : Z * Z :=
  let q := E (frun no_law fp n st0) (fun s => s "x") in (qnum q, Zpos (qden q)).
Example demo_values :
  match cn_pass T1 demo with
  | Some fp' => (map (ex fp') [0; 1; 2]%nat, map (ex demo) [0; 1; 2]%nat)
  | None => ([], [])
  end = ([(1, 1); (1, 1); (9, 8)], [(1, 1); (1, 1); (9, 8)])%Z.
Proof. vm_compute. reflexivity. Qed.
Example eq_mod_perm :
  cond_eq_mod (or_chain "x" [mkq 0 1; mkq 1 1; mkq 2 1]) (or_chain "x" [mkq 2 1; mkq 0 1; mkq 1 1]) = true.
Proof. vm_compute. reflexivity. Qed.
Example eq_mod_drop :
  cond_eq_mod (or_chain "x" [mkq 0 1; mkq 1 1; mkq 2 1]) (or_chain "x" [mkq 0 1; mkq 1 1]) = false.
Proof. vm_compute. reflexivity. Qed.
