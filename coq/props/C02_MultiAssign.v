(* C02 — MultiAssignTransformer preserves the distribution over the source variables. *)
From Coq Require Import List String QArith Qcanon ZArith Bool.
From Polar Require Import Qcx Dist Syntax Sem PassFlat PassMultiAssign.
Import ListNotations.
Open Scope string_scope.

(* One execution of the loop body.  For EVERY flat body l whose generated version names
   (ma_gen l = all "_<x><i>", 1 <= i < number of assignments to x) are fresh and pairwise
   distinct across variables (wf_ma, a boolean), every pair of states that agree outside
   these names — the versions may hold ARBITRARY values at the start of the iteration — and
   every observation f that does not read them: the transformed body gives f the same
   expectation as the source body. *)
Theorem C02_multi_assign_step :
  forall (law : string -> list Qc -> dist Qc) (l : list gassign),
    wf_ma l = true ->
    forall (s s' : state) (f : state -> Qc),
      (forall x, ~ In x (ma_gen l) -> s' x = s x) ->
      (forall t t', (forall x, ~ In x (ma_gen l) -> t' x = t x) -> f t' = f t) ->
      E (exec_gas law (multi_assign l) s') f = E (exec_gas law l s) f.
Proof. exact multi_assign_step. Qed.
Print Assumptions C02_multi_assign_step.

(* All iterations: the pass (which rewrites the loop body only) preserves the expectation of
   every such observation after every number n of iterations, the versions being arbitrary
   in the start state. *)
Theorem C02_multi_assign_preserves :
  forall (law : string -> list Qc -> dist Qc) (fp : flatprog),
    wf_ma_prog fp = true ->
    forall (n : nat) (s0 s0' : state) (f : state -> Qc),
      (forall x, ~ In x (ma_gen (fp_body fp)) -> s0' x = s0 x) ->
      (forall t t', (forall x, ~ In x (ma_gen (fp_body fp)) -> t' x = t x) -> f t' = f t) ->
      E (frun law (ma_prog fp) n s0') f = E (frun law fp n s0) f.
Proof. exact multi_assign_preserves. Qed.
Print Assumptions C02_multi_assign_preserves.

(* non-vacuity: x = Bernoulli(1/2); z = 1 - z | x > z : z; x = x*y; x = 1 - x *)
Definition ex_body : list gassign :=
  [ {| ga_var := "x"; ga_cond := CTrue; ga_default := "x"; ga_rhs := RDraw (DBern (EConst (mkq 1 2))) |};
    {| ga_var := "z"; ga_cond := CAtom (EVar "x") Cgt (EVar "z"); ga_default := "z";
       ga_rhs := RDet (EAdd (EConst (mkq 1 1)) (EMul (EConst (mkq (-1) 1)) (EVar "z"))) |};
    {| ga_var := "x"; ga_cond := CTrue; ga_default := "x"; ga_rhs := RDet (EMul (EVar "x") (EVar "y")) |};
    {| ga_var := "x"; ga_cond := CTrue; ga_default := "x";
       ga_rhs := RDet (EAdd (EConst (mkq 1 1)) (EMul (EConst (mkq (-1) 1)) (EVar "x"))) |} ].
Definition ex_out : list gassign :=
  [ {| ga_var := "_x1"; ga_cond := CTrue; ga_default := "x"; ga_rhs := RDraw (DBern (EConst (mkq 1 2))) |};
    {| ga_var := "z"; ga_cond := CAtom (EVar "_x1") Cgt (EVar "z"); ga_default := "z";
       ga_rhs := RDet (EAdd (EConst (mkq 1 1)) (EMul (EConst (mkq (-1) 1)) (EVar "z"))) |};
    {| ga_var := "_x2"; ga_cond := CTrue; ga_default := "_x1"; ga_rhs := RDet (EMul (EVar "_x1") (EVar "y")) |};
    {| ga_var := "x"; ga_cond := CTrue; ga_default := "_x2";
       ga_rhs := RDet (EAdd (EConst (mkq 1 1)) (EMul (EConst (mkq (-1) 1)) (EVar "_x2"))) |} ].
Example C02_multi_assign_nonvacuous :
  multi_assign ex_body = ex_out /\ ma_gen ex_body = ["_x1"; "_x2"]
  /\ wf_ma_prog {| fp_init := []; fp_body := ex_body |} = true.
Proof. vm_compute. repeat split; reflexivity. Qed.

(* The hypothesis wf_ma cannot be dropped: a body that uses a variable named `_x1` (accepted
   by Polar's grammar) is transformed into one with a different law of x, from the same
   state.  The correspondence module replays this input on the real pass (capture probe). *)
Theorem C02_multi_assign_needs_wf :
  wf_ma ma_capture_body = false /\
  E (exec_gas no_law (multi_assign ma_capture_body) ma_capture_state) (fun s => s "x")
  <> E (exec_gas no_law ma_capture_body ma_capture_state) (fun s => s "x").
Proof. exact multi_assign_needs_wf. Qed.
Print Assumptions C02_multi_assign_needs_wf.
