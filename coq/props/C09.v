(* C09 — moments after termination equal the expectation at loop exit. *)
From Coq Require Import List String QArith Qcanon ZArith Bool Reals.
From Coquelicot Require Import Coquelicot.
From Polar Require Import Qcx CRing ExpPoly ClosedForm Dist Syntax Sem Types Poly Pipeline Wp Search AfterLoop AfterLoopLimit.
Import ListNotations.
Open Scope string_scope.

(* ---- the reference semantics: a stopped loop stays stopped, in its exit state ---- *)

(* guard false => the iteration does nothing (all programs, all states) *)
Theorem C09_frozen_after_exit :
  forall law p s, holds (p_guard p) s = false -> iter law p s = ret s.
Proof. exact frozen_after_exit. Qed.
Print Assumptions C09_frozen_after_exit.

(* ... for any number of further iterations, every expectation from a stopped state is the
   value at that state *)
Theorem C09_iters_stopped :
  forall law p m s (f : state -> Qc), stopped p s = true -> E (iters law p m s) f = f s.
Proof. exact iters_stopped. Qed.
Print Assumptions C09_iters_stopped.

(* one-step decomposition of the law after n+1 iterations *)
Theorem C09_run_step_split :
  forall law p n s0 (g : state -> Qc),
    E (run law p (S n) s0) g =
    E (run law p n s0) (fun s => if stopped p s then g s else E (exec_block law (p_body p) s) g).
Proof. exact run_step_split. Qed.
Print Assumptions C09_run_step_split.

(* the paths that have stopped by time n contribute to the law at ANY later time n+m exactly
   their exit state: "stopped by n" is decided by the guard in the state after n iterations,
   the guard cannot become true again and the state no longer changes *)
Theorem C09_exit_state_preserved :
  forall law p n m s0 (f : state -> Qc),
    E (run law p (n + m) s0) f =
    E (run law p n s0) (fun s => if stopped p s then f s else E (iters law p m s) f).
Proof. exact exit_state_preserved. Qed.
Print Assumptions C09_exit_state_preserved.

Theorem C09_stopped_stays_stopped :
  forall law p n m s0 (h : state -> Qc),
    E (run law p (n + m) s0) (fun s => ind (stopped p s) * h s)%Qc =
    (E (run law p n s0) (fun s => ind (stopped p s) * h s)
     + E (run law p n s0) (fun s => if stopped p s then 0
                                    else E (iters law p m s) (fun s' => ind (stopped p s') * h s')))%Qc.
Proof. exact stopped_stays_stopped. Qed.
Print Assumptions C09_stopped_stays_stopped.

(* for probability programs the probability of having stopped is monotone in n *)
Theorem C09_stopped_mass_monotone :
  forall law p s0, prob_prog law p s0 ->
  forall n m, (prob (run law p n s0) (stopped p) <= prob (run law p (n + m) s0) (stopped p))%Qc.
Proof. exact stopped_mass_monotone. Qed.
Print Assumptions C09_stopped_mass_monotone.

(* the (n+1)-th guard test fails iff the guard is false after n iterations, and then the state
   after n+1 iterations is the exit state: conditioning the state after n+1 iterations on
   "the (n+1)-th test failed" is conditioning the state after n iterations on "guard false" *)
Theorem C09_cond_exit_test_shift :
  forall law p n s0 (f : state -> Qc),
    cond_exp (run2 law p n s0) (fun ss => stopped p (fst ss)) (fun ss => f (snd ss)) =
    cond_exp (run law p n s0) (stopped p) f.
Proof. exact cond_exit_test_shift. Qed.
Print Assumptions C09_cond_exit_test_shift.

(* ---- the ratio IS the conditional expectation ---- *)
(* cond_exp d ev f = E[f 1_ev] / P(ev) is the expectation of f under the conditional law
   (restriction of d to ev, renormalised), which has mass 1 and lives on ev *)
Theorem C09_cond_exp_is_conditional :
  forall (A : Type) (d : dist A) (ev : A -> bool), prob d ev <> 0%Qc ->
    (forall f, E (condition ev d) f = cond_exp d ev f) /\
    mass (condition ev d) = 1%Qc /\
    (forall a, supp (condition ev d) a -> ev a = true /\ supp d a).
Proof. exact @cond_exp_is_conditional. Qed.
Print Assumptions C09_cond_exp_is_conditional.

(* ---- what get_moment_given_termination computes (all flat programs, all polynomials, all n) ---- *)
(* get_moment_poly: linearity over the monomials of the expanded polynomial *)
Theorem C09_moment_poly_linear :
  forall d p, moment_poly d p = E d (eval_poly p).
Proof. exact moment_poly_linear. Qed.
Print Assumptions C09_moment_poly_linear.

(* the indicator polynomial Not(G').to_arithm turns moments into moments on the event *)
Theorem C09_cond_moment_exact :
  forall law fp T G' q M,
    check_types fp T = true -> forall s0, init_ok fp T s0 -> arith T (CNot G') = Some q ->
    forall n, let d := frun law fp n s0 in
      (moment_poly d (pmul M q) / moment_poly d q)%Qc =
      cond_exp d (fun s => negb (holds G' s)) (eval_poly M).
Proof. exact cond_moment_exact. Qed.
Print Assumptions C09_cond_moment_exact.

(* V: acceptance of Polar's numerator / denominator closed forms (with the systems they were
   obtained from) means they are E[M 1_{not G'}]_n and P(not G')_n at EVERY n *)
Theorem C09_check_exit_sound :
  forall law cmom fp T G' M Ss c0N tsN fN spN c0D tsD fD spD,
    cmom_ok law cmom ->
    check_exit cmom fp T G' M Ss c0N tsN fN spN c0D tsD fD spD = true ->
    forall s0, init_ok fp T s0 -> forall n,
      let d := frun law fp n s0 in
      pw1 fN spN n = E d (fun s => ind (negb (holds G' s)) * eval_poly M s)%Qc /\
      pw1 fD spD n = prob d (fun s => negb (holds G' s)) /\
      (pw1 fN spN n / pw1 fD spD n)%Qc = cond_exp d (fun s => negb (holds G' s)) (eval_poly M).
Proof. exact check_exit_sound. Qed.
Print Assumptions C09_check_exit_sound.

(* the same validator evaluated in two pieces (program-wide part once, goal part per goal) *)
Theorem C09_check_exit_split_sound :
  forall law cmom fp T G' M Ss c0N tsN fN spN c0D tsD fD spD,
    cmom_ok law cmom ->
    check_base cmom fp T Ss = true -> check_part T G' M Ss c0N tsN fN spN c0D tsD fD spD = true ->
    forall s0, init_ok fp T s0 -> forall n,
      let d := frun law fp n s0 in
      pw1 fN spN n = E d (fun s => ind (negb (holds G' s)) * eval_poly M s)%Qc /\
      pw1 fD spD n = prob d (fun s => negb (holds G' s)) /\
      (pw1 fN spN n / pw1 fD spD n)%Qc = cond_exp d (fun s => negb (holds G' s)) (eval_poly M).
Proof. exact check_exit_split_sound. Qed.
Print Assumptions C09_check_exit_split_sound.

(* ---- the guard Polar stores ---- *)
(* current rule (/repo 294789f): the stored guard is the source guard, so the event conditioned
   on is the termination event *)
Theorem C09_stored_guard_is_termination_event :
  forall p s, negb (holds (stored_guard p) s) = stopped p s.
Proof. exact stored_guard_is_termination_event. Qed.
Print Assumptions C09_stored_guard_is_termination_event.

(* OLD rule (guard merged with collapsed first-level if-conditions): right without a collapse ... *)
Theorem C09_stored_guard_old_collapse_free :
  forall fuel p s, collapse_free fuel p -> holds (stored_guard_old fuel p) s = holds (p_guard p) s.
Proof. exact stored_guard_old_collapse_free. Qed.
Print Assumptions C09_stored_guard_old_collapse_free.

(* ... in general only implied by the source guard: the event conditioned on contained the termination event *)
Theorem C09_stored_guard_old_weaker :
  forall fuel p s, stopped p s = true -> negb (holds (stored_guard_old fuel p) s) = true.
Proof. exact stored_guard_old_weaker. Qed.
Print Assumptions C09_stored_guard_old_weaker.

(* the OLD rule REFUTED (defect fixed in /repo 294789f; the check reports the witness again if it returns): for
     x = 0; c = Bernoulli(1/2); while x == 0: if c == 1: x = Bernoulli(1/2) end end
   the old stored guard is  x == 0 /\ c == 1; the exit expectation of x given termination is 1 at
   every n >= 1 of the sample, conditioning on the negated old stored guard gives
   0, 1/3, 3/7, 7/15, 15/31, 31/63 (-> 1/2, the value Polar printed) *)
Theorem C09_collapse_guard_old_rule_refuted :
  exists (p : prog) (f : state -> Qc) (n : nat),
    stored_guard_old 2 p <> p_guard p /\
    prob (run no_law p n st0) (stopped p) <> 0%Qc /\
    cond_exp (run no_law p n st0) (stopped p) f <>
    cond_exp (run no_law p n st0) (fun s => negb (holds (stored_guard_old 2 p) s)) f.
Proof. exact collapse_guard_old_rule_refuted. Qed.
Print Assumptions C09_collapse_guard_old_rule_refuted.

Example C09_collapse_witness_values :
  map (fun n => qpair (cond_x_given (stopped collapse_witness) n)) [1; 2; 3; 4; 5; 6]%nat
    = map (fun zp : Z * positive => zp) [(1%Z, 1%positive); (1%Z, 1%positive); (1%Z, 1%positive); (1%Z, 1%positive); (1%Z, 1%positive); (1%Z, 1%positive)] /\
  map (fun n => qpair (cond_x_given (fun s => negb (holds (stored_guard_old 2 collapse_witness) s)) n)) [0; 1; 2; 3; 4; 5]%nat
    = [(0%Z, 1%positive); (1%Z, 3%positive); (3%Z, 7%positive); (7%Z, 15%positive); (15%Z, 31%positive); (31%Z, 63%positive)].
Proof. vm_compute. split; reflexivity. Qed.

(* ---- the limit ---- *)
Local Open Scope R_scope.
Theorem C09_geom_limit :
  forall (num den : nat -> R) a c ln ld,
    (forall n, num n = a + gsum ln n) -> (forall n, den n = c + gsum ld n) ->
    List.Forall (fun br => Rabs (snd br) < 1) ln -> List.Forall (fun br => Rabs (snd br) < 1) ld ->
    c <> 0 -> is_lim_seq (fun n => num n / den n) (a / c).
Proof. exact geom_limit. Qed.
Print Assumptions C09_geom_limit.

Theorem C09_poly_geom_decay :
  forall r k, Rabs r < 1 -> is_lim_seq (fun n => INR n ^ k * r ^ n) 0.
Proof. exact poly_geom_decay. Qed.
Print Assumptions C09_poly_geom_decay.

(* V for the limit: numerator and denominator closed forms that are a constant plus terms
   r^n P(n) with |r| < 1, constant of the denominator non-zero: the sequence of ratios (with
   whatever special values) converges to the ratio of the constants *)
Theorem C09_limit_value_sound :
  forall fN spN fD spD L, limit_value fN fD = Some L ->
    is_lim_seq (fun n => QcR (pw1 fN spN n / pw1 fD spD n)%Qc) (QcR L).
Proof. exact limit_value_sound. Qed.
Print Assumptions C09_limit_value_sound.

Theorem C09_geom_diverges :
  forall (num den rest : nat -> R) b r (l c : R),
    (forall n, num n = b * r ^ n + rest n) -> 0 < b -> 1 < r -> is_lim_seq rest l ->
    is_lim_seq den c -> 0 < c -> is_lim_seq (fun n => num n / den n) p_infty.
Proof. exact geom_diverges. Qed.
Print Assumptions C09_geom_diverges.

Theorem C09_linear_diverges :
  forall (num den rest : nat -> R) b (l c : R),
    (forall n, num n = b * INR n + rest n) -> 0 < b -> is_lim_seq rest l ->
    is_lim_seq den c -> 0 < c -> is_lim_seq (fun n => num n / den n) p_infty.
Proof. exact linear_diverges. Qed.
Print Assumptions C09_linear_diverges.

(* non-vacuity of the limit validator: num = 2 - (n+2) 2^-n... as data:
   numerator 2 - 2*(1/2)^n - 2 n (1/2)^n, denominator 1 - 2 (1/2)^n  ->  2 *)
Example C09_limit_value_nonvacuous :
  limit_value [(mkq 1 1, [mkq 2 1]); (mkq 1 2, [mkq (-2) 1; mkq (-2) 1])]
              [(mkq 1 1, [mkq 1 1]); (mkq 1 2, [mkq (-2) 1])] = Some (mkq 2 1).
Proof. vm_compute. reflexivity. Qed.
