(* C04 — solved closed forms reproduce the linear recurrence sequence for all n.
   Only property theorems, each closed by [exact] and followed by Print Assumptions. *)
From Coq Require Import List QArith Qcanon.
From Polar Require Import Qcx CRing ExpPoly ClosedForm ClosedFormSeq.
Import ListNotations.

(* V: acceptance by the executable validator implies equality with A^n v at EVERY n,
   over every commutative ring (instantiated at Q and at towers Q(sqrt g1)...(sqrt gk)). *)
Theorem C04_check_solution_sound :
  forall (R : cring) (A : list (list R)) (v : list R) (F : list (epoly R)) (sp : list (list R)),
    check_solution A v F sp = true -> forall n : nat, pw_eval F sp n = iter_mat A n v.
Proof. exact check_solution_sound. Qed.
Print Assumptions C04_check_solution_sound.

(* two accepted closed forms for one system denote the same sequence (both solvers; C17) *)
Theorem C04_accepted_agree :
  forall (R : cring) A v (F : list (epoly R)) sp F' sp',
    check_solution A v F sp = true -> check_solution A v F' sp' = true ->
    forall n : nat, pw_eval F sp n = pw_eval F' sp' n.
Proof. exact accepted_agree. Qed.
Print Assumptions C04_accepted_agree.

(* the same statement against the recurrence itself rather than against [iter_mat]:
   an accepted closed form starts at the initial vector, obeys x(n+1) = A x(n) at every n,
   and equals EVERY sequence that does (uniqueness) *)
Theorem C04_accepted_starts_at_init :
  forall (R : cring) A v (F : list (epoly R)) sp,
    check_solution A v F sp = true -> pw_eval F sp 0 = v.
Proof. exact accepted_starts_at_init. Qed.
Print Assumptions C04_accepted_starts_at_init.

Theorem C04_accepted_satisfies_recurrence :
  forall (R : cring) A v (F : list (epoly R)) sp,
    check_solution A v F sp = true ->
    forall n : nat, pw_eval F sp (S n) = mvec A (pw_eval F sp n).
Proof. exact accepted_satisfies_recurrence. Qed.
Print Assumptions C04_accepted_satisfies_recurrence.

Theorem C04_accepted_is_the_recurrence_sequence :
  forall (R : cring) A v (F : list (epoly R)) sp,
    check_solution A v F sp = true ->
    forall x : nat -> list R,
      x 0%nat = v -> (forall n, x (S n) = mvec A (x n)) -> forall n : nat, pw_eval F sp n = x n.
Proof. exact accepted_is_the_recurrence_sequence. Qed.
Print Assumptions C04_accepted_is_the_recurrence_sequence.

(* from the cut-off on, the general expressions alone (no Piecewise) give the sequence *)
Theorem C04_general_part_from_cutoff :
  forall (R : cring) A v (F : list (epoly R)) sp,
    check_solution A v F sp = true ->
    forall n : nat, (length sp <= n)%nat -> evalF F n = iter_mat A n v.
Proof. exact general_part_from_cutoff. Qed.
Print Assumptions C04_general_part_from_cutoff.

(* the zero test behind it: a normalised-to-zero exponential polynomial vanishes everywhere *)
Theorem C04_ezero_sound :
  forall (R : cring) (f : epoly R), ezero f = true -> forall n : nat, eeval f n = r0.
Proof. exact ezero_sound. Qed.
Print Assumptions C04_ezero_sound.

(* non-vacuity: x(n+1) = x(n)/2 + 1, x(0) = 6 has closed form 6; 2 + 4/2^n *)
Example C04_nonvacuous_rational :
  check_solution (R := Qc_cring)
    [[mkq 1 2; mkq 1 1]; [mkq 0 1; mkq 1 1]] [mkq 6 1; mkq 1 1]
    [[(mkq 1 1, [mkq 2 1]); (mkq 1 2, [mkq 4 1])]; [(mkq 1 1, [mkq 1 1])]]
    [[mkq 6 1; mkq 1 1]] = true.
Proof. vm_compute. reflexivity. Qed.

(* non-vacuity over Q(sqrt 5): Fibonacci, x(n) = (phi^n - psi^n)/sqrt5 with one special case *)
Definition Q5 := quad_cring Qc_cring (mkq 5 1).
Example C04_nonvacuous_fibonacci :
  check_solution (R := Q5)
    [[(mkq 1 1, mkq 0 1); (mkq 1 1, mkq 0 1)]; [(mkq 1 1, mkq 0 1); (mkq 0 1, mkq 0 1)]]
    [(mkq 1 1, mkq 0 1); (mkq 0 1, mkq 0 1)]
    [ [((mkq 1 2, mkq 1 2), [(mkq 1 2, mkq 1 10)]); ((mkq 1 2, mkq (-1) 2), [(mkq 1 2, mkq (-1) 10)])];
      [((mkq 1 2, mkq 1 2), [(mkq 0 1, mkq 1 5)]); ((mkq 1 2, mkq (-1) 2), [(mkq 0 1, mkq (-1) 5)])] ]
    [[(mkq 1 1, mkq 0 1); (mkq 0 1, mkq 0 1)]] = true.
Proof. vm_compute. reflexivity. Qed.
