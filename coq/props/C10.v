(* C10 — reported sensitivities are the parameter derivatives of the exact moments.
   Only property theorems, each closed by [exact] and followed by Print Assumptions. *)
From Coq Require Import List Bool QArith Qcanon.
From Polar Require Import Qcx CRing ExpPoly ClosedForm Sens SensModel.
Import ListNotations.

(* the dual numbers R[eps]/(eps^2) over any commutative ring are a commutative ring with a
   sound equality test (a [cring]); eps^2 = 0 *)
Theorem C10_dual_numbers_ring :
  forall R : cring, ring_theory (R := dual_cring R) r0 r1 radd rmul rsub ropp eq
                    /\ rmul (c := dual_cring R) (r0, r1) (r0, r1) = r0.
Proof. intros R. split; [exact (dual_rth R) | exact (dual_eps_sq R)]. Qed.
Print Assumptions C10_dual_numbers_ring.

(* [pderiv] is the formal derivative: coefficient k of P' is (k+1) * coefficient k+1 of P *)
Theorem C10_pderiv_is_formal_derivative :
  forall (R : cring) (P : list R) (k : nat),
    nth k (pderiv P) r0 = rmul (radd (rnat k) r1) (nth (S k) P r0).
Proof. exact pderiv_coeff. Qed.
Print Assumptions C10_pderiv_is_formal_derivative.

(* ... and the derivative in the analytic sense: first-order Taylor expansion with a
   polynomial remainder, P(x+h) = P(x) + h P'(x) + h^2 T(x,h) *)
Theorem C10_pderiv_taylor :
  forall (R : cring) (P : list R) (x h : R),
    peval P (radd x h)
    = radd (radd (peval P x) (rmul h (peval (pderiv P) x))) (rmul (rmul h h) (ptay P x h)).
Proof. exact pderiv_taylor. Qed.
Print Assumptions C10_pderiv_taylor.

(* product rule in one line: a polynomial evaluated at x + eps is (P(x), P'(x)) *)
Theorem C10_eval_at_dual_number :
  forall (R : cring) (P : list R) (x : R),
    peval (R := dual_cring R) (map dinj P) (x, r1) = (peval P x, peval (pderiv P) x).
Proof. exact peval_dual. Qed.
Print Assumptions C10_eval_at_dual_number.

(* iterating a matrix of dual numbers A + eps A' from v + eps v' is, componentwise, iterating
   the block matrix [[A,0],[A',A]] from (v, v') — for every n *)
Theorem C10_dual_iteration_is_block_iteration :
  forall (R : cring) (A : list (list (dual_cring R))) (v : list (dual_cring R)) (k : nat),
    wfM k A -> length v = k -> forall n : nat,
    iter_mat (block (fstM R A) (sndM R A)) n (map fst v ++ map snd v)
    = map fst (iter_mat A n v) ++ map snd (iter_mat A n v).
Proof. exact iter_block. Qed.
Print Assumptions C10_dual_iteration_is_block_iteration.

(* [deriv_system]: for ALL k x k systems with entries polynomial in the parameter (over any
   commutative coefficient ring: the other parameters may stay symbolic), ALL parameter
   values x and ALL n, the extended system of the sensitivity recurrences,
   [[A,0],[A',A]] from (v, v'), yields A(x)^n v(x) and the formal derivative of the
   polynomial vector A^n v evaluated at x; [piter] is that polynomial vector *)
Theorem C10_deriv_system :
  forall (R : cring) (PA : list (list (list R))) (Pv : list (list R)) (k : nat),
    wfM k PA -> length Pv = k -> forall (x : R) (n : nat),
    iter_mat (block (evalM PA x) (evalM (derivM PA) x)) n (evalV Pv x ++ evalV (derivV Pv) x)
    = evalV (piter PA n Pv) x ++ evalV (derivV (piter PA n Pv)) x.
Proof. exact deriv_system. Qed.
Print Assumptions C10_deriv_system.

Theorem C10_piter_is_matrix_power :
  forall (R : cring) PA Pv (x : R) (n : nat),
    evalV (piter PA n Pv) x = iter_mat (evalM PA x) n (evalV Pv x).
Proof. exact piter_eval. Qed.
Print Assumptions C10_piter_is_matrix_power.

(* [dep_closure_sound] (system level): if every monomial classified p-independent has a
   p-free initial value and a recurrence with p-free coefficients over independent monomials
   only — what get_dependent_variables has to guarantee, checked on every instance by
   [dep_closed] — then its moment has zero p-derivative at every n.
   PARTIAL with respect to DESIGN.md: the step from the variable-level closure of
   SensivitiyAnalyzer.get_dependent_variables to [dep_closed] of the generated system is
   validated per instance (kernel-evaluated [dep_closed]), not proved for all programs. *)
Theorem C10_dep_closure_sound_partial :
  forall (R : cring) (x : R) dep PA Pv, dep_closed dep PA Pv = true ->
    forall n, Forall2 (fun d a => d = false -> a = r0) dep (evalV (derivV (piter PA n Pv)) x).
Proof. exact dep_closure_sound. Qed.
Print Assumptions C10_dep_closure_sound_partial.

(* [diffrec_model_correct]: the model of DiffRecBuilder.get_recurrence (summand-wise rules)
   and get_initial_value produces, for ALL systems with a closed classification, ALL
   parameter values and ALL n, a system iterating to (A^n v, d/dp A^n v). *)
Theorem C10_diffrec_model_correct :
  forall (R : cring) (x : R) dep PA Pv k,
    wfM k PA -> length Pv = k -> dep_closed dep PA Pv = true ->
    forall n, iter_mat (evalM (model_ext dep PA) x) n (evalV (model_init Pv) x)
              = evalV (piter PA n Pv) x ++ evalV (derivV (piter PA n Pv)) x.
Proof. exact diffrec_model_correct. Qed.
Print Assumptions C10_diffrec_model_correct.

(* closed sub-systems modulo identically-zero unknowns denote the restricted sequence *)
Theorem C10_check_sub_sound :
  forall (R : cring) B b S s iota Z, check_sub (R := R) B b S s iota Z = true ->
    forall n, iter_mat S n s = gather iota (iter_mat B n b) /\ zero_on Z (iter_mat B n b).
Proof. exact check_sub_sound. Qed.
Print Assumptions C10_check_sub_sound.

(* V: the validators run on Polar's output (its extended system S, s with index map iota
   into (M_j, delta M_j), its closed forms F with special cases sp) *)
Theorem C10_check_sens_model_sound :
  forall (R : cring) dep PA Pv (x : R) S s iota F sp,
    check_sens_model dep PA Pv x S s iota F sp = true ->
    forall n, pw_eval F sp n
              = gather iota (evalV (piter PA n Pv) x ++ evalV (derivV (piter PA n Pv)) x).
Proof. exact check_sens_model_sound. Qed.
Print Assumptions C10_check_sens_model_sound.

Theorem C10_check_sens_direct_sound :
  forall (R : cring) k PA Pv (x : R) S s iota Z F sp,
    check_sens_direct k PA Pv x S s iota Z F sp = true ->
    forall n, pw_eval F sp n
              = gather iota (evalV (piter PA n Pv) x ++ evalV (derivV (piter PA n Pv)) x).
Proof. exact check_sens_direct_sound. Qed.
Print Assumptions C10_check_sens_direct_sound.

Theorem C10_check_diffcf_sound :
  forall (R : cring) k PA Pv (x : R) F sp, check_diffcf k PA Pv x F sp = true ->
    forall n, pw_eval F sp n = evalV (piter PA n Pv) x ++ evalV (derivV (piter PA n Pv)) x.
Proof. exact check_diffcf_sound. Qed.
Print Assumptions C10_check_diffcf_sound.

(* [methods_agree]: sensitivity recurrences and differentiated closed forms, both validated,
   agree at every n *)
Theorem C10_methods_agree :
  forall (R : cring) k dep PA Pv (x : R) S s iota F sp F' sp',
    check_sens_model dep PA Pv x S s iota F sp = true ->
    check_diffcf k PA Pv x F' sp' = true ->
    forall n, pw_eval F sp n = gather iota (pw_eval F' sp' n).
Proof. exact methods_agree. Qed.
Print Assumptions C10_methods_agree.

(* two closed forms validated against the same extended system agree at every n *)
Theorem C10_same_system_agree :
  forall (R : cring) S s (F : list (epoly R)) sp F' sp',
    check_solution S s F sp = true -> check_solution S s F' sp' = true ->
    forall n : nat, pw_eval F sp n = pw_eval F' sp' n.
Proof. exact accepted_agree. Qed.
Print Assumptions C10_same_system_agree.

(* ---- non-vacuity:  x = p ; while true: x = p*x + 1   (monomials x, 1), at p = 1/2.
   Polar's sensitivity system has the unknowns (delta x, x, 1):
     delta x' = x + p delta x,  x' = p x + 1,  1' = 1;   delta x(0) = 1.
   d/dp E[x]_n at p = 1/2 is 4 - (3n+3)/2^n. *)
Definition exPA : list (list (list Qc)) := [[[mkq 0 1; mkq 1 1]; [mkq 1 1]]; [[]; [mkq 1 1]]].
Definition exPv : list (list Qc) := [[mkq 0 1; mkq 1 1]; [mkq 1 1]].
Definition exS : list (list Qc) :=
  [[mkq 1 2; mkq 1 1; mkq 0 1]; [mkq 0 1; mkq 1 2; mkq 1 1]; [mkq 0 1; mkq 0 1; mkq 1 1]].
Definition exs : list Qc := [mkq 1 1; mkq 1 2; mkq 1 1].
Definition exF : list (epoly Qc_cring) :=
  [[(mkq 1 1, [mkq 4 1]); (mkq 1 2, [mkq (-3) 1; mkq (-3) 1])];
   [(mkq 1 1, [mkq 2 1]); (mkq 1 2, [mkq (-3) 2])];
   [(mkq 1 1, [mkq 1 1])]].
Example C10_nonvacuous_model :
  check_sens_model (R := Qc_cring) [true; false] exPA exPv (mkq 1 2) exS exs [2; 0; 1]%nat exF [] = true.
Proof. vm_compute. reflexivity. Qed.
Example C10_nonvacuous_direct :
  check_sens_direct (R := Qc_cring) 2 exPA exPv (mkq 1 2) exS exs [2; 0; 1]%nat
                    [false; false; false; true] exF [] = true.
Proof. vm_compute. reflexivity. Qed.
(* the validators reject a dropped product-rule term (delta x' = p delta x) ... *)
Example C10_rejects_missing_term :
  check_sens_direct (R := Qc_cring) 2 exPA exPv (mkq 1 2)
    [[mkq 1 2; mkq 0 1; mkq 0 1]; [mkq 0 1; mkq 1 2; mkq 1 1]; [mkq 0 1; mkq 0 1; mkq 1 1]] exs [2; 0; 1]%nat
    [false; false; false; true] [[(mkq 1 2, [mkq 1 1])]; [(mkq 1 1, [mkq 2 1]); (mkq 1 2, [mkq (-3) 2])]; [(mkq 1 1, [mkq 1 1])]] [] = false.
Proof. vm_compute. reflexivity. Qed.
(* ... and a classification that calls x independent *)
Example C10_rejects_wrong_classification :
  dep_closed (R := Qc_cring) [false; false] exPA exPv = false.
Proof. vm_compute. reflexivity. Qed.
