(* C03 — moment recurrences are exact one-step expectation identities and closed. *)
From Coq Require Import List String QArith Qcanon ZArith.
From Polar Require Import Qcx CRing ExpPoly ClosedForm Dist Syntax Sem Types Poly Pipeline Wp.
Import ListNotations.
Open Scope string_scope.

(* arithmetisation of a normalised condition is its indicator on typed states *)
Theorem C03_to_arithm_indicator :
  forall T s c p, typed T s -> arith T c = Some p -> eval_poly p s = ind (holds c s).
Proof. exact arith_sound. Qed.
Print Assumptions C03_to_arithm_indicator.

(* power reduction through the value set never changes a value of a typed variable, all k *)
Theorem C03_reduce_power_sound :
  forall vs k v, In v vs -> upeval (reduced_power vs k) v = qpow v k.
Proof. exact reduced_power_sound. Qed.
Print Assumptions C03_reduce_power_sound.

(* M: the model of get_recurrence (backward substitution through ALL guarded assignments of
   ANY flat program with validated types) computes the exact one-step expectation of ANY
   polynomial on EVERY typed state; continuous families enter through their moments *)
Theorem C03_recurrence_exact :
  forall law cmom T l, cmom_ok law cmom -> forallb (check_ga T) l = true ->
  forall p q s, typed T s -> wp_gas cmom T l p = Some q ->
    E (exec_gas law l s) (eval_poly p) = eval_poly q s.
Proof. exact wp_gas_exact. Qed.
Print Assumptions C03_recurrence_exact.

(* V: a linear system accepted by the validator is an exact one-step identity for every
   monomial of the system on every typed state (hence, with C05, at every n) ... *)
Theorem C03_check_system_sound :
  forall law cmom fp T ms A, cmom_ok law cmom -> check_types fp T = true ->
    check_system cmom fp T ms A = true -> one_step_exact law fp T ms A.
Proof. exact check_system_sound. Qed.
Print Assumptions C03_check_system_sound.

(* ... its recorded initial values are the moments before the first iteration ... *)
Theorem C03_init_exact :
  forall law cmom fp ms v, cmom_ok law cmom -> check_init_vals cmom (fp_init fp) ms v = true ->
    forall s0, moments_vec law fp ms 0 s0 = v.
Proof. exact check_init_vals_sound. Qed.
Print Assumptions C03_init_exact.

(* ... and the moments therefore follow the matrix: E(M)_{n+1} = sum_i c_i E(M_i)_n + c, all n.
   (The system is closed by construction of the validator: every row is a combination of the
   system's own monomials, the constant column being the empty monomial.) *)
Theorem C03_recurrence_lifts :
  forall law cmom fp T ms A, cmom_ok law cmom -> check_types fp T = true ->
    check_system cmom fp T ms A = true ->
    forall s0, init_ok fp T s0 ->
    forall n, moments_vec law fp ms (S n) s0 = mvecQ A (moments_vec law fp ms n s0).
Proof.
  intros law cmom fp T ms A Hc HT HS s0 H0 n.
  exact (moments_step law fp T ms A HT (check_system_sound law cmom fp T ms A Hc HT HS) s0 H0 n).
Qed.
Print Assumptions C03_recurrence_lifts.

(* non-vacuity: coin-flip accumulator  y = y + x | x = Bernoulli(1/2): system {y, x, 1} *)
Definition nolaw_cmom : string -> list Qc -> nat -> Qc := fun _ _ _ => 0%Qc.
Lemma nolaw_cmom_ok : cmom_ok no_law nolaw_cmom.
Proof. intros f args k; reflexivity. Qed.
Definition ex3_fp : flatprog :=
  {| fp_init := [ {| ga_var := "x"; ga_cond := CTrue; ga_default := "x"; ga_rhs := RDet (EConst (mkq 0 1)) |};
                  {| ga_var := "y"; ga_cond := CTrue; ga_default := "y"; ga_rhs := RDet (EConst (mkq 0 1)) |} ];
     fp_body := [ {| ga_var := "x"; ga_cond := CTrue; ga_default := "x"; ga_rhs := RDraw (DBern (EConst (mkq 1 2))) |};
                  {| ga_var := "y"; ga_cond := CAtom (EVar "x") Ceq (EConst (mkq 1 1)); ga_default := "y";
                     ga_rhs := RDet (EAdd (EVar "y") (EVar "x")) |} ] |}.
Definition ex3_T : tenv := [("x", [mkq 0 1; mkq 1 1])].
Example C03_nonvacuous :
  check_types ex3_fp ex3_T = true /\
  check_system nolaw_cmom ex3_fp ex3_T [[("y", 1%nat)]; [("x", 1%nat)]; []]
     [[mkq 1 1; mkq 0 1; mkq 1 2]; [mkq 0 1; mkq 0 1; mkq 1 2]; [mkq 0 1; mkq 0 1; mkq 1 1]] = true /\
  check_init_vals nolaw_cmom (fp_init ex3_fp) [[("y", 1%nat)]; [("x", 1%nat)]; []] [mkq 0 1; mkq 0 1; mkq 1 1] = true.
Proof. vm_compute. repeat split; reflexivity. Qed.
