(* C02 — pass DistTransformer (program/transformer/dist_transformer.py): location-scale
   rewriting of Normal / Uniform / Laplace draws whose parameters mention variables into a
   fixed draw plus arithmetic.  Model: PassDist.dt_prog on statement trees, fresh variables
   from a supply of names (Polar: `_u<k>` from the global counter).
   Outside the model (dt_prog = None): Normal whose variance is not a constant with a rational
   square root, Exponential with a non-constant rate, continuous draws inside a simultaneous
   assignment.  Tie: harness/pass_dist.py. *)
From Coq Require Import List String QArith Qcanon ZArith Bool.
From Polar Require Import Qcx Dist Syntax Sem Types PassGuard PassCNBase PassDist PassCNMatch.
Import ListNotations.
Open Scope string_scope.
Local Open Scope Qc_scope.

(* Law-level theorem, parametric in the law of the continuous families: for EVERY family of
   finitely supported laws satisfying the three location-scale equations, every program,
   every supply of names that do not occur in the program, every n, every start state and
   every f that does not read the fresh names, the expectation of f at iteration n is
   unchanged by the pass.  (Parameter order of DCont = dump order: Normal [mu; sigma2],
   Uniform [a; b], Laplace [b; mu].) *)
Theorem C02_dist_pass_preserves :
  forall (law : string -> list Qc -> dist Qc),
    (forall m r : Qc, deq (law "Normal" [m; r * r]) (dmap (fun z => m + r * z) (law "Normal" [0; 1]))) ->
    (forall a b : Qc, deq (law "Uniform" [a; b]) (dmap (fun z => a + (b - a) * z) (law "Uniform" [0; 1]))) ->
    (forall b m : Qc, deq (law "Laplace" [b; m]) (dmap (fun z => m + z) (law "Laplace" [b; 0]))) ->
    forall (names : list var) (p p' : prog) (rest : list var),
      dt_prog names p = Some (p', rest) -> fresh_ok names p = true ->
      forall (n : nat) (s0 : state) (f : state -> Qc), ignores_names names f ->
        E (run law p' n s0) f = E (run law p n s0) f.
Proof. exact dist_pass_preserves. Qed.
Print Assumptions C02_dist_pass_preserves.

(* the hypotheses on the law are consistent (non-vacuity of the theorem) *)
Theorem C02_dist_law_hypotheses_consistent :
  exists law : string -> list Qc -> dist Qc,
    (forall m r : Qc, deq (law "Normal" [m; r * r]) (dmap (fun z => m + r * z) (law "Normal" [0; 1]))) /\
    (forall a b : Qc, deq (law "Uniform" [a; b]) (dmap (fun z => a + (b - a) * z) (law "Uniform" [0; 1]))) /\
    (forall b m : Qc, deq (law "Laplace" [b; m]) (dmap (fun z => m + z) (law "Laplace" [b; 0]))) /\
    law "Uniform" [0; 1] <> [] /\ law "Laplace" [1; 0] <> [].
Proof. exact demo_law_consistent. Qed.
Print Assumptions C02_dist_law_hypotheses_consistent.

(* ---- non-vacuity of the model ---- *)
Definition qc (z : Z) : expr := EConst (mkq z 1).
(* x = 0; y = 1; while true: x = Uniform(y, y + 2); if x > 1: y = Normal(x, 4) else: y = Laplace(x, 1) end *)
Definition demo : prog :=
  {| p_init := BCons (SAssign "x" (RDet (qc 0))) (BCons (SAssign "y" (RDet (qc 1))) BNil);
     p_guard := CTrue;
     p_body := BCons (SAssign "x" (RDraw (DCont "Uniform" [EVar "y"; EAdd (EVar "y") (qc 2)])))
              (BCons (SIf (BrCons (CAtom (EVar "x") Cgt (qc 1))
                                  (BCons (SAssign "y" (RDraw (DCont "Normal" [EVar "x"; qc 4]))) BNil) BrNil)
                          (BCons (SAssign "y" (RDraw (DCont "Laplace" [qc 1; EVar "x"]))) BNil)) BNil) |}.

Example demo_fresh : fresh_ok ["_u0"; "_u1"; "_u2"] demo = true.
Proof. vm_compute. reflexivity. Qed.
Example demo_pass :
  option_map (fun pr => (p_body (fst pr), snd pr)) (dt_prog ["_u0"; "_u1"; "_u2"] demo) =
  Some (BCons (SAssign "_u0" (RDraw (DCont "Uniform" [qc 0; qc 1])))
       (BCons (SAssign "x" (RDet (EAdd (EVar "y") (EMul (ESub (EAdd (EVar "y") (qc 2)) (EVar "y")) (EVar "_u0")))))
       (BCons (SIf (BrCons (CAtom (EVar "x") Cgt (qc 1))
                     (BCons (SAssign "_u1" (RDraw (DCont "Normal" [qc 0; qc 1])))
                     (BCons (SAssign "y" (RDet (EAdd (EVar "x") (EMul (EConst (mkq 2 1)) (EVar "_u1"))))) BNil)) BrNil)
                   (BCons (SAssign "_u2" (RDraw (DCont "Laplace" [qc 1; qc 0])))
                   (BCons (SAssign "y" (RDet (EAdd (EVar "x") (EVar "_u2")))) BNil))) BNil)), []).
Proof. vm_compute. reflexivity. Qed.
(* both sides of the theorem under the consistent demo law (a test, not the theorem) *)
Example demo_values :
  match dt_prog ["_u0"; "_u1"; "_u2"] demo with
  | Some (p', _) =>
      map (fun n => let q := E (run demo_law p' n st0) (fun s => s "x" * s "y") in (qnum q, Zpos (qden q))) [0; 1; 2]%nat
  | None => []
  end = map (fun n => let q := E (run demo_law demo n st0) (fun s => s "x" * s "y") in (qnum q, Zpos (qden q))) [0; 1; 2]%nat.
Proof. vm_compute. reflexivity. Qed.
Example demo_values_nontrivial :
  (let q := E (run demo_law demo 2 st0) (fun s => s "x" * s "y") in (qnum q, Zpos (qden q))) <> (0%Z, 1%Z).
Proof. vm_compute. intros H. discriminate H. Qed.
(* outside the model *)
Example out_variable_variance :
  dt_stmt ["_u0"] (SAssign "y" (RDraw (DCont "Normal" [qc 0; EVar "x"]))) = None.
Proof. vm_compute. reflexivity. Qed.
Example out_irrational_sqrt :
  dt_stmt ["_u0"] (SAssign "y" (RDraw (DCont "Normal" [EVar "x"; qc 2]))) = None.
Proof. vm_compute. reflexivity. Qed.
Example keep_constant_parameters :
  dt_stmt ["_u0"] (SAssign "y" (RDraw (DCont "Normal" [qc 3; qc 2])))
  = Some (BCons (SAssign "y" (RDraw (DCont "Normal" [qc 3; qc 2]))) BNil, ["_u0"]).
Proof. vm_compute. reflexivity. Qed.
