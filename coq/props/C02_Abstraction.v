(* C02 — pass ConditionsNormalizer, the BERNOULLI ABSTRACTION of conditions over variables
   without a finite type (program/transformer/conditions_normalizer.py: _normalize_conditions,
   _try_abstract_failed_condition, _partition_condition).
   Model: PassAbstraction.abstract_at / abstract_many (+ PassCondNorm.cn_pass for the atoms over
   finitely typed variables).  Side conditions: the boolean, verified PassAbstraction.abstraction_ok
   / many_ok.  DISCRETE draws only (Sem.v's reference semantics is a finite weighted-list monad;
   a continuous family among the hidden assignments makes abstraction_ok false: validated only).
   Tie: harness/pass_abstraction.py evaluates, inside Coq, the model on Polar's snapshot after
   TypeInferer (only the position and the two generated names of each coin are read off Polar's
   output) and compares with the snapshot after ConditionsNormalizer; many_ok / check_types are
   evaluated on every instance; the value required for the probability symbol is compared with an
   independently computed probability. *)
From Coq Require Import List String QArith Qcanon ZArith Bool.
From Polar Require Import Qcx Dist Syntax Sem Types PassCNBase PassCondNorm PassAbstraction.
Import ListNotations.
Open Scope string_scope.

(* ---- (a) the semantic core ---- *)
(* consulting C(d) for d ~ D (mass 1) = tossing a coin with probability E D [C] *)
Theorem C02_abs_lemma :
  forall (A B : Type) (D : dist A) (C : A -> bool) (k : bool -> dist B) (f : B -> Qc),
    mass D = 1%Qc ->
    E (bind D (fun d => k (C d))) f = E (bind (coin (prob_of D C)) k) f.
Proof. exact @abstraction_lemma. Qed.
Print Assumptions C02_abs_lemma.

(* any mass, the draw stays in the program (Polar keeps  d = DiscreteUniform(..)) *)
Theorem C02_abs_lemma_mass :
  forall (A B : Type) (D : dist A) (C : A -> bool) (q : Qc) (k : bool -> dist B) (f : B -> Qc),
    (q * mass D)%Qc = prob_of D C ->
    E (bind D (fun d => k (C d))) f = E (bind D (fun _ => bind (coin q) k)) f.
Proof. exact @abstraction_lemma_mass. Qed.
Print Assumptions C02_abs_lemma_mass.

(* the same condition consulted twice: one coin, reused *)
Theorem C02_abs_reuse :
  forall (A B B' : Type) (D : dist A) (C : A -> bool) (k1 : bool -> dist B) (k2 : B -> bool -> dist B') (f : B' -> Qc),
    mass D = 1%Qc ->
    E (bind D (fun d => bind (k1 (C d)) (fun x => k2 x (C d)))) f =
    E (bind (coin (prob_of D C)) (fun b => bind (k1 b) (fun x => k2 x b))) f.
Proof. exact @abstraction_reuse. Qed.
Print Assumptions C02_abs_reuse.

(* two DIFFERENT conditions over one draw must not get two independent coins *)
Theorem C02_abs_two_conditions_two_coins_refuted :
  exists (D : dist bool) (C1 C2 : bool -> bool) (k : bool -> bool -> dist bool) (f : bool -> Qc),
    mass D = 1%Qc /\
    E (bind D (fun d => k (C1 d) (C2 d))) f <>
    E (bind (coin (prob_of D C1)) (fun b1 => bind (coin (prob_of D C2)) (fun b2 => k b1 b2))) f.
Proof. exact two_conditions_two_coins_refuted. Qed.
Print Assumptions C02_abs_two_conditions_two_coins_refuted.

(* a continuation that reads the draw itself (E(d*x), the defect repaired by /repo c349038) *)
Theorem C02_abs_continuation_reads_draw_refuted :
  exists (D : dist Qc) (C : Qc -> bool) (k : Qc -> bool -> dist Qc) (f : Qc -> Qc),
    mass D = 1%Qc /\
    E (bind D (fun d => k d (C d))) f <> E (bind D (fun d => bind (coin (prob_of D C)) (k d))) f.
Proof. exact continuation_reads_draw_refuted. Qed.
Print Assumptions C02_abs_continuation_reads_draw_refuted.

(* ---- (b) programs ---- *)
(* one abstraction: every law of the continuous families, every n, every start state in which
   the probability symbol has the value P(C) = abs_prob, every observation that reads neither
   the hidden variables H (superset of the variables of C: the draws and the deterministic /
   random functions of them that C is computed from) nor the coin *)
Theorem C02_abs_at_preserves :
  forall (law : string -> list Qc -> dist Qc) (fp : flatprog) (i : nat) (H bv : list var) (C : cond) (a p : var),
    abstraction_ok fp i H bv C a p = true ->
    forall (n : nat) (s0 : state) (f : state -> Qc),
      s0 p = abs_prob fp i H C -> ignores (H ++ [a]) f ->
      E (frun law (abstract_at fp i bv C a p) n s0) f = E (frun law fp n s0) f.
Proof. exact abstraction_sound. Qed.
Print Assumptions C02_abs_at_preserves.

(* direct draws: the hidden variables are exactly the variables of C *)
Theorem C02_abs_at_preserves_direct_draws :
  forall (law : string -> list Qc -> dist Qc) (fp : flatprog) (i : nat) (bv : list var) (C : cond) (a p : var),
    abstraction_ok fp i (cvars C) bv C a p = true ->
    forall (n : nat) (s0 : state) (f : state -> Qc),
      s0 p = abs_prob fp i (cvars C) C -> ignores (cvars C ++ [a]) f ->
      E (frun law (abstract_at fp i bv C a p) n s0) f = E (frun law fp n s0) f.
Proof. exact abstraction_sound_direct. Qed.
Print Assumptions C02_abs_at_preserves_direct_draws.

(* several coins *)
Theorem C02_abs_many_preserves :
  forall (law : string -> list Qc -> dist Qc) (l : list aspec) (fp : flatprog),
    many_ok fp l = true ->
    forall (n : nat) (s0 : state) (f : state -> Qc),
      probs_ok fp l s0 -> ignores (hidden l) f ->
      E (frun law (abstract_many fp l) n s0) f = E (frun law fp n s0) f.
Proof. exact abstract_many_sound. Qed.
Print Assumptions C02_abs_many_preserves.

(* the pass on a program with failed atoms = abstraction, then normalisation of the atoms over
   finitely typed variables (coins have type {0,1}); this is the program the harness compares
   with Polar's output.  _partial: Polar also accepts programs outside many_ok (a statement after
   the draw reads a hidden variable, e.g. y = y + d; continuous draws) — there the pass does NOT
   preserve the joint law (C02_abs_later_read_refuted) and Polar relies on
   RecBuilder._check_abstraction_is_independent; those programs are validated only *)
Theorem C02_abs_pass_preserves_partial :
  forall (law : string -> list Qc -> dist Qc) (T : tenv) (fp : flatprog) (l : list aspec) (fp' : flatprog),
    many_ok fp l = true ->
    cn_pass T (abstract_many fp l) = Some fp' ->
    check_types (abstract_many fp l) T = true ->
    forall s0 : state, init_ok (abstract_many fp l) T s0 -> probs_ok fp l s0 ->
    forall (n : nat) (f : state -> Qc), ignores (hidden l) f ->
      E (frun law fp' n s0) f = E (frun law fp n s0) f.
Proof. exact abs_then_cn_sound. Qed.
Print Assumptions C02_abs_pass_preserves_partial.

(* the hypothesis on the start state is satisfiable whenever the probability symbols are
   pairwise distinct (Polar's get_unique_var) *)
Theorem C02_abs_probs_ok_satisfiable :
  forall (fp : flatprog) (l : list aspec) (s : state),
    NoDup (map fst (many_probs fp l)) -> probs_ok fp l (set_probs (many_probs fp l) s).
Proof. exact probs_ok_satisfiable. Qed.
Print Assumptions C02_abs_probs_ok_satisfiable.

(* ---- non-vacuity ---- *)
Definition qc (z : Z) : expr := EConst (mkq z 1).
Definition asg (x : var) (e : expr) : gassign := {| ga_var := x; ga_cond := CTrue; ga_default := x; ga_rhs := RDet e |}.
Definition drw (x : var) (d : draw) : gassign := {| ga_var := x; ga_cond := CTrue; ga_default := x; ga_rhs := RDraw d |}.
Definition gasg (x : var) (c : cond) (e : expr) : gassign := {| ga_var := x; ga_cond := c; ga_default := x; ga_rhs := RDet e |}.
Definition le (x : var) (k : Z) : cond := CAtom (EVar x) Cle (qc k).
Definition st_p (p : var) (q : Qc) : state := upd st0 p q.
Definition exq (q : Qc) : Z * Z := (qnum q, Zpos (qden q)).

(* x = 0; y = 0; d = 0; while true: d = DiscreteUniform(1,6); if d <= 2: x = x + 1 end; if d <= 2: y = y + 2 end *)
Definition demo : flatprog :=
  {| fp_init := [asg "x" (qc 0); asg "y" (qc 0); asg "d" (qc 0)];
     fp_body := [drw "d" (DUnif 1 6); gasg "x" (le "d" 2) (EAdd (EVar "x") (qc 1)); gasg "y" (le "d" 2) (EAdd (EVar "y") (qc 2))] |}.
Definition demo_abs : flatprog := abstract_at demo 1 ["d"] (le "d" 2) "_a0" "_prob1".

Example demo_abs_body :
  map (fun g => (ga_var g, ga_cond g)) (fp_body demo_abs)
  = [("d", CTrue); ("_a0", CTrue); ("x", eq_atom "_a0" 1%Qc); ("y", eq_atom "_a0" 1%Qc)].
Proof. vm_compute. reflexivity. Qed.
Example demo_ok : abstraction_ok demo 1 ["d"] ["d"] (le "d" 2) "_a0" "_prob1" = true.
Proof. vm_compute. reflexivity. Qed.
Example demo_prob : exq (abs_prob demo 1 ["d"] (le "d" 2)) = (1, 3)%Z.
Proof. vm_compute. reflexivity. Qed.
(* the parameters computed from the program and the types (d has no finite type) *)
Example demo_auto :
  let sp := auto_spec [("x", [0%Qc])] demo 1 "_a0" "_prob1" in (as_H sp, as_bv sp, as_C sp) = (["d"], ["d"], le "d" 2).
Proof. vm_compute. reflexivity. Qed.
(* both sides of the theorem on this program (a test): E(x*y) for n = 0..3 *)
Definition exy (fp : flatprog) (n : nat) : Z * Z :=
  exq (E (frun no_law fp n (st_p "_prob1" (mkq 1 3))) (fun s => s "x" * s "y")%Qc).
Example demo_values : (map (exy demo_abs) [0; 1; 2; 3]%nat, map (exy demo) [0; 1; 2; 3]%nat)
  = ([(0, 1); (2, 3); (16, 9); (10, 3)], [(0, 1); (2, 3); (16, 9); (10, 3)])%Z.
Proof. vm_compute. reflexivity. Qed.

(* all hypotheses of C02_abs_pass_preserves_partial on this program (x, y are unbounded: no type) *)
Definition demo_T : tenv := [("_a0", [0%Qc; 1%Qc])].
Definition demo_specs : list aspec := auto_specs demo_T demo [(1%nat, ("_a0", "_prob1"))].
Example demo_pipeline_hyps :
  (many_ok demo demo_specs, check_types (abstract_many demo demo_specs) demo_T,
   match cn_pass demo_T (abstract_many demo demo_specs) with Some m => map ga_cond (fp_body m) | None => [] end)
  = (true, true, [CTrue; CTrue; eq_atom "_a0" 1%Qc; eq_atom "_a0" 1%Qc]).
Proof. vm_compute. reflexivity. Qed.
Example demo_pipeline_start :
  init_ok (abstract_many demo demo_specs) demo_T (set_probs (many_probs demo demo_specs) st0)
  /\ probs_ok demo demo_specs (set_probs (many_probs demo demo_specs) st0).
Proof.
  split.
  - unfold init_ok. replace (declared _ demo_T) with demo_T by (vm_compute; reflexivity).
    intros x vs Hx. cbn [demo_T tlookup] in Hx. destruct (var_eqb x "_a0") eqn:Ex; [|discriminate Hx].
    injection Hx as <-. apply String.eqb_eq in Ex. subst x. left. vm_compute. reflexivity.
  - apply probs_ok_satisfiable. vm_compute. constructor; [intros []|constructor].
Qed.

(* a hidden deterministic function of two draws (the ConditionsReducer's alias):
   d = DiscreteUniform(1,6); g = DiscreteUniform(1,4); r = d + g - 5; if r <= 0: x = x + 1 end *)
Definition demo2 : flatprog :=
  {| fp_init := [asg "x" (qc 0)];
     fp_body := [drw "d" (DUnif 1 6); drw "g" (DUnif 1 4); asg "r" (EAdd (EAdd (EVar "d") (EVar "g")) (qc (-5)));
                 gasg "x" (le "r" 0) (EAdd (EVar "x") (qc 1))] |}.
Example demo2_auto :
  let sp := auto_spec [("x", [0%Qc])] demo2 3 "_a0" "_prob1" in (as_H sp, as_bv sp, as_C sp) = (["r"; "d"; "g"], ["r"], le "r" 0).
Proof. vm_compute. reflexivity. Qed.
Example demo2_ok : abstraction_ok demo2 3 ["r"; "d"; "g"] ["r"] (le "r" 0) "_a0" "_prob1" = true.
Proof. vm_compute. reflexivity. Qed.
Example demo2_prob : exq (abs_prob demo2 3 ["r"; "d"; "g"] (le "r" 0)) = (5, 12)%Z.
Proof. vm_compute. reflexivity. Qed.

(* ---- the checker rejects the defect shapes ---- *)
(* two different conditions over the same draw *)
Definition two_conds : flatprog :=
  {| fp_init := [asg "x" (qc 0); asg "y" (qc 0)];
     fp_body := [drw "d" (DUnif 1 6); gasg "x" (le "d" 2) (EAdd (EVar "x") (qc 1)); gasg "y" (le "d" 4) (EAdd (EVar "y") (qc 1))] |}.
Example two_conds_rejected : abstraction_ok two_conds 1 ["d"] ["d"] (le "d" 2) "_a0" "_prob1" = false.
Proof. vm_compute. reflexivity. Qed.
(* the guarded assignment reads a copy of the draw (/repo 50b0bdd): y = d; if d <= 1: x = x + y *)
Example reads_copy_rejected :
  (abstraction_ok wit_reads_copy 2 ["d"] ["d"] (le "d" 1) "_a0" "_prob1", abstraction_ok wit_reads_copy 2 ["d"; "y"] ["d"] (le "d" 1) "_a0" "_prob1")
  = (false, false).
Proof. vm_compute. reflexivity. Qed.
(* a later statement reads the draw (/repo c349038): if d <= 1: x = x + 1 end; y = y + d *)
Example later_read_rejected : abstraction_ok wit_later_read 1 ["d"] ["d"] (le "d" 1) "_a0" "_prob1" = false.
Proof. vm_compute. reflexivity. Qed.
(* a continuous draw: outside the discrete theorem *)
Definition cont_draw : flatprog :=
  {| fp_init := [asg "x" (qc 0)];
     fp_body := [drw "u" (DCont "Normal" [qc 0; qc 1]); gasg "x" (CAtom (EVar "u") Cgt (qc 0)) (EAdd (EVar "x") (qc 1))] |}.
Example cont_draw_rejected : abstraction_ok cont_draw 1 ["u"] ["u"] (CAtom (EVar "u") Cgt (qc 0)) "_a0" "_prob1" = false.
Proof. vm_compute. reflexivity. Qed.

(* the side conditions are not superfluous: on the two rejected shapes the abstracted program has
   a different law of the NON-hidden variables although the probability symbol has the value P(C) *)
Theorem C02_abs_later_read_refuted :
  exists (fp : flatprog) (i : nat) (H bv : list var) (C : cond) (a p : var) (n : nat) (s0 : state) (f : state -> Qc),
    abstraction_ok fp i H bv C a p = false /\ s0 p = abs_prob fp i H C /\ ignores (H ++ [a]) f /\
    E (frun no_law (abstract_at fp i bv C a p) n s0) f <> E (frun no_law fp n s0) f.
Proof. exact abstract_at_later_read_refuted. Qed.
Print Assumptions C02_abs_later_read_refuted.
Theorem C02_abs_reads_copy_refuted :
  exists (fp : flatprog) (i : nat) (H bv : list var) (C : cond) (a p : var) (n : nat) (s0 : state) (f : state -> Qc),
    abstraction_ok fp i H bv C a p = false /\ s0 p = abs_prob fp i H C /\ ignores (H ++ [a]) f /\
    E (frun no_law (abstract_at fp i bv C a p) n s0) f <> E (frun no_law fp n s0) f.
Proof. exact abstract_at_reads_copy_refuted. Qed.
Print Assumptions C02_abs_reads_copy_refuted.
Example later_read_values :
  (exq (E (frun no_law (abstract_at wit_later_read 1 ["d"] (le "d" 1) "_a0" "_prob1") 1 (st_p "_prob1" (mkq 1 2))) (fun s => s "x" * s "y")%Qc),
   exq (E (frun no_law wit_later_read 1 (st_p "_prob1" (mkq 1 2))) (fun s => s "x" * s "y")%Qc)) = ((3, 4), (1, 2))%Z.
Proof. vm_compute. reflexivity. Qed.
