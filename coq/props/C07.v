(* C07 — the reported basis generates all polynomial relations among the goals.
   PARTIAL BY DESIGN: degree-bounded.  What is missing for the full statement is the theorem that the
   elimination ideal of the closed-form/lattice ideal is the full relation ideal in every degree
   (Kauers–Zimmermann); relations of degree > D are not covered, nor that the set is a Groebner basis.
   Only property theorems, each closed by [exact] and followed by Print Assumptions. *)
From Coq Require Import List Arith QArith Qcanon.
From Polar Require Import Qcx CRing ExpPoly Lattice Invariant InvariantComplete.
Import ListNotations.

(* the monomial list really is "all monomials of degree <= D in k variables" *)
Theorem C07_mons_spec :
  forall k D es, In es (mons k D) <-> (length es = k /\ (list_sum es <= D)%nat).
Proof. exact mons_spec. Qed.
Print Assumptions C07_mons_spec.

(* kernel certificate: Ev has one row per unknown;  K*Ev = 0  and  P*K + Ev*Q = d*I, d*dinv = 1  =>
   EVERY x with x*Ev = 0 is the combination (x*P) of the rows of K *)
Theorem C07_kernel_cert_sound_partial :
  forall (R : cring) (m : nat) (Ev K P Q : list (list R)) (d dinv : R),
    check_kernel_cert m Ev K P Q d dinv = true ->
    forall (x : list R) (kk : nat), length x = m -> veq (lincomb kk x Ev) [] ->
      x = lincomb m (vscale dinv (lincomb (length K) x P)) K.
Proof. exact kernel_cert_sound. Qed.
Print Assumptions C07_kernel_cert_sound_partial.

(* degree-bounded completeness: every polynomial of degree <= D (any coefficient vector x over ALL
   monomials of degree <= D) that vanishes on the closed forms for all n >= n0 is a polynomial
   combination  sum_j q_j * g_j  of elements g_j of the reported basis G (as functions on R^k) *)
Theorem C07_complete_deg_sound_partial :
  forall (R : cring) (k D n0 N : nat) (F : list (epoly R)) (G : list (mpoly R))
         (KC : list (list R * list (mpoly R))) (P Q : list (list R)) (d dinv : R),
    check_complete k D n0 N F G KC P Q d dinv = true ->
    forall x : list R, length x = length (mons k D) ->
      (forall n, (n0 <= n)%nat -> poly_eval (poly_of x (mons k D)) (evalF F n) = r0) ->
      in_ideal k G (poly_of x (mons k D)).
Proof. exact complete_deg_sound. Qed.
Print Assumptions C07_complete_deg_sound_partial.

(* "There are no polynomial invariants": with an empty basis and a trivial kernel, the only
   polynomial of degree <= D vanishing on the sequences is the zero polynomial *)
Theorem C07_no_invariants_sound_partial :
  forall (R : cring) (k D n0 N : nat) (F : list (epoly R)) (P Q : list (list R)) (d dinv : R),
    check_complete k D n0 N F [] [] P Q d dinv = true ->
    forall x : list R, length x = length (mons k D) ->
      (forall n, (n0 <= n)%nat -> poly_eval (poly_of x (mons k D)) (evalF F n) = r0) ->
      x = zeros (length (mons k D)).
Proof. exact no_invariants_sound. Qed.
Print Assumptions C07_no_invariants_sound_partial.

(* the cofactor identities rest on this sound syntactic equality test for polynomials *)
Theorem C07_mpeq_sound :
  forall (R : cring) (p q : mpoly R), mpeq p q = true -> forall xs, poly_eval p xs = poly_eval q xs.
Proof. exact mpeq_sound. Qed.
Print Assumptions C07_mpeq_sound.


(* ---- non-vacuity (certificates produced by the harness for the real InvariantIdeal output) ---- *)
(* a = 2^n, b = 4^n, reported basis {a^2 - b}: every relation of degree <= 2 is in its ideal *)
Example C07_nonvacuous_2_4 :
  check_complete (R := Qc_cring) 2 2 0 9 [[((mkq (2) 1), [(mkq (1) 1)])]; [((mkq (4) 1), [(mkq (1) 1)])]] [[((mkq (1) 1), [2; 0]%nat); ((mkq (-1) 1), [0; 1]%nat)]] [([(mkq (0) 1); (mkq (-1) 1); (mkq (0) 1); (mkq (0) 1); (mkq (0) 1); (mkq (1) 1)], [[((mkq (1) 1), [0; 0]%nat)]])] [[(mkq (0) 1)]; [(mkq (0) 1)]; [(mkq (0) 1)]; [(mkq (0) 1)]; [(mkq (0) 1)]; [(mkq (20160) 1)]] [[(mkq (65536) 1); (mkq (17920) 1); (mkq (64) 1); (mkq (-61440) 1); (mkq (-1920) 1); (mkq (0) 1)]; [(mkq (-61440) 1); (mkq (-30240) 1); (mkq (-120) 1); (mkq (88320) 1); (mkq (3480) 1); (mkq (0) 1)]; [(mkq (17920) 1); (mkq (14140) 1); (mkq (70) 1); (mkq (-30240) 1); (mkq (-1890) 1); (mkq (0) 1)]; [(mkq (-1920) 1); (mkq (-1890) 1); (mkq (-15) 1); (mkq (3480) 1); (mkq (345) 1); (mkq (0) 1)]; [(mkq (64) 1); (mkq (70) 1); (mkq (1) 1); (mkq (-120) 1); (mkq (-15) 1); (mkq (0) 1)]; [(mkq (0) 1); (mkq (0) 1); (mkq (0) 1); (mkq (0) 1); (mkq (0) 1); (mkq (0) 1)]; [(mkq (0) 1); (mkq (0) 1); (mkq (0) 1); (mkq (0) 1); (mkq (0) 1); (mkq (0) 1)]; [(mkq (0) 1); (mkq (0) 1); (mkq (0) 1); (mkq (0) 1); (mkq (0) 1); (mkq (0) 1)]; [(mkq (0) 1); (mkq (0) 1); (mkq (0) 1); (mkq (0) 1); (mkq (0) 1); (mkq (0) 1)]] (mkq (20160) 1) (mkq (1) 20160) = true.
Proof. vm_compute. reflexivity. Qed.
(* a = 2^n, b = 3^n, "no invariants": no non-zero polynomial of degree <= 2 vanishes *)
Example C07_nonvacuous_no_invariants :
  check_complete (R := Qc_cring) 2 2 0 9 [[((mkq (2) 1), [(mkq (1) 1)])]; [((mkq (3) 1), [(mkq (1) 1)])]] [] [] [[]; []; []; []; []; []] [[(mkq (27216) 1); (mkq (60480) 1); (mkq (-144) 1); (mkq (-58320) 1); (mkq (3024) 1); (mkq (-27216) 1)]; [(mkq (-37044) 1); (mkq (-122640) 1); (mkq (324) 1); (mkq (108540) 1); (mkq (-6636) 1); (mkq (57456) 1)]; [(mkq (18900) 1); (mkq (83440) 1); (mkq (-260) 1); (mkq (-65610) 1); (mkq (5110) 1); (mkq (-41580) 1)]; [(mkq (-4515) 1); (mkq (-24220) 1); (mkq (95) 1); (mkq (17370) 1); (mkq (-1750) 1); (mkq (13020) 1)]; [(mkq (504) 1); (mkq (3080) 1); (mkq (-16) 1); (mkq (-2070) 1); (mkq (266) 1); (mkq (-1764) 1)]; [(mkq (-21) 1); (mkq (-140) 1); (mkq (1) 1); (mkq (90) 1); (mkq (-14) 1); (mkq (84) 1)]; [(mkq (0) 1); (mkq (0) 1); (mkq (0) 1); (mkq (0) 1); (mkq (0) 1); (mkq (0) 1)]; [(mkq (0) 1); (mkq (0) 1); (mkq (0) 1); (mkq (0) 1); (mkq (0) 1); (mkq (0) 1)]; [(mkq (0) 1); (mkq (0) 1); (mkq (0) 1); (mkq (0) 1); (mkq (0) 1); (mkq (0) 1)]] (mkq (5040) 1) (mkq (1) 5040) = true.
Proof. vm_compute. reflexivity. Qed.
(* the same certificate is rejected for a = 2^n, b = 4^n (the relation a^2 - b exists) *)
Example C07_rejects_missing_relation :
  check_complete (R := Qc_cring) 2 2 0 9 [[((mkq (2) 1), [(mkq (1) 1)])]; [((mkq (4) 1), [(mkq (1) 1)])]] [] [] [[]; []; []; []; []; []] [[(mkq (27216) 1); (mkq (60480) 1); (mkq (-144) 1); (mkq (-58320) 1); (mkq (3024) 1); (mkq (-27216) 1)]; [(mkq (-37044) 1); (mkq (-122640) 1); (mkq (324) 1); (mkq (108540) 1); (mkq (-6636) 1); (mkq (57456) 1)]; [(mkq (18900) 1); (mkq (83440) 1); (mkq (-260) 1); (mkq (-65610) 1); (mkq (5110) 1); (mkq (-41580) 1)]; [(mkq (-4515) 1); (mkq (-24220) 1); (mkq (95) 1); (mkq (17370) 1); (mkq (-1750) 1); (mkq (13020) 1)]; [(mkq (504) 1); (mkq (3080) 1); (mkq (-16) 1); (mkq (-2070) 1); (mkq (266) 1); (mkq (-1764) 1)]; [(mkq (-21) 1); (mkq (-140) 1); (mkq (1) 1); (mkq (90) 1); (mkq (-14) 1); (mkq (84) 1)]; [(mkq (0) 1); (mkq (0) 1); (mkq (0) 1); (mkq (0) 1); (mkq (0) 1); (mkq (0) 1)]; [(mkq (0) 1); (mkq (0) 1); (mkq (0) 1); (mkq (0) 1); (mkq (0) 1); (mkq (0) 1)]; [(mkq (0) 1); (mkq (0) 1); (mkq (0) 1); (mkq (0) 1); (mkq (0) 1); (mkq (0) 1)]] (mkq (5040) 1) (mkq (1) 5040) = false.
Proof. vm_compute. reflexivity. Qed.
