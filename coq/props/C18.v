(* C18 — loops within the documented restrictions are accepted and analysable; whatever Polar
   refuses, it refuses with an error, never with a wrong or partial result.

   What is proved here (all inputs of the models), and what is not:
   * the documented class as a boolean [in_class] on SOURCE programs (InClass.v, with the README
     sentences it formalises), its reading of restriction 3, and the soundness of its value
     analysis against Sem.run at every loop head (restriction 1 for the guard, semantically);
   * [graph_model]: Graph.get_defective_nodes marks exactly the nodes that are reachable from a
     cycle containing a non-linear edge — all finite labelled graphs, DFS with fuel = |V|;
   * the monomial worklist of RecBuilder.get_recurrences: a returned system is closed, its rows are
     exact one-step identities, the goal has a row; the answer is an error or such a system
     ([refusal_is_error]); termination with the explicit fuel bound |U| inside any finite universe
     U closed under get_recurrence ([worklist_terminates_linear_partial]);
   * models of three code sites behind former refusals INSIDE the documented class (defects 17, 19,
     18 of DESIGN section 6, repaired in /repo a5588d1, 99cc64b, 84580b5): positive theorems for the
     repaired rules, *_old_rule_refuted regression witnesses for the rules before.
   NOT proved: [in_class p = true -> normalize_program accepts p] (no Coq model of the nine passes;
   the statement is FALSE on the current tree — defects 12, 16, 20, 22 are exhibited on the
   real code by ./check C18 on every run), and that the universe of type-reduced monomials is
   closed under get_recurrence for every program that is linear in its non-finite variables
   (the termination theorem of "This Is the Moment for Probabilistic Loops", OOPSLA'22, Thm 4.x);
   per instance the hypothesis is decided by the executable [universe_closedb]. *)
From Coq Require Import List String QArith Qcanon ZArith Bool Arith.
From Polar Require Import Qcx CRing ExpPoly ClosedForm Dist Syntax Sem Types Poly Pipeline Wp
  Graph InClass InClassSound InClassWorklist InClassAtoms.
Import ListNotations.
Open Scope string_scope.

(* ---- the class ---- *)
Theorem C18_in_class_characterisation :
  forall (p : prog) (D : tenv),
    in_class p D = true <->
    initialised p D = true /\ params_const p D = true /\
    exists T, loop_env p D = Some T /\ conditions_finite p D T = true /\ defective_vars p D T = [].
Proof. exact in_class_unfold. Qed.
Print Assumptions C18_in_class_characterisation.

(* README restriction 3 in its own words: in an in-class program no non-linear dependency
   v -> u is closed to a cycle by a dependency path u ->* v *)
Theorem C18_in_class_no_nonlinear_cycle :
  forall (p : prog) (D : tenv),
    in_class p D = true ->
    exists T, loop_env p D = Some T /\
      let nodes := prog_vars p D in
      let adj := adj_of_edges nodes (dep_edges p D T) in
      forall v u : nat, (v < List.length nodes)%nat -> (u < List.length nodes)%nat -> adj v u = 2%nat ->
        ~ reach (List.length nodes) adj u v.
Proof. exact in_class_no_nonlinear_cycle. Qed.
Print Assumptions C18_in_class_no_nonlinear_cycle.

(* the value analysis behind in_class is SOUND for the reference semantics (no declared types):
   whatever it types is finitely valued at every loop head, after any number of iterations,
   whether the guard still holds or the state is frozen *)
Theorem C18_value_analysis_sound :
  forall (law : string -> list Qc -> dist Qc) (p : prog) (T : tenv),
    loop_env p [] = Some T ->
    forall n s0 s, supp (run law p n s0) s -> typed T s.
Proof. exact loop_env_sound. Qed.
Print Assumptions C18_value_analysis_sound.

(* README restriction 1 for the loop guard, semantically: in an in-class program every atom a cop b of
   the guard only ever compares finitely many values (a - b ranges over one explicit finite list in
   every reachable state of every iteration) *)
Theorem C18_in_class_guard_finitely_valued :
  forall (law : string -> list Qc -> dist Qc) (p : prog),
    in_class p [] = true ->
    forall a b, In (a, b) (cond_atoms (p_guard p)) ->
    exists vs : list Qc, forall n s0 s, supp (run law p n s0) s -> In (eval (ESub a b) s) vs.
Proof. exact in_class_guard_finitely_valued. Qed.
Print Assumptions C18_in_class_guard_finitely_valued.

(* ---- graph_model ---- *)
(* the DFS from a fresh mark array, with fuel = number of nodes, computes reachability *)
Theorem C18_dfs_reachability :
  forall (V : nat) (adj : nat -> nat -> nat) (v i : nat),
    (v < V)%nat -> (mark_from V adj v i = true <-> reach V adj v i).
Proof. exact mark_from_spec. Qed.
Print Assumptions C18_dfs_reachability.

(* soundness AND completeness of get_defective_nodes against its docstring, all finite graphs *)
Theorem C18_graph_model :
  forall (V : nat) (adj : nat -> nat -> nat) (i : nat),
    get_defective V adj i = true <->
    exists w, (exists v u, (v < V)%nat /\ (u < V)%nat /\ adj v u = 2%nat /\ reach V adj u w /\ reach V adj w v)
              /\ reach V adj w i.
Proof. exact get_defective_correct. Qed.
Print Assumptions C18_graph_model.

Theorem C18_no_defective_iff_no_nonlinear_cycle :
  forall (V : nat) (adj : nat -> nat -> nat),
    defective_list V adj = [] <->
    (forall v u, (v < V)%nat -> (u < V)%nat -> adj v u = 2%nat -> ~ reach V adj u v).
Proof. exact no_defective_iff. Qed.
Print Assumptions C18_no_defective_iff_no_nonlinear_cycle.

(* ---- the worklist ---- *)
(* system_closed: for all fuel, programs, types, goals — every monomial on a right-hand side has
   its own equation *)
Theorem C18_system_closed :
  forall (step : mono -> option poly) (fuel : nat) (M : mono) (sys : list (mono * poly)),
    recurrences step fuel M = Some sys ->
    forall m q, In (m, q) sys -> forall m', In m' (rhs_monos q) -> In m' (map fst sys).
Proof. exact recurrences_closed. Qed.
Print Assumptions C18_system_closed.

(* refusal_is_error: the model returns None or a COMPLETE system (closed, every row the answer of
   get_recurrence, containing the goal) — there is no path that returns a partial system *)
Theorem C18_refusal_is_error :
  forall (step : mono -> option poly) (fuel : nat) (M : mono),
    recurrences step fuel M = None \/
    exists sys, recurrences step fuel M = Some sys /\ closed_sys sys /\ rows_ok step sys /\ In (mnorm M) (map fst sys).
Proof. exact refusal_is_error. Qed.
Print Assumptions C18_refusal_is_error.

Theorem C18_refusal_propagates :
  forall (step : mono -> option poly) (fuel : nat) (m : mono) (todo : list mono) (sys : list (mono * poly)),
    step m = None -> worklist step fuel (m :: todo) sys = None.
Proof. exact worklist_step_fails. Qed.
Print Assumptions C18_refusal_propagates.

(* with Polar's get_recurrence (Wp.wp_gas) every returned equation is an exact one-step
   expectation identity on typed states: a returned system is never "wrong" either *)
Theorem C18_returned_rows_exact :
  forall law cmom fuel fp T M sys,
    cmom_ok law cmom -> forallb (check_ga T) (fp_body fp) = true ->
    recurrences_fp cmom fuel fp T M = Some sys ->
    forall m q, In (m, q) sys -> forall s, typed T s ->
      E (fstep law fp s) (eval_mono m) = eval_poly q s.
Proof. exact recurrences_fp_exact. Qed.
Print Assumptions C18_returned_rows_exact.

(* worklist_terminates_linear — PARTIAL.  Proved: inside ANY finite universe U of monomials that
   contains the goal and is closed under get_recurrence, the worklist terminates with fuel |U|
   (explicit bound; for finitely typed variables U = the type-reduced monomials, |U| = prod |T x|).
   Missing: that this universe is closed for every flat program whose assignments are linear in
   the non-finite variables (OOPSLA'22); the hypothesis is decided per instance by
   [universe_closedb] (next theorem) and exercised by ./check C18 on Polar's own flat programs. *)
Theorem C18_worklist_terminates_linear_partial :
  forall (step : mono -> option poly) (U : list mono) (fuel : nat) (M : mono),
    (forall m, In m U -> exists q, step m = Some q /\ forall m', In m' (rhs_monos q) -> In m' U) ->
    In (mnorm M) U -> (List.length U <= fuel)%nat ->
    exists sys, recurrences step fuel M = Some sys /\ closed_sys sys /\ rows_ok step sys /\ In (mnorm M) (map fst sys).
Proof. exact recurrences_terminate. Qed.
Print Assumptions C18_worklist_terminates_linear_partial.

Theorem C18_universe_test_sound :
  forall (step : mono -> option poly) (U : list mono), universe_closedb step U = true -> universe_closed step U.
Proof. exact universe_closedb_sound. Qed.
Print Assumptions C18_universe_test_sound.

(* the simplest class — all variables finitely typed: the type-reduced monomials are an explicit
   universe with prod |T x| elements, and that number is enough fuel for EVERY goal in it.
   PARTIAL: closedness of this universe is the executable hypothesis (decided in the kernel for
   Polar's own flat programs by ./check C18), not yet a theorem for all all-finite programs. *)
Theorem C18_finite_class_terminates_partial :
  forall cmom fp T M,
    universe_closedb (polar_step cmom fp T) (reduced_universe T) = true ->
    In (mnorm M) (reduced_universe T) ->
    exists sys, recurrences_fp cmom (prod_sizes T) fp T M = Some sys /\
                closed_sys sys /\ rows_ok (polar_step cmom fp T) sys /\ In (mnorm M) (map fst sys).
Proof. exact finite_class_terminates. Qed.
Print Assumptions C18_finite_class_terminates_partial.

Theorem C18_reduced_universe_size :
  forall T, List.length (reduced_universe T) = prod_sizes T.
Proof. exact reduced_universe_length. Qed.
Print Assumptions C18_reduced_universe_size.

(* a system returned once bounds the fuel for every monomial in it *)
Theorem C18_returned_system_bounds_fuel :
  forall (step : mono -> option poly) (fuel0 : nat) (M0 : mono) (sys : list (mono * poly)),
    recurrences step fuel0 M0 = Some sys -> universe_closed step (map fst sys).
Proof. exact returned_system_is_universe. Qed.
Print Assumptions C18_returned_system_bounds_fuel.

(* ---- acceptance: the three small models follow the REPAIRED code (/repo a5588d1, 99cc64b, 84580b5);
   the positive statements hold without extra hypotheses, the *_old_rule_refuted theorems are the
   regression witnesses of defects 17, 19, 18 on the rules before the repairs ---- *)
Theorem C18_normalized_conditions_arithmetizable :
  forall T a c, get_normalized T a = NOk c -> arithm_defined T c = true.
Proof. exact normalized_arithmetizable. Qed.
Print Assumptions C18_normalized_conditions_arithmetizable.

(* defect 17, old rule (is_normalized demanded an integer): x = 1/2 {1/2} 3/2; if x < 1 *)
Theorem C18_acceptance_nonint_old_rule_refuted :
  exists T a c, get_normalized T a = NOk c /\ arithm_defined_old T c = false /\ arithm_defined T c = true.
Proof. exact normalized_arithmetizable_old_rule_refuted. Qed.
Print Assumptions C18_acceptance_nonint_old_rule_refuted.

Theorem C18_constant_folding_keeps_reduced :
  forall k v conds, forallb is_reduced conds = true -> forallb is_reduced (fold_constant k v conds) = true.
Proof. exact fold_constant_keeps_reduced. Qed.
Print Assumptions C18_constant_folding_keeps_reduced.

(* defect 19, old rule (fold every fixed constant into the reduced atoms): a = 1; if a == 0 *)
Theorem C18_acceptance_constant_atom_old_rule_refuted :
  exists k v conds T, forallb is_reduced conds = true /\
    existsb (fun a => match get_normalized T a with NErr => true | _ => false end) (fold_constant_old k v conds) = true /\
    forallb is_reduced (fold_constant k v conds) = true.
Proof. exact constants_after_reducer_old_rule_refuted. Qed.
Print Assumptions C18_acceptance_constant_atom_old_rule_refuted.

Theorem C18_goals_indexed :
  forall consts body_vars goal_vars, goal_index consts body_vars goal_vars <> None.
Proof. exact goal_indexed. Qed.
Print Assumptions C18_goals_indexed.

(* defect 18, old rule (dict lookup of every goal variable): k = 2; ... E(k*x) *)
Theorem C18_acceptance_goal_constant_old_rule_refuted :
  exists consts body_vars xs, last_assign_index_old body_vars xs = None /\ goal_index consts body_vars xs = Some 1%nat.
Proof. exact goal_over_folded_constant_old_rule_refuted. Qed.
Print Assumptions C18_acceptance_goal_constant_old_rule_refuted.

(* ---- non-vacuity ---- *)
(* the README's situation: x depends non-linearly on g, g not on x; finite c in a condition *)
Definition ex_in : prog :=
  {| p_init := BCons (SAssign "c" (RDet (EConst (mkq 0 1)))) (BCons (SAssign "g" (RDet (EConst (mkq 0 1))))
               (BCons (SAssign "x" (RDet (EConst (mkq 0 1)))) BNil));
     p_guard := CTrue;
     p_body := BCons (SAssign "c" (RDraw (DBern (EConst (mkq 1 2)))))
               (BCons (SIf (BrCons (CAtom (EVar "c") Ceq (EConst (mkq 1 1)))
                                   (BCons (SAssign "g" (RDet (EAdd (EVar "g") (EConst (mkq 1 1))))) BNil) BrNil) BNil)
               (BCons (SAssign "x" (RDet (EAdd (EVar "x") (EPow (EVar "g") 2)))) BNil)) |}.
Example C18_in_class_nonvacuous : in_class ex_in [] = true.
Proof. vm_compute. reflexivity. Qed.
(* x = x*y; y = x : a non-linear cycle *)
Definition ex_out : prog :=
  {| p_init := BCons (SAssign "x" (RDet (EConst (mkq 2 1)))) (BCons (SAssign "y" (RDet (EConst (mkq 1 1)))) BNil);
     p_guard := CTrue;
     p_body := BCons (SAssign "x" (RDet (EMul (EVar "x") (EVar "y")))) (BCons (SAssign "y" (RDet (EVar "x"))) BNil) |}.
Example C18_in_class_rejects_nonlinear_cycle :
  in_class_parts ex_out [] = [true; true; true; true; false].
Proof. vm_compute. reflexivity. Qed.
(* x = x + 1; if x > 3: an unbounded variable in a condition *)
Definition ex_unbounded : prog :=
  {| p_init := BCons (SAssign "x" (RDet (EConst (mkq 0 1)))) (BCons (SAssign "y" (RDet (EConst (mkq 0 1)))) BNil);
     p_guard := CTrue;
     p_body := BCons (SAssign "x" (RDet (EAdd (EVar "x") (EConst (mkq 1 1)))))
               (BCons (SIf (BrCons (CAtom (EVar "x") Cgt (EConst (mkq 3 1)))
                                   (BCons (SAssign "y" (RDet (EAdd (EVar "y") (EConst (mkq 1 1))))) BNil) BrNil) BNil) BNil) |}.
Example C18_in_class_rejects_unbounded_condition :
  in_class_parts ex_unbounded [] = [true; true; true; false; true].
Proof. vm_compute. reflexivity. Qed.
(* graphs: a non-linear edge on a 2-cycle taints both nodes and what they reach; on a path, nothing *)
Example C18_graph_nonvacuous :
  defective_of [[0; 2; 0]; [1; 0; 1]; [0; 0; 0]]%nat = [0; 1; 2]%nat /\
  defective_of [[0; 2; 0]; [0; 0; 1]; [0; 0; 0]]%nat = [] /\
  defective_of [[0; 1; 0]; [1; 0; 0]; [0; 0; 0]]%nat = [].
Proof. vm_compute. repeat split; reflexivity. Qed.
(* worklist: coin-flip accumulator  x = Bernoulli(1/2); y = y + x | x == 1 : goal y*y terminates
   with fuel 4 and the returned system is a closed universe *)
Definition cm0 : string -> list Qc -> nat -> Qc := fun _ _ _ => 0%Qc.
Definition ex_fp : flatprog :=
  {| fp_init := [ {| ga_var := "x"; ga_cond := CTrue; ga_default := "x"; ga_rhs := RDet (EConst (mkq 0 1)) |};
                  {| ga_var := "y"; ga_cond := CTrue; ga_default := "y"; ga_rhs := RDet (EConst (mkq 0 1)) |} ];
     fp_body := [ {| ga_var := "x"; ga_cond := CTrue; ga_default := "x"; ga_rhs := RDraw (DBern (EConst (mkq 1 2))) |};
                  {| ga_var := "y"; ga_cond := CAtom (EVar "x") Ceq (EConst (mkq 1 1)); ga_default := "y";
                     ga_rhs := RDet (EAdd (EVar "y") (EVar "x")) |} ] |}.
Definition ex_T : tenv := [("x", [mkq 0 1; mkq 1 1])].
Example C18_worklist_nonvacuous :
  match recurrences_fp cm0 4 ex_fp ex_T [("y", 2%nat)] with
  | Some sys => universe_closedb (polar_step cm0 ex_fp ex_T) (map fst sys) && Nat.eqb (List.length sys) 2
  | None => false
  end = true /\
  recurrences_fp cm0 1 ex_fp ex_T [("y", 2%nat)] = None.
Proof. vm_compute. split; reflexivity. Qed.
(* all variables finite:  x = Bernoulli(1/2); z = 1 - z | x == 1 : z  — the universe {1, x, z, x*z}
   is closed, so 4 = |T x| * |T z| steps suffice for every goal over x, z of any degree below the
   type sizes *)
Definition ex_fin : flatprog :=
  {| fp_init := [ {| ga_var := "x"; ga_cond := CTrue; ga_default := "x"; ga_rhs := RDet (EConst (mkq 0 1)) |};
                  {| ga_var := "z"; ga_cond := CTrue; ga_default := "z"; ga_rhs := RDet (EConst (mkq 0 1)) |} ];
     fp_body := [ {| ga_var := "x"; ga_cond := CTrue; ga_default := "x"; ga_rhs := RDraw (DBern (EConst (mkq 1 2))) |};
                  {| ga_var := "z"; ga_cond := CAtom (EVar "x") Ceq (EConst (mkq 1 1)); ga_default := "z";
                     ga_rhs := RDet (ESub (EConst (mkq 1 1)) (EVar "z")) |} ] |}.
Definition ex_fin_T : tenv := [("x", [mkq 0 1; mkq 1 1]); ("z", [mkq 0 1; mkq 1 1])].
Example C18_finite_class_nonvacuous :
  universe_closedb (polar_step cm0 ex_fin ex_fin_T) (reduced_universe ex_fin_T) = true /\
  prod_sizes ex_fin_T = 4%nat /\
  mono_mem (mnorm [("z", 1%nat); ("x", 1%nat)]) (reduced_universe ex_fin_T) = true.
Proof. vm_compute. repeat split; reflexivity. Qed.
