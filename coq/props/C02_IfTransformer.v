(* C02 — IfTransformer (if/elif/else flattened into guarded assignments with _old copies):
   the model PassIf.if_flatten_old (tied to program/transformer/if_transformer.py by
   harness/pass_if.py on every run) preserves the distribution of every observation that does
   not read generated `_old...` variables, for ALL blocks (nested if-statements of any depth),
   ALL start states, with the auxiliaries starting arbitrary, and at ALL iterations. *)
From Coq Require Import List String QArith Qcanon ZArith.
From Polar Require Import Qcx Dist Syntax Sem PassIf PassIfProof PassIfAux.
Import ListNotations.
Open Scope string_scope.

(* ===================== the rule of the tree as it stands (every assignment of a branch gets the
   branch condition): model if_flatten_old ===================== *)
(* one execution of a block: source block from s, flattened list from any t that agrees with s
   on the non-generated variables *)
Theorem C02_if_flatten_old_rule_block_preserves :
  forall (law : string -> list Qc -> dist Qc) (k : nat) (b : block) (l : list gassign) (k' : nat),
    if_flatten_old k b = Some (l, k') ->
    wf_block b = true ->
    forall s t : state, (forall x, is_gen x = false -> t x = s x) ->
    forall f : state -> Qc,
      (forall s' t' : state, (forall x, is_gen x = false -> t' x = s' x) -> f t' = f s') ->
      E (exec_gas law l t) f = E (exec_block law b s) f.
Proof. exact if_flatten_old_rule_block_preserves. Qed.
Print Assumptions C02_if_flatten_old_rule_block_preserves.

(* whole programs (init block and loop body, guard already literally true), every iteration n *)
Theorem C02_if_flatten_old_rule_preserves :
  forall (law : string -> list Qc -> dist Qc) (k : nat) (p : prog) (fp : flatprog) (k' : nat),
    if_flatten_prog_old k p = Some (fp, k') ->
    wf_prog p = true ->
    forall (n : nat) (s0 t0 : state), (forall x, is_gen x = false -> t0 x = s0 x) ->
    forall f : state -> Qc,
      (forall s' t' : state, (forall x, is_gen x = false -> t' x = s' x) -> f t' = f s') ->
      E (frun law fp n t0) f = E (run law p n s0) f.
Proof. exact if_flatten_old_rule_preserves. Qed.
Print Assumptions C02_if_flatten_old_rule_preserves.

(* the hypothesis wf_block cannot be dropped: with a source variable named _old0 the model's (and
   Polar's, see the capture probe of harness/pass_if.py) output changes E(y) from 7 to 0 *)
Theorem C02_if_flatten_old_rule_without_wf_refuted :
  exists (k : nat) (b : block) (l : list gassign) (k' : nat) (s : state) (f : state -> Qc),
    if_flatten_old k b = Some (l, k') /\
    (forall s' t' : state, (forall x, is_gen x = false -> t' x = s' x) -> f t' = f s') /\
    (forall x, is_gen x = false -> s x = s x) /\
    E (exec_gas no_law l s) f <> E (exec_block no_law b s) f.
Proof. exact if_flatten_without_wf_refuted. Qed.
Print Assumptions C02_if_flatten_old_rule_without_wf_refuted.

(* ---- non-vacuity: if a==0: y=1 elif b==0: y=2 else: a=5 end ---- *)
Definition c_a0 := CAtom (EVar "a") Ceq (EConst (mkq 0 1)).
Definition c_b0 := CAtom (EVar "b") Ceq (EConst (mkq 0 1)).
Definition c_old0 := CAtom (EVar "_old0") Ceq (EConst (mkq 0 1)).
Definition ga (x : var) (c : cond) (e : expr) : gassign :=
  {| ga_var := x; ga_cond := c; ga_default := x; ga_rhs := RDet e |}.

(* the model's output is Polar's: the copy of a comes first, and the negated first condition is
   renamed in the SECOND branch although a is assigned only in the last one (aliasing quirk) *)
Example C02_if_old_rule_example_output :
  if_flatten_old 0 ex_if =
  Some ([ga "_old0" CTrue (EVar "a");
         ga "y" c_a0 (EConst (mkq 1 1));
         ga "y" (CAnd (CNot c_old0) c_b0) (EConst (mkq 2 1));
         ga "a" (CAnd (CNot c_old0) (CNot c_b0)) (EConst (mkq 5 1))], 1%nat).
Proof. vm_compute. reflexivity. Qed.

Example C02_if_example_wf : wf_block ex_if = true.
Proof. vm_compute. reflexivity. Qed.

(* a whole program with a nested statement that reassigns its own condition variables *)
Definition ex_nested : prog :=
  {| p_init := BCons (SAssign "a" (RDet (EConst (mkq 0 1)))) (BCons (SAssign "y" (RDet (EConst (mkq 0 1)))) BNil);
     p_guard := CTrue;
     p_body := BCons (SIf (BrCons (CNot c_a0)
                             (BCons (SAssign "a" (RChoice [(EConst (mkq 1 2), EConst (mkq 0 1)); (EConst (mkq 1 2), EVar "a")]))
                             (BCons (SIf (BrCons (CAtom (EVar "y") Clt (EVar "a")) (BCons (SAssign "y" (RDet (EVar "a"))) BNil) BrNil)
                                         (BCons (SAssign "a" (RDet (EConst (mkq 3 1)))) BNil)) BNil))
                             BrNil)
                          (BCons (SAssign "a" (RDraw (DUnif 1 2))) BNil)) BNil |}.
Example C02_if_old_rule_nested_defined :
  (match if_flatten_prog_old 7 ex_nested with
   | Some (fp, k) => (List.length (fp_body fp), k)
   | None => (0%nat, 0%nat)
   end, wf_prog ex_nested) = ((7%nat, 10%nat), true).
Proof. vm_compute. reflexivity. Qed.

(* the mutually exclusive shape produced by the categorical expansion: conditions used alone *)
Definition ex_mutex : block :=
  BCons (SIf (BrCons (CAtom (EVar "_c3") Ceq (EConst (mkq 0 1))) (BCons (SAssign "x" (RDet (EConst (mkq 1 1)))) BNil)
             (BrCons (CAtom (EVar "_c3") Ceq (EConst (mkq 1 1))) (BCons (SAssign "x" (RDet (EVar "x"))) BNil) BrNil))
             BNil) BNil.
Example C02_if_old_rule_mutex_output :
  if_flatten_old 4 ex_mutex =
  Some ([ga "x" (CAtom (EVar "_c3") Ceq (EConst (mkq 0 1))) (EConst (mkq 1 1));
         ga "x" (CAtom (EVar "_c3") Ceq (EConst (mkq 1 1))) (EVar "x")], 4%nat).
Proof. vm_compute. reflexivity. Qed.

(* ===================== the rule of proposed_fixes/c18_auxiliary_assignments_unconditional.diff:
   auxiliary assignments (_old<k> copies, _t<k> temporaries, _c<k> categorical draws) stay
   unconditional: model if_flatten =====================
   Hypotheses (boolean, aux_ok): no input variable named _old...; every auxiliary assignment has a
   right-hand side of total mass 1 (probabilities sum to 1 as polynomials, DiscreteUniform(a,b) with
   a <= b); every auxiliary variable is assigned before it is read on every path of every iteration
   (live_ok).  Continuous laws have total mass 1.  Observations do not read auxiliary variables. *)
Theorem C02_if_flatten_block_preserves :
  forall (law : string -> list Qc -> dist Qc), (forall f args, mass (law f args) = 1%Qc) ->
  forall (k : nat) (b : block) (l : list gassign) (k' : nat),
    if_flatten k b = Some (l, k') ->
    aux_ok b = true ->
    forall s t : state, (forall x, is_aux x = false -> t x = s x) ->
    forall f : state -> Qc,
      (forall s' t' : state, (forall x, is_aux x = false -> t' x = s' x) -> f t' = f s') ->
      E (exec_gas law l t) f = E (exec_block law b s) f.
Proof. exact if_flatten_block_preserves. Qed.
Print Assumptions C02_if_flatten_block_preserves.

Theorem C02_if_flatten_preserves :
  forall (law : string -> list Qc -> dist Qc), (forall f args, mass (law f args) = 1%Qc) ->
  forall (k : nat) (p : prog) (fp : flatprog) (k' : nat),
    if_flatten_prog k p = Some (fp, k') ->
    aux_ok_prog p = true ->
    forall (n : nat) (s0 t0 : state), (forall x, is_aux x = false -> t0 x = s0 x) ->
    forall f : state -> Qc,
      (forall s' t' : state, (forall x, is_aux x = false -> t' x = s' x) -> f t' = f s') ->
      E (frun law fp n t0) f = E (run law p n s0) f.
Proof. exact if_flatten_preserves. Qed.
Print Assumptions C02_if_flatten_preserves.

(* non-vacuity: c = Bernoulli(1/2); if c == 1: f, x = 1, x+1 (parser: _t0 = 1; _t1 = x+1; f = _t0; x = _t1);
   _c2 = Categorical(1/4,3/4); if _c2 == 0: x = x+1 elif _c2 == 1: x = x+2 end end; if f == 1: f = 0 end *)
Definition ex_aux : block :=
  BCons (SAssign "c" (RDraw (DBern (EConst (mkq 1 2)))))
  (BCons (SIf (BrCons (CAtom (EVar "c") Ceq (EConst (mkq 1 1)))
          (BCons (SAssign "_t0" (RDet (EConst (mkq 1 1))))
          (BCons (SAssign "_t1" (RDet (EAdd (EVar "x") (EConst (mkq 1 1)))))
          (BCons (SAssign "f" (RDet (EVar "_t0")))
          (BCons (SAssign "x" (RDet (EVar "_t1")))
          (BCons (SAssign "_c2" (RDraw (DCat [EConst (mkq 1 4); EConst (mkq 3 4)])))
          (BCons (SIf (BrCons (CAtom (EVar "_c2") Ceq (EConst (mkq 0 1))) (BCons (SAssign "x" (RDet (EAdd (EVar "x") (EConst (mkq 1 1))))) BNil)
                      (BrCons (CAtom (EVar "_c2") Ceq (EConst (mkq 1 1))) (BCons (SAssign "x" (RDet (EAdd (EVar "x") (EConst (mkq 2 1))))) BNil)
                       BrNil)) BNil) BNil)))))) BrNil) BNil)
  (BCons (SIf (BrCons (CAtom (EVar "f") Ceq (EConst (mkq 1 1))) (BCons (SAssign "f" (RDet (EConst (mkq 0 1)))) BNil) BrNil) BNil) BNil)).
Definition c_c1 := CAtom (EVar "c") Ceq (EConst (mkq 1 1)).
Definition gar (x : var) (c : cond) (r : rhs) : gassign := {| ga_var := x; ga_cond := c; ga_default := x; ga_rhs := r |}.
Example C02_if_aux_example_output :
  if_flatten 3 ex_aux =
  Some ([gar "c" CTrue (RDraw (DBern (EConst (mkq 1 2))));
         ga "_t0" CTrue (EConst (mkq 1 1));
         ga "_t1" CTrue (EAdd (EVar "x") (EConst (mkq 1 1)));
         ga "f" c_c1 (EVar "_t0");
         ga "x" c_c1 (EVar "_t1");
         gar "_c2" CTrue (RDraw (DCat [EConst (mkq 1 4); EConst (mkq 3 4)]));
         ga "x" (CAnd (CAtom (EVar "_c2") Ceq (EConst (mkq 0 1))) c_c1) (EAdd (EVar "x") (EConst (mkq 1 1)));
         ga "x" (CAnd (CAtom (EVar "_c2") Ceq (EConst (mkq 1 1))) c_c1) (EAdd (EVar "x") (EConst (mkq 2 1)));
         ga "_old3" CTrue (EVar "f");
         ga "f" (CAtom (EVar "_old3") Ceq (EConst (mkq 1 1))) (EConst (mkq 0 1))], 4%nat).
Proof. vm_compute. reflexivity. Qed.
Example C02_if_aux_example_hyps : aux_ok ex_aux = true.
Proof. vm_compute. reflexivity. Qed.
(* the earlier examples under the new rule: same output on the DESIGN example (no auxiliary inside a
   branch); the nested program keeps its inner copy unconditional *)
Example C02_if_example_output :
  if_flatten 0 ex_if = if_flatten_old 0 ex_if /\ aux_ok ex_if = true /\ aux_ok_prog ex_nested = true.
Proof. vm_compute. repeat split. Qed.
Example C02_if_nested_inner_copy_unconditional :
  match if_flatten_prog 7 ex_nested, if_flatten_prog_old 7 ex_nested with
  | Some (fp, _), Some (fpo, _) =>
      (map ga_cond (filter (fun g => is_gen (ga_var g)) (fp_body fp)),
       map (fun g => match ga_cond g with CTrue => true | _ => false end) (filter (fun g => is_gen (ga_var g)) (fp_body fpo)))
  | _, _ => ([], [])
  end = ([CTrue; CTrue; CTrue], [true; false; false]).
Proof. vm_compute. reflexivity. Qed.
