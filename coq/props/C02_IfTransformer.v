(* C02 — IfTransformer (if/elif/else flattened into guarded assignments with _old copies):
   the model PassIf.if_flatten_old (tied to program/transformer/if_transformer.py by
   harness/pass_if.py on every run) preserves the distribution of every observation that does
   not read generated `_old...` variables, for ALL blocks (nested if-statements of any depth),
   ALL start states, with the auxiliaries starting arbitrary, and at ALL iterations. *)
From Coq Require Import List String QArith Qcanon ZArith.
From Polar Require Import Qcx Dist Syntax Sem PassIf PassIfProof.
Import ListNotations.
Open Scope string_scope.

(* one execution of a block: source block from s, flattened list from any t that agrees with s
   on the non-generated variables *)
Theorem C02_if_flatten_block_preserves :
  forall (law : string -> list Qc -> dist Qc) (k : nat) (b : block) (l : list gassign) (k' : nat),
    if_flatten_old k b = Some (l, k') ->
    wf_block b = true ->
    forall s t : state, (forall x, is_gen x = false -> t x = s x) ->
    forall f : state -> Qc,
      (forall s' t' : state, (forall x, is_gen x = false -> t' x = s' x) -> f t' = f s') ->
      E (exec_gas law l t) f = E (exec_block law b s) f.
Proof. exact if_flatten_block_preserves. Qed.
Print Assumptions C02_if_flatten_block_preserves.

(* whole programs (init block and loop body, guard already literally true), every iteration n *)
Theorem C02_if_flatten_preserves :
  forall (law : string -> list Qc -> dist Qc) (k : nat) (p : prog) (fp : flatprog) (k' : nat),
    if_flatten_prog_old k p = Some (fp, k') ->
    wf_prog p = true ->
    forall (n : nat) (s0 t0 : state), (forall x, is_gen x = false -> t0 x = s0 x) ->
    forall f : state -> Qc,
      (forall s' t' : state, (forall x, is_gen x = false -> t' x = s' x) -> f t' = f s') ->
      E (frun law fp n t0) f = E (run law p n s0) f.
Proof. exact if_flatten_preserves. Qed.
Print Assumptions C02_if_flatten_preserves.

(* the hypothesis wf_block cannot be dropped: with a source variable named _old0 the model's (and
   Polar's, see the capture probe of harness/pass_if.py) output changes E(y) from 7 to 0 *)
Theorem C02_if_flatten_without_wf_refuted :
  exists (k : nat) (b : block) (l : list gassign) (k' : nat) (s : state) (f : state -> Qc),
    if_flatten_old k b = Some (l, k') /\
    (forall s' t' : state, (forall x, is_gen x = false -> t' x = s' x) -> f t' = f s') /\
    (forall x, is_gen x = false -> s x = s x) /\
    E (exec_gas no_law l s) f <> E (exec_block no_law b s) f.
Proof. exact if_flatten_without_wf_refuted. Qed.
Print Assumptions C02_if_flatten_without_wf_refuted.

(* ---- non-vacuity: if a==0: y=1 elif b==0: y=2 else: a=5 end ---- *)
Definition c_a0 := CAtom (EVar "a") Ceq (EConst (mkq 0 1)).
Definition c_b0 := CAtom (EVar "b") Ceq (EConst (mkq 0 1)).
Definition c_old0 := CAtom (EVar "_old0") Ceq (EConst (mkq 0 1)).
Definition ga (x : var) (c : cond) (e : expr) : gassign :=
  {| ga_var := x; ga_cond := c; ga_default := x; ga_rhs := RDet e |}.

(* the model's output is Polar's: the copy of a comes first, and the negated first condition is
   renamed in the SECOND branch although a is assigned only in the last one (aliasing quirk) *)
Example C02_if_example_output :
  if_flatten_old 0 ex_if =
  Some ([ga "_old0" CTrue (EVar "a");
         ga "y" c_a0 (EConst (mkq 1 1));
         ga "y" (CAnd (CNot c_old0) c_b0) (EConst (mkq 2 1));
         ga "a" (CAnd (CNot c_old0) (CNot c_b0)) (EConst (mkq 5 1))], 1%nat).
Proof. vm_compute. reflexivity. Qed.

Example C02_if_example_wf : wf_block ex_if = true.
Proof. vm_compute. reflexivity. Qed.

(* a whole program with a nested statement that reassigns its own condition variables *)
Definition ex_nested : prog :=
  {| p_init := BCons (SAssign "a" (RDet (EConst (mkq 0 1)))) (BCons (SAssign "y" (RDet (EConst (mkq 0 1)))) BNil);
     p_guard := CTrue;
     p_body := BCons (SIf (BrCons (CNot c_a0)
                             (BCons (SAssign "a" (RChoice [(EConst (mkq 1 2), EConst (mkq 0 1)); (EConst (mkq 1 2), EVar "a")]))
                             (BCons (SIf (BrCons (CAtom (EVar "y") Clt (EVar "a")) (BCons (SAssign "y" (RDet (EVar "a"))) BNil) BrNil)
                                         (BCons (SAssign "a" (RDet (EConst (mkq 3 1)))) BNil)) BNil))
                             BrNil)
                          (BCons (SAssign "a" (RDraw (DUnif 1 2))) BNil)) BNil |}.
Example C02_if_nested_defined :
  (match if_flatten_prog_old 7 ex_nested with
   | Some (fp, k) => (List.length (fp_body fp), k)
   | None => (0%nat, 0%nat)
   end, wf_prog ex_nested) = ((7%nat, 10%nat), true).
Proof. vm_compute. reflexivity. Qed.

(* the mutually exclusive shape produced by the categorical expansion: conditions used alone *)
Definition ex_mutex : block :=
  BCons (SIf (BrCons (CAtom (EVar "_c3") Ceq (EConst (mkq 0 1))) (BCons (SAssign "x" (RDet (EConst (mkq 1 1)))) BNil)
             (BrCons (CAtom (EVar "_c3") Ceq (EConst (mkq 1 1))) (BCons (SAssign "x" (RDet (EVar "x"))) BNil) BrNil))
             BNil) BNil.
Example C02_if_mutex_output :
  if_flatten_old 4 ex_mutex =
  Some ([ga "x" (CAtom (EVar "_c3") Ceq (EConst (mkq 0 1))) (EConst (mkq 1 1));
         ga "x" (CAtom (EVar "_c3") Ceq (EConst (mkq 1 1))) (EVar "x")], 4%nat).
Proof. vm_compute. reflexivity. Qed.
