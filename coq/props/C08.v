(* C08 — built-in distributions report their true moments, support and transforms.
   Only property theorems, each closed by [exact] and followed by Print Assumptions.
   Every [*_get_moment], [*_get_support], [*_is_discrete], [*_mgf_exists_at],
   [transform_*] below is GENERATED from /repo/program/distribution/*.py and
   program/transformer/dist_transformer.py by harness/translate_dist.py on every run
   (gen/DistGen.v); specifications (literal pmfs, recurrences) are in theories/DistProofs.v.
   Parameters range over Qc; k over all of nat. *)
From Coq Require Import List QArith Qcanon ZArith Reals.
From Coquelicot Require Import Coquelicot.
From Polar Require Import Qcx DistBase DistSympy DistProofs DistReal.
From PolarGen Require Import DistGen.
Import ListNotations.
Local Open Scope Qc_scope.

(* ================= discrete families: moment = defining sum over the literal pmf ============ *)

(* Bernoulli(p): pmf [(1-p, 0); (p, 1)].  Holds for k >= 1 ... *)
Theorem C08_bernoulli_moment_sum :
  forall (p : Qc) (k : nat), (1 <= k)%nat -> bernoulli_get_moment p k = pmf_moment (bernoulli_pmf p) k.
Proof. exact bernoulli_moment_sum. Qed.
Print Assumptions C08_bernoulli_moment_sum.

(* ... and at k = 0 the code is decided: EITHER (defect, pinned tree) get_moment(0) differs
   from the true value 1 for every p <> 1, OR (repaired tree) it equals it for every p.
   Which disjunct holds is reported by the check ([C08_bernoulli_moment0_refuted] below is
   compiled against the generated definitions on every run and, when it is provable, the
   failing call is exhibited on the real code). *)
Theorem C08_bernoulli_moment0_decided :
  (forall p, p <> 1 -> bernoulli_get_moment p 0 <> pmf_moment (bernoulli_pmf p) 0)
  \/ (forall p, bernoulli_get_moment p 0 = pmf_moment (bernoulli_pmf p) 0).
Proof. exact bernoulli_moment0_status. Qed.
Print Assumptions C08_bernoulli_moment0_decided.

Theorem C08_bernoulli_support :
  forall p x, In x (pmf_values (bernoulli_pmf p)) <-> in_support x (bernoulli_get_support p).
Proof. exact bernoulli_support. Qed.
Print Assumptions C08_bernoulli_support.

(* Categorical(p0..pn-1): pmf [(p_i, i)]; all k >= 0 (Python's 0**0 = 1 = qpow 0 0) *)
Theorem C08_categorical_moment_sum :
  forall (ps : list Qc) (k : nat), categorical_get_moment ps k = pmf_moment (categorical_pmf ps) k.
Proof. exact categorical_moment_sum. Qed.
Print Assumptions C08_categorical_moment_sum.

(* parameter vectors not rejected by set_parameters are non-empty with total mass 1, hence m0 = 1 *)
Theorem C08_categorical_admitted :
  forall ps, categorical_rejects ps = false -> ps <> [] /\ pmf_total (categorical_pmf ps) = 1.
Proof. exact categorical_admitted. Qed.
Print Assumptions C08_categorical_admitted.

Theorem C08_categorical_support :
  forall ps x, In x (pmf_values (categorical_pmf ps)) <-> in_support x (categorical_get_support ps).
Proof. exact categorical_support. Qed.
Print Assumptions C08_categorical_support.

(* DiscreteUniform(a, b), integers a <= b: pmf [(1/(b-a+1), z) | z = a..b] *)
Theorem C08_discreteuniform_moment_sum :
  forall (a b : Z) (k : nat), (a <= b)%Z -> discreteuniform_get_moment a b k = pmf_moment (du_pmf a b) k.
Proof. exact du_moment_sum. Qed.
Print Assumptions C08_discreteuniform_moment_sum.

Theorem C08_discreteuniform_total :
  forall a b, (a <= b)%Z -> pmf_total (du_pmf a b) = 1 /\ discreteuniform_get_moment a b 0 = 1.
Proof. exact du_total. Qed.
Print Assumptions C08_discreteuniform_total.

Theorem C08_discreteuniform_support :
  forall a b x, in_support x (discreteuniform_get_support a b) <-> exists z, (a <= z <= b)%Z /\ x = qz z.
Proof. exact du_support_range. Qed.
Print Assumptions C08_discreteuniform_support.

(* ================= continuous families: m0 = 1 and the defining moment recurrence ============= *)

(* Uniform(a,b): antiderivative identity, and the integral itself (Coquelicot) *)
Theorem C08_uniform_moment :
  forall (a b : Qc) (k : nat), a <> b ->
    uniform_get_moment a b 0 = 1 /\
    qnat (S k) * (b - a) * uniform_get_moment a b k = qpow b (S k) - qpow a (S k).
Proof. exact uniform_moment_spec. Qed.
Print Assumptions C08_uniform_moment.

Theorem C08_uniform_moment_integral :
  forall (a b : Qc) (k : nat), a <> b ->
    Qc2R (uniform_get_moment a b k)
    = RInt (fun x => x ^ k / (Qc2R b - Qc2R a))%R (Qc2R a) (Qc2R b).
Proof. exact uniform_moment_integral. Qed.
Print Assumptions C08_uniform_moment_integral.

(* Exponential(lambda): m0 = 1, m(k+1) = (k+1)/lambda m(k) *)
Theorem C08_exponential_moment :
  forall (lam : Qc) (k : nat), lam <> 0 ->
    exponential_get_moment lam 0 = 1 /\
    exponential_get_moment lam (S k) = qnat (S k) / lam * exponential_get_moment lam k.
Proof. exact exponential_moment_spec. Qed.
Print Assumptions C08_exponential_moment.

(* Gamma(kappa, theta): m0 = 1, m(p+1) = theta (kappa + p) m(p) *)
Theorem C08_gamma_moment :
  forall (kappa theta : Qc) (p : nat),
    gamma_get_moment kappa theta 0 = 1 /\
    gamma_get_moment kappa theta (S p) = theta * (kappa + qnat p) * gamma_get_moment kappa theta p.
Proof. exact gamma_moment_spec. Qed.
Print Assumptions C08_gamma_moment.

(* Beta(a, b[, scale]), a + b > 0: m0 = 1, m(k+1) = scale (a+k)/(a+b+k) m(k) *)
Theorem C08_beta_moment :
  forall (a b s : Qc) (k : nat), 0 < a + b ->
    beta3_get_moment a b s 0 = 1 /\
    beta3_get_moment a b s (S k) = s * ((a + qnat k) / (a + b + qnat k)) * beta3_get_moment a b s k /\
    beta2_get_moment a b k = beta3_get_moment a b 1 k.
Proof. exact beta_moment_spec. Qed.
Print Assumptions C08_beta_moment.

(* Normal(mu, sigma2): m0 = 1, m1 = mu, m(k+2) = mu m(k+1) + (k+1) sigma2 m(k) *)
Theorem C08_normal_moment :
  forall (mu s2 : Qc) (k : nat),
    normal_get_moment mu s2 0 = 1 /\ normal_get_moment mu s2 1 = mu /\
    normal_get_moment mu s2 (S (S k)) = mu * normal_get_moment mu s2 (S k) + qnat (S k) * s2 * normal_get_moment mu s2 k.
Proof. exact normal_moment_spec. Qed.
Print Assumptions C08_normal_moment.

(* Laplace(mu, b): m0 = 1, m1 = mu, m(k+2) = mu^(k+2) + (k+2)(k+1) b^2 m(k);
   central moments (2i)! b^(2i) / 0 *)
Theorem C08_laplace_moment :
  forall (mu b : Qc) (k : nat),
    laplace_get_moment mu b 0 = 1 /\ laplace_get_moment mu b 1 = mu /\
    laplace_get_moment mu b (S (S k)) = qpow mu (S (S k)) + qnat (S (S k)) * qnat (S k) * (b * b) * laplace_get_moment mu b k.
Proof. exact laplace_moment_spec. Qed.
Print Assumptions C08_laplace_moment.

Theorem C08_laplace_central :
  forall (b : Qc) (i : nat),
    laplace_get_moment 0 b (2 * i) = qfact (2 * i) * qpow b (2 * i) /\ laplace_get_moment 0 b (S (2 * i)) = 0.
Proof. exact laplace_centred_closed. Qed.
Print Assumptions C08_laplace_central.

(* ================= supports contain (are) the true supports; flags; MGF domains ================= *)
Theorem C08_supports_continuous :
  (forall a b x, (a <= x /\ x <= b) <-> in_support x (uniform_get_support a b)) /\
  (forall l x, 0 <= x <-> in_support x (exponential_get_support l)) /\
  (forall a t x, 0 <= x <-> in_support x (gamma_get_support a t)) /\
  (forall a b x, (0 <= x /\ x <= 1) <-> in_support x (beta2_get_support a b)) /\
  (forall a b s x, (0 <= x /\ x <= s) <-> in_support x (beta3_get_support a b s)) /\
  (forall m s x, in_support x (normal_get_support m s)) /\
  (forall m b x, in_support x (laplace_get_support m b)) /\
  (forall m s a b x, (a <= x /\ x <= b) <-> in_support x (truncnormal_get_support m s a b)).
Proof. exact supports_continuous. Qed.
Print Assumptions C08_supports_continuous.

Theorem C08_discreteness :
  (forall p, bernoulli_is_discrete p = true) /\ (forall ps, categorical_is_discrete ps = true) /\
  (forall a b, discreteuniform_is_discrete a b = true) /\
  (forall a b, uniform_is_discrete a b = false) /\ (forall l, exponential_is_discrete l = false) /\
  (forall a t, gamma_is_discrete a t = false) /\ (forall a b, beta2_is_discrete a b = false) /\
  (forall a b s, beta3_is_discrete a b s = false) /\ (forall m s, normal_is_discrete m s = false) /\
  (forall m b, laplace_is_discrete m b = false) /\ (forall m s a b, truncnormal_is_discrete m s a b = false).
Proof. exact discrete_flags. Qed.
Print Assumptions C08_discreteness.

(* mgf_exists_at = the family's true MGF domain *)
Theorem C08_mgf_domains :
  (forall l t, exponential_mgf_exists_at l t = true <-> t < l) /\
  (forall a th t, gamma_mgf_exists_at a th t = true <-> t < 1 / th) /\
  (forall m b t, laplace_mgf_exists_at m b t = true <-> qabs t < 1 / b) /\
  (forall p t, bernoulli_mgf_exists_at p t = true) /\ (forall a b t, discreteuniform_mgf_exists_at a b t = true) /\
  (forall a b t, uniform_mgf_exists_at a b t = true) /\ (forall a b t, beta2_mgf_exists_at a b t = true) /\
  (forall a b s t, beta3_mgf_exists_at a b s t = true) /\ (forall m s t, normal_mgf_exists_at m s t = true) /\
  (forall m s a b t, truncnormal_mgf_exists_at m s a b t = true).
Proof. exact mgf_domains. Qed.
Print Assumptions C08_mgf_domains.

(* ================= location/scale rewriting (dist_transformer.py), all k ================= *)
(* [lin_moment l m k] expands (l0 + l1 z)^k binomially and replaces z^j by m j, with values
   in Q(sqrt): (rational part, coefficient of the root).  Each rewriting returns the moment
   of the original draw, with zero irrational part. *)
Theorem C08_locscale_normal :
  forall mu s2 k,
    lin_moment (transform_normal_expr mu s2)
      (normal_get_moment (fst (transform_normal_dist mu s2)) (snd (transform_normal_dist mu s2))) k
    = (normal_get_moment mu s2 k, 0).
Proof. exact locscale_normal. Qed.
Print Assumptions C08_locscale_normal.

Theorem C08_locscale_uniform :
  forall a b k, a <> b ->
    lin_moment (transform_uniform_expr a b)
      (uniform_get_moment (fst (transform_uniform_dist a b)) (snd (transform_uniform_dist a b))) k
    = (uniform_get_moment a b k, 0).
Proof. exact locscale_uniform. Qed.
Print Assumptions C08_locscale_uniform.

Theorem C08_locscale_laplace :
  forall mu b k,
    lin_moment (transform_laplace_expr mu b)
      (laplace_get_moment (fst (transform_laplace_dist mu b)) (snd (transform_laplace_dist mu b))) k
    = (laplace_get_moment mu b k, 0).
Proof. exact locscale_laplace. Qed.
Print Assumptions C08_locscale_laplace.

Theorem C08_locscale_exponential :
  forall num den k, num <> 0 -> den <> 0 ->
    lin_moment (transform_exponential_expr num den) (exponential_get_moment (transform_exponential_dist num den)) k
    = (exponential_get_moment (num / den) k, 0).
Proof. exact locscale_exponential. Qed.
Print Assumptions C08_locscale_exponential.

(* the binomial expansion used above is the recursive "moments of mu + Y" operator *)
Theorem C08_shift_binomial :
  forall mu c k, shift mu c k = binsum mu c k.
Proof. exact shift_binomial. Qed.
Print Assumptions C08_shift_binomial.

(* ================= non-vacuity (kernel evaluation of the generated definitions) ================= *)
Example C08_nonvacuous_normal : Qc_eqb (normal_get_moment (mkq 1 2) (mkq 2 1) 4) (mkq 241 16) = true.
Proof. vm_compute. reflexivity. Qed.
Example C08_nonvacuous_laplace : Qc_eqb (laplace_get_moment (mkq 1 2) (mkq 2 3) 4) (mkq 2651 432) = true.
Proof. vm_compute. reflexivity. Qed.
Example C08_nonvacuous_beta : Qc_eqb (beta3_get_moment (mkq 2 1) (mkq 3 1) (mkq 5 2) 3) (mkq 25 14) = true.
Proof. vm_compute. reflexivity. Qed.
Example C08_nonvacuous_categorical :
  categorical_rejects [mkq 1 2; mkq 1 3; mkq 1 6] = false /\
  Qc_eqb (categorical_get_moment [mkq 1 2; mkq 1 3; mkq 1 6] 5) (mkq 17 3) = true.
Proof. vm_compute. split; reflexivity. Qed.
Example C08_nonvacuous_du : Qc_eqb (discreteuniform_get_moment (-2) 3 4) (mkq 115 6) = true.
Proof. vm_compute. reflexivity. Qed.
