(* C02 — normalisation preserves the program's distribution over its variables. *)
From Coq Require Import List String QArith Qcanon ZArith.
From Polar Require Import Qcx Dist Syntax Sem PassGuard.
Import ListNotations.

(* LoopGuardTransformer (guard folded into an if, first-level ifs collapsed): for every
   program, every n, every start state and EVERY function of the state the expectation is
   unchanged — in particular the joint law of the source variables at every iteration
   boundary (trivial_guard, which changes the meaning by design, is excluded). *)
Theorem C02_loop_guard_preserves :
  forall (law : string -> list Qc -> dist Qc) (fuel : nat) (p : prog) (n : nat) (s0 : state) (f : state -> Qc),
    E (run law p n s0) f = E (run law (loop_guard_pass fuel p) n s0) f.
Proof. intros law fuel p n s0 f. apply (loop_guard_preserves law fuel p n s0 f). Qed.
Print Assumptions C02_loop_guard_preserves.
