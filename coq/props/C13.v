(* C13 — Sin/Cos/Exp moments of random variables are the true expectations.
   Only property theorems, each closed by [exact] and followed by Print Assumptions.

   get_func_moment, get_trig_moment_num/_den, get_exp_moment, convert_func_moment,
   get_const_moment, bernoulli_cf/_mgf, discreteuniform_cf/_mgf_num/_den are GENERATED
   (gen/FuncGen.v) from /repo/program/assignment/functional_assignment.py and
   /repo/program/distribution/{bernoulli,discrete_uniform}.py on every run; *_mgf_exists_at are
   generated (gen/DistGen.v) from /repo/program/distribution/*.py.

   R ranges over ALL commutative rings (CRing.cring) — in particular the complex numbers.
   e : Z -> R is a homomorphism from (Z,+) to the units of R and stands for m |-> exp(i m)
   (trigonometric case, z = e 1, 1/z = e (-1)) or m |-> exp(m) (exponential case).
   A finite integer-supported law L is a list of (probability, value); as a formal exponential
   sum it is its own characteristic function  t |-> sum_j p_j E^(i t v_j); tf_of e L m is its
   value at the integer point m, dtf_of e u L a m the value of its a-th formal t-derivative
   (d/dt c E^(u t v) = c u v E^(u t v)), Ez L g = sum_j p_j g(v_j) the defining expectation.
   get_trig_moment returns re(num / den); all statements are multiplied out (num = den * ...),
   which is the same statement wherever 2 and i are invertible. *)
From Coq Require Import List ZArith Lia Arith Bool String QArith Qcanon.
From Polar Require Import Qcx CRing Stats Func DistBase.
From PolarGen Require Import FuncGen DistGen.
From Polar Require Import FuncThm FuncModel.
Import ListNotations.
Local Open Scope string_scope.

(* ===== product-to-sum ================================================================ *)

(* pure ring identity, all b, c, all z, zb (no relation between z and zb needed):
   (z - zb)^b (z + zb)^c = sum_{k1<=c} sum_{k2<=b} C(c,k1) C(b,k2) (-1)^(b-k2) z^(k1+k2) zb^((b+c)-(k1+k2)) *)
Theorem C13_prod_to_sum_ring :
  forall (R : cring) (z zb : R) (b c : nat),
    rmul (rpow (rsub z zb) b) (rpow (radd z zb) c)
    = rsum (seq 0 (S c)) (fun k1 => rsum (seq 0 (S b)) (fun k2 =>
        rmul (rmul (rmul (br c k1) (br b k2)) (rpow (ropp r1) (b - k2)))
             (rmul (rpow z (k1 + k2)) (rpow zb ((b + c) - (k1 + k2)))))).
Proof. exact prod_to_sum_ring. Qed.
Print Assumptions C13_prod_to_sum_ring.

(* the same ON THE TRANSLATED get_trig_moment, all b, c, v: for the Dirac law at v, whose
   characteristic function is the formal monomial m |-> z^(m v) = e (m v), the translated double sum
   (frequency 2(k1+k2) - cos_power - sin_power, sign (-1)^(sin_power - k2), the two binomials) is
   (z^v - z^-v)^b (z^v + z^-v)^c and the translated divisor is i^b 2^(c+b): the quotient is
   sin^b(v) cos^c(v) written with z = exp(i). *)
Theorem C13_prod_to_sum :
  forall (R : cring) (Iu : R) (tn : bool) (e : Z -> R),
    e 0%Z = r1 -> (forall m n, e (m + n)%Z = rmul (e m) (e n)) ->
    forall (b c : nat) (v : Z),
      let L := dirac R v in
      get_trig_moment_num R Iu tn (mom_of R L) (tf_of e L) (dtf_of e Iu L) [("Sin", b); ("Cos", c)]
      = rmul (rpow (rsub (e v) (e (- v)%Z)) b) (rpow (radd (e v) (e (- v)%Z)) c)
      /\ get_trig_moment_den R Iu tn (mom_of R L) (tf_of e L) (dtf_of e Iu L) [("Sin", b); ("Cos", c)]
         = rmul (rpow Iu b) (rpow (zr 2) (c + b)).
Proof. exact prod_to_sum_gen. Qed.
Print Assumptions C13_prod_to_sum.

(* ===== trigonometric moments of integer-supported finite laws ======================== *)

(* ALL identity/sin/cos powers (whatever the request dict holds), ALL finite integer-supported
   laws of total mass 1 (Bernoulli, DiscreteUniform, Categorical-like: any list of (weight, integer)),
   in every commutative ring with sn, cs satisfying Euler's formulas 2 i sin v = e v - e (-v),
   2 cos v = e v + e (-v):
     translated numerator (dist.get_moment, dist.cf and its formal t-derivatives being those of L)
       = translated divisor * sum_j p_j v_j^a sin(v_j)^b cos(v_j)^c. *)
Theorem C13_trig_moment_discrete_exact :
  forall (R : cring) (Iu : R) (tn : bool) (e : Z -> R),
    e 0%Z = r1 -> (forall m n, e (m + n)%Z = rmul (e m) (e n)) ->
    forall (sn cs : Z -> R),
      (forall v, rmul (rmul (zr 2) Iu) (sn v) = rsub (e v) (e (- v)%Z)) ->
      (forall v, rmul (zr 2) (cs v) = radd (e v) (e (- v)%Z)) ->
      forall (L : zlaw R) (fp : fdict),
        Ez L (fun _ => r1) = r1 ->
        get_trig_moment_num R Iu tn (mom_of R L) (tf_of e L) (dtf_of e Iu L) fp
        = rmul (get_trig_moment_den R Iu tn (mom_of R L) (tf_of e L) (dtf_of e Iu L) fp)
               (Ez L (fun v => rmul (rmul (rpow (zr v) (fget "Id" fp)) (rpow (sn v) (fget "Sin" fp)))
                                    (rpow (cs v) (fget "Cos" fp)))).
Proof. exact trig_moment_discrete_exact. Qed.
Print Assumptions C13_trig_moment_discrete_exact.

(* the cf of the two integer-supported families that declare one is the cf of their law *)
Theorem C13_bernoulli_cf_is_law :
  forall (R : cring) (e : Z -> R), e 0%Z = r1 ->
    forall (p : R) (t : Z), bernoulli_cf R e p t = tf_of e [(rsub r1 p, 0%Z); (p, 1%Z)] t.
Proof. exact bernoulli_cf_is_law. Qed.
Print Assumptions C13_bernoulli_cf_is_law.

(* DiscreteUniform(a, a+n-1), weight w = 1/n on each value: closed form num/den = the law's cf,
   multiplied out (den * cf = num), all a, n, t *)
Theorem C13_du_cf_closed_form :
  forall (R : cring) (e : Z -> R), (forall m n, e (m + n)%Z = rmul (e m) (e n)) ->
    forall (w : R) (a : Z) (n : nat) (t : Z),
      rmul (zr (Z.of_nat n)) w = r1 ->
      rmul (discreteuniform_cf_den R e a (a + Z.of_nat n - 1)%Z t) (tf_of e (du_law R w a n) t)
      = discreteuniform_cf_num R e a (a + Z.of_nat n - 1)%Z t.
Proof. exact du_cf_closed_form. Qed.
Print Assumptions C13_du_cf_closed_form.

(* REFUTED as a formula for the cf at frequency 0: the closed form is 0/0 there (removable
   singularity).  get_trig_moment evaluates cf at frequency 2(k1+k2)-c-b = 0 whenever b+c is
   even: Polar then fails its own `assert im(result) == 0` (a refusal, not a wrong value; C18). *)
Theorem C13_du_cf_zero_refuted :
  forall (R : cring) (e : Z -> R), e 0%Z = r1 ->
    forall a b : Z, discreteuniform_cf_num R e a b 0%Z = r0 /\ discreteuniform_cf_den R e a b 0%Z = r0.
Proof. exact du_cf_zero_over_zero. Qed.
Print Assumptions C13_du_cf_zero_refuted.

(* ===== exponential moments =========================================================== *)

(* ALL a, c, ALL finite integer-supported laws: get_exp_moment answers (after convert_func_moment)
   with the defining sum E[X^a exp(X)^c] exactly when mgf_exists_at(c) holds, and raises otherwise *)
Theorem C13_exp_moment_discrete_exact :
  forall (R : cring) (ew : Z -> R),
    ew 0%Z = r1 -> (forall m n, ew (m + n)%Z = rmul (ew m) (ew n)) ->
    forall (ex : Z -> bool) (conv : R -> R) (L : zlaw R) (fp : fdict),
      get_exp_moment R ex (tf_of ew L) (dtf_of ew r1 L) conv fp
      = if ex (Z.of_nat (fget "Exp" fp))
        then Some (conv (Ez L (fun v => rmul (rpow (zr v) (fget "Id" fp)) (rpow (ew v) (fget "Exp" fp)))))
        else None.
Proof. exact exp_moment_discrete_exact. Qed.
Print Assumptions C13_exp_moment_discrete_exact.

Theorem C13_bernoulli_mgf_is_law :
  forall (R : cring) (ew : Z -> R), ew 0%Z = r1 ->
    forall (p : R) (t : Z), bernoulli_mgf R ew p t = tf_of ew [(rsub r1 p, 0%Z); (p, 1%Z)] t.
Proof. exact bernoulli_mgf_is_law. Qed.
Print Assumptions C13_bernoulli_mgf_is_law.

Theorem C13_du_mgf_closed_form :
  forall (R : cring) (ew : Z -> R), (forall m n, ew (m + n)%Z = rmul (ew m) (ew n)) ->
    forall (w : R) (a : Z) (n : nat) (t : Z),
      rmul (zr (Z.of_nat n)) w = r1 ->
      rmul (discreteuniform_mgf_den R ew a (a + Z.of_nat n - 1)%Z t) (tf_of ew (du_law R w a n) t)
      = discreteuniform_mgf_num R ew a (a + Z.of_nat n - 1)%Z t.
Proof. exact du_mgf_closed_form. Qed.
Print Assumptions C13_du_mgf_closed_form.

(* ===== existence: a request outside the mgf's domain is rejected ===================== *)

Theorem C13_exp_moment_rejected_iff :
  forall (R : cring) (ex : Z -> bool) (mgf : Z -> R) (dmgf : nat -> Z -> R) (conv : R -> R) (fp : fdict),
    get_exp_moment R ex mgf dmgf conv fp = None <-> ex (Z.of_nat (fget "Exp" fp)) = false.
Proof. exact exp_moment_rejected_iff. Qed.
Print Assumptions C13_exp_moment_rejected_iff.

Local Open Scope Qc_scope.
(* with the translated mgf_exists_at of each family: rejected exactly outside the true domain
   (Exponential: c < lambda; Gamma: c < 1/theta; Laplace: |c| < 1/b; all others: never) *)
Theorem C13_mgf_domain_exponential :
  forall (R : cring) (mgf : Z -> R) (dmgf : nat -> Z -> R) (conv : R -> R) (lamb : Qc) (fp : fdict),
    get_exp_moment R (fun m => exponential_mgf_exists_at lamb (qz m)) mgf dmgf conv fp = None
    <-> ~ (qz (Z.of_nat (fget "Exp" fp)) < lamb).
Proof. exact exp_moment_domain_exponential. Qed.
Print Assumptions C13_mgf_domain_exponential.

Theorem C13_mgf_domain_gamma :
  forall (R : cring) (mgf : Z -> R) (dmgf : nat -> Z -> R) (conv : R -> R) (k theta : Qc) (fp : fdict),
    get_exp_moment R (fun m => gamma_mgf_exists_at k theta (qz m)) mgf dmgf conv fp = None
    <-> ~ (qz (Z.of_nat (fget "Exp" fp)) < 1 / theta).
Proof. exact exp_moment_domain_gamma. Qed.
Print Assumptions C13_mgf_domain_gamma.

Theorem C13_mgf_domain_laplace :
  forall (R : cring) (mgf : Z -> R) (dmgf : nat -> Z -> R) (conv : R -> R) (mu b : Qc) (fp : fdict),
    get_exp_moment R (fun m => laplace_mgf_exists_at mu b (qz m)) mgf dmgf conv fp = None
    <-> ~ (qabs (qz (Z.of_nat (fget "Exp" fp))) < 1 / b).
Proof. exact exp_moment_domain_laplace. Qed.
Print Assumptions C13_mgf_domain_laplace.

Theorem C13_mgf_domain_everywhere :
  forall (R : cring) (mgf : Z -> R) (dmgf : nat -> Z -> R) (conv : R -> R) (fp : fdict),
    (forall p, get_exp_moment R (fun m => bernoulli_mgf_exists_at p (qz m)) mgf dmgf conv fp <> None) /\
    (forall a b, get_exp_moment R (fun m => discreteuniform_mgf_exists_at a b (qz m)) mgf dmgf conv fp <> None) /\
    (forall a b, get_exp_moment R (fun m => uniform_mgf_exists_at a b (qz m)) mgf dmgf conv fp <> None) /\
    (forall a b, get_exp_moment R (fun m => beta2_mgf_exists_at a b (qz m)) mgf dmgf conv fp <> None) /\
    (forall a b s, get_exp_moment R (fun m => beta3_mgf_exists_at a b s (qz m)) mgf dmgf conv fp <> None) /\
    (forall m s, get_exp_moment R (fun t => normal_mgf_exists_at m s (qz t)) mgf dmgf conv fp <> None) /\
    (forall m s a b, get_exp_moment R (fun t => truncnormal_mgf_exists_at m s a b (qz t)) mgf dmgf conv fp <> None).
Proof. exact exp_moment_domain_everywhere. Qed.
Print Assumptions C13_mgf_domain_everywhere.
Local Close Scope Qc_scope.

(* ===== dispatch: which branch of get_func_moment answers a request =================== *)

(* model of the dispatch, all request dicts: the trig branch answers only requests with a Sin/Cos
   power, the exp branch exactly the requests with an Exp power and no Sin/Cos power, a request
   with neither is rejected *)
Theorem C13_dispatch_model :
  forall fp : fdict,
    (get_func_moment fp = DTrig -> has_trig fp = true) /\
    (get_func_moment fp = DExp <-> (has_exp fp = true /\ has_trig fp = false)) /\
    (has_trig fp = false -> has_exp fp = false -> is_raise (get_func_moment fp) = true) /\
    (has_trig fp = true -> has_exp fp = false -> fmem "Expt" fp = false -> get_func_moment fp = DTrig).
Proof.
  exact (fun fp => conj (dispatch_trig_sound fp)
           (conj (conj (dispatch_exp_sound fp) (fun H => dispatch_exp_complete fp (proj2 H) (proj1 H)))
              (conj (dispatch_unknown fp) (dispatch_trig_complete fp)))).
Qed.
Print Assumptions C13_dispatch_model.

(* mixed requests (Sin/Cos AND Exp powers; "Exp can be mixed with Id" only): the trig branch never
   reads the Exp power, so answering such a request by the trig branch drops the factor exp(X)^c.
   Whether all mixed requests are rejected is decided by ONE request, E[sin(X) exp(X)]
   (mixed_witness), which the check evaluates on the translated function on every run
   (DESIGN section 6 #5: with the test `"Expt" in func_powers` it is DTrig — defect). *)
Theorem C13_dispatch_mixed_decided_by_witness :
  is_raise (get_func_moment mixed_witness) = true ->
  forall fp, has_trig fp = true -> has_exp fp = true -> is_raise (get_func_moment fp) = true.
Proof. exact dispatch_mixed_decided_by_witness. Qed.
Print Assumptions C13_dispatch_mixed_decided_by_witness.

Theorem C13_dispatch_refuted_if_witness_trig :
  get_func_moment mixed_witness = DTrig ->
  exists fp, has_trig fp = true /\ has_exp fp = true /\ get_func_moment fp = DTrig /\
    forall (R : cring) (Iu : R) (tn : bool) (mom : nat -> R) (cf : Z -> R) (dcf : nat -> Z -> R),
      (* the answer is that of the request without the Exp power *)
      get_trig_moment_num R Iu tn mom cf dcf fp = get_trig_moment_num R Iu tn mom cf dcf [("Sin", 1%nat)] /\
      get_trig_moment_den R Iu tn mom cf dcf fp = get_trig_moment_den R Iu tn mom cf dcf [("Sin", 1%nat)].
Proof. exact dispatch_refuted_if_witness_trig. Qed.
Print Assumptions C13_dispatch_refuted_if_witness_trig.

(* ===== constants and rounding ======================================================== *)

(* Sin/Cos/Exp of a constant c, power k: f(c)^k in exact mode or when the value is rational,
   its rounding to 20 significant digits otherwise; unknown function names are rejected *)
Theorem C13_const_func_moment :
  forall (A V : Type) (fsin fcos fexp : A -> V) (vpow : V -> nat -> V)
         (is_Rational : V -> bool) (round_to : nat -> V -> V) (ex : bool) (func : string) (c : A) (k : nat),
    get_const_moment fsin fcos fexp vpow (convert_func_moment ex is_Rational round_to) func c k
    = match func_named A V fsin fcos fexp func with
      | Some f => Some (if orb ex (is_Rational (vpow (f c) k)) then vpow (f c) k else round_to 20%nat (vpow (f c) k))
      | None => None
      end.
Proof. exact const_func_moment. Qed.
Print Assumptions C13_const_func_moment.

Theorem C13_convert_exact :
  forall (V : Type) (is_Rational : V -> bool) (round_to : nat -> V -> V) (m : V),
    convert_func_moment true is_Rational round_to m = m.
Proof. exact convert_exact. Qed.
Print Assumptions C13_convert_exact.

(* ===== non-vacuity: the hypotheses have a model, and the kernel runs the generated code == *)

(* Gaussian rationals, e m = i^m (angle pi/2): all hypotheses of the main theorem hold *)
Example C13_trig_model_instance :
  forall (tn : bool) (L : zlaw G) (fp : fdict),
    Ez L (fun _ => r1) = r1 ->
    get_trig_moment_num G gi tn (mom_of G L) (tf_of e4 L) (dtf_of e4 gi L) fp
    = rmul (get_trig_moment_den G gi tn (mom_of G L) (tf_of e4 L) (dtf_of e4 gi L) fp)
           (Ez L (fun v => rmul (rmul (rpow (zr v) (fget "Id" fp)) (rpow (sn4 v) (fget "Sin" fp)))
                                (rpow (cs4 v) (fget "Cos" fp)))).
Proof. exact (fun tn => trig_moment_discrete_exact G gi tn e4 e4_0 e4_add sn4 cs4 sn4_def cs4_def). Qed.

(* X ~ DiscreteUniform(-1, 2) at angle pi/2, request X sin(X), evaluated by the kernel:
   num = den * E[X sin X] with E = (1/4)(-1 * -1 + 0 + 1 * 1 + 0) = 1/2, den = i^2 * 2 = -2;
   request X sin^2(X) (frequency 0 occurs): E = (1/4)(-1 + 1) = 0 ... and X^2 cos^2(X):
   E = (1/4)(0 + 0 + 0 + 4) = 1, den = i^2 * 4 = -4 *)
Example C13_trig_model_run :
  let L : zlaw G := du_law G (gq (mkq 1 4)) (-1)%Z 4 in
  let tn := false in
  let num fp := get_trig_moment_num G gi tn (mom_of G L) (tf_of e4 L) (dtf_of e4 gi L) fp in
  let den fp := get_trig_moment_den G gi tn (mom_of G L) (tf_of e4 L) (dtf_of e4 gi L) fp in
  reqb (num [("Id", 1%nat); ("Sin", 1%nat)]) (gq (mkq (-1) 1)) = true
  /\ reqb (den [("Id", 1%nat); ("Sin", 1%nat)]) (gq (mkq (-2) 1)) = true
  /\ reqb (num [("Id", 2%nat); ("Cos", 2%nat)]) (gq (mkq (-4) 1)) = true
  /\ reqb (den [("Id", 2%nat); ("Cos", 2%nat)]) (gq (mkq (-4) 1)) = true.
Proof. vm_compute. repeat split; reflexivity. Qed.

(* the dispatch model is not vacuous: a pure trig, a pure exp and an unknown request *)
Example C13_dispatch_run :
  get_func_moment [("Id", 2%nat); ("Sin", 1%nat)] = DTrig /\ get_func_moment [("Id", 1%nat); ("Exp", 2%nat)] = DExp
  /\ is_raise (get_func_moment [("Id", 1%nat)]) = true.
Proof. vm_compute. repeat split; reflexivity. Qed.
