(* C02 — ConditionsReducer preserves the distribution over the source variables. *)
From Coq Require Import List String QArith Qcanon ZArith Bool.
From Polar Require Import Qcx Dist Syntax Sem PassFlat PassCondReduce.
Import ListNotations.
Open Scope string_scope.

(* One execution of a block (initial block or loop body).  For EVERY list l of guarded
   assignments, EVERY value k0 of the global name counter such that none of the alias names
   "_r<k>" generated for l (cr_gen k0 l) occurs in l (wf_cr, a boolean), every pair of states
   that agree outside these names — the aliases may hold ARBITRARY values at the start — and
   every observation f that does not read them: the transformed block gives f the same
   expectation as the source block. *)
Theorem C02_cond_reduce_step :
  forall (law : string -> list Qc -> dist Qc) (k0 : nat) (l : list gassign),
    wf_cr k0 l = true ->
    forall (s s' : state) (f : state -> Qc),
      (forall x, ~ In x (cr_gen k0 l) -> s' x = s x) ->
      (forall t t', (forall x, ~ In x (cr_gen k0 l) -> t' x = t x) -> f t' = f t) ->
      E (exec_gas law (fst (cond_reduce k0 l)) s') f = E (exec_gas law l s) f.
Proof. exact cond_reduce_step. Qed.
Print Assumptions C02_cond_reduce_step.

(* All iterations: the pass (initial block, then loop body, one name counter) preserves the
   expectation of every such observation after every number n of iterations. *)
Theorem C02_cond_reduce_preserves :
  forall (law : string -> list Qc -> dist Qc) (k0 : nat) (fp : flatprog),
    wf_cr_prog k0 fp = true ->
    forall (n : nat) (s0 s0' : state) (f : state -> Qc),
      (forall x, ~ In x (cr_prog_gen k0 fp) -> s0' x = s0 x) ->
      (forall t t', (forall x, ~ In x (cr_prog_gen k0 fp) -> t' x = t x) -> f t' = f t) ->
      E (frun law (fst (cr_prog k0 fp)) n s0') f = E (frun law fp n s0) f.
Proof. exact cond_reduce_preserves. Qed.
Print Assumptions C02_cond_reduce_preserves.

(* non-vacuity:  y = Bernoulli(1/2) | x+a > b ;  z = 1-z | x+a > b  (alias reused) ;
   x = x*y  (purges the alias) ;  z = Bernoulli(1/3) | x+a > b && y == 1  (new alias; the
   atom y == 1 is already reduced) *)
Definition ex_c : cond := CAtom (EAdd (EVar "x") (EVar "a")) Cgt (EVar "b").
Definition ex_body : list gassign :=
  [ {| ga_var := "y"; ga_cond := ex_c; ga_default := "y"; ga_rhs := RDraw (DBern (EConst (mkq 1 2))) |};
    {| ga_var := "z"; ga_cond := ex_c; ga_default := "z";
       ga_rhs := RDet (EAdd (EConst (mkq 1 1)) (EMul (EConst (mkq (-1) 1)) (EVar "z"))) |};
    {| ga_var := "x"; ga_cond := CTrue; ga_default := "x"; ga_rhs := RDet (EMul (EVar "x") (EVar "y")) |};
    {| ga_var := "z"; ga_cond := CAnd ex_c (CAtom (EVar "y") Ceq (EConst (mkq 1 1))); ga_default := "z";
       ga_rhs := RDraw (DBern (EConst (mkq 1 3))) |} ].
Definition ex_diff : expr := ESub (EAdd (EVar "x") (EVar "a")) (EVar "b").
Definition ex_out : list gassign :=
  [ {| ga_var := "_r3"; ga_cond := CTrue; ga_default := "_r3"; ga_rhs := RDet ex_diff |};
    {| ga_var := "y"; ga_cond := CAtom (EVar "_r3") Cgt (EConst 0%Qc); ga_default := "y";
       ga_rhs := RDraw (DBern (EConst (mkq 1 2))) |};
    {| ga_var := "z"; ga_cond := CAtom (EVar "_r3") Cgt (EConst 0%Qc); ga_default := "z";
       ga_rhs := RDet (EAdd (EConst (mkq 1 1)) (EMul (EConst (mkq (-1) 1)) (EVar "z"))) |};
    {| ga_var := "x"; ga_cond := CTrue; ga_default := "x"; ga_rhs := RDet (EMul (EVar "x") (EVar "y")) |};
    {| ga_var := "_r4"; ga_cond := CTrue; ga_default := "_r4"; ga_rhs := RDet ex_diff |};
    {| ga_var := "z";
       ga_cond := CAnd (CAtom (EVar "_r4") Cgt (EConst 0%Qc)) (CAtom (EVar "y") Ceq (EConst (mkq 1 1)));
       ga_default := "z"; ga_rhs := RDraw (DBern (EConst (mkq 1 3))) |} ].
Example C02_cond_reduce_nonvacuous :
  cond_reduce 3 ex_body = (ex_out, 5%nat) /\ cr_gen 3 ex_body = ["_r3"; "_r4"]
  /\ wf_cr_prog 3 {| fp_init := []; fp_body := ex_body |} = true.
Proof. vm_compute. repeat split; reflexivity. Qed.

(* The hypothesis wf_cr cannot be dropped: a block that uses a variable named like the alias
   the counter is about to produce is transformed into one with a different law of a source
   variable, from the same state.  The correspondence module replays such an input on the
   real pass (capture probe). *)
Theorem C02_cond_reduce_needs_wf :
  wf_cr 1 cr_capture_body = false /\
  E (exec_gas no_law (fst (cond_reduce 1 cr_capture_body)) cr_capture_state) (fun s => s "z")
  <> E (exec_gas no_law cr_capture_body cr_capture_state) (fun s => s "z").
Proof. exact cond_reduce_needs_wf. Qed.
Print Assumptions C02_cond_reduce_needs_wf.
