(* C05 — inferred finite types contain every value a variable can ever take. *)
From Coq Require Import List String QArith Qcanon ZArith.
From Polar Require Import Qcx Dist Syntax Sem Types.
Import ListNotations.
Open Scope string_scope.

(* V: if the executable validator accepts (flat program, types), every state reachable
   after ANY number of iterations is typed; the loop guard is folded into the assignments'
   conditions, so iterations after it became false are included. *)
Theorem C05_check_types_sound :
  forall (law : string -> list Qc -> dist Qc) (fp : flatprog) (T : tenv),
    check_types fp T = true ->
    forall s0, init_ok fp T s0 ->
    forall n s, supp (frun law fp n s0) s -> typed T s.
Proof. exact check_types_sound. Qed.
Print Assumptions C05_check_types_sound.

(* ... and at every program point inside every iteration (after any prefix of the body) *)
Theorem C05_check_types_sound_pointwise :
  forall (law : string -> list Qc -> dist Qc) (fp : flatprog) (T : tenv),
    check_types fp T = true ->
    forall s0, init_ok fp T s0 ->
    forall n (pre post : list gassign), fp_body fp = (pre ++ post)%list ->
    forall s, supp (bind (frun law fp n s0) (exec_gas law pre)) s -> typed T s.
Proof. exact check_types_sound_pointwise. Qed.
Print Assumptions C05_check_types_sound_pointwise.

(* the value-set abstraction of expressions used by it *)
Theorem C05_eval_set_sound :
  forall R T s e vs, typed_on R T s -> eval_set R T e = Some vs -> In (eval e s) vs.
Proof. exact eval_set_sound. Qed.
Print Assumptions C05_eval_set_sound.

(* non-vacuity: the flat form of  x=5; c=0; while c==0: x=1; x=2; c=Bernoulli(1/2)
   with SOUND types (_x1 may also hold the default x) is accepted ... *)
Definition ex_fp : flatprog :=
  {| fp_init := [ {| ga_var := "x"; ga_cond := CTrue; ga_default := "x"; ga_rhs := RDet (EConst (mkq 5 1)) |};
                  {| ga_var := "c"; ga_cond := CTrue; ga_default := "c"; ga_rhs := RDet (EConst (mkq 0 1)) |} ];
     fp_body := [ {| ga_var := "_old0"; ga_cond := CTrue; ga_default := "_old0"; ga_rhs := RDet (EVar "c") |};
                  {| ga_var := "_x1"; ga_cond := CAtom (EVar "_old0") Ceq (EConst (mkq 0 1)); ga_default := "x";
                     ga_rhs := RDet (EConst (mkq 1 1)) |};
                  {| ga_var := "x"; ga_cond := CAtom (EVar "_old0") Ceq (EConst (mkq 0 1)); ga_default := "_x1";
                     ga_rhs := RDet (EConst (mkq 2 1)) |};
                  {| ga_var := "c"; ga_cond := CAtom (EVar "_old0") Ceq (EConst (mkq 0 1)); ga_default := "c";
                     ga_rhs := RDraw (DBern (EConst (mkq 1 2))) |} ] |}.
Definition ex_T_sound : tenv :=
  [("x", [mkq 5 1; mkq 2 1; mkq 1 1]); ("c", [mkq 0 1; mkq 1 1]); ("_old0", [mkq 0 1; mkq 1 1]);
   ("_x1", [mkq 1 1; mkq 5 1; mkq 2 1])].
Example C05_nonvacuous_accept : check_types ex_fp ex_T_sound = true.
Proof. vm_compute. reflexivity. Qed.

(* ... while the types {_x1 : {1}, x : {5, 2}} (a post-fixpoint of a transfer function that
   drops the default under a loop guard) are rejected, and indeed unsound: in an iteration
   with the guard false _x1 holds 2 *)
Definition ex_T_unsound : tenv :=
  [("x", [mkq 5 1; mkq 2 1]); ("c", [mkq 0 1; mkq 1 1]); ("_old0", [mkq 0 1; mkq 1 1]); ("_x1", [mkq 1 1])].
Example C05_unsound_types_rejected : check_types ex_fp ex_T_unsound = false.
Proof. vm_compute. reflexivity. Qed.
Example C05_unsound_types_refuted :
  exists s, supp (frun no_law ex_fp 2 st0) s /\ ~ typed ex_T_unsound s.
Proof.
  assert (H : existsb (fun ws : Qc * state => Qc_eqb (snd ws "_x1") (mkq 2 1)) (frun no_law ex_fp 2 st0) = true)
    by (vm_compute; reflexivity).
  apply existsb_exists in H. destruct H as [[w s] [Hin Hv]]. simpl in Hv. apply Qc_eqb_true in Hv.
  exists s; split; [exists w; exact Hin|].
  intros HT. specialize (HT "_x1" [mkq 1 1] eq_refl). rewrite Hv in HT.
  destruct HT as [HT|[]]. discriminate HT.
Qed.
