(* C02 — pass ConstantsTransformer (program/transformer/constants_transformer.py, repaired
   rule).  Model: PassConstants.constants; tie: harness/pass_constants.py evaluates the model
   on Polar's input snapshot and compares with Polar's output snapshot on every run. *)
From Coq Require Import List String QArith Qcanon ZArith Bool.
From Polar Require Import Qcx Dist Syntax Sem Types Poly PassCNBase PassConstants.
Import ListNotations.
Open Scope string_scope.

(* For every flat program satisfying the boolean hypothesis [constants_ok], every law of the
   continuous families, every n, every start state and every function f of the state that
   does not read the folded variables (they disappear from the program): the expectation
   of f at iteration n is unchanged by the pass. *)
Theorem C02_constants_preserves :
  forall (law : string -> list Qc -> dist Qc) (fp : flatprog),
    constants_ok fp = true ->
    forall (n : nat) (s0 : state) (f : state -> Qc),
      ignores (folded fp) f ->
      E (frun law (constants fp) n s0) f = E (frun law fp n s0) f.
Proof. exact constants_preserves. Qed.
Print Assumptions C02_constants_preserves.

(* What makes the substitution right: in the ORIGINAL program, at every iteration boundary
   and in every reachable state, every folded variable equals its folded expression
   evaluated in the current state. *)
Theorem C02_constants_invariant :
  forall (law : string -> list Qc -> dist Qc) (fp : flatprog),
    constants_ok fp = true ->
    forall (n : nat) (s0 s : state), supp (frun law fp n s0) s ->
    forall (k : var) (v : expr), slookup (fixed fp) k = Some v -> s k = eval v s.
Proof. exact constants_invariant. Qed.
Print Assumptions C02_constants_invariant.

(* The pre-repair rule (fold every unconditional single-alternative polynomial initial
   assignment of a variable not assigned in the loop) is unsound:
   x = 3; k = x + 1; while true: x = x + k   gives E(x) = 15 instead of 11 at n = 2. *)
Theorem C02_constants_old_behaviour_refuted :
  exists (fp : flatprog) (n : nat) (s0 : state) (f : state -> Qc),
    ignores (sdom (fixed_gen ROld fp)) f /\
    E (frun no_law (constants_old fp) n s0) f <> E (frun no_law fp n s0) f.
Proof. exact constants_old_refuted. Qed.
Print Assumptions C02_constants_old_behaviour_refuted.

(* ---- the hypothesis is needed: the repaired rule is still unsound without it ----
   (a)  k = 1; y = k; k = 2; while true: y = y + k      (k re-assigned in the initial block:
        the final value 2 is substituted into the earlier  y = k)
   (b)  k = 1; k = Bernoulli(1/2); x = 0; while true: x = x + k   (k folded to 1 AND kept) *)
Definition zp (q : Qc) : Z * Z := (qnum q, Zpos (qden q)).
Example constants_ok_false_a : constants_ok wit_a = false.
Proof. vm_compute. reflexivity. Qed.
Example constants_ok_false_b : constants_ok wit_b = false.
Proof. vm_compute. reflexivity. Qed.
(* the model reproduces what Polar computes: E(y) = 2n+2 instead of 2n+1, E(x) = n instead of n/2 *)
Example constants_wit_a_values :
  map (fun n => (zp (E (frun no_law (constants wit_a) n st0) (fun s => s "y")),
                 zp (E (frun no_law wit_a n st0) (fun s => s "y")))) [0; 1; 2]%nat
  = [((2, 1), (1, 1)); ((4, 1), (3, 1)); ((6, 1), (5, 1))]%Z.
Proof. vm_compute. reflexivity. Qed.
Example constants_wit_b_values :
  map (fun n => (zp (E (frun no_law (constants wit_b) n st0) (fun s => s "x")),
                 zp (E (frun no_law wit_b n st0) (fun s => s "x")))) [0; 1; 2]%nat
  = [((0, 1), (0, 1)); ((1, 1), (1, 2)); ((2, 1), (1, 1))]%Z.
Proof. vm_compute. reflexivity. Qed.

Theorem C02_constants_without_ok_refuted :
  exists (fp : flatprog) (n : nat) (s0 : state) (f : state -> Qc),
    ignores (folded fp) f /\ E (frun no_law (constants fp) n s0) f <> E (frun no_law fp n s0) f.
Proof. exact constants_without_ok_refuted. Qed.
Print Assumptions C02_constants_without_ok_refuted.

(* ---- non-vacuity: the hypothesis holds on a program where the pass does all it can do ----
   a = 2; u = Bernoulli(1/2); k = a*a + 1; m = u + k; j = x + 1 (x loop variable: NOT folded);
   x = 0; y = 1
   while true: x = x + k*u {1/2} x + m ; y = y*a | x < 3 : y
   folded: a -> 2, k -> 2*2+1, m -> u + (2*2+1)   (m refers to the other constant u);
   kept: u, j, x, y;  appended: u = u, j = j *)
Definition demo : flatprog :=
  {| fp_init := [det "x" (qc 0);
                 det "a" (qc 2);
                 {| ga_var := "u"; ga_cond := CTrue; ga_default := "u"; ga_rhs := RDraw (DBern (EConst (mkq 1 2))) |};
                 det "k" (EAdd (EMul (EVar "a") (EVar "a")) (qc 1));
                 det "m" (EAdd (EVar "u") (EVar "k"));
                 det "j" (EAdd (EVar "x") (qc 1));
                 det "y" (qc 1)];
     fp_body := [{| ga_var := "x"; ga_cond := CTrue; ga_default := "x";
                    ga_rhs := RChoice [(EConst (mkq 1 2), EAdd (EVar "x") (EMul (EVar "k") (EVar "u")));
                                       (EConst (mkq 1 2), EAdd (EVar "x") (EVar "m"))] |};
                 {| ga_var := "y"; ga_cond := CAtom (EVar "x") Clt (qc 3); ga_default := "y";
                    ga_rhs := RDet (EMul (EVar "y") (EVar "a")) |}] |}.

Example constants_ok_demo : constants_ok demo = true.
Proof. vm_compute. reflexivity. Qed.
Example constants_demo_folded : folded demo = ["m"; "k"; "a"].
Proof. vm_compute. reflexivity. Qed.
Example constants_demo_shape :
  (map ga_var (fp_init (constants demo)), map ga_var (fp_body (constants demo)))
  = (["x"; "u"; "j"; "y"], ["x"; "y"; "u"; "j"]).
Proof. vm_compute. reflexivity. Qed.
(* the theorem's two sides on this program (a test, not the theorem): E(x*y) for n <= 2 *)
Example constants_demo_values :
  map (fun n => zp (E (frun no_law (constants demo) n st0) (fun s => s "x" * s "y")%Qc)) [0; 1; 2]%nat
  = map (fun n => zp (E (frun no_law demo n st0) (fun s => s "x" * s "y")%Qc)) [0; 1; 2]%nat.
Proof. vm_compute. reflexivity. Qed.
Example constants_demo_nontrivial :
  zp (E (frun no_law demo 2 st0) (fun s => s "x" * s "y")%Qc) <> (0%Z, 1%Z).
Proof. vm_compute. intros H. discriminate H. Qed.
(* the repaired rule leaves the old counterexample alone *)
Example constants_refute_prog_ok : constants_ok refute_prog = true /\ folded refute_prog = [].
Proof. vm_compute. split; reflexivity. Qed.

(* ---- the rule of proposed_fixes/constants_init_reassign.diff (model: constants_fix) ----
   same theorems for the patched rule; on the two witnesses the hypothesis then HOLDS and the
   values are the exact ones *)
Theorem C02_constants_fix_preserves :
  forall (law : string -> list Qc -> dist Qc) (fp : flatprog),
    constants_ok_gen RFix fp = true ->
    forall (n : nat) (s0 : state) (f : state -> Qc),
      ignores (sdom (fixed_gen RFix fp)) f ->
      E (frun law (constants_fix fp) n s0) f = E (frun law fp n s0) f.
Proof. exact constants_fix_preserves. Qed.
Print Assumptions C02_constants_fix_preserves.

Example constants_fix_ok_wit : constants_ok_gen RFix wit_a = true /\ constants_ok_gen RFix wit_b = true.
Proof. vm_compute. split; reflexivity. Qed.
Example constants_fix_wit_a_values :
  map (fun n => (zp (E (frun no_law (constants_fix wit_a) n st0) (fun s => s "y")),
                 zp (E (frun no_law wit_a n st0) (fun s => s "y")))) [0; 1; 2]%nat
  = [((1, 1), (1, 1)); ((3, 1), (3, 1)); ((5, 1), (5, 1))]%Z.
Proof. vm_compute. reflexivity. Qed.
Example constants_fix_wit_b_values :
  map (fun n => (zp (E (frun no_law (constants_fix wit_b) n st0) (fun s => s "x")),
                 zp (E (frun no_law wit_b n st0) (fun s => s "x")))) [0; 1; 2]%nat
  = [((0, 1), (0, 1)); ((1, 2), (1, 2)); ((1, 1), (1, 1))]%Z.
Proof. vm_compute. reflexivity. Qed.
(* on a program whose initial block assigns every variable once the two rules coincide *)
Example constants_fix_same_on_demo : constants_fix demo = constants demo /\ constants_ok_gen RFix demo = true.
Proof. vm_compute. split; reflexivity. Qed.
