(* C02 — pass ConstantsTransformer (program/transformer/constants_transformer.py as of /repo
   99cc64b).  Model: PassConstants.constants (= constants_gen RCond); tie: harness/pass_constants.py
   evaluates the model on Polar's input snapshot and compares with Polar's output snapshot on
   every run.  Rule history: ROld (before 3e6440d, refuted) -> RCur (3e6440d..5e78f4d, refuted)
   -> RFix (5e78f4d..99cc64b, sound, superseded) -> RCond (now: additionally never folds a variable
   that occurs in a condition). *)
From Coq Require Import List String QArith Qcanon ZArith Bool.
From Polar Require Import Qcx Dist Syntax Sem Types Poly PassCNBase PassConstants.
Import ListNotations.
Open Scope string_scope.

(* THE CURRENT RULE.  For every structurally well-formed flat program (boolean [wf_flat]: the
   default of an initial assignment is its own variable, a single-alternative unconditional
   initial assignment has probability 1, defaults of body assignments are body variables —
   what Polar's constructors guarantee), every law of the continuous families, every n, every
   start state and every f that does not read the folded variables (they disappear from the
   program): the expectation of f at iteration n is unchanged by the pass.  No semantic
   hypothesis is left: [constants_ok] holds by construction. *)
Theorem C02_constants_preserves :
  forall (law : string -> list Qc -> dist Qc) (fp : flatprog),
    wf_flat fp = true ->
    forall (n : nat) (s0 : state) (f : state -> Qc),
      ignores (folded fp) f ->
      E (frun law (constants fp) n s0) f = E (frun law fp n s0) f.
Proof. exact constants_preserves_wf. Qed.
Print Assumptions C02_constants_preserves.

(* its two ingredients: the hypothesis the proof forces holds for the model's own choice of
   folded variables, and the theorem under that hypothesis (any flat program) *)
Theorem C02_constants_ok_by_construction :
  forall fp : flatprog, wf_flat fp = true -> constants_ok fp = true.
Proof. exact constants_ok_by_construction. Qed.
Print Assumptions C02_constants_ok_by_construction.
Theorem C02_constants_preserves_under_ok :
  forall (law : string -> list Qc -> dist Qc) (fp : flatprog),
    constants_ok fp = true ->
    forall (n : nat) (s0 : state) (f : state -> Qc),
      ignores (folded fp) f ->
      E (frun law (constants fp) n s0) f = E (frun law fp n s0) f.
Proof. exact constants_preserves. Qed.
Print Assumptions C02_constants_preserves_under_ok.

(* What makes the substitution right: in the ORIGINAL program, at every iteration boundary
   and in every reachable state, every folded variable equals its folded expression
   evaluated in the current state.  [closed_map] (boolean: no folded value depends on a folded
   variable) fails only for a self-referential  k = k + 1  with k used as a symbol. *)
Theorem C02_constants_invariant :
  forall (law : string -> list Qc -> dist Qc) (fp : flatprog),
    constants_ok fp = true -> closed_map (fixed fp) = true ->
    forall (n : nat) (s0 s : state), supp (frun law fp n s0) s ->
    forall (k : var) (v : expr), slookup (fixed fp) k = Some v -> s k = eval v s.
Proof. exact constants_invariant. Qed.
Print Assumptions C02_constants_invariant.

(* SUPERSEDED RULE 3 (/repo 5e78f4d .. 99cc64b: like the current rule, but constants occurring in
   conditions were folded too, which turned reduced atoms into  1 == 0  and made Polar refuse the
   program later — C18's finding): sound, same theorem. *)
Theorem C02_constants_superseded_fix_rule_preserves :
  forall (law : string -> list Qc -> dist Qc) (fp : flatprog),
    wf_flat fp = true ->
    forall (n : nat) (s0 : state) (f : state -> Qc),
      ignores (sdom (fixed_gen RFix fp)) f ->
      E (frun law (constants_fix fp) n s0) f = E (frun law fp n s0) f.
Proof. exact constants_fix_preserves. Qed.
Print Assumptions C02_constants_superseded_fix_rule_preserves.

(* SUPERSEDED RULE 1 (before /repo 3e6440d: fold every unconditional single-alternative
   polynomial initial assignment of a variable not assigned in the loop) is unsound:
   x = 3; k = x + 1; while true: x = x + k   gives E(x) = 15 instead of 11 at n = 2. *)
Theorem C02_constants_old_behaviour_refuted :
  exists (fp : flatprog) (n : nat) (s0 : state) (f : state -> Qc),
    ignores (sdom (fixed_gen ROld fp)) f /\
    E (frun no_law (constants_old fp) n s0) f <> E (frun no_law fp n s0) f.
Proof. exact constants_old_refuted. Qed.
Print Assumptions C02_constants_old_behaviour_refuted.

(* SUPERSEDED RULE 2 (/repo 3e6440d .. 5e78f4d: additionally "the value mentions no loop
   variable") satisfied the theorem only under [constants_ok_gen RCur], which its own choices
   violated when the initial block re-assigns a constant:
   (a)  k = 1; y = k; k = 2; while true: y = y + k      (the final value 2 is substituted into
        the earlier  y = k)
   (b)  k = 1; k = Bernoulli(1/2); x = 0; while true: x = x + k   (k folded to 1 AND kept) *)
Definition zp (q : Qc) : Z * Z := (qnum q, Zpos (qden q)).
Theorem C02_constants_old_rule_without_ok_refuted :
  exists (fp : flatprog) (n : nat) (s0 : state) (f : state -> Qc),
    ignores (sdom (fixed_gen RCur fp)) f /\
    E (frun no_law (constants_cur fp) n s0) f <> E (frun no_law fp n s0) f.
Proof. exact constants_cur_without_ok_refuted. Qed.
Print Assumptions C02_constants_old_rule_without_ok_refuted.
Theorem C02_constants_old_rule_preserves_under_ok :
  forall (law : string -> list Qc -> dist Qc) (fp : flatprog),
    constants_ok_gen RCur fp = true ->
    forall (n : nat) (s0 : state) (f : state -> Qc),
      ignores (sdom (fixed_gen RCur fp)) f ->
      E (frun law (constants_cur fp) n s0) f = E (frun law fp n s0) f.
Proof. exact constants_cur_preserves. Qed.
Print Assumptions C02_constants_old_rule_preserves_under_ok.

Example old_rule_ok_false : constants_ok_gen RCur wit_a = false /\ constants_ok_gen RCur wit_b = false.
Proof. vm_compute. split; reflexivity. Qed.
(* the superseded model reproduces what Polar computed then: E(y) = 2n+2 instead of 2n+1,
   E(x) = n instead of n/2 *)
Example old_rule_wit_a_values :
  map (fun n => (zp (E (frun no_law (constants_cur wit_a) n st0) (fun s => s "y")),
                 zp (E (frun no_law wit_a n st0) (fun s => s "y")))) [0; 1; 2]%nat
  = [((2, 1), (1, 1)); ((4, 1), (3, 1)); ((6, 1), (5, 1))]%Z.
Proof. vm_compute. reflexivity. Qed.
Example old_rule_wit_b_values :
  map (fun n => (zp (E (frun no_law (constants_cur wit_b) n st0) (fun s => s "x")),
                 zp (E (frun no_law wit_b n st0) (fun s => s "x")))) [0; 1; 2]%nat
  = [((0, 1), (0, 1)); ((1, 1), (1, 2)); ((2, 1), (1, 1))]%Z.
Proof. vm_compute. reflexivity. Qed.
(* the current rule on the same witnesses: well-formed, hypothesis true, exact values *)
Example constants_wit_wf : wf_flat wit_a = true /\ wf_flat wit_b = true /\
                           constants_ok wit_a = true /\ constants_ok wit_b = true.
Proof. vm_compute. repeat split; reflexivity. Qed.
Example constants_wit_a_values :
  map (fun n => (zp (E (frun no_law (constants wit_a) n st0) (fun s => s "y")),
                 zp (E (frun no_law wit_a n st0) (fun s => s "y")))) [0; 1; 2]%nat
  = [((1, 1), (1, 1)); ((3, 1), (3, 1)); ((5, 1), (5, 1))]%Z.
Proof. vm_compute. reflexivity. Qed.
Example constants_wit_b_values :
  map (fun n => (zp (E (frun no_law (constants wit_b) n st0) (fun s => s "x")),
                 zp (E (frun no_law wit_b n st0) (fun s => s "x")))) [0; 1; 2]%nat
  = [((0, 1), (0, 1)); ((1, 2), (1, 2)); ((1, 1), (1, 1))]%Z.
Proof. vm_compute. reflexivity. Qed.

(* ---- non-vacuity: the hypothesis holds on a program where the pass does all it can do ----
   a = 2; u = Bernoulli(1/2); k = a*a + 1; m = u + k; j = x + 1 (x loop variable: NOT folded);
   x = 0; y = 1
   while true: x = x + k*u {1/2} x + m ; y = y*a | x < 3 : y
   folded: a -> 2, k -> 2*2+1, m -> u + (2*2+1)   (m refers to the other constant u);
   kept: u, j, x, y;  appended: u = u, j = j *)
Definition demo : flatprog :=
  {| fp_init := [det "x" (qc 0);
                 det "a" (qc 2);
                 {| ga_var := "u"; ga_cond := CTrue; ga_default := "u"; ga_rhs := RDraw (DBern (EConst (mkq 1 2))) |};
                 det "k" (EAdd (EMul (EVar "a") (EVar "a")) (qc 1));
                 det "m" (EAdd (EVar "u") (EVar "k"));
                 det "j" (EAdd (EVar "x") (qc 1));
                 det "y" (qc 1)];
     fp_body := [{| ga_var := "x"; ga_cond := CTrue; ga_default := "x";
                    ga_rhs := RChoice [(EConst (mkq 1 2), EAdd (EVar "x") (EMul (EVar "k") (EVar "u")));
                                       (EConst (mkq 1 2), EAdd (EVar "x") (EVar "m"))] |};
                 {| ga_var := "y"; ga_cond := CAtom (EVar "x") Clt (qc 3); ga_default := "y";
                    ga_rhs := RDet (EMul (EVar "y") (EVar "a")) |}] |}.

Example constants_ok_demo : wf_flat demo = true /\ constants_ok demo = true /\ closed_map (fixed demo) = true.
Proof. vm_compute. repeat split; reflexivity. Qed.
Example constants_demo_folded : folded demo = ["m"; "k"; "a"].
Proof. vm_compute. reflexivity. Qed.
Example constants_demo_shape :
  (map ga_var (fp_init (constants demo)), map ga_var (fp_body (constants demo)))
  = (["x"; "u"; "j"; "y"], ["x"; "y"; "u"; "j"]).
Proof. vm_compute. reflexivity. Qed.
(* the theorem's two sides on this program (a test, not the theorem): E(x*y) for n <= 2 *)
Example constants_demo_values :
  map (fun n => zp (E (frun no_law (constants demo) n st0) (fun s => s "x" * s "y")%Qc)) [0; 1; 2]%nat
  = map (fun n => zp (E (frun no_law demo n st0) (fun s => s "x" * s "y")%Qc)) [0; 1; 2]%nat.
Proof. vm_compute. reflexivity. Qed.
Example constants_demo_nontrivial :
  zp (E (frun no_law demo 2 st0) (fun s => s "x" * s "y")%Qc) <> (0%Z, 1%Z).
Proof. vm_compute. intros H. discriminate H. Qed.
(* the repaired rule leaves the old counterexample alone *)
Example constants_refute_prog_ok : wf_flat refute_prog = true /\ folded refute_prog = [].
Proof. vm_compute. split; reflexivity. Qed.

(* on a program whose initial block assigns every variable once the last two rules coincide *)
Example constants_same_on_demo : constants demo = constants_cur demo.
Proof. vm_compute. reflexivity. Qed.
(* the self-referential initial assignment  k = k + 1  (k read as a symbol): preserved, but the
   invariant's extra hypothesis is false there *)
Definition selfref : flatprog :=
  {| fp_init := [det "x" (qc 0); det "k" (EAdd (EVar "k") (qc 1))];
     fp_body := [det "x" (EAdd (EVar "x") (EVar "k"))] |}.
Example selfref_ok : wf_flat selfref = true /\ folded selfref = ["k"] /\ closed_map (fixed selfref) = false.
Proof. vm_compute. repeat split; reflexivity. Qed.
(* the difference between the current rule and the superseded RFix: a constant used in a
   condition is kept as a variable (and gets  c = c), so reduced atoms  c == 0  keep their form:
   c = 0; a = 2; x = 0; while true: x = x + a | c == 0 : x *)
Definition cond_demo : flatprog :=
  {| fp_init := [det "c" (qc 0); det "a" (qc 2); det "x" (qc 0)];
     fp_body := [{| ga_var := "x"; ga_cond := CAtom (EVar "c") Ceq (qc 0); ga_default := "x";
                    ga_rhs := RDet (EAdd (EVar "x") (EVar "a")) |}] |}.
Example cond_demo_rules :
  folded cond_demo = ["a"] /\ sdom (fixed_gen RFix cond_demo) = ["a"; "c"] /\
  map ga_var (fp_body (constants cond_demo)) = ["x"; "c"] /\ wf_flat cond_demo = true.
Proof. vm_compute. repeat split; reflexivity. Qed.
Example cond_demo_values :
  map (fun n => zp (E (frun no_law (constants cond_demo) n st0) (fun s => s "x"))) [0; 1; 2]%nat
  = map (fun n => zp (E (frun no_law cond_demo n st0) (fun s => s "x"))) [0; 1; 2]%nat.
Proof. vm_compute. reflexivity. Qed.
