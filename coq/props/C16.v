(* C16 — exponent-lattice bases consist of, and generate, all multiplicative relations.
   Only property theorems, each closed by [exact] and followed by Print Assumptions.
   Vectors are rows (lists over Z); a matrix is the list of its rows; [zlincomb k c B] is the
   integer combination sum_j c_j * B_j of the rows of B. *)
From Coq Require Import List ZArith Znumtheory QArith Qcanon.
From Polar Require Import Qcx CRing ExpPoly Lattice LatticeRel LatticeRat LatticeModel.
Import ListNotations.

(* V (any commutative ring: Qc, Q(sqrt g1)..(sqrt gk)): exact evaluation of prod b_i^{e_i};
   negative exponents use the SUPPLIED inverses, which are checked (b * b' = 1). *)
Theorem C16_check_relations_sound :
  forall (R : cring) (bs : list (R * R)) (B : list (list Z)),
    check_relations bs B = true ->
    inverses_ok bs /\ forall e, In e B -> length e = length bs /\ is_relation bs e.
Proof. exact check_relations_sound. Qed.
Print Assumptions C16_check_relations_sound.

(* the relation set is a lattice: every integer combination of relations is a relation *)
Theorem C16_relations_closed :
  forall (R : cring) (bs : list (R * R)) (B : list (list Z)),
    inverses_ok bs -> (forall e, In e B -> is_relation bs e) ->
    forall (k : nat) (c : list Z), is_relation bs (lincomb (R := Z_cring) k c B).
Proof. exact relations_closed. Qed.
Print Assumptions C16_relations_closed.

(* V: certificate  B * Rb = d * I, d <> 0  =>  the rows of B are linearly independent *)
Theorem C16_check_independent_sound :
  forall (B Rb : list (list Z)) (d : Z),
    check_independent_Z B Rb d = true ->
    forall c : list Z, length c = length B ->
      forall k, zlincomb k c B = zeros (R := Z_cring) k -> Forall (fun x => x = 0%Z) c.
Proof. exact check_independent_Z_sound. Qed.
Print Assumptions C16_check_independent_sound.

(* V, the heart: unimodular-completion certificate  Wa*V1 + Wc*B = I,  B*Vals = 0,
   (V1*Vals)*Rt = d*I, d <> 0   =>   for ALL e in Z^k:  e*Vals = 0  ->  e in Z-span(rows of B) *)
Theorem C16_check_generates_sound :
  forall (k : nat) (Vals B V1 Wa Wc Rt : list (list Z)) (d : Z),
    check_generates_Z k Vals B V1 Wa Wc Rt d = true ->
    forall (e : list Z) (m : nat), length e = k ->
      zlincomb m e Vals = zeros (R := Z_cring) m ->
      exists c : list Z, length c = length B /\ e = zlincomb k c B.
Proof. exact check_generates_Z_sound. Qed.
Print Assumptions C16_check_generates_sound.

(* unique factorisation (Coq stdlib Znumtheory.prime): for rationals b_i = (+-1) * prod_j p_j^{v_ij}
   over distinct primes,  prod b_i^{e_i} = 1  <->  sum_i e_i v_i = 0  /\  sum_{b_i < 0} e_i even *)
Theorem C16_rational_relation_iff :
  forall (ps : list Z) (facts : list (bool * list Z)),
    Forall prime ps -> NoDup ps -> facts_wf ps facts ->
    forall e : list Z,
      qrelation (map (qfact ps) facts) e <->
      (lincomb (R := Z_cring) (length ps) e (valrows facts) = zeros (R := Z_cring) (length ps)
       /\ Z.Even (vdot (R := Z_cring) e (signs facts))).
Proof. exact rational_relation_iff. Qed.
Print Assumptions C16_rational_relation_iff.

(* rational bases: the factorisation is re-multiplied (check_factorisation: primality by trial
   division, distinctness, b_i = (+-1) prod p^v), and the generation certificate is for the
   system with the parity unknown, as compute_basis_rational sets it up.  Conclusion: EVERY
   multiplicative relation is an integer combination of the rows. *)
Theorem C16_rational_basis_complete :
  forall ps facts bs B' V1 Wa Wc Rt d,
    check_rational_generates ps facts bs B' V1 Wa Wc Rt d = true ->
    forall e : list Z, length e = length bs -> qrelation bs e ->
      exists c : list Z, length c = length B' /\ e = zlincomb (length bs) c (map (@tl Z) B').
Proof. exact rational_basis_complete. Qed.
Print Assumptions C16_rational_basis_complete.

(* the property for one rational base list, all three parts: rows are relations, independent, and
   an integer vector is a relation IF AND ONLY IF it is an integer combination of the rows *)
Theorem C16_rational_basis_correct :
  forall ps facts bs B' Rb d2 V1 Wa Wc Rt d,
    check_relations (R := Qc_cring) (map qbase bs) (map (@tl Z) B') = true ->
    check_independent_Z (map (@tl Z) B') Rb d2 = true ->
    check_rational_generates ps facts bs B' V1 Wa Wc Rt d = true ->
    (forall row, In row (map (@tl Z) B') -> length row = length bs /\ qrelation bs row) /\
    (forall c : list Z, length c = length B' ->
       forall k, zlincomb k c (map (@tl Z) B') = zeros (R := Z_cring) k -> Forall (fun x => x = 0%Z) c) /\
    (forall e : list Z, length e = length bs ->
       (qrelation bs e <-> exists c : list Z, length c = length B' /\ e = zlincomb (length bs) c (map (@tl Z) B'))).
Proof. exact rational_basis_correct. Qed.
Print Assumptions C16_rational_basis_correct.

(* non-rational bases (any ring).  PARTIAL: soundness, independence and "the span consists of
   relations".  MISSING: "every relation is in the span" — needs an a-priori bound on a basis of
   the relation lattice (Masser), which is what compute_basis_kauers relies on and is not
   formalised; the check only enumerates |e_i| <= bound there. *)
Theorem C16_general_basis_partial :
  forall (R : cring) (bs : list (R * R)) (B Rb : list (list Z)) (d : Z),
    check_relations bs B = true ->
    check_independent_Z B Rb d = true ->
    inverses_ok bs /\
    (forall row, In row B -> length row = length bs /\ is_relation bs row) /\
    (forall c : list Z, length c = length B ->
       forall k, zlincomb k c B = zeros (R := Z_cring) k -> Forall (fun x => x = 0%Z) c) /\
    (forall k c, is_relation bs (zlincomb k c B)).
Proof. exact general_basis_partial. Qed.
Print Assumptions C16_general_basis_partial.

(* OLD RULE (before /repo a4c7460): the model of "Q-nullspace, then astype(int)" returns
   [[-1; 1]] for [4; 8] and [[0; 1]] for [4; 1/2]; neither is a relation.  Statement about the old
   rule only; the current code follows [model_compute_basis] below. *)
Theorem C16_truncation_old_rule_refuted :
  (exists bs ps facts row,
      bs = [q_of 4 1; q_of 8 1] /\ check_factorisation ps facts bs = true /\
      old_model_compute_basis bs (length ps) facts = [row] /\ row = [(-1)%Z; 1%Z] /\ ~ qrelation bs row)
  /\
  (exists bs ps facts row,
      bs = [q_of 4 1; q_of 1 2] /\ check_factorisation ps facts bs = true /\
      old_model_compute_basis bs (length ps) facts = [row] /\ row = [0%Z; 1%Z] /\ ~ qrelation bs row).
Proof. exact truncation_old_rule_refuted. Qed.
Print Assumptions C16_truncation_old_rule_refuted.

(* OLD RULE (before /repo 47f10be): the shortcut declares the lattice of [3; 1] trivial although
   (0, 1) is a relation: the numerator 1 was filtered away before the |numerator| > 1 test *)
Theorem C16_trivially_empty_old_rule_refuted :
  exists bs ps facts e,
    bs = [q_of 3 1; q_of 1 1] /\ check_factorisation ps facts bs = true /\
    old_model_compute_basis bs (length ps) facts = [] /\
    length e = length bs /\ qrelation bs e /\ e <> zeros (R := Z_cring) (length bs).
Proof. exact trivially_empty_old_rule_refuted. Qed.
Print Assumptions C16_trivially_empty_old_rule_refuted.

(* ---- non-vacuity (tests by computation, not theorems about Polar) ---- *)
(* [4; 8]: the true basis [[-3; 2]] with its certificate is accepted by all three validators *)
Example C16_nonvacuous_4_8 :
  let bs := [mkq 4 1; mkq 8 1] in
  let B' := [[0; -3; 2]]%Z in
  check_relations (R := Qc_cring) (map qbase bs) (map (@tl Z) B') = true /\
  check_independent_Z (map (@tl Z) B') [[-3]; [2]]%Z 13 = true /\
  check_rational_generates [2%Z] [(false, [2%Z]); (false, [3%Z])] bs B'
    [[1; 0; 0]; [0; -2; 1]]%Z [[1; 0]; [0; -2]; [0; -3]]%Z [[0]; [1]; [2]]%Z [[1; 0]; [0; -2]]%Z 2 = true.
Proof. vm_compute. repeat split. Qed.
(* ... while the row Polar returns is rejected by the relation validator *)
Example C16_rejects_truncated_4_8 :
  check_relations (R := Qc_cring) (map qbase [mkq 4 1; mkq 8 1]) [[-1; 1]]%Z = false.
Proof. vm_compute. reflexivity. Qed.
(* [-4; 8]: parity matters: (-3, 2) has product -1; the basis is [[-6; 4]] *)
Example C16_nonvacuous_parity :
  let bs := [mkq (-4) 1; mkq 8 1] in
  check_relations (R := Qc_cring) (map qbase bs) [[-3; 2]]%Z = false /\
  check_relations (R := Qc_cring) (map qbase bs) [[-6; 4]]%Z = true /\
  check_rational_generates [2%Z] [(true, [2%Z]); (false, [3%Z])] bs [[3; -6; 4]]%Z
    [[0; 1; 0]; [1; -2; 1]]%Z [[2; 4]; [1; 0]; [0; -3]]%Z [[-1]; [0]; [1]]%Z [[1; 2]; [0; -1]]%Z 1 = true.
Proof. vm_compute. repeat split. Qed.
(* a certificate for a sublattice of index 2 does not exist: [[-6; 4]] for [4; 8] is rejected
   with the completion that works for [[-3; 2]] *)
Example C16_rejects_index_2 :
  check_rational_generates [2%Z] [(false, [2%Z]); (false, [3%Z])] [mkq 4 1; mkq 8 1] [[0; -6; 4]]%Z
    [[1; 0; 0]; [0; -2; 1]]%Z [[1; 0]; [0; -2]; [0; -3]]%Z [[0]; [1]; [2]]%Z [[1; 0]; [0; -2]]%Z 2 = false.
Proof. vm_compute. reflexivity. Qed.
(* golden ratio over Q(sqrt 5): phi * psi = -1, so (2, 2) is a relation and (1, 1) is not *)
Example C16_nonvacuous_golden :
  let R := quad_cring Qc_cring (mkq 5 1) in
  let bs : list (R * R) := [((mkq 1 2, mkq 1 2), (mkq (-1) 2, mkq 1 2)); ((mkq 1 2, mkq (-1) 2), (mkq (-1) 2, mkq (-1) 2))] in
  check_relations bs [[2; 2]]%Z = true /\ check_relations bs [[1; 1]]%Z = false.
Proof. vm_compute. split; reflexivity. Qed.

(* the model of the REPAIRED code (integer kernel, base-1 test) on the former counterexamples: its
   output passes the relation validator (per-instance evaluation; that it does so for ALL inputs is
   not proved — every run validates the real outputs instead) *)
Example C16_repaired_model_on_old_counterexamples :
  let b48 := [mkq 4 1; mkq 8 1] in
  let b4h := [mkq 4 1; mkq 1 2] in
  let b31 := [mkq 3 1; mkq 1 1] in
  check_relations (R := Qc_cring) (map qbase b48) (model_compute_basis b48 1 [(false, [2%Z]); (false, [3%Z])]) = true /\
  length (model_compute_basis b48 1 [(false, [2%Z]); (false, [3%Z])]) = 1%nat /\
  check_relations (R := Qc_cring) (map qbase b4h) (model_compute_basis b4h 1 [(false, [2%Z]); (false, [(-1)%Z])]) = true /\
  length (model_compute_basis b4h 1 [(false, [2%Z]); (false, [(-1)%Z])]) = 1%nat /\
  model_compute_basis b31 1 [(false, [1%Z]); (false, [0%Z])] = [[0; 1]]%Z.
Proof. vm_compute. repeat split. Qed.
