(* C06 — every reported polynomial invariant holds on the goal sequences.
   Only property theorems, each closed by [exact] and followed by Print Assumptions. *)
From Coq Require Import List Arith QArith Qcanon.
From Polar Require Import Qcx CRing ExpPoly Invariant.
Import ListNotations.

(* evaluation inside the exponential-polynomial ring is evaluation of the polynomial at the values *)
Theorem C06_poly_eval_ep_hom :
  forall (R : cring) (B : mpoly R) (F : list (epoly R)) (n : nat),
    eeval (poly_eval_ep B F) n = poly_eval B (evalF F n).
Proof. exact poly_eval_ep_hom. Qed.
Print Assumptions C06_poly_eval_ep_hom.

(* V: acceptance means the basis polynomial B vanishes on the closed forms at EVERY n, over every
   commutative ring (Q and the towers Q(sqrt g1)...(sqrt gk) for irrational bases) *)
Theorem C06_check_invariant_sound :
  forall (R : cring) (B : mpoly R) (F : list (epoly R)),
    check_invariant B F = true -> forall n : nat, poly_eval B (evalF F n) = r0.
Proof. exact check_invariant_sound. Qed.
Print Assumptions C06_check_invariant_sound.

(* the property's wording: goal sequences that agree with the closed forms from n0 on (n < n0 are
   the special cases Polar lists) satisfy the reported invariant at every n >= n0 *)
Theorem C06_check_invariant_past_special :
  forall (R : cring) (B : mpoly R) (F : list (epoly R)) (n0 : nat) (s : nat -> list R),
    check_invariant B F = true ->
    (forall n, (n0 <= n)%nat -> s n = evalF F n) ->
    forall n, (n0 <= n)%nat -> poly_eval B (s n) = r0.
Proof. exact check_invariant_past_special. Qed.
Print Assumptions C06_check_invariant_past_special.

(* ---- non-vacuity ---- *)
(* a = 4^n, b = 8^n: a^3 - b^2 is an invariant, the polynomial a - b that Polar reports is not *)
Example C06_nonvacuous_4_8 :
  let F : list (epoly Qc_cring) := [[(mkq 4 1, [mkq 1 1])]; [(mkq 8 1, [mkq 1 1])]] in
  check_invariant (R := Qc_cring) [(mkq 1 1, [3; 0]%nat); (mkq (-1) 1, [0; 2]%nat)] F = true /\
  check_invariant (R := Qc_cring) [(mkq 1 1, [1; 0]%nat); (mkq (-1) 1, [0; 1]%nat)] F = false.
Proof. vm_compute. split; reflexivity. Qed.
(* x = n*2^n, y = 2^n, z = n :  x - y*z = 0 *)
Example C06_nonvacuous_poly_exp :
  let F : list (epoly Qc_cring) := [[(mkq 2 1, [mkq 0 1; mkq 1 1])]; [(mkq 2 1, [mkq 1 1])]; [(mkq 1 1, [mkq 0 1; mkq 1 1])]] in
  check_invariant (R := Qc_cring) [(mkq 1 1, [1; 0; 0]%nat); (mkq (-1) 1, [0; 1; 1]%nat)] F = true.
Proof. vm_compute. reflexivity. Qed.
(* golden ratio over Q(sqrt 5): a = phi^n, b = psi^n: a^2 b^2 - 1 = 0 *)
Example C06_nonvacuous_golden :
  let R := quad_cring Qc_cring (mkq 5 1) in
  let F : list (epoly R) := [[((mkq 1 2, mkq 1 2), [(mkq 1 1, mkq 0 1)])]; [((mkq 1 2, mkq (-1) 2), [(mkq 1 1, mkq 0 1)])]] in
  check_invariant (R := R) [((mkq 1 1, mkq 0 1), [2; 2]%nat); ((mkq (-1) 1, mkq 0 1), [0; 0]%nat)] F = true /\
  check_invariant (R := R) [((mkq 1 1, mkq 0 1), [1; 1]%nat); ((mkq (-1) 1, mkq 0 1), [0; 0]%nat)] F = false.
Proof. vm_compute. split; reflexivity. Qed.
