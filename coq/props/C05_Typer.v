(* C05 — the type-inference ALGORITHM (type_inference/finite_fixed_point_typer.py,
   FiniteFixedPointTyper.infer_types, run by program/transformer/type_inferer.py).
   Model: Typer.typer_run P syms fp D implied drops  (theories/Typer.v): _initialize_state, at most
   tp_iters rounds of _progress, the failure cascade, _extract_types; None = not applicable
   (a condition in the initial part) or cascade fuel exhausted.
   Tie: harness/typer_model.py evaluates the model on Polar's snapshot before TypeInferer (flat
   program, declared types, symbols, guard_implied flags, Polar's budgets) and compares the
   resulting type environment with Polar's inferred types as sets per variable, inside Coq
   (Typer.typer_matches); the hypotheses body_single / drops_harmless / declared_ok are evaluated
   on every instance. *)
From Coq Require Import List String QArith Qcanon ZArith Bool.
From Polar Require Import Qcx Dist Syntax Sem Types Typer TyperSound TyperExamples.
Import ListNotations.
Open Scope string_scope.

(* the result of the algorithm is a post-fixpoint accepted by the verified validator
   Types.check_types — for every flat program, every budget (iterations, max values, order of
   substitution), every set of symbolic constants, every guard_implied flags — provided every
   variable has one assignment in the loop body (the typer's documented precondition, established
   by MultiAssignTransformer) and a default is left out of a support only where that is
   harmless: the condition is TrueCond or the default is the assigned variable itself (the rule
   of the current Assignment.get_support) *)
Theorem C05_typer_postfixpoint :
  forall (P : tparams) (syms : list var) (fp : flatprog) (implied drops : list bool) (T : tenv),
    typer_run P syms fp [] implied drops = Some T ->
    body_single fp = true -> drops_harmless (fp_body fp) drops = true ->
    check_types fp T = true.
Proof. exact typer_run_postfixpoint. Qed.
Print Assumptions C05_typer_postfixpoint.

(* in particular when no default is dropped at all *)
Theorem C05_typer_postfixpoint_no_drops :
  forall (P : tparams) (syms : list var) (fp : flatprog) (implied drops : list bool) (T : tenv),
    typer_run P syms fp [] implied drops = Some T ->
    body_single fp = true -> forallb negb drops = true ->
    check_types fp T = true.
Proof.
  intros P syms fp implied drops T H Hs Hd.
  exact (typer_run_postfixpoint P syms fp implied drops T H Hs (drops_false_harmless (fp_body fp) drops Hd)).
Qed.
Print Assumptions C05_typer_postfixpoint_no_drops.

(* hence (check_types_sound) every state reachable in any number of iterations, for every law
   of the continuous families, from every admissible start state, is typed *)
Theorem C05_typer_sound :
  forall (P : tparams) (syms : list var) (fp : flatprog) (implied drops : list bool) (T : tenv),
    typer_run P syms fp [] implied drops = Some T ->
    body_single fp = true -> drops_harmless (fp_body fp) drops = true ->
    forall (law : string -> list Qc -> dist Qc) (s0 : state), init_ok fp T s0 ->
    forall (n : nat) (s : state), supp (frun law fp n s0) s -> typed T s.
Proof. exact typer_run_sound. Qed.
Print Assumptions C05_typer_sound.

(* with declared types (a `types` block; trusted and locked by the typer, never re-derived): the
   undeclared variables' assignments are proved; the validator's verdict on the initial block
   and on the declared variables' own assignments is a hypothesis (evaluated per instance).
   Missing for a full statement: check_init in the presence of declared types. *)
Theorem C05_typer_postfixpoint_declared_partial :
  forall (P : tparams) (syms : list var) (fp : flatprog) (D : tenv) (implied drops : list bool) (T : tenv),
    typer_run P syms fp D implied drops = Some T ->
    body_single fp = true -> drops_harmless (fp_body fp) drops = true ->
    declared_ok fp D T = true ->
    check_types fp T = true.
Proof. exact typer_run_postfixpoint_declared_partial. Qed.
Print Assumptions C05_typer_postfixpoint_declared_partial.

(* the core, for any declared types: every assignment to an undeclared variable passes the
   validator's test against the algorithm's result *)
Theorem C05_typer_body :
  forall (P : tparams) (syms : list var) (fp : flatprog) (D : tenv) (implied drops : list bool) (st : tstate),
    typer_state P syms fp D implied drops = Some st ->
    body_single fp = true -> drops_harmless (fp_body fp) drops = true ->
    forall g : gassign, In g (fp_body fp) -> mem_var (ga_var g) (map fst D) = false ->
    check_ga (extract st) g = true.
Proof. exact typer_state_body. Qed.
Print Assumptions C05_typer_body.

(* refuted: with the default dropped whenever the condition is implied by the loop guard (the
   rule of Assignment.get_support BEFORE repo commit cee80d2; the current code is sound on this
   program, see typer_witness_current_rule) the algorithm's result is unsound.  Witness:
   x = 5; c = 0; while c == 0: x = 1; x = x + 1; c = Bernoulli(1/2)  — the version _x1 is typed
   {1} but holds 2 in an iteration where the guard is false. *)
Theorem C05_typer_dropped_default_refuted :
  exists (fp : flatprog) (implied : list bool) (T : tenv) (s0 : state) (n : nat) (s : state),
    typer_run tp_default [] fp [] implied (drops_old (fp_body fp) implied) = Some T /\
    body_single fp = true /\ init_ok fp T s0 /\
    supp (frun no_law fp n s0) s /\ ~ typed T s.
Proof. exact typer_run_dropped_default_refuted. Qed.
Print Assumptions C05_typer_dropped_default_refuted.

(* ---- non-vacuity (vm_compute) ---- *)
Example C05_typer_witness_current_rule :
  let drops := drops_current (fp_body fpW) implW in
  drops_harmless (fp_body fpW) drops = true /\
  match typer_run tp_default [] fpW [] implW drops with
  | Some T => tenv_eqb T [("c", [mkq 0 1; mkq 1 1]); ("_old0", [mkq 0 1; mkq 1 1])] && check_types fpW T
  | None => false
  end = true.
Proof. exact typer_witness_current_rule. Qed.

Example C05_typer_single_assignment_needed :
  body_single fp_twice = false /\
  match typer_run tp_default [] fp_twice [] [true; true] [false; false] with
  | Some T => tenv_eqb T [("x", [mkq 0 1; mkq 1 1])] && negb (check_types fp_twice T)
  | None => false
  end = true.
Proof. exact typer_single_assignment_needed. Qed.

Example C05_typer_converges :
  typer_matches tp_default [] fp_conv [] [true; true] [false; false]
                [("x", [mkq 0 1; mkq 1 1]); ("y", [mkq 0 1; mkq 2 1; mkq 3 1])] = true /\
  typer_cascade_rounds tp_default [] fp_conv [] [true; true] [false; false] = 0%nat /\
  body_single fp_conv = true /\ drops_harmless (fp_body fp_conv) [false; false] = true /\
  check_types fp_conv [("x", [mkq 0 1; mkq 1 1]); ("y", [mkq 0 1; mkq 2 1; mkq 3 1])] = true.
Proof. exact typer_converges. Qed.

Example C05_typer_cascade :
  typer_matches tp3 [] fp_casc [] [true; true; true] [false; false; false] [("z", [mkq 0 1; mkq 1 1])] = true /\
  typer_cascade_rounds tp3 [] fp_casc [] [true; true; true] [false; false; false] = 1%nat /\
  body_single fp_casc = true /\ check_types fp_casc [("z", [mkq 0 1; mkq 1 1])] = true.
Proof. exact typer_cascade. Qed.

Example C05_typer_cascade_chain :
  typer_matches tp2 [] fp_chain [] [true; true; true; true; true] [false; false; false; false; false]
                [("k", [mkq 0 1; mkq 1 1])] = true /\
  typer_cascade_rounds tp2 [] fp_chain [] [true; true; true; true; true] [false; false; false; false; false] = 3%nat.
Proof. exact typer_cascade_chain. Qed.
