(* C01 — closed-form moments equal the exact expected values at every iteration. *)
From Coq Require Import List String QArith Qcanon ZArith.
From Polar Require Import Qcx CRing ExpPoly ClosedForm Dist Syntax Sem Types Pipeline.
Import ListNotations.

(* Composition over the flat program Polar analyses: validated types (C05) + system that is
   an exact one-step identity on typed states (C03) + closed form validated against the
   system (C04)  ==>  the closed form with its special cases equals the vector of exact
   moments after n iterations, for EVERY n and every admissible start state. *)
Theorem C01_pipeline_flat_sound :
  forall (law : string -> list Qc -> dist Qc) fp T ms A F sp,
    check_types fp T = true ->
    one_step_exact law fp T ms A ->
    forall s0, init_ok fp T s0 ->
    check_solution (R := Qc_cring) A (moments_vec law fp ms 0 s0) F sp = true ->
    forall n, pw_eval (R := Qc_cring) F sp n = moments_vec law fp ms n s0.
Proof. exact pipeline_flat_sound. Qed.
Print Assumptions C01_pipeline_flat_sound.

(* the moments of a program with an exact system follow the matrix iteration *)
Theorem C01_moments_iterate :
  forall (law : string -> list Qc -> dist Qc) fp T ms A,
    check_types fp T = true -> one_step_exact law fp T ms A ->
    forall s0, init_ok fp T s0 ->
    forall n, moments_vec law fp ms n s0 = iter_mat (R := Qc_cring) A n (moments_vec law fp ms 0 s0).
Proof. exact moments_iter. Qed.
Print Assumptions C01_moments_iterate.

(* One executable test for Polar's whole output on a flat program (types, system, initial
   values, closed forms): acceptance implies the closed forms are the exact moments at every n. *)
From Polar Require Import Poly Wp.
Theorem C01_check_pipeline_sound :
  forall law cmom fp T ms A v F sp, cmom_ok law cmom ->
    check_pipeline cmom fp T ms A v F sp = true ->
    forall s0, init_ok fp T s0 ->
    forall n, pw_eval (R := Qc_cring) F sp n = moments_vec law fp ms n s0.
Proof. exact check_pipeline_sound. Qed.
Print Assumptions C01_check_pipeline_sound.
