(* C01 — closed-form moments equal the exact expected values at every iteration. *)
From Coq Require Import List String QArith Qcanon ZArith.
From Polar Require Import Qcx CRing ExpPoly ClosedForm Dist Syntax Sem Types Pipeline.
Import ListNotations.

(* Composition over the flat program Polar analyses: validated types (C05) + system that is
   an exact one-step identity on typed states (C03) + closed form validated against the
   system (C04)  ==>  the closed form with its special cases equals the vector of exact
   moments after n iterations, for EVERY n and every admissible start state. *)
Theorem C01_pipeline_flat_sound :
  forall (law : string -> list Qc -> dist Qc) fp T ms A F sp,
    check_types fp T = true ->
    one_step_exact law fp T ms A ->
    forall s0, init_ok fp T s0 ->
    check_solution (R := Qc_cring) A (moments_vec law fp ms 0 s0) F sp = true ->
    forall n, pw_eval (R := Qc_cring) F sp n = moments_vec law fp ms n s0.
Proof. exact pipeline_flat_sound. Qed.
Print Assumptions C01_pipeline_flat_sound.

(* the moments of a program with an exact system follow the matrix iteration *)
Theorem C01_moments_iterate :
  forall (law : string -> list Qc -> dist Qc) fp T ms A,
    check_types fp T = true -> one_step_exact law fp T ms A ->
    forall s0, init_ok fp T s0 ->
    forall n, moments_vec law fp ms n s0 = iter_mat (R := Qc_cring) A n (moments_vec law fp ms 0 s0).
Proof. exact moments_iter. Qed.
Print Assumptions C01_moments_iterate.

(* One executable test for Polar's whole output on a flat program (types, system, initial
   values, closed forms): acceptance implies the closed forms are the exact moments at every n. *)
From Polar Require Import Poly Wp.
Theorem C01_check_pipeline_sound :
  forall law cmom fp T ms A v F sp, cmom_ok law cmom ->
    check_pipeline cmom fp T ms A v F sp = true ->
    forall s0, init_ok fp T s0 ->
    forall n, pw_eval (R := Qc_cring) F sp n = moments_vec law fp ms n s0.
Proof. exact check_pipeline_sound. Qed.
Print Assumptions C01_check_pipeline_sound.

(* END TO END ON THE SOURCE PROGRAM.  One executable test over the source program (after the
   parser's desugaring of simultaneous assignment), a type environment for its variables,
   and Polar's final linear system, initial values and closed forms.  Acceptance implies: the
   closed forms with their special cases are the exact moments of the SOURCE program under
   the reference semantics (first-matching branch, independent draws and choices, state frozen
   once the guard is false) after n iterations, for EVERY n — whatever the normalisation
   passes, the typer, the recurrence builder and the solvers did in between. *)
From Polar Require Import SrcWp SrcPipeline.
Theorem C01_check_pipeline_src_sound :
  forall law cmom p T ms A v F sp, cmom_ok law cmom ->
    check_pipeline_src cmom p T ms A v F sp = true ->
    forall s0, init_ok_src p T s0 ->
    forall n, pw_eval (R := Qc_cring) F sp n = moments_src law p ms n s0.
Proof. exact check_pipeline_src_sound. Qed.
Print Assumptions C01_check_pipeline_src_sound.

(* indicator polynomials of arbitrary comparison conditions over finitely typed variables *)
Theorem C01_arith_gen_sound :
  forall T s c p, typed T s -> arith_gen T c = Some p -> eval_poly p s = ind (holds c s).
Proof. exact arith_gen_sound. Qed.
Print Assumptions C01_arith_gen_sound.

(* non-vacuity: x=0; c=Bernoulli(1/2); while x==0: if c==1: x=Bernoulli(1/2) end end,
   system {x, c, c*x} as Polar builds it, closed form of E(x) etc. *)
Open Scope string_scope.
Definition ex1_prog : prog :=
  {| p_init := BCons (SAssign "x" (RDet (EConst (mkq 0 1))))
               (BCons (SAssign "c" (RDraw (DBern (EConst (mkq 1 2))))) BNil);
     p_guard := CAtom (EVar "x") Ceq (EConst (mkq 0 1));
     p_body := BCons (SIf (BrCons (CAtom (EVar "c") Ceq (EConst (mkq 1 1)))
                                  (BCons (SAssign "x" (RDraw (DBern (EConst (mkq 1 2))))) BNil) BrNil) BNil) BNil |}.
Definition cm0 : string -> list Qc -> nat -> Qc := fun _ _ _ => 0%Qc.
Example C01_nonvacuous_src :
  check_pipeline_src cm0 ex1_prog [("x", [mkq 0 1; mkq 1 1]); ("c", [mkq 0 1; mkq 1 1])]
    [[("x", 1%nat)]; [("c", 1%nat)]; [("c", 1%nat); ("x", 1%nat)]]
    [[mkq 1 1; mkq 1 2; mkq (-1) 2]; [mkq 0 1; mkq 1 1; mkq 0 1]; [mkq 0 1; mkq 1 2; mkq 1 2]]
    [mkq 0 1; mkq 1 2; mkq 0 1]
    [ [(mkq 1 1, [mkq 1 2]); (mkq 1 2, [mkq (-1) 2])];
      [(mkq 1 1, [mkq 1 2])];
      [(mkq 1 1, [mkq 1 2]); (mkq 1 2, [mkq (-1) 2])] ]
    [] = true.
Proof. vm_compute. reflexivity. Qed.
