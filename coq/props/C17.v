(* C17 — strategy and representation options do not change any reported result.
   Only property theorems (closed by [exact]) with Print Assumptions, and non-vacuity
   examples evaluated by vm_compute (tests, labelled as such). *)
From Coq Require Import List String QArith Qcanon ZArith Bool.
From Polar Require Import Qcx CRing ExpPoly ClosedForm Dist Syntax Sem Types Poly Pipeline Wp PassGuard
  Options OptionsArith OptionsThm.
Import ListNotations.
Local Open Scope Qc_scope.

(* ---- transform_categoricals -------------------------------------------------------------- *)
(* x = v1 {p1} ... vk {pk}   and   c = Categorical(p1..pk); if c==0: x=v1 elif c==1: x=v2 ... end
   give EVERY function of the state that does not read c the same expectation, from EVERY
   state, for EVERY list of alternatives — each v_i is evaluated in the pre-state in both.
   Freshness of c: different from x and not occurring in any v_i. *)
Theorem C17_catexpand_preserves :
  forall (law : string -> list Qc -> dist Qc) x c alts s (f : state -> Qc),
    c <> x ->
    (forall p v, In (p, v) alts -> ~ In c (vars_of v)) ->
    (forall a b, (forall y, y <> c -> a y = b y) -> f a = f b) ->
    E (exec_stmt law (SAssign x (RChoice alts)) s) f = E (exec_block law (cat_expand x c alts) s) f.
Proof. exact catexpand_preserves. Qed.
Print Assumptions C17_catexpand_preserves.

(* ---- cond2arithm ----------------------------------------------------------------------------- *)
(* the model of ConditionsToArithm on a list of guarded assignments with validated types:
   from states that agree outside the generated names, every test function that does not read
   them has the same expectation (polynomial assignments with ANY number of alternatives;
   conditioned draws through a fresh u = D) *)
Theorem C17_cond2arithm_list_preserves :
  forall (law : string -> list Qc -> dist Qc) (T : tenv) (U : list var),
    (forall u, In u U -> tlookup T u = None) ->
    forall l us l',
    c2a_gas T us l = Some l' ->
    forallb (check_ga T) l = true ->
    (forall g, In g l -> no_touch U g) -> (forall g, In g l -> mass_one law T g) ->
    (forall u, In u us -> In u U) ->
    (List.length (filter (fun g => match ga_rhs g with RDraw _ => true | _ => false end) l) <= List.length us)%nat ->
    forall s s' (G : state -> Qc), typed T s -> agree_off U s s' -> insens T U G ->
    E (exec_gas law l s) G = E (exec_gas law l' s') G.
Proof. exact c2a_gas_sound. Qed.
Print Assumptions C17_cond2arithm_list_preserves.

(* whole flat programs, EVERY iteration count n *)
Theorem C17_cond2arithm_preserves :
  forall (law : string -> list Qc -> dist Qc) fp fp' T us,
    check_types fp T = true -> c2a_fp T us fp = Some fp' -> c2a_side law T us fp ->
    forall s0, init_ok fp T s0 ->
    forall n (G : state -> Qc), insens T us G ->
      E (frun law fp n s0) G = E (frun law fp' n s0) G.
Proof. exact cond2arithm_preserves. Qed.
Print Assumptions C17_cond2arithm_preserves.

Theorem C17_cond2arithm_preserves_moments :
  forall (law : string -> list Qc -> dist Qc) fp fp' T us,
    check_types fp T = true -> c2a_fp T us fp = Some fp' -> c2a_side law T us fp ->
    forall s0, init_ok fp T s0 ->
    forall m, (forall x, In x (mono_vars m) -> ~ In x us) ->
    forall n, E (frun law fp n s0) (eval_mono m) = E (frun law fp' n s0) (eval_mono m).
Proof. exact cond2arithm_preserves_moments. Qed.
Print Assumptions C17_cond2arithm_preserves_moments.

(* closed forms computed with and without cond2arithm, each validated against its own flat
   program / types / system, agree on every source monomial at EVERY n *)
Theorem C17_cond2arithm_same_closed_forms :
  forall (law : string -> list Qc -> dist Qc) cmom fp fp' T T' us ms ms' A A' v v' F F' sp sp',
    cmom_ok law cmom ->
    check_pipeline cmom fp T ms A v F sp = true ->
    check_pipeline cmom fp' T' ms' A' v' F' sp' = true ->
    c2a_fp T us fp = Some fp' -> c2a_side law T us fp ->
    forall s0, init_ok fp T s0 -> init_ok fp' T' s0 ->
    forall i j m, nth_error ms i = Some m -> nth_error ms' j = Some m ->
    (forall x, In x (mono_vars m) -> ~ In x us) ->
    forall n, nth_error (pw_eval (R := Qc_cring) F sp n) i = nth_error (pw_eval (R := Qc_cring) F' sp' n) j.
Proof. exact cond2arithm_same_closed_forms. Qed.
Print Assumptions C17_cond2arithm_same_closed_forms.

(* OLD RULE (before /repo 0c1450d): the faithful model of the isinstance chain lost a conditioned
   Sin/Cos/Exp assignment (found by this check) ... *)
Theorem C17_cond2arithm_drops_functional_old_rule_refuted :
  ~ (forall T u l l', c2ax_old_list T u l = Some l' -> forall x, In x (map xvar l) -> In x (map xvar l')).
Proof. exact cond2arithm_drops_functional_old_rule_refuted. Qed.
Print Assumptions C17_cond2arithm_drops_functional_old_rule_refuted.

(* ... and nothing else *)
Theorem C17_cond2arithm_keeps_poly_and_draws :
  forall T u a r, (match a with XFunc _ _ _ _ _ => False | _ => True end) ->
    c2ax_old T u a = Some r -> In (xvar a) (map xvar r).
Proof. exact cond2arithm_keeps_poly_and_draws. Qed.
Print Assumptions C17_cond2arithm_keeps_poly_and_draws.

(* RULE AS REPAIRED (if / elif / else: keep): every assigned variable of every program is still
   assigned after the pass *)
Theorem C17_cond2arithm_keeps_every_variable :
  forall T u l l', c2ax_list T u l = Some l' -> forall x, In x (map xvar l) -> In x (map xvar l').
Proof. exact cond2arithm_list_keeps_every_variable. Qed.
Print Assumptions C17_cond2arithm_keeps_every_variable.

(* ---- solver choice ---------------------------------------------------------------------------- *)
Theorem C17_solvers_agree :
  forall (R : cring) A v (F : list (epoly R)) sp F' sp',
    check_solution A v F sp = true -> check_solution A v F' sp' = true ->
    forall n : nat, pw_eval F sp n = pw_eval F' sp' n.
Proof. exact solvers_agree. Qed.
Print Assumptions C17_solvers_agree.

(* ---- declared instead of inferred types -------------------------------------------------------- *)
Theorem C17_explicit_types_same_moments :
  forall (law : string -> list Qc -> dist Qc) cmom fp T T' ms ms' A A' v v' F F' sp sp',
    cmom_ok law cmom ->
    check_pipeline cmom fp T ms A v F sp = true ->
    check_pipeline cmom fp T' ms' A' v' F' sp' = true ->
    forall s0, init_ok fp T s0 -> init_ok fp T' s0 ->
    forall i j m, nth_error ms i = Some m -> nth_error ms' j = Some m ->
    forall n, nth_error (pw_eval (R := Qc_cring) F sp n) i = nth_error (pw_eval (R := Qc_cring) F' sp' n) j.
Proof. exact explicit_types_same_moments. Qed.
Print Assumptions C17_explicit_types_same_moments.

(* ---- exactness flag ------------------------------------------------------------------------------ *)
Theorem C17_exact_flag_model :
  forall ivs,
  (snd (numeric_roots_model ivs) = true ->
     forall lo hi m rho, In ((lo, hi), m) ivs -> lo <= rho -> rho <= hi ->
       In (rho, m) (fst (numeric_roots_model ivs))) /\
  (snd (numeric_roots_model ivs) = false -> exists lo hi m, In ((lo, hi), m) ivs /\ lo <> hi).
Proof. exact exact_flag_model. Qed.
Print Assumptions C17_exact_flag_model.

Theorem C17_exact_flag_croots_model :
  forall e, has_float e = false ->
  (snd (numerify e) = true -> fst (numerify e) = e) /\
  (snd (numerify e) = negb (has_croot e)) /\
  (has_float (fst (numerify e)) = has_croot e).
Proof. exact exact_flag_croots_model. Qed.
Print Assumptions C17_exact_flag_croots_model.

(* the comparator behind the model/code ties is sound *)
Theorem C17_expr_sim_sound : forall a b, expr_sim a b = true -> forall s, eval a s = eval b s.
Proof. exact expr_sim_sound. Qed.
Print Assumptions C17_expr_sim_sound.

(* ================= non-vacuity (tests by vm_compute) ============================================ *)
Open Scope string_scope.
Definition q (n : Z) (d : positive) := EConst (mkq n d).
Definition ex_alts : list (expr * expr) :=
  [(q 1 4, q 1 1); (q 1 4, EAdd (EVar "x") (q 2 1)); (q 1 2, EMul (EVar "x") (EVar "y"))].
Definition ex_state : state := fun v => if var_eqb v "x" then mkq 3 1 else if var_eqb v "y" then mkq (-2) 1 else 0.
Definition ex_test (t : state) : Qc := t "x" * t "x" + t "y".

(* three-way choice and its expansion: same second moment *)
Example C17_catexpand_nonvacuous :
  Qc_eqb (E (exec_stmt no_law (SAssign "x" (RChoice ex_alts)) ex_state) ex_test)
         (E (exec_block no_law (cat_expand "x" "_c0" ex_alts) ex_state) ex_test) = true
  /\ Qc_eqb (E (exec_stmt no_law (SAssign "x" (RChoice ex_alts)) ex_state) ex_test) (mkq 45 2) = true.
Proof. vm_compute. split; reflexivity. Qed.

(* the freshness hypothesis is needed: with the category variable stored in x itself the
   alternatives are evaluated AFTER x was overwritten by the index *)
Example C17_catexpand_needs_fresh :
  Qc_eqb (E (exec_stmt no_law (SAssign "x" (RChoice ex_alts)) ex_state) ex_test)
         (E (exec_block no_law (cat_expand "x" "x" ex_alts) ex_state) ex_test) = false.
Proof. vm_compute. reflexivity. Qed.

(* a flat program with a three-valued finite variable, a conditioned polynomial assignment
   with two alternatives and a conditioned draw *)
Definition c_f1 := CAtom (EVar "f") Ceq (q 1 1).
Definition c_f2 := CAnd (CNot c_f1) (CAtom (EVar "f") Ceq (q 2 1)).
Definition ex_fp : flatprog :=
  {| fp_init := [ {| ga_var := "x"; ga_cond := CTrue; ga_default := "x"; ga_rhs := RDet (q 0 1) |};
                  {| ga_var := "f"; ga_cond := CTrue; ga_default := "f"; ga_rhs := RDet (q 1 1) |};
                  {| ga_var := "b"; ga_cond := CTrue; ga_default := "b"; ga_rhs := RDet (q 0 1) |} ];
     fp_body := [ {| ga_var := "f"; ga_cond := CTrue; ga_default := "f";
                     ga_rhs := RChoice [(q 1 4, q 0 1); (q 1 4, q 1 1); (q 1 2, q 2 1)] |};
                  {| ga_var := "_x1"; ga_cond := c_f1; ga_default := "x";
                     ga_rhs := RChoice [(q 1 2, EAdd (q 1 1) (EVar "x")); (q 1 2, EAdd (q (-1) 1) (EVar "x"))] |};
                  {| ga_var := "b"; ga_cond := c_f2; ga_default := "b"; ga_rhs := RDraw (DBern (q 1 3)) |};
                  {| ga_var := "x"; ga_cond := c_f2; ga_default := "_x1";
                     ga_rhs := RDet (EAdd (EVar "_x1") (EVar "b")) |} ] |}.
Definition ex_T : tenv := [("f", [mkq 0 1; mkq 1 1; mkq 2 1]); ("b", [mkq 0 1; mkq 1 1])].
Definition ex_fp' : flatprog := match c2a_fp ex_T ["_u0"] ex_fp with Some p => p | None => ex_fp end.

Example C17_cond2arithm_nonvacuous :
  check_types ex_fp ex_T = true /\
  (match c2a_fp ex_T ["_u0"] ex_fp with Some p => List.length (fp_body p) | None => O end) = 5%nat /\
  (* moments of x, x^2, x*b after 0..3 iterations coincide *)
  map (fun n => map (fun m => qpair (E (frun no_law ex_fp n st0) (eval_mono m))) [[("x", 1%nat)]; [("x", 2%nat)]; [("x", 1%nat); ("b", 1%nat)]]) [0; 1; 2; 3]%nat =
  map (fun n => map (fun m => qpair (E (frun no_law ex_fp' n st0) (eval_mono m))) [[("x", 1%nat)]; [("x", 2%nat)]; [("x", 1%nat); ("b", 1%nat)]]) [0; 1; 2; 3]%nat /\
  (* and are not trivial *)
  qpair (E (frun no_law ex_fp 3%nat st0) (eval_mono [("x", 2%nat)])) = (17%Z, 12%positive).
Proof. vm_compute. repeat split; reflexivity. Qed.

(* the side conditions of the theorem hold for this program (so the theorem applies to it) *)
Example C17_cond2arithm_side_nonvacuous : c2a_side no_law ex_T ["_u0"] ex_fp.
Proof.
  unfold c2a_side. split; [|split; [|split]].
  - intros u [<-|[]]. reflexivity.
  - intros g Hg. cbn in Hg. unfold no_touch.
    repeat (destruct Hg as [<-|Hg]); try destruct Hg; cbn;
      repeat split; try (intros [H|[]]; discriminate H); intros x Hx [H|[]]; subst x;
      repeat (destruct Hx as [Hx|Hx]; [discriminate Hx|]); try destruct Hx.
  - intros g Hg s Hs. cbn in Hg.
    repeat (destruct Hg as [<-|Hg]); try destruct Hg; unfold mass; cbn; apply Qc_is_canon; reflexivity.
  - vm_compute. repeat constructor.
Qed.

(* the comparator accepts the model's own output and rejects a C / not-C swap *)
Example C17_c2a_matches_nonvacuous :
  c2a_matches ex_T ["_u0"] (fp_body ex_fp) (fp_body ex_fp') = true /\
  c2a_matches ex_T ["_u0"] (fp_body ex_fp)
    (map (fun g => match ga_rhs g with
                   | RChoice [(p, EAdd (EMul a e) (EMul na d))] =>
                       {| ga_var := ga_var g; ga_cond := CTrue; ga_default := ga_default g;
                          ga_rhs := RChoice [(p, EAdd (EMul na e) (EMul a d))] |}
                   | _ => g end) (fp_body ex_fp')) = false.
Proof. vm_compute. split; reflexivity. Qed.

(* exactness flag: one point interval and one proper interval *)
Example C17_exact_flag_nonvacuous :
  snd (numeric_roots_model [((mkq 1 2, mkq 1 2), 1%nat)]) = true /\
  snd (numeric_roots_model [((mkq 1 2, mkq 1 2), 1%nat); ((mkq 161 100, mkq 162 100), 1%nat)]) = false /\
  snd (numerify (RBin 0 (RNum (mkq 1 2)) (RCroot 0))) = false /\ snd (numerify (RBin 0 (RNum (mkq 1 2)) (RNum 1))) = true.
Proof. vm_compute. repeat split; reflexivity. Qed.
