(* C19 — texts that denote the same loop yield the same analysis.
   Only property theorems, each closed by [exact] and followed by Print Assumptions.
   Models: theories/Parse.v (arithmetic grammar, Python precedence), ParseCond.v (conditions as
   syntax.lark's LALR tables read them), ParseSem.v (values, decimals, the parser's implicit
   last probability text), Sugar.v (sugar under the reference semantics Sem.v). *)
From Coq Require Import String List NArith ZArith QArith Qcanon Lia.
From Polar Require Import Qcx Dist Syntax Sem Parse ParseCond ParseSem Sugar.
Import ListNotations.
Local Open Scope Qc_scope.

(* ---- parse (print e) = e ------------------------------------------------------------------
   [pr 0 e ts]: ts is a spelling of the arithmetic AST e with parentheses wherever the grammar
   needs them and any number of redundant ones.  Every spelling parses back to its AST; the
   fuel the structurally recursive parser gets is the length of the token list, and the
   out-of-fuel answer None is excluded by the statement. *)
Theorem C19_parse_print_spelling :
  forall (e : sx) (ts : list tok), pr 0 e ts -> parse_expr ts = Some e.
Proof. exact parse_spelling. Qed.
Print Assumptions C19_parse_print_spelling.

Theorem C19_parse_print_full : forall e : sx, parse_expr (print_full e) = Some e.
Proof. exact parse_print_full. Qed.
Print Assumptions C19_parse_print_full.

Theorem C19_parse_print_min : forall e : sx, parse_expr (print_min e) = Some e.
Proof. exact parse_print_min. Qed.
Print Assumptions C19_parse_print_min.

Theorem C19_redundant_parens :
  forall e ts ts', pr 0 e ts -> pr 0 e ts' -> parse_expr ts = parse_expr ts'.
Proof. exact redundant_parens. Qed.
Print Assumptions C19_redundant_parens.

Theorem C19_spelling_injective : forall e e' ts, pr 0 e ts -> pr 0 e' ts -> e = e'.
Proof. exact spelling_injective. Qed.
Print Assumptions C19_spelling_injective.

(* conditions: true/false, arithm COP arithm, !(c), && and || on one level associating to the
   right, parenthesised conditions; a leading "(" may belong to the arithmetic *)
Theorem C19_parse_print_cond_spelling :
  forall (c : sc) (ts : list tok), prc 0 c ts -> parse_cond ts = Some c.
Proof. exact parse_cond_spelling. Qed.
Print Assumptions C19_parse_print_cond_spelling.

Theorem C19_parse_print_cond_full : forall c : sc, parse_cond (printc_full c) = Some c.
Proof. exact parse_cond_print_full. Qed.
Print Assumptions C19_parse_print_cond_full.

Theorem C19_parse_print_cond_min : forall c : sc, parse_cond (printc_min c) = Some c.
Proof. exact parse_cond_print_min. Qed.
Print Assumptions C19_parse_print_cond_min.

(* ---- decimal versus fraction ---------------------------------------------------------------
   the literal d1..dj.e1..ek has the value of the quotient of the integer literals d1..dj e1..ek and
   10^k, which is its positional value — what Rational("d1..dj.e1..ek") returns *)
Theorem C19_decimal_fraction_same :
  forall (ip fp : list nat) (s : state),
    let m := digits_val (ip ++ fp) in
    sx_eval (XNum m (length fp)) s = sx_eval (XDiv (XNum m 0) (XNum (Npos (pow10 (length fp))) 0)) s
    /\ sx_eval (XNum m (length fp)) s = Some (dec_value ip fp).
Proof. exact decimal_fraction_same. Qed.
Print Assumptions C19_decimal_fraction_same.

(* the polynomial fragment of the surface syntax means what Syntax.expr / Sem.eval say *)
Theorem C19_to_expr_sound :
  forall (e : sx) (p : expr), to_expr e = Some p -> forall s, sx_eval e s = Some (eval p s).
Proof. exact to_expr_sound. Qed.
Print Assumptions C19_to_expr_sound.

(* ---- sugar under the reference semantics, for all programs, states, test functions -------- *)
Theorem C19_elif_is_nested_else_if :
  forall law (bs : branches) (els : block) (s : state) (f : state -> Qc),
    E (exec_stmt law (SIf bs els) s) f = E (exec_block law (nest bs els) s) f.
Proof. exact elif_is_nested_else_if. Qed.
Print Assumptions C19_elif_is_nested_else_if.

Theorem C19_elif_one_step :
  forall law c b bs els (s : state) (f : state -> Qc),
    E (exec_stmt law (SIf (BrCons c b bs) els) s) f =
    E (exec_stmt law (SIf (BrCons c b BrNil) (BCons (SIf bs els) BNil)) s) f.
Proof. exact elif_one_step. Qed.
Print Assumptions C19_elif_one_step.

Theorem C19_simult_is_temporaries :
  forall law (l : list (var * rhs)) (ts : list var) (s : state) (f : state -> Qc),
    length ts = length l -> NoDup ts ->
    (forall x, In x (map fst l) -> ~ In x ts) ->
    (forall r x, In r (map snd l) -> In x (rvars r) -> ~ In x ts) ->
    (forall a b, agree_off ts a b -> f a = f b) ->
    E (exec_stmt law (SSimult l) s) f = E (exec_block law (temps_block l ts) s) f.
Proof. exact simult_is_temporaries. Qed.
Print Assumptions C19_simult_is_temporaries.

Theorem C19_implicit_last_probability :
  forall law (alts : list (expr * expr)) (q e : expr) (s : state) (f : Qc -> Qc),
    eval q s = 1 - qsum (map (fun pe => eval (fst pe) s) alts) ->
    E (sample law (RChoice (alts ++ [(q, e)])) s) f = E (sample law (fill_last alts e) s) f.
Proof. exact implicit_last_probability. Qed.
Print Assumptions C19_implicit_last_probability.

Theorem C19_implicit_last_total_mass :
  forall law alts e s, mass (sample law (fill_last alts e) s) = 1.
Proof. exact implicit_last_total_mass. Qed.
Print Assumptions C19_implicit_last_total_mass.

(* _assign_categorical (since /repo commit 1ab34b4) parses every listed probability text on its own
   and takes 1 - sum: right for EVERY spelling of the probabilities *)
Theorem C19_implicit_last_parsed_separately :
  forall (ps : list sx) (ts : list (list tok)), Forall2 (pr 0) ps ts ->
    implicit_fixed ts = Some (XSub (XNum 1 0) (sum_sx ps)) /\
    forall s vs, Forall2 (fun p v => sx_eval p s = Some v) ps vs ->
      sx_eval (XSub (XNum 1 0) (sum_sx ps)) s = Some (1 - fold_right Qcplus 0 vs).
Proof. exact implicit_last_parsed_separately. Qed.
Print Assumptions C19_implicit_last_parsed_separately.

(* the construction before that commit (regression witness): the TEXT "1-" + "-".join(probabilities)
   denotes 1 - p1 - ... - pk when every listed probability is spelled as a term (no top-level + or -) ... *)
Theorem C19_implicit_last_tokens :
  forall (ps : list sx) (ts : list (list tok)), Forall2 (pr 1) ps ts ->
    parse_expr (implicit_tokens ts) = Some (implicit_sx ps).
Proof. exact implicit_last_tokens. Qed.
Print Assumptions C19_implicit_last_tokens.

Theorem C19_implicit_last_value :
  forall ps s vs, Forall2 (fun p v => sx_eval p s = Some v) ps vs ->
    sx_eval (implicit_sx ps) s = Some (1 - fold_right Qcplus 0 vs).
Proof. exact implicit_last_value. Qed.
Print Assumptions C19_implicit_last_value.

(* ... and it does not otherwise: for the spelling 1/4+1/4 of the probability 1/2 the parser's
   text 1-1/4+1/4 parses (Python precedence) to something of value 1, not 1 - 1/2 *)
Theorem C19_implicit_last_unparenthesised_refuted :
  exists p tp e', pr 0 p tp /\ parse_expr (implicit_tokens [tp]) = Some e' /\
    sx_eval p st0 = Some (mkq 1 2) /\ sx_eval e' st0 = Some (mkq 1 1) /\ mkq 1 1 <> 1 - mkq 1 2.
Proof. exact implicit_last_unparenthesised_refuted. Qed.
Print Assumptions C19_implicit_last_unparenthesised_refuted.

(* ---- probability vectors ---------------------------------------------------------------------- *)
Theorem C19_choice_is_probability_iff_valid :
  forall law (ps : list Qc) (es : list expr) (e : expr) (s : state), length es = length ps ->
    (is_prob_law (sample law (fill_last (const_alts ps es) e) s) <-> valid_probs ps).
Proof. exact choice_is_probability_iff_valid. Qed.
Print Assumptions C19_choice_is_probability_iff_valid.

Theorem C19_choice_all_listed_iff :
  forall law (ps : list Qc) (es : list expr) (s : state), length es = length ps ->
    (is_prob_law (sample law (RChoice (const_alts ps es)) s) <-> Forall (fun p => 0 <= p) ps /\ qsum ps = 1).
Proof. exact choice_all_listed_iff. Qed.
Print Assumptions C19_choice_all_listed_iff.

(* PolyAssignment.__init__ since /repo commit 626892e (all probabilities numbers => each in [0,1] and
   sum 1, else RuntimeError): the constructor accepts a constant vector iff the choice is a probability law *)
Theorem C19_repaired_constructor_accepts_iff_valid :
  forall law x (ps : list Qc) (es : list expr) (s : state), length es = length ps ->
    (poly_assignment_init x es (map EConst ps) <> None <->
     is_prob_law (sample law (RChoice (const_alts ps es)) s)).
Proof. exact repaired_constructor_accepts_iff_valid. Qed.
Print Assumptions C19_repaired_constructor_accepts_iff_valid.

(* with the last probability omitted (the parser fills in 1 - sum): accepted iff listed >= 0 and sum <= 1 *)
Theorem C19_repaired_constructor_implicit_last :
  forall x (ps : list Qc) (es : list expr),
    (poly_assignment_init x es (map EConst (ps ++ [1 - qsum ps])) <> None <-> valid_probs ps).
Proof. exact repaired_constructor_implicit_last. Qed.
Print Assumptions C19_repaired_constructor_implicit_last.

(* the OLD rule (no validation, before 626892e) accepted every vector: "invalid probability vectors are
   rejected" is false of it (witness x = 1 {3/2} 2); kept as the regression witness *)
Theorem C19_invalid_probs_accepted_old_rule_refuted :
  ~ (forall x ps es e st, length es = length ps ->
       poly_assignment_init_old x (es ++ [e]) (map EConst ps ++ [one_minus (map EConst ps)]) = Some st ->
       valid_probs ps).
Proof. exact invalid_probs_accepted_old_rule_refuted. Qed.
Print Assumptions C19_invalid_probs_accepted_old_rule_refuted.

(* ---- non-vacuity / precedence samples (tests, by vm_compute) ------------------------------------ *)
Open Scope string_scope.
(* -x**2 is -(x**2); 2**3**2 is 2**(3**2); a-b-c is (a-b)-c; a/b*c is (a/b)*c; 2**-1 *)
Example C19_prec_neg_pow :
  parse_expr [TMinus; TId "x"; TPow; TNum 2 0] = Some (XNeg (XPow (XVar "x") (XNum 2 0))).
Proof. vm_compute. reflexivity. Qed.
Example C19_prec_pow_right :
  parse_expr [TNum 2 0; TPow; TNum 3 0; TPow; TNum 2 0] = Some (XPow (XNum 2 0) (XPow (XNum 3 0) (XNum 2 0))).
Proof. vm_compute. reflexivity. Qed.
Example C19_prec_sub_left :
  parse_expr [TId "a"; TMinus; TId "b"; TMinus; TId "c"] = Some (XSub (XSub (XVar "a") (XVar "b")) (XVar "c")).
Proof. vm_compute. reflexivity. Qed.
Example C19_prec_div_mul :
  parse_expr [TId "a"; TSlash; TId "b"; TStar; TId "c"; TPlus; TNum 1 0]
  = Some (XAdd (XMul (XDiv (XVar "a") (XVar "b")) (XVar "c")) (XNum 1 0)).
Proof. vm_compute. reflexivity. Qed.
Example C19_prec_pow_neg :
  parse_expr [TNum 2 0; TPow; TMinus; TNum 1 0] = Some (XPow (XNum 2 0) (XNeg (XNum 1 0))).
Proof. vm_compute. reflexivity. Qed.
Example C19_min_printer_sample :
  print_min (XMul (XAdd (XVar "a") (XVar "b")) (XPow (XNeg (XVar "c")) (XNum 2 0)))
  = [TLp; TId "a"; TPlus; TId "b"; TRp; TStar; TLp; TMinus; TId "c"; TRp; TPow; TNum 2 0].
Proof. vm_compute. reflexivity. Qed.
Example C19_rejects_unbalanced : parse_expr [TLp; TId "a"; TPlus; TId "b"] = None.
Proof. vm_compute. reflexivity. Qed.
Example C19_rejects_two_operators : parse_expr [TId "a"; TPlus; TStar; TId "b"] = None.
Proof. vm_compute. reflexivity. Qed.
Example C19_cond_paren_arith :
  parse_cond [TLp; TId "x"; TPlus; TNum 1 0; TRp; TStar; TNum 2 0; TCop Ogt; TNum 0 0]
  = Some (KAtom (XMul (XAdd (XVar "x") (XNum 1 0)) (XNum 2 0)) Ogt (XNum 0 0)).
Proof. vm_compute. reflexivity. Qed.
Example C19_cond_paren_cond :
  parse_cond [TLp; TId "x"; TCop Ogt; TNum 0 0; TAnd; TId "y"; TCop Ogt; TNum 0 0; TRp; TOr; TTrue]
  = Some (KOr (KAnd (KAtom (XVar "x") Ogt (XNum 0 0)) (KAtom (XVar "y") Ogt (XNum 0 0))) KTrue).
Proof. vm_compute. reflexivity. Qed.
Example C19_cond_not_needs_parens : parse_cond [TNot; TId "x"; TCop Ogt; TNum 0 0] = None.
Proof. vm_compute. reflexivity. Qed.
(* 0.25 = 25/100: digits [0] . [2;5] *)
Example C19_decimal_sample : dec_value [0%nat] [2%nat; 5%nat] = mkq 1 4.
Proof. apply Qc_is_canon. vm_compute. reflexivity. Qed.
