(* C15 — Bayesian-network import and queries agree with the network's joint law.
   Only property theorems, each closed by [exact] and followed by Print Assumptions.
   Everything is about the Gallina model theories/BayesNet.v (tied to bayesnet/*.py by the
   correspondence check harness/checks/c15.py on every run) and the reference semantics
   theories/BayesNetSem.v. *)
From Coq Require Import String Arith Bool QArith Qcanon List Permutation Reals.
From Coquelicot Require Import Coquelicot.
From Polar Require Import Qcx BayesNet BayesNetSem BayesNetSpec BayesNetTopo BayesNetCpt BayesNetQuery
     BayesNetLimit.
Import ListNotations.
Open Scope nat_scope.

(* ---- acceptance: an accepted file has only fully specified rows (no NaN row left: every
   row has one number per domain value), each within the tolerance; parents exist; the CPT
   has exactly one row per combination of parent values, in product order. *)
Theorem C15_accepted_rows_specified_and_valid :
  forall tol b net, assemble tol b = Some net -> wf_network net /\ rows_valid tol net.
Proof. exact assemble_wf. Qed.
Print Assumptions C15_accepted_rows_specified_and_valid.

(* ---- the table notation (own value slowest, parents in product order), the per-entry
   notation, and either of them after a default or table that is completely overwritten
   denote the same CPT. *)
Theorem C15_cpt_notations_agree :
  forall tol vars xn x parnames pars (rows : list row) dflt,
    wf_vtable vars -> find_var vars xn = Some x -> omap (find_var vars) parnames = Some pars ->
    length rows = length (cpt_keys vars pars) ->
    (forall r, In r rows -> length r = dsize vars x /\ sum_valid tol r = true) ->
    (length dflt = dsize vars x /\ sum_valid tol dflt = true) ->
    let mk items := assemble_cpt tol vars {| pb_var := xn; pb_parents := parnames; pb_items := items |} in
    let target := Some (x, pars, combine (cpt_keys vars pars) rows) in
       mk [ITable (table_of (dsize vars x) rows)] = target
    /\ mk (entries_of vars pars rows) = target
    /\ mk [IDefault dflt; ITable (table_of (dsize vars x) rows)] = target
    /\ mk (IDefault dflt :: entries_of vars pars rows) = target
    /\ mk (ITable (table_of (dsize vars x) rows) :: entries_of vars pars rows) = target.
Proof. exact cpt_notations_agree. Qed.
Print Assumptions C15_cpt_notations_agree.

(* the hypothesis wf_vtable is what the variable blocks of an accepted file guarantee *)
Theorem C15_check_vars_wf : forall vs vars, check_vars vs [] = Some vars -> wf_vtable vars.
Proof. exact check_vars_wf. Qed.
Print Assumptions C15_check_vars_wf.

(* ---- topological sort: whenever the assert passes, the order is a permutation with
   parents first and no variable lists a parent twice; it passes on every DAG and only on
   DAGs. *)
Theorem C15_topo_sort_ok :
  forall pars ord,
    (forall i ps, nth_error pars i = Some ps -> forall p, In p ps -> p < length pars) ->
    topo_sort pars = Some ord ->
    Permutation ord (seq 0 (length pars)) /\ parents_first pars ord /\ wf_pars pars /\ acyclic pars.
Proof.
  intros pars ord Hb Hs. pose proof (topo_sort_nodup pars ord Hb Hs) as Hwf.
  destruct (topo_sort_sound pars ord Hwf Hs) as [H1 H2].
  exact (conj H1 (conj H2 (conj Hwf (topo_sort_acyclic pars ord Hwf Hs)))).
Qed.
Print Assumptions C15_topo_sort_ok.

Theorem C15_topo_sort_complete :
  forall pars, wf_pars pars -> acyclic pars -> exists ord, topo_sort pars = Some ord.
Proof. exact topo_sort_complete. Qed.
Print Assumptions C15_topo_sort_complete.

(* ---- exact inference: after the query statements ind = [evidence], inf = X * ind,
   E[inf^k] / E[ind] is the conditional expectation of X^k given the evidence, for every
   distribution D of the state before them and every k >= 1. *)
Theorem C15_exact_inference_identity :
  forall m c t, t < m -> forall (D : dist) k,
    let D' := bind D (exec_body (qs_exact m c t)) in
    expect D' (fun s' => qpow (qnat (s' (S m))) (S k))
      = expect D (fun s => (ind (cond_true c s) * qpow (qnat (s t)) (S k))%Qc) /\
    expect D' (fun s' => qnat (s' m)) = mass D (cond_true c) /\
    (mass D (cond_true c) <> 0%Qc ->
     (expect D' (fun s' => qpow (qnat (s' (S m))) (S k)) / expect D' (fun s' => qnat (s' m)))%Qc
     = (expect D (fun s => (ind (cond_true c s) * qpow (qnat (s t)) (S k))%Qc) / mass D (cond_true c))%Qc).
Proof. exact exact_inference_identity. Qed.
Print Assumptions C15_exact_inference_identity.

(* ---- sampling time: if one execution of the body hits the evidence with probability q
   from every state, keeps total mass 1 and does not touch count/continue, then after n
   iterations E[count] = sum_{i<=n} (1-q)^i, in closed form q * E[count]_n = 1 - (1-q)^(n+1) *)
Theorem C15_sampling_time_identity :
  forall (body : list gstmt) (m : nat) (c : gcond) (q : Qc),
    (forall s, mass (exec_body body s) (cond_true c) = q) ->
    (forall s, expect (exec_body body s) (fun _ => 1%Qc) = 1%Qc) ->
    (forall s ws, In ws (exec_body body s) -> snd ws m = s m /\ snd ws (S m) = s (S m)) ->
    forall s0, s0 m = 1 -> s0 (S m) = 1 -> forall n,
      expect (iter_body (body ++ qs_sample m c) n [(1%Qc, s0)]) (fun s => qnat (s m)) = geom (1 - q) n
      /\ (q * geom (1 - q) n = 1 - qpow (1 - q) (S n))%Qc.
Proof.
  intros body m c q Hq Htot Hfr s0 H1 H2 n. split.
  - exact (sampling_count_n body m c q Hq Htot Hfr s0 H1 H2 n).
  - exact (sampling_closed_form q n).
Qed.
Print Assumptions C15_sampling_time_identity.

(* and its limit: the expected number of samples until the evidence is 1/q *)
Theorem C15_sampling_time_limit :
  forall q : Qc, (0 < q)%Qc -> (q <= 1)%Qc ->
    is_lim_seq (fun n => Q2R (geom (1 - q) n)) (/ Q2R q)%R.
Proof. exact sampling_time_limit. Qed.
Print Assumptions C15_sampling_time_limit.
