(* C15 — Bayesian-network import and queries agree with the network's joint law.
   Only property theorems, each closed by [exact] and followed by Print Assumptions.
   Everything is about the Gallina model theories/BayesNet.v (tied to bayesnet/*.py by the
   correspondence check harness/checks/c15.py on every run) and the reference semantics
   theories/BayesNetSem.v. *)
From Coq Require Import String Arith Bool QArith Qcanon List Permutation Reals.
From Coquelicot Require Import Coquelicot.
From Polar Require Import Qcx BayesNet BayesNetSem BayesNetSpec BayesNetTopo BayesNetCpt BayesNetQuery
     BayesNetJoint BayesNetLimit BayesNetMain.
Import ListNotations.
Open Scope nat_scope.

(* ---- acceptance: an accepted file has only fully specified rows (no NaN row left: every
   row has one number per domain value), each within the tolerance; parents exist; the CPT
   has exactly one row per combination of parent values, in product order. *)
Theorem C15_accepted_rows_specified_and_valid :
  forall tol b net, assemble tol b = Some net -> wf_network net /\ rows_valid tol net.
Proof. exact assemble_wf. Qed.
Print Assumptions C15_accepted_rows_specified_and_valid.

(* ---- the table notation (own value slowest, parents in product order), the per-entry
   notation, and either of them after a default or table that is completely overwritten
   denote the same CPT. *)
Theorem C15_cpt_notations_agree :
  forall tol vars xn x parnames pars (rows : list row) dflt,
    wf_vtable vars -> find_var vars xn = Some x -> omap (find_var vars) parnames = Some pars ->
    length rows = length (cpt_keys vars pars) ->
    (forall r, In r rows -> length r = dsize vars x /\ sum_valid tol r = true) ->
    (length dflt = dsize vars x /\ sum_valid tol dflt = true) ->
    let mk items := assemble_cpt tol vars {| pb_var := xn; pb_parents := parnames; pb_items := items |} in
    let target := Some (x, pars, combine (cpt_keys vars pars) rows) in
       mk [ITable (table_of (dsize vars x) rows)] = target
    /\ mk (entries_of vars pars rows) = target
    /\ mk [IDefault dflt; ITable (table_of (dsize vars x) rows)] = target
    /\ mk (IDefault dflt :: entries_of vars pars rows) = target
    /\ mk (ITable (table_of (dsize vars x) rows) :: entries_of vars pars rows) = target.
Proof. exact cpt_notations_agree. Qed.
Print Assumptions C15_cpt_notations_agree.

(* the hypothesis wf_vtable is what the variable blocks of an accepted file guarantee *)
Theorem C15_check_vars_wf : forall vs vars, check_vars vs [] = Some vars -> wf_vtable vars.
Proof. exact check_vars_wf. Qed.
Print Assumptions C15_check_vars_wf.

(* ---- topological sort: whenever the assert passes, the order is a permutation with
   parents first and no variable lists a parent twice; it passes on every DAG and only on
   DAGs. *)
Theorem C15_topo_sort_ok :
  forall pars ord,
    (forall i ps, nth_error pars i = Some ps -> forall p, In p ps -> p < length pars) ->
    topo_sort pars = Some ord ->
    Permutation ord (seq 0 (length pars)) /\ parents_first pars ord /\ wf_pars pars /\ acyclic pars.
Proof.
  intros pars ord Hb Hs. pose proof (topo_sort_nodup pars ord Hb Hs) as Hwf.
  destruct (topo_sort_sound pars ord Hwf Hs) as [H1 H2].
  exact (conj H1 (conj H2 (conj Hwf (topo_sort_acyclic pars ord Hwf Hs)))).
Qed.
Print Assumptions C15_topo_sort_ok.

Theorem C15_topo_sort_complete :
  forall pars, wf_pars pars -> acyclic pars -> exists ord, topo_sort pars = Some ord.
Proof. exact topo_sort_complete. Qed.
Print Assumptions C15_topo_sort_complete.

(* ---- exact inference: after the query statements ind = [evidence], inf = X * ind,
   E[inf^k] / E[ind] is the conditional expectation of X^k given the evidence, for every
   distribution D of the state before them and every k >= 1. *)
Theorem C15_exact_inference_identity :
  forall m c t, t < m -> forall (D : dist) k,
    let D' := bind D (exec_body (qs_exact m c t)) in
    expect D' (fun s' => qpow (qnat (s' (S m))) (S k))
      = expect D (fun s => (ind (cond_true c s) * qpow (qnat (s t)) (S k))%Qc) /\
    expect D' (fun s' => qnat (s' m)) = mass D (cond_true c) /\
    (mass D (cond_true c) <> 0%Qc ->
     (expect D' (fun s' => qpow (qnat (s' (S m))) (S k)) / expect D' (fun s' => qnat (s' m)))%Qc
     = (expect D (fun s => (ind (cond_true c s) * qpow (qnat (s t)) (S k))%Qc) / mass D (cond_true c))%Qc).
Proof. exact exact_inference_identity. Qed.
Print Assumptions C15_exact_inference_identity.

(* ---- sampling time: if one execution of the body hits the evidence with probability q
   from every state, keeps total mass 1 and does not touch count/continue, then after n
   iterations E[count] = sum_{i<=n} (1-q)^i, in closed form q * E[count]_n = 1 - (1-q)^(n+1) *)
Theorem C15_sampling_time_identity :
  forall (body : list gstmt) (m : nat) (c : gcond) (q : Qc),
    (forall s, mass (exec_body body s) (cond_true c) = q) ->
    (forall s, expect (exec_body body s) (fun _ => 1%Qc) = 1%Qc) ->
    (forall s ws, In ws (exec_body body s) -> snd ws m = s m /\ snd ws (S m) = s (S m)) ->
    forall s0, s0 m = 1 -> s0 (S m) = 1 -> forall n,
      expect (iter_body (body ++ qs_sample m c) n [(1%Qc, s0)]) (fun s => qnat (s m)) = geom (1 - q) n
      /\ (q * geom (1 - q) n = 1 - qpow (1 - q) (S n))%Qc.
Proof.
  intros body m c q Hq Htot Hfr s0 H1 H2 n. split.
  - exact (sampling_count_n body m c q Hq Htot Hfr s0 H1 H2 n).
  - exact (sampling_closed_form q n).
Qed.
Print Assumptions C15_sampling_time_identity.

(* and its limit: the expected number of samples until the evidence is 1/q *)
Theorem C15_sampling_time_limit :
  forall q : Qc, (0 < q)%Qc -> (q <= 1)%Qc ->
    is_lim_seq (fun n => Q2R (geom (1 - q) n)) (/ Q2R q)%R.
Proof. exact sampling_time_limit. Qed.
Print Assumptions C15_sampling_time_limit.

(* ---- THE generated loop body draws the joint law.  For every accepted BIF file (any DAG, any
   domain sizes >= 1, any notation mix) whose network the code generator sorts, one execution
   of the generated body from ANY state s0 gives each assignment a of domain positions to
   (X_1..X_m) exactly the product over all variables of P(X_i = a_i | parents = a_pa(i))
   (joint_prob: a product in declaration order, no reference to the topological order), where
   the law of a CPT row r of a d-valued variable is row_law d r: r's first d-1 entries and
   the remainder 1 - (r_0 + ... + r_(d-2)) for the last value — the implicit last probability
   of the generated choice.  row_law d r = r when r sums to 1 (C15_row_law_exact); otherwise it
   differs from r in the last entry only, by 1 - sum r, which acceptance bounds by the
   tolerance (C15_row_law_shape, C15_accepted_rows_specified_and_valid). *)
Theorem C15_generated_body_is_joint :
  forall tol b net body,
    assemble tol b = Some net -> gen_body net = Some body ->
    forall s0 a, In a (all_assignments net) ->
      mass (exec_body body s0) (fun s => nats_eqb (read (length net) s) a) = joint_prob net a.
Proof.
  intros tol b net body Ha. exact (joint_of_wf_network net (proj1 (assemble_wf tol b net Ha)) body).
Qed.
Print Assumptions C15_generated_body_is_joint.

(* the same for any well-formed network, not only assembled ones *)
Theorem C15_generated_body_is_joint_wf :
  forall net body, wf_network net -> gen_body net = Some body ->
    forall s0 a, In a (all_assignments net) ->
      mass (exec_body body s0) (fun s => nats_eqb (read (length net) s) a) = joint_prob net a.
Proof. intros net body Hwf. exact (joint_of_wf_network net Hwf body). Qed.
Print Assumptions C15_generated_body_is_joint_wf.

(* total mass 1, all drawn values are domain positions, no other variable is touched; hence
   the expectation of ANY function of the network variables is its sum against the product law *)
Theorem C15_generated_body_support :
  forall net body, wf_network net -> gen_body net = Some body ->
    forall s0,
      expect (exec_body body s0) (fun _ => 1%Qc) = 1%Qc /\
      forall ws, In ws (exec_body body s0) ->
        In (read (length net) (snd ws)) (all_assignments net) /\
        forall y, length net <= y -> snd ws y = s0 y.
Proof. intros net body Hwf. exact (support_of_wf_network net Hwf body). Qed.
Print Assumptions C15_generated_body_support.

Theorem C15_body_expect_by_enumeration :
  forall net body, wf_network net -> gen_body net = Some body ->
    forall s0 (g : list nat -> Qc),
      expect (exec_body body s0) (fun s => g (read (length net) s)) = joint_expect net g.
Proof. intros net body Hwf. exact (enumeration_of_wf_network net Hwf body). Qed.
Print Assumptions C15_body_expect_by_enumeration.

Theorem C15_row_law_exact :
  forall d (r : row), 1 <= d -> length r = d -> qsum r = 1%Qc -> row_law d r = r.
Proof. exact row_law_exact. Qed.
Print Assumptions C15_row_law_exact.

Theorem C15_row_law_shape :
  forall d (r : row), 1 <= d -> length r = d ->
    row_law d r = firstn (d - 1) r ++ [(nth (d - 1) r 0 + (1 - qsum r))%Qc].
Proof. exact row_law_shape. Qed.
Print Assumptions C15_row_law_shape.

(* ---- the whole generated query programs, n loop iterations from the generated initial state.
   Exact inference: at every n >= 1 and k >= 1, E[inf^k] and E[ind] are the enumeration sums
   sum_a P(a) [a |= evidence] a_t^k and P(evidence), so E[inf^k]/E[ind] = E[X_t^k | evidence]. *)
Theorem C15_exact_inference_program :
  forall net tn ev p, wf_network net -> codegen net (QExact tn ev) = Some p ->
    exists c t, resolve_evidence net ev = Some c /\ find_nvar net tn = Some t /\
      forall n k,
        expect (run p (S n)) (fun s => qpow (qnat (s (S (length net)))) (S k))
          = joint_expect net (fun a => (ind (ev_holds c a) * qpow (qnat (nth t a O)) (S k))%Qc) /\
        expect (run p (S n)) (fun s => qnat (s (length net)))
          = joint_expect net (fun a => ind (ev_holds c a)).
Proof. intros net tn ev p Hwf. exact (exact_inference_of_wf_network net Hwf tn ev p). Qed.
Print Assumptions C15_exact_inference_program.

(* Sampling time: E[count]_n = sum_{i<=n} (1-q)^i with q = P(evidence) by enumeration, the
   closed form q * E[count]_n = 1 - (1-q)^(n+1), and E[count]_n -> 1/q *)
Theorem C15_sampling_time_program :
  forall net ev p, wf_network net -> codegen net (QSample ev) = Some p ->
    exists c, resolve_evidence net ev = Some c /\
      let q := joint_expect net (fun a => ind (ev_holds c a)) in
      (forall n, expect (run p n) (fun s => qnat (s (length net))) = geom (1 - q) n) /\
      (forall n, (q * geom (1 - q) n = 1 - qpow (1 - q) (S n))%Qc).
Proof. intros net ev p Hwf. exact (sampling_time_of_wf_network net Hwf ev p). Qed.
Print Assumptions C15_sampling_time_program.

(* the printed answer should be this limit, 1/P(evidence) (Coquelicot; Reals axioms) *)
Theorem C15_sampling_time_program_limit :
  forall net ev p, wf_network net -> codegen net (QSample ev) = Some p ->
    exists c, resolve_evidence net ev = Some c /\
      let q := joint_expect net (fun a => ind (ev_holds c a)) in
      ((0 < q)%Qc -> (q <= 1)%Qc ->
       is_lim_seq (fun n => Q2R (expect (run p n) (fun s => qnat (s (length net))))) (/ Q2R q)%R).
Proof. intros net ev p Hwf. exact (sampling_time_limit_of_wf_network net Hwf ev p). Qed.
Print Assumptions C15_sampling_time_program_limit.

(* ---- cli.common.transform_to_after_loop, in a model that compares symbols as sympy does (name
   and assumptions).  Repaired rule (limit with respect to the integer symbol n, /repo 6cf1f48): the
   sampling-time closed form of every q is mapped to 1/q.  The OLD rule (plain symbol n) left the
   closed form unchanged — kept as a statement about the old rule only. *)
Theorem C15_after_loop_takes_limit :
  forall q : Qc, transform_to_after_loop_model (count_closed_form q) = LConst (1 / q)%Qc.
Proof. exact after_loop_takes_limit. Qed.
Print Assumptions C15_after_loop_takes_limit.

Theorem C15_after_loop_symbol_old_rule_refuted :
  exists q : Qc, (0 < q)%Qc /\ (q <= 1)%Qc /\
    transform_to_after_loop_old_rule (count_closed_form q) = LExpr (count_closed_form q) /\
    geo_eval (count_closed_form q) 0 <> (1 / q)%Qc.
Proof. exact after_loop_symbol_old_rule_refuted. Qed.
Print Assumptions C15_after_loop_symbol_old_rule_refuted.

(* ------------------------------------------------------------------ non-vacuity (tests by
   vm_compute, not theorems): bayesnet/repo/testcases/rain.bif *)
Open Scope string_scope.
Definition tol : Qc := mkq 1 1000.
Definition rain_vars : list vardecl :=
  [ {| vd_name := "rain"; vd_types := [(2, ["0"; "1"])] |};
    {| vd_name := "sprinkler"; vd_types := [(2, ["0"; "1"])] |};
    {| vd_name := "grass"; vd_types := [(2, ["0"; "1"])] |} ].
Definition rain_bif : bif :=
  {| b_vars := rain_vars;
     b_probs :=
       [ {| pb_var := "rain"; pb_parents := []; pb_items := [ITable [mkq 1 5; mkq 4 5]] |};
         {| pb_var := "sprinkler"; pb_parents := ["rain"];
            pb_items := [IEntry ["0"] [mkq 2 5; mkq 3 5]; IEntry ["1"] [mkq 1 100; mkq 99 100]] |};
         {| pb_var := "grass"; pb_parents := ["sprinkler"; "rain"];
            pb_items := [IEntry ["0"; "0"] [mkq 1 100; mkq 99 100]; IEntry ["0"; "1"] [mkq 1 4; mkq 3 4];
                         IEntry ["1"; "0"] [mkq 9 10; mkq 1 10]; IEntry ["1"; "1"] [mkq 1 5; mkq 4 5]] |} ] |}.
(* the same file with tables (own value slowest) and an overwritten default *)
Definition rain_bif_tables : bif :=
  {| b_vars := rain_vars;
     b_probs :=
       [ {| pb_var := "grass"; pb_parents := ["sprinkler"; "rain"];
            pb_items := [ITable [mkq 1 100; mkq 1 4; mkq 9 10; mkq 1 5; mkq 99 100; mkq 3 4; mkq 1 10; mkq 4 5];
                         IDefault [mkq 1 2; mkq 1 2]] |};
         {| pb_var := "rain"; pb_parents := []; pb_items := [IDefault [mkq 1 5; mkq 4 5]] |};
         {| pb_var := "sprinkler"; pb_parents := ["rain"];
            pb_items := [IDefault [mkq 1 100; mkq 99 100]; IEntry ["0"] [mkq 2 5; mkq 3 5]] |} ] |}.
Definition rain_ev : gcond := [(2, 1); (1, 0)].      (* grass = 1, sprinkler = 0 *)
Definition rain_net : network := match assemble tol rain_bif with Some n => n | None => [] end.

Example C15_nonvacuous_accept : is_some (assemble tol rain_bif) = true.
Proof. vm_compute. reflexivity. Qed.
Example C15_nonvacuous_notations : network_eqb (assemble tol rain_bif) (assemble tol rain_bif_tables) = true.
Proof. vm_compute. reflexivity. Qed.
(* a missing row, a row outside the tolerance, a transposed table are refused / differ *)
Example C15_nonvacuous_reject_missing_row :
  assemble tol {| b_vars := rain_vars;
                  b_probs := [ {| pb_var := "rain"; pb_parents := []; pb_items := [ITable [mkq 1 5; mkq 4 5]] |};
                               {| pb_var := "sprinkler"; pb_parents := ["rain"];
                                  pb_items := [IEntry ["0"] [mkq 2 5; mkq 3 5]] |};
                               {| pb_var := "grass"; pb_parents := []; pb_items := [ITable [mkq 1 2; mkq 1 2]] |} ] |}
  = None.
Proof. vm_compute. reflexivity. Qed.
Example C15_nonvacuous_reject_sum :
  assemble tol {| b_vars := [ {| vd_name := "a"; vd_types := [(2, ["x"; "y"])] |} ];
                  b_probs := [ {| pb_var := "a"; pb_parents := []; pb_items := [ITable [mkq 1 5; mkq 401 500]] |} ] |}
  = None.
Proof. vm_compute. reflexivity. Qed.
Example C15_nonvacuous_topo :
  topo_sort (map nv_par rain_net) = Some [0; 1; 2] /\ topo_sort [[1]; [0]] = None /\ topo_sort [[]; [0; 0]] = None.
Proof. vm_compute. repeat split; reflexivity. Qed.
(* P(rain=1, sprinkler=0, grass=1) = 0.8 * 0.01 * 0.75 and the semantics of the generated body agree *)
Example C15_nonvacuous_joint :
  match gen_body rain_net with
  | Some body => Qc_eqb (mass (exec_body body (fun _ => 7)) (fun s => nats_eqb (read 3 s) [1; 0; 1])) (mkq 3 500)
                 && Qc_eqb (joint_prob rain_net [1; 0; 1]) (mkq 3 500)
  | None => false
  end = true.
Proof. vm_compute. reflexivity. Qed.
(* E(rain**2 | grass = 1, sprinkler = 0) = 5/71, by the semantics of the generated program at n = 2
   and by enumeration; expected sampling time 2500/213 *)
Example C15_nonvacuous_exact_inference :
  match codegen rain_net (QExact "rain" [("grass", "1"); ("sprinkler", "0")]) with
  | Some p => Qc_eqb (expect (run p 2) (fun s => qpow (qnat (s 4)) 2) / expect (run p 2) (fun s => qnat (s 3)))%Qc (mkq 5 71)
              && Qc_eqb (joint_expect rain_net (fun a => (ind (ev_holds rain_ev a) * qpow (qnat (nth 0 a O)) 2)%Qc)
                         / joint_expect rain_net (fun a => ind (ev_holds rain_ev a)))%Qc (mkq 5 71)
  | None => false
  end = true.
Proof. vm_compute. reflexivity. Qed.
Example C15_nonvacuous_sampling_time :
  match codegen rain_net (QSample [("grass", "1"); ("sprinkler", "0")]) with
  | Some p => Qc_eqb (expect (run p 3) (fun s => qnat (s 3))) (geom (1 - mkq 213 2500) 3)
              && Qc_eqb (joint_expect rain_net (fun a => ind (ev_holds rain_ev a))) (mkq 213 2500)
  | None => false
  end = true.
Proof. vm_compute. reflexivity. Qed.
Example C15_nonvacuous_names :
  sanitize "Node-7" = "node7" /\ valid_mapping ["a-b"; "ab"; "AB"] ["ab"; "ab3"; "ab31"] = true
  /\ valid_mapping ["a-b"; "ab"] ["ab"; "ab"] = false
  /\ valid_mapping ["While"; "E"] ["while4"; "e0"] = true /\ valid_mapping ["While"] ["while"] = false
  /\ valid_mapping_old_rule ["While"] ["while"] = true.
Proof. vm_compute. repeat split; reflexivity. Qed.
