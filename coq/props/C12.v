(* C12 — simulation follows the same semantics and laws as the exact analysis.
   Only property theorems, each closed by [exact] and followed by Print Assumptions.

   Model (theories/Simulator.v, SimulatorParse.v): [sim_run] is the Gallina transcription of
   Simulator.simulate/execute + Assignment.evaluate + the random sources as a DETERMINISTIC
   executor driven by a script of random choices; [enum_run] enumerates all scripts with their
   probabilities; [parse_prog] is the parser's desugaring (simultaneous assignment ->
   temporaries _t<k>, if/elif/else -> IfStatem); [Sem.run] is the reference semantics.
   The same [sim_run] is executed against the real simulator, script by script, on every
   `./check C12` (harness/checks/c12.py). *)
From Coq Require Import List String QArith Qcanon ZArith.
From Polar Require Import Qcx Dist Syntax Sem Simulator SimulatorParse SimulatorSamplerBase SimulatorSamplers SimulatorK.
From PolarGen Require Import SimSamplers.
Import ListNotations.
Local Open Scope Qc_scope.

(* ---- 1. the simulator transcription is the reference semantics ---- *)

(* Summed over all scripts of random choices, with their probabilities, the state the
   simulator transcription reaches after n iterations has exactly the law Sem.run:
   for ALL source programs (not using the reserved names _t…, probabilistic choices of
   total weight 1), ALL n, ALL initial states, ALL counters of the temporary supply,
   ALL laws of the continuous families, and every observable that ignores temporaries. *)
Theorem C12_simulator_transcription_is_S :
  forall (law : string -> list Qc -> dist Qc) (p : prog) (k n : nat) (s0 : state) (f : state -> Qc),
    wf_prog law p -> respects f ->
    E (law_of (enum_run (sim_sample law) (parse_prog p k) n s0)) f = E (run law p n s0) f.
Proof. exact simulator_transcription_is_S. Qed.
Print Assumptions C12_simulator_transcription_is_S.

(* "all resolutions of the random choices": the enumeration is exactly the set of scripts on
   which the deterministic executor runs to completion — every enumerated script drives
   [sim_run] to that probability and end state through n+1 recorded states ... *)
Theorem C12_enumeration_sound :
  forall (sampler : rhs -> state -> dist Qc) (p : pprog) (n : nat) (s0 : state) (sc : script) (w : Qc) (s' : state),
    In (sc, (w, s')) (enum_run sampler p n s0) ->
    forall rest, exists tr, sim_run sampler p n s0 (sc ++ rest)%list = Some (w, tr, rest) /\
                            last tr s0 = s' /\ List.length tr = S n.
Proof. exact enum_run_sound. Qed.
Print Assumptions C12_enumeration_sound.

(* ... and no script is missing. *)
Theorem C12_enumeration_complete :
  forall (sampler : rhs -> state -> dist Qc) (p : pprog) (n : nat) (s0 : state) (sc : script) (w : Qc)
         (tr : list state) (rest : script),
    sim_run sampler p n s0 sc = Some (w, tr, rest) ->
    exists pre, sc = (pre ++ rest)%list /\ In (pre, (w, last tr s0)) (enum_run sampler p n s0).
Proof. exact enum_run_complete. Qed.
Print Assumptions C12_enumeration_complete.

(* the enumerated law of every statement / block of the parsed program is, entry by entry,
   its monadic reading (no hypothesis at all) *)
Theorem C12_enumeration_is_monadic :
  forall (sampler : rhs -> state -> dist Qc),
    (forall st s, law_of (enum_stmt sampler st s) = pexec_stmt sampler st s) /\
    (forall b s, law_of (enum_block sampler b s) = pexec_block sampler b s) /\
    (forall bs s, option_map law_of (enum_branches sampler bs s) = pexec_branches sampler bs s).
Proof. exact law_enum. Qed.
Print Assumptions C12_enumeration_is_monadic.

(* for programs given directly in the parsed form (assignments with arbitrary condition and
   default variable, as Assignment.evaluate supports): summed over all scripts the executor
   has the law of the monadic reading [prun] — no hypothesis *)
Theorem C12_parsed_program_law :
  forall (sampler : rhs -> state -> dist Qc) (p : pprog) (n : nat) (s0 : state) (f : state -> Qc),
    E (law_of (enum_run sampler p n s0)) f = E (prun sampler p n s0) f.
Proof. exact enum_run_law. Qed.
Print Assumptions C12_parsed_program_law.

(* first-match: an IfStatem executes exactly the first branch whose condition holds, the
   else branch when none does (and nothing when there is no else branch: PNil) *)
Theorem C12_if_first_match :
  forall (sampler : rhs -> state -> dist Qc) (bs : pbranches) (els : pblock) (s : state) (sc : script),
    sim_stmt sampler (PIf bs els) s sc =
    sim_block sampler (match first_match bs s with Some b => b | None => els end) s sc.
Proof. exact sim_if_first_match. Qed.
Print Assumptions C12_if_first_match.

(* frozen state: once the guard is false on the last state, every later state of the
   simulated run is a copy of it, with probability 1 and without consuming randomness;
   and the reference semantics' iteration is the identity there *)
Theorem C12_state_frozen_once_guard_false :
  forall (sampler : rhs -> state -> dist Qc) (p : pprog) (n : nat) (s : state) (sc : script),
    holds (pp_guard p) s = false -> sim_loop sampler p n s sc = Some (1, repeat s n, sc).
Proof. exact sim_loop_frozen. Qed.
Print Assumptions C12_state_frozen_once_guard_false.

Theorem C12_iter_frozen :
  forall (law : string -> list Qc -> dist Qc) (p : prog) (s : state),
    holds (p_guard p) s = false -> iter law p s = ret s.
Proof. exact iter_frozen. Qed.
Print Assumptions C12_iter_frozen.

(* the first k iterations of a run of k+m iterations are the run of k iterations on the
   same script: state k of ANY longer simulation is the end state of the k-iteration one *)
Theorem C12_prefix_determinism :
  forall (sampler : rhs -> state -> dist Qc) (p : pprog) (k m : nat) (s : state) (sc : script) (w : Qc)
         (tr : list state) (rest : script),
    sim_loop sampler p (k + m) s sc = Some (w, tr, rest) ->
    exists w1 tr1 mid w2 tr2,
      sim_loop sampler p k s sc = Some (w1, tr1, mid) /\
      sim_loop sampler p m (last tr1 s) mid = Some (w2, tr2, rest) /\ w = w1 * w2 /\ tr = (tr1 ++ tr2)%list.
Proof. exact sim_loop_split. Qed.
Print Assumptions C12_prefix_determinism.

(* the hypothesis "total weight 1" holds by construction for the parser's implicit last
   probability  x = e1 {p1} ... em {pm} e   (1-p1-...-pm is appended) *)
Theorem C12_implicit_last_probability_has_unit_mass :
  forall (law : string -> list Qc -> dist Qc) (ps es : list expr) (e : expr) (s : state),
    List.length es = List.length ps ->
    mass (sample law (RChoice ((combine ps es ++ [(implicit_last ps, e)])%list)) s) = 1.
Proof. exact implicit_last_unit_mass. Qed.
Print Assumptions C12_implicit_last_probability_has_unit_mass.

(* random.choices(values, weights): probabilities are the normalised weights; they are the
   weights themselves when these sum to 1 *)
Theorem C12_choice_sampler_law :
  forall d : dist Qc, mass d <> 0 ->
    mass (normalise_w d) = 1 /\ (forall f, E (normalise_w d) f = E d f / mass d) /\
    (mass d = 1 -> normalise_w d = d).
Proof. exact choice_sampler_law. Qed.
Print Assumptions C12_choice_sampler_law.

(* ---- 2. sampler descriptors generated from program/distribution/*.py ---- *)
(* every value a sample method can return lies in get_support(), for ALL parameters *)
Theorem C12_sampler_support_bernoulli : forall sq env envl z,
  desc_std_supp sq env bernoulli_sample z -> in_supp sq env envl bernoulli_support (realise sq env bernoulli_sample z).
Proof. exact bernoulli_sampler_support. Qed.
Print Assumptions C12_sampler_support_bernoulli.

Theorem C12_sampler_support_uniform : forall sq env envl z, env "a"%string <= env "b"%string ->
  desc_std_supp sq env uniform_sample z -> in_supp sq env envl uniform_support (realise sq env uniform_sample z).
Proof. exact uniform_sampler_support. Qed.
Print Assumptions C12_sampler_support_uniform.

Theorem C12_sampler_support_exponential : forall sq env envl z, 0 < env "lamb"%string ->
  desc_std_supp sq env exponential_sample z -> in_supp sq env envl exponential_support (realise sq env exponential_sample z).
Proof. exact exponential_sampler_support. Qed.
Print Assumptions C12_sampler_support_exponential.

Theorem C12_sampler_support_gamma : forall sq env envl z, 0 < env "theta"%string ->
  desc_std_supp sq env gamma_sample z -> in_supp sq env envl gamma_support (realise sq env gamma_sample z).
Proof. exact gamma_sampler_support. Qed.
Print Assumptions C12_sampler_support_gamma.

Theorem C12_sampler_support_beta : forall sq env envl z, 0 <= env "scale"%string ->
  desc_std_supp sq env beta_sample z -> in_supp sq env envl beta_support (realise sq env beta_sample z).
Proof. exact beta_sampler_support. Qed.
Print Assumptions C12_sampler_support_beta.

Theorem C12_sampler_support_normal : forall sq env envl z,
  desc_std_supp sq env normal_sample z -> in_supp sq env envl normal_support (realise sq env normal_sample z).
Proof. exact normal_sampler_support. Qed.
Print Assumptions C12_sampler_support_normal.

Theorem C12_sampler_support_laplace : forall sq env envl z,
  desc_std_supp sq env laplace_sample z -> in_supp sq env envl laplace_support (realise sq env laplace_sample z).
Proof. exact laplace_sampler_support. Qed.
Print Assumptions C12_sampler_support_laplace.

Theorem C12_sampler_support_categorical : forall sq env envl w v,
  In (w, v) (desc_law envl categorical_sample) -> in_supp sq env envl categorical_support v.
Proof. exact categorical_sampler_support. Qed.
Print Assumptions C12_sampler_support_categorical.

Theorem C12_sampler_law_categorical : forall envl,
  mass (cat_law (envl "probabilities"%string) 0) = 1 ->
  desc_law envl categorical_sample = cat_law (envl "probabilities"%string) 0.
Proof. exact categorical_sampler_law. Qed.
Print Assumptions C12_sampler_law_categorical.

Theorem C12_sampler_support_discreteuniform : forall sq env envl w v,
  In (w, v) (desc_law envl discreteuniform_sample) -> in_supp sq env envl discreteuniform_support v.
Proof. exact discreteuniform_sampler_support. Qed.
Print Assumptions C12_sampler_support_discreteuniform.

(* sample parameters are interpreted identically: mean and variance of the sampled law are
   those of the family in Polar's parameterisation, for ALL parameters *)
Theorem C12_sampler_params_bernoulli : forall sq env,
  sampler_mean_var sq env bernoulli_sample = Some (polar_mean_var "bernoulli" env).
Proof. exact bernoulli_sampler_params. Qed.
Print Assumptions C12_sampler_params_bernoulli.

Theorem C12_sampler_params_uniform : forall sq env,
  sampler_mean_var sq env uniform_sample = Some (polar_mean_var "uniform" env).
Proof. exact uniform_sampler_params. Qed.
Print Assumptions C12_sampler_params_uniform.

Theorem C12_sampler_params_exponential : forall sq env, env "lamb"%string <> 0 ->
  sampler_mean_var sq env exponential_sample = Some (polar_mean_var "exponential" env).
Proof. exact exponential_sampler_params. Qed.
Print Assumptions C12_sampler_params_exponential.

Theorem C12_sampler_params_gamma : forall sq env,
  sampler_mean_var sq env gamma_sample = Some (polar_mean_var "gamma" env).
Proof. exact gamma_sampler_params. Qed.
Print Assumptions C12_sampler_params_gamma.

Theorem C12_sampler_params_beta : forall sq env,
  env "a"%string + env "b"%string <> 0 -> env "a"%string + env "b"%string + 1 <> 0 ->
  sampler_mean_var sq env beta_sample = Some (polar_mean_var "beta" env).
Proof. exact beta_sampler_params. Qed.
Print Assumptions C12_sampler_params_beta.

Theorem C12_sampler_params_normal : forall sq env,
  sq (env "sigma2"%string) * sq (env "sigma2"%string) = env "sigma2"%string ->
  sampler_mean_var sq env normal_sample = Some (polar_mean_var "normal" env).
Proof. exact normal_sampler_params. Qed.
Print Assumptions C12_sampler_params_normal.

Theorem C12_sampler_params_laplace : forall sq env,
  sampler_mean_var sq env laplace_sample = Some (polar_mean_var "laplace" env).
Proof. exact laplace_sampler_params. Qed.
Print Assumptions C12_sampler_params_laplace.

(* TruncNormal.sample (repaired in /repo 5c6c4c3: standardised bounds): samples lie in get_support() = [a, b] *)
Theorem C12_sampler_support_truncnormal : forall sq env envl z, 0 < sq (env "sigma2"%string) ->
  desc_std_supp sq env truncnormal_sample z -> in_supp sq env envl truncnormal_support (realise sq env truncnormal_sample z).
Proof. exact truncnormal_sampler_support. Qed.
Print Assumptions C12_sampler_support_truncnormal.

(* the rule before the repair (hand-written descriptor truncnorm.rvs(a, b, loc=mu, scale=sigma), scipy expects the
   standardised bounds): samples leave [a, b] — kept so that a return of the defect has a named theorem *)
Theorem C12_truncnormal_sampler_old_rule_refuted :
  exists (sq : Qc -> Qc) (env : string -> Qc) (envl : string -> list Qc) (z : Qc),
    sq (env "sigma2"%string) * sq (env "sigma2"%string) = env "sigma2"%string /\
    env "a"%string < env "b"%string /\
    desc_std_supp sq env truncnormal_sample_old z /\
    ~ in_supp sq env envl truncnormal_support (realise sq env truncnormal_sample_old z).
Proof. exact truncnormal_sampler_old_rule_refuted. Qed.
Print Assumptions C12_truncnormal_sampler_old_rule_refuted.

(* the arithmetic behind the repair: standardised bounds keep the sample in [a, b] *)
Theorem C12_truncnormal_standardised_ok :
  forall mu sigma a b z : Qc, 0 < sigma ->
    (a - mu) / sigma <= z -> z <= (b - mu) / sigma -> a <= mu + sigma * z /\ mu + sigma * z <= b.
Proof. exact truncnormal_standardised_ok. Qed.
Print Assumptions C12_truncnormal_standardised_ok.

(* ---- non-vacuity ---- *)
Open Scope string_scope.
(* x = 0; c = 1; while c == 1: x, c = x + c, c {1/2} 0   — a simultaneous assignment with a choice *)
Definition ex_prog : prog :=
  {| p_init := BCons (SAssign "x" (RDet (EConst (mkq 0 1)))) (BCons (SAssign "c" (RDet (EConst (mkq 1 1)))) BNil);
     p_guard := CAtom (EVar "c") Ceq (EConst (mkq 1 1));
     p_body := BCons (SSimult [("x", RDet (EAdd (EVar "x") (EVar "c")));
                               ("c", RChoice [(EConst (mkq 1 2), EVar "c"); (ESub (EConst (mkq 1 1)) (EConst (mkq 1 2)), EConst (mkq 0 1))])]) BNil |}.

(* the hypotheses of the main theorem are satisfiable: ex_prog is well-formed *)
Example C12_nonvacuous_wf : wf_prog no_law ex_prog.
Proof.
  unfold wf_prog, ex_prog. cbn [p_init p_guard p_body wf_block wf_stmt cond_notmp expr_notmp].
  repeat split; try reflexivity; try (intros s; apply det_unit_mass);
    repeat constructor; try reflexivity; try (intros s; apply det_unit_mass).
  intros s. unfold mass. cbn [sample map fst snd E eval ESub ENeg]. change (mkq 1 2) with (/ (1 + 1)).
  change (mkq 1 1) with 1. change (mkq (-1) 1) with (- (1)). field. discriminate.
Qed.

(* the enumeration at n = 2 has 3 scripts: total probability 1 and E[x] = 3/2 on both sides *)
Example C12_nonvacuous_run :
  (k_enum ex_prog 2 = [3%Z; 1%Z; 1%Z]) /\
  E (law_of (enum_run (sim_sample no_law) (parse_prog ex_prog 0) 2 st0)) (fun s => s "x") = mkq 3 2 /\
  E (run no_law ex_prog 2 st0) (fun s => s "x") = mkq 3 2.
Proof. vm_compute. repeat split; reflexivity. Qed.

(* the executor on one script: init consumes 2 entries (deterministic random.choices calls),
   each iteration 4 (two temporaries, two copies); second iteration frozen after c = 0 *)
Example C12_nonvacuous_script :
  k_script ex_prog 2 ["x"; "c"] [0; 0; 0; 1; 0; 0]%nat =
  [1; 0; 1; 2;  0; 1; 1; 1;  1; 1; 0; 1;  1; 1; 0; 1]%Z.
Proof. vm_compute. reflexivity. Qed.

(* the reading of ">=" shared by conditions (evaluate_cop) and the analysis: equality included.
   (`--simulate` decided tail-bound goals P(X >= c) as False at X = c before /repo f308946; c12.py re-checks it) *)
Theorem C12_ge_includes_equality : forall x : Qc, cop_holds Cge x x = true /\ cop_holds Cle x x = true.
Proof. exact cop_refl. Qed.
Print Assumptions C12_ge_includes_equality.
