(* C11 — Central moments, cumulants, tail bounds and expansions match the exact law.
   Only property theorems, each closed by [exact] and followed by Print Assumptions.

   The definitions raw_moments_to_centrals[_with], raw_moments_to_cumulants[_with], comb,
   get_all_moments, tail_bound_upper, tail_bound_lower are GENERATED (gen/StatsGen.v) from
   /repo/utils/statistics.py, /repo/cli/common.py and /repo/cli/actions/goals_action.py on
   every run.  `_with cmb` is the translated function with the callee bound to the name
   `comb` abstracted; raw_moments_to_X = raw_moments_to_X_with comb.

   A finite law is a list of (weight, value) over Qc, Ex L f = sum w * f v;
   raw L k = E[X^k], central L i = E[(X - E X)^i], Pge L a = P(X >= a), Pgt L a = P(X > a);
   moments_of L K d : the dict d has K entries and d[k] = raw L k for k = 1..K. *)
From Coq Require Import List ZArith QArith Qcanon Lia Arith Bool.
From Polar Require Import Qcx Stats StatsFps.
From PolarGen Require Import StatsGen.
From Polar Require Import StatsThm StatsHermite.
Import ListNotations.
Local Open Scope Qc_scope.

(* ===== comb ========================================================================== *)

(* the translated comb (n! // (k! (n-k)!), integer floor division) is the binomial coefficient,
   for ALL n, k.  (Before /repo commit 2370b33 comb went through a float and was wrong from
   (57,25); that version was refuted here and is re-detected by the check if it returns.) *)
Theorem C11_comb_spec : forall n k : nat, comb n k = binom n k.
Proof. exact comb_spec_lemma. Qed.
Print Assumptions C11_comb_spec.

(* ===== central moments =============================================================== *)

(* for all laws of total mass 1 (weights may even be signed), all K, all orders 1 <= i <= K:
   the translated conversion with the true binomial yields E[(X - mu)^i] *)
Theorem C11_centrals_exact :
  forall (L : law) (K : nat) (d : pydict) (i : nat),
    mass L = 1 -> moments_of L K d -> (1 <= i <= K)%nat ->
    dget (raw_moments_to_centrals_with binom d) i = central L i.
Proof. exact centrals_exact. Qed.
Print Assumptions C11_centrals_exact.

(* the same for the function as Polar runs it (its own comb), every K *)
Theorem C11_centrals_exact_polar :
  forall (L : law) (K : nat) (d : pydict) (i : nat),
    mass L = 1 -> moments_of L K d -> (1 <= i <= K)%nat ->
    dget (raw_moments_to_centrals d) i = central L i.
Proof. exact centrals_exact_polar. Qed.
Print Assumptions C11_centrals_exact_polar.

(* centrals[1] is 0, the first central moment (before /repo commit 437ee40 it was the mean) *)
Theorem C11_central1_is_zero :
  forall (cmb : nat -> nat -> Z) (d : pydict), dget (raw_moments_to_centrals_with cmb d) 1 = 0.
Proof. exact centrals_key1. Qed.
Print Assumptions C11_central1_is_zero.
Theorem C11_central1_should_be_zero : forall L : law, mass L = 1 -> central L 1 = 0.
Proof. exact central_1_zero. Qed.
Print Assumptions C11_central1_should_be_zero.

(* ===== cumulants ===================================================================== *)

(* RESTATEMENT LEVEL: what the translated loop computes, as an equation *)
Theorem C11_cumulants_recursion_restatement :
  forall (cmb : nat -> nat -> Z) (d : pydict) (i : nat),
    (1 <= i <= dlen d)%nat ->
    let kap := raw_moments_to_cumulants_with cmb d in
    dget kap i = dget d i - bigsum (pyrange 1 i)
                   (fun k => zq (cmb (i - 1)%nat (k - 1)%nat) * dget kap k * dget d (i - k)%nat).
Proof. exact cumulants_recursion. Qed.
Print Assumptions C11_cumulants_recursion_restatement.

(* FULL STRENGTH, all orders: the translated cumulants are i! [t^i] log (sum_k E[X^k] t^k / k!)
   (cumulant_log is defined from the log series -sum_j (1 - M)^j / j in StatsFps.v, with
   Cauchy products of coefficient sequences; independent of the recursion) *)
Theorem C11_cumulants_are_log_coefficients :
  forall (L : law) (K : nat) (d : pydict) (i : nat),
    mass L = 1 -> moments_of L K d -> (1 <= i <= K)%nat ->
    dget (raw_moments_to_cumulants_with binom d) i = cumulant_log (raw L) i.
Proof. intros L K d i. exact (cumulants_are_log_coefficients binom L K d i (fun _ _ _ => eq_refl)). Qed.
Print Assumptions C11_cumulants_are_log_coefficients.

(* the same for the function as Polar runs it (its own comb), every K *)
Theorem C11_cumulants_polar :
  forall (L : law) (K : nat) (d : pydict) (i : nat),
    mass L = 1 -> moments_of L K d -> (1 <= i <= K)%nat ->
    dget (raw_moments_to_cumulants d) i = cumulant_log (raw L) i.
Proof. exact cumulants_polar. Qed.
Print Assumptions C11_cumulants_polar.

(* all orders: additivity over independent sums, shift invariance, homogeneity *)
Theorem C11_cumulants_additive :
  forall (L1 L2 : law) (K : nat) (d1 d2 d12 : pydict) (i : nat),
    mass L1 = 1 -> mass L2 = 1 ->
    moments_of L1 K d1 -> moments_of L2 K d2 -> moments_of (indep_sum L1 L2) K d12 ->
    (1 <= i <= K)%nat ->
    dget (raw_moments_to_cumulants_with binom d12) i
    = dget (raw_moments_to_cumulants_with binom d1) i + dget (raw_moments_to_cumulants_with binom d2) i.
Proof. intros L1 L2 K d1 d2 d12 i. exact (cumulants_additive binom L1 L2 K d1 d2 d12 i (fun _ _ _ => eq_refl)). Qed.
Print Assumptions C11_cumulants_additive.

Theorem C11_cumulants_shift :
  forall (L : law) (c : Qc) (K : nat) (d d' : pydict) (i : nat),
    mass L = 1 -> moments_of L K d -> moments_of (shift_law c L) K d' -> (1 <= i <= K)%nat ->
    dget (raw_moments_to_cumulants_with binom d') i
    = dget (raw_moments_to_cumulants_with binom d) i + (if Nat.eqb i 1 then c else 0).
Proof. intros L c K d d' i. exact (cumulants_shift binom L c K d d' i (fun _ _ _ => eq_refl)). Qed.
Print Assumptions C11_cumulants_shift.

Theorem C11_cumulants_scale :
  forall (L : law) (c : Qc) (K : nat) (d d' : pydict) (i : nat),
    mass L = 1 -> moments_of L K d -> moments_of (scale_law c L) K d' -> (1 <= i <= K)%nat ->
    dget (raw_moments_to_cumulants_with binom d') i = qpow c i * dget (raw_moments_to_cumulants_with binom d) i.
Proof. intros L c K d d' i. exact (cumulants_scale binom L c K d d' i (fun _ _ _ => eq_refl)). Qed.
Print Assumptions C11_cumulants_scale.

(* ===== tail bounds =================================================================== *)

(* the dict handed to the bound code: get_all_moments yields the raw moments 1..K *)
Theorem C11_get_all_moments_spec :
  forall (L : law) (ex : nat -> bool) (K : nat), moments_of L K (fst (get_all_moments (raw L) ex K)).
Proof. exact get_all_moments_spec. Qed.
Print Assumptions C11_get_all_moments_spec.

(* the printed list: entry with label j (position j-1) is E[X^j] / a^j *)
Theorem C11_tail_bound_upper_listing :
  forall (a : Qc) (mp : nat -> Qc) (ex : nat -> bool) (K : nat),
    tail_bound_upper a (fst (get_all_moments mp ex K)) = map (fun k => mp k / qpow a k) (pyrange 1 (K + 1)).
Proof. exact tail_bound_upper_listing. Qed.
Print Assumptions C11_tail_bound_upper_listing.

(* Markov: for every finite law with non-negative weights and X >= 0 (mass 1 not even needed),
   every a > 0, every number K of moments: every listed bound is >= P(X >= a) *)
Theorem C11_markov_bound :
  forall (L : law) (a : Qc) (ex : nat -> bool) (K : nat),
    nonneg_weights L -> support_ge L 0 -> 0 < a ->
    Forall (fun b => Pge L a <= b) (tail_bound_upper a (fst (get_all_moments (raw L) ex K))).
Proof. exact markov_bounds_valid. Qed.
Print Assumptions C11_markov_bound.

Theorem C11_markov_bound_any_dict :
  forall (L : law) (a : Qc) (d : pydict),
    nonneg_weights L -> support_ge L 0 -> 0 < a ->
    (forall k m, In (k, m) d -> m = raw L k) ->
    Forall (fun b => Pge L a <= b) (tail_bound_upper a d).
Proof. exact markov_bounds_valid_dict. Qed.
Print Assumptions C11_markov_bound_any_dict.

(* second-moment (Cauchy-Schwarz / Paley-Zygmund at 0) lower bound, under the printed
   assumption "X - a is non-negative":  (E X - a)^2 / (E X^2 - 2 a E X + a^2) <= P(X > a).
   (If E (X-a)^2 = 0 the Qc quotient is 0 and the statement still holds; Python raises
   ZeroDivisionError / prints nan there.) *)
Theorem C11_second_moment_lower_bound :
  forall (L : law) (a : Qc) (K : nat) (d : pydict),
    is_prob L -> support_ge L a -> moments_of L K d -> (2 <= K)%nat ->
    tail_bound_lower a d <= Pgt L a.
Proof. exact second_moment_bound_valid. Qed.
Print Assumptions C11_second_moment_lower_bound.

Theorem C11_second_moment_lower_bound_polar :
  forall (L : law) (a : Qc) (ex : nat -> bool),
    is_prob L -> support_ge L a ->
    tail_bound_lower a (fst (get_all_moments (raw L) ex tail_bound_lower_order)) <= Pgt L a.
Proof. exact second_moment_bound_polar. Qed.
Print Assumptions C11_second_moment_lower_bound_polar.

(* ===== expansions (algebraic part; see StatsHermite.v) =============================== *)

(* Gaussian moment functional G[z^k] = (k-1)!! / 0 on polynomials (coefficient lists);
   He_n by the three-term recurrence.  For ALL n and all polynomials q of degree < n:
   G[He_n * q] = 0; and G[He_n * He_n] = n!. *)
Theorem C11_hermite_orthogonal_low :
  forall (n : nat) (q : list Qc), (length q <= n)%nat -> gauss (pmul (hermite n) q) = 0.
Proof. exact hermite_orth_low. Qed.
Print Assumptions C11_hermite_orthogonal_low.

Theorem C11_hermite_norm : forall n : nat, gauss (pmul (hermite n) (hermite n)) = factq n.
Proof. exact hermite_norm. Qed.
Print Assumptions C11_hermite_norm.

Theorem C11_hermite_orthogonal : forall i j : nat, i <> j -> gauss (pmul (hermite i) (hermite j)) = 0.
Proof. exact hermite_orthogonal. Qed.
Print Assumptions C11_hermite_orthogonal.

(* Gram-Charlier shape  phi(z) * (1 + sum_{i=3..K} c_i He_i(z)) : for every coefficient
   vector c (in particular Polar's Bell-polynomial coefficients, any cumulants) the density
   integrates to 1, has standardized mean 0 and variance 1, and E[He_j] = j! c_j.
   PARTIAL w.r.t. the property: "reproduces the first k raw moments" additionally needs
   c_j = B_j(0,0,k3..kj)/(j! sigma^j) = E[He_j(Z)]/j!  (only validated, harness) *)
Theorem C11_gram_charlier_partial :
  forall (c : nat -> Qc) (K : nat),
    let f := gc_poly c K in
    gauss f = 1 /\ gauss (pmul [0; 1] f) = 0 /\ gauss (pmul [0; 0; 1] f) = 1 /\
    forall j, (3 <= j <= K)%nat -> gauss (pmul (hermite j) f) = factq j * c j.
Proof. exact gram_charlier_shape. Qed.
Print Assumptions C11_gram_charlier_partial.

(* ===== non-vacuity =================================================================== *)

(* X in {0, 1, 4} with probabilities 1/2, 1/3, 1/6 *)
Definition L3 : law := [(mkq 1 2, mkq 0 1); (mkq 1 3, mkq 1 1); (mkq 1 6, mkq 4 1)].
Definition zp (n : Z) (d : positive) : Z * positive := (n, d).
Definition d3 (K : nat) : pydict := fst (get_all_moments (raw L3) (fun _ => true) K).

Example C11_nonvacuous_law : Qc_eqb (mass L3) 1 = true /\ forallb (fun p => Qc_leb 0 (fst p) && Qc_leb 0 (snd p)) L3 = true.
Proof. split; vm_compute; reflexivity. Qed.

(* raw moments 1, 3, 11, 43; centrals 0, 2, 4, 14 ; cumulants 1, 2, 4, 2 *)
Example C11_nonvacuous_conversions :
  map qpair (map (dget (d3 4)) [1; 2; 3; 4]%nat) = [zp (1) 1; zp (3) 1; zp (11) 1; zp (43) 1]
  /\ map qpair (map (dget (raw_moments_to_centrals (d3 4))) [1; 2; 3; 4]%nat) = [zp (0) 1; zp (2) 1; zp (4) 1; zp (14) 1]
  /\ map qpair (map (central L3) [2; 3; 4]%nat) = [zp (2) 1; zp (4) 1; zp (14) 1]
  /\ map qpair (map (dget (raw_moments_to_cumulants (d3 4))) [1; 2; 3; 4]%nat) = [zp (1) 1; zp (2) 1; zp (4) 1; zp (2) 1]
  /\ map qpair (map (cumulant_log (raw L3)) [1; 2; 3; 4]%nat) = [zp (1) 1; zp (2) 1; zp (4) 1; zp (2) 1].
Proof. repeat split; vm_compute; reflexivity. Qed.

(* P(X >= 2) = 1/6 <= 1/2, 3/4, 11/8 ;  with a = -1:  P(X > -1) = 1 >= (1+1)^2/(3+2+1) = 2/3 *)
Example C11_nonvacuous_bounds :
  qpair (Pge L3 (mkq 2 1)) = (1%Z, 6%positive)
  /\ map qpair (tail_bound_upper (mkq 2 1) (d3 3)) = [zp (1) 2; zp (3) 4; zp (11) 8]
  /\ forallb (fun p => Qc_leb (mkq (-1) 1) (snd p)) L3 = true
  /\ qpair (tail_bound_lower (mkq (-1) 1) (d3 2)) = (2%Z, 3%positive)
  /\ qpair (Pgt L3 (mkq (-1) 1)) = (1%Z, 1%positive)
  (* a sharp instance: X - 1/2 >= 0 fails, so take a = 0: (E X)^2 / E X^2 = 1/3 <= P(X > 0) = 1/2 *)
  /\ qpair (tail_bound_lower 0 (d3 2)) = (1%Z, 3%positive)
  /\ qpair (Pgt L3 0) = (1%Z, 2%positive).
Proof. repeat split; vm_compute; reflexivity. Qed.

(* He_4 = z^4 - 6 z^2 + 3 ; G[He_3 * z^2] = 0 ; G[He_3 * He_3] = 6 *)
Example C11_nonvacuous_hermite :
  map qpair (hermite 4) = [zp (3) 1; zp (0) 1; zp (-6) 1; zp (0) 1; zp (1) 1]
  /\ qpair (gauss (pmul (hermite 3) [0; 0; 1])) = (0%Z, 1%positive)
  /\ qpair (gauss (pmul (hermite 3) (hermite 3))) = (6%Z, 1%positive).
Proof. repeat split; vm_compute; reflexivity. Qed.
