#!/bin/bash
# ./mk <target.vo> : build one Coq target through the locked make, show errors only
cd /verif && PYTHONPATH=/verif/harness /venv/bin/python -c "
import sys, lib
ok,log=lib.coq_make(sys.argv[1:]); print('OK' if ok else 'FAIL'); print('\n'.join(l for l in log.splitlines() if 'Warning' not in l and not l.startswith('COQ'))[-2500:])" "$@" 2>&1 | grep -v 'WARNING conda'
