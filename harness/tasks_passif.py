"""Worker task of harness/pass_if.py: run the real Polar up to and including IfTransformer on a
program text and dump the program before and after that pass.  Unlike task_analyze the later
passes are not needed (they refuse some nested shapes), so shapes such as inner if-statements
that reassign their own condition variables stay observable."""
import tasks_core


def task_passif(task):
    opts = task.get("opts", {})
    tasks_core.reset_settings(opts)
    from inputparser import Parser
    from utils import identifiers
    import program.transformer as T
    if task.get("fresh_counter"):
        identifiers._count_unique_var = 0  # the state of a fresh process (command-line run)
    res = {"counter_before": getattr(identifiers, "_count_unique_var", None)}
    try:
        program = Parser().parse_string(task["text"])
    except BaseException as e:  # noqa
        res["stage"] = "parse"
        res["exception"] = tasks_core.classify_exception(e)
        return res
    snaps = []
    res["snapshots"] = snaps
    try:
        for cls in (T.LoopGuardTransformer, T.DistTransformer, T.IfTransformer):
            if cls is T.IfTransformer:
                res["counter_at_pass"] = getattr(identifiers, "_count_unique_var", None)
            program = cls().execute(program)
            try:
                snaps.append([cls.__name__, tasks_core.dump_program(program)])
            except tasks_core.Unsupported as u:
                snaps.append([cls.__name__, {"unsupported": str(u)}])
        res["counter_after"] = getattr(identifiers, "_count_unique_var", None)
        res["text_after"] = str(program)
    except BaseException as e:  # noqa
        res["stage"] = "normalize"
        res["exception"] = tasks_core.classify_exception(e)
    return res
