"""C08 worker tasks: run the REAL distribution classes of /repo (Polar worker process)."""
import signal
from fractions import Fraction

import sympy as sp


def _frac(x):
    """exact rational string of a symengine/sympy number, or raise"""
    r = sp.sympify(x)
    for f in (lambda e: e, sp.together, sp.simplify):
        r2 = f(r)
        if r2.is_Rational:
            return f"{r2.p}/{r2.q}"
    raise ValueError(f"not a rational number: {x}")


def _endpoint(x):
    x = sp.sympify(x)
    if x == sp.oo:
        return "oo"
    if x == -sp.oo:
        return "-oo"
    return _frac(x)


def _make(family, params):
    from program.distribution import distribution_factory
    from symengine import sympify as S
    return distribution_factory(family, [S(p) for p in params])


def _support(d):
    out = []
    for it in d.get_support():
        if isinstance(it, tuple):
            if len(it) != 2:
                raise ValueError("support tuple of length != 2")
            out.append(["iv", _endpoint(it[0]), _endpoint(it[1])])
        else:
            out.append(["pt", _frac(it)])
    return sorted(out)


def task_dist_eval(task):
    """fresh object per call; moments for ks, support, discreteness, mgf_exists_at on ts"""
    d = _make(task["family"], task["params"])
    res = {"str": str(d), "moments": {}, "mgf_exists": {}}
    for k in task.get("ks", []):
        try:
            res["moments"][str(k)] = _frac(d.get_moment(k))
        except Exception as e:  # noqa
            res["moments"][str(k)] = {"error": type(e).__name__, "msg": str(e)[:200]}
    try:
        res["support"] = _support(d)
    except Exception as e:  # noqa
        res["support"] = {"error": type(e).__name__, "msg": str(e)[:200]}
    res["is_discrete"] = d.is_discrete()
    if not isinstance(res["is_discrete"], bool):
        res["is_discrete"] = {"error": "not a bool", "msg": repr(res["is_discrete"])}
    from symengine import sympify as S
    for t in task.get("ts", []):
        try:
            v = d.mgf_exists_at(S(t))
            res["mgf_exists"][t] = v if isinstance(v, bool) else {"error": "not a bool", "msg": repr(v)}
        except NotImplementedError:
            res["mgf_exists"][t] = "NotImplemented"
        except Exception as e:  # noqa
            res["mgf_exists"][t] = {"error": type(e).__name__, "msg": str(e)[:200]}
    # parameters as stored (float literals must have become exact decimals)
    res["stored"] = {}
    for a, v in vars(d).items():
        try:
            if isinstance(v, list):
                res["stored"][a] = [_frac(x) for x in v]
            else:
                res["stored"][a] = _frac(v)
        except Exception:  # noqa
            res["stored"][a] = str(v)
    return res


class _TO(Exception):
    pass


def _alarm(*_a):
    raise _TO()


def _generic_branch(e, t):
    e = sp.piecewise_fold(e)
    if isinstance(e, sp.Piecewise):
        for ex, c in e.args:
            if c == True or c.has(sp.Ne) or not c.has(sp.Eq):  # noqa: E712
                return ex
    return e


def task_dist_transform(task):
    """VALIDATION: Taylor coefficients at 0 of cf / mgf (sympy series of the expression
    Polar builds) against get_moment(k), k <= kmax.  Per (which, k): ok | ok-numeric |
    mismatch | inconclusive."""
    d = _make(task["family"], task["params"])
    kmax = task["kmax"]
    t = sp.Symbol("t")
    tol = task.get("tol")      # relative tolerance for float-valued moments (TruncNormal)
    out = {}
    signal.signal(signal.SIGALRM, _alarm)
    moms = {}
    for k in range(kmax + 1):
        moms[k] = sp.sympify(d.get_moment(k))
    for which in ("mgf", "cf"):
        res = {}
        signal.alarm(int(task.get("budget", 40)))
        try:
            try:
                e = getattr(d, which)(t)
            except NotImplementedError:
                out[which] = "NotImplemented"
                signal.alarm(0)
                continue
            e = _generic_branch(sp.sympify(e), t)
            ser = sp.expand(sp.series(e, t, 0, kmax + 1).removeO())
            for k in range(kmax + 1):
                v = ser.coeff(t, k) * sp.factorial(k)
                if which == "cf":
                    v = v / sp.I ** k
                m = moms[k]
                diff = sp.simplify((v - m).rewrite(sp.gamma))
                if diff == 0:
                    res[str(k)] = "ok"
                    continue
                if diff.is_Rational and tol is None:
                    res[str(k)] = {"status": "mismatch", "transform_value": str(sp.simplify(v.rewrite(sp.gamma))), "moment": str(m)}
                    continue
                num = complex(sp.N(diff, 40))
                scale = max(1.0, abs(complex(sp.N(m, 20))))
                lim = (tol if tol is not None else 1e-30) * scale
                if abs(num) <= lim:
                    res[str(k)] = "ok-numeric"
                else:
                    res[str(k)] = {"status": "mismatch", "transform_value": str(sp.N(v, 20)), "moment": str(m)}
        except _TO:
            res["status"] = "inconclusive: sympy did not finish within the budget"
        except Exception as ex:  # noqa
            res["status"] = f"inconclusive: {type(ex).__name__} {str(ex)[:120]}"
        finally:
            signal.alarm(0)
        out[which] = res
    return out


def task_dist_stale(task):
    """get_moment is @lru_cache()d per (object, k) while subs() mutates the object:
    moment before subs, after subs on the same object, and on a fresh object."""
    from symengine import Symbol, sympify as S
    d = _make(task["family"], task["sym_params"])
    k = task["k"]
    before = str(d.get_moment(k))
    d.subs({Symbol(a): S(b) for a, b in task["subs"].items()})
    after = d.get_moment(k)
    fresh = _make(task["family"], task["num_params"]).get_moment(k)
    r = {"before": before, "after": str(after), "fresh": str(fresh), "object": str(d)}
    try:
        r["equal"] = sp.simplify(sp.sympify(after) - sp.sympify(fresh)) == 0
    except Exception as e:  # noqa
        r["equal"] = False
        r["error"] = str(e)[:200]
    return r


def task_dist_locscale(task):
    """run the real DistTransformer on  v = F(params with a symbol)  and return the new
    draw's parameters and the coefficients of the new assignment in the fresh variable,
    with the symbols substituted by the given numbers"""
    from symengine import Symbol, sympify as S
    from program.assignment import DistAssignment, PolyAssignment
    from program.transformer.dist_transformer import DistTransformer
    d = _make(task["family"], task["sym_params"])
    da = DistAssignment(Symbol("v"), d)
    r = DistTransformer().transform(da)
    if not isinstance(r, tuple):
        return {"unchanged": True}
    nd, na = r
    if not isinstance(nd, DistAssignment) or not isinstance(na, PolyAssignment) or len(na.polynomials) != 1:
        return {"error": "shape", "msg": f"{nd} ; {na}"}
    subs = {sp.Symbol(a): sp.Rational(b) for a, b in task["subs"].items()}
    z = sp.Symbol(str(nd.variable))
    poly = sp.expand(sp.sympify(na.polynomials[0]).subs(subs))
    p = sp.Poly(poly, z)
    if p.degree() > 1:
        return {"error": "degree", "msg": str(poly)}
    c1 = p.coeff_monomial(z)
    c0 = p.coeff_monomial(1)
    newp = []
    for a, v in vars(nd.distribution).items():
        newp.append([a, _frac(sp.sympify(v).subs(subs))])
    return {"new_family": type(nd.distribution).__name__, "new_params": newp, "c0": _frac(c0),
            "c1_sq": _frac(sp.simplify(c1 ** 2)), "c1_rational": bool(sp.simplify(c1).is_Rational),
            "c1_sign": int(sp.sign(c1)), "target": str(na.variable), "text": f"{nd} ; {na}"}


def task_dist_truncnormal(task):
    """VALIDATION: TruncNormal.get_moment(k) (float erf) against mpmath quadrature of
    x^k phi((x-mu)/s) / (s (Phi(beta) - Phi(alpha)))"""
    import mpmath
    mpmath.mp.dps = 30
    d = _make("TruncNormal", task["params"])
    mu, s2, a, b = [mpmath.mpf(Fraction(p).numerator) / Fraction(p).denominator for p in task["params"]]
    s = mpmath.sqrt(s2)
    Z = mpmath.ncdf((b - mu) / s) - mpmath.ncdf((a - mu) / s)
    out = {}
    for k in task["ks"]:
        got = sp.sympify(d.get_moment(k))
        true = mpmath.quad(lambda x: x ** k * mpmath.npdf((x - mu) / s) / (s * Z), [a, mu, b] if a < mu < b else [a, b])
        err = abs(mpmath.mpf(got.p) / got.q - true)
        out[str(k)] = {"got": str(got), "true": mpmath.nstr(true, 20), "abs_err": float(err)}
    # VALIDATION of the transforms at points t != 0 (real for mgf, also for cf): value of the real mgf(t) / cf(t)
    # against quadrature of exp(t x) pdf(x) / exp(i t x) pdf(x)
    pts = [a, mu, b] if a < mu < b else [a, b]
    for t in task.get("ts", []):
        tt = mpmath.mpf(Fraction(t).numerator) / Fraction(t).denominator
        for which in ("mgf", "cf"):
            try:
                ex = sp.sympify(getattr(d, which)(sp.Rational(Fraction(t).numerator, Fraction(t).denominator)))
                got = complex(sp.N(ex, 30))
            except BaseException as e:  # noqa
                out[f"{which}@{t}"] = {"error": f"{type(e).__name__}: {str(e)[:120]}"}
                continue
            if which == "mgf":
                true = mpmath.quad(lambda x: mpmath.exp(tt * x) * mpmath.npdf((x - mu) / s) / (s * Z), pts)
            else:
                true = mpmath.quad(lambda x: mpmath.exp(1j * tt * x) * mpmath.npdf((x - mu) / s) / (s * Z), pts)
            out[f"{which}@{t}"] = {"got": repr(got), "true": mpmath.nstr(true, 20), "abs_err": float(abs(mpmath.mpc(got) - true))}
    return out
