"""Polar-side tasks for C15 (run inside harness/worker.py, which imports the REAL Polar):
  task_bif      : BIF text -> BifParser (accept/reject, network dump) -> CodeGenerator text for
                  each requested query -> Polar's own Parser -> structural dump of the program
  task_bifquery : the real cli BayesNetworkAction (--exact_inference / --sample_time_until),
                  printed output captured
Nothing here decides anything: values are dumped in canonical, exact form for the harness."""
import contextlib
import io
import os
import tempfile
import traceback


def _exc(e):
    return {"etype": type(e).__name__, "module": type(e).__module__, "msg": str(e)[:400]}


def _dump_network(net):
    out = []
    for name, v in net.variables.items():
        cpt = None
        if v.cpt is not None:
            cpt = [[list(k), [repr(float(p)) for p in row]] for k, row in v.cpt.items()]
        out.append({
            "name": name,
            "vname": v.name,
            "domain": list(v.domain),
            "parents": [p.name for p in v.parents] if v.parents is not None else None,
            "cpt": cpt,
        })
    return out


def _flatten_and(cond, out):
    from program.condition import And, Atom
    if isinstance(cond, And):
        _flatten_and(cond.cond1, out)
        _flatten_and(cond.cond2, out)
    elif isinstance(cond, Atom):
        out.append(["atom", str(cond.poly1), str(cond.cop), str(cond.poly2)])
    else:
        out.append(["other", type(cond).__name__, str(cond)])


def _dump_assign(a):
    from program.assignment import PolyAssignment
    if not isinstance(a, PolyAssignment):
        return {"k": "other", "type": type(a).__name__, "str": str(a)}
    polys = []
    for p in a.polynomials:
        d = {"str": str(p)}
        if p.is_Number:
            d["num"] = str(p)
        elif p.is_Symbol:
            d["sym"] = str(p)
        elif p.is_Mul or p.is_Add:
            d["op"] = "mul" if p.is_Mul else "add"
            d["args"] = [str(x) for x in p.args]
            d["args_sym"] = [bool(x.is_Symbol) for x in p.args]
        polys.append(d)
    return {"k": "assign", "var": str(a.variable), "polys": polys,
            "probs": [str(q) for q in a.probabilities],
            "probs_rational": [bool(q.is_Rational) for q in a.probabilities]}


def _dump_stmt(s):
    from program.ifstatem import IfStatem
    if isinstance(s, IfStatem):
        conds = []
        for c in s.conditions:
            atoms = []
            _flatten_and(c, atoms)
            conds.append(atoms)
        return {"k": "if", "conds": conds,
                "branches": [[_dump_stmt(x) for x in br] for br in s.branches],
                "else": None if s.else_branch is None else [_dump_stmt(x) for x in s.else_branch]}
    return _dump_assign(s)


def _dump_program(prog):
    from program.condition import TrueCond
    return {"initial": [_dump_stmt(s) for s in prog.initial],
            "guard_true": isinstance(prog.loop_guard, TrueCond),
            "guard": str(prog.loop_guard),
            "body": [_dump_stmt(s) for s in prog.loop_body],
            "typedefs": len(prog.typedefs)}


def _make_query(spec, net):
    from bayesnet.query.sampling_time_query import SamplingTimeQuery
    from bayesnet.query.exact_inference_query import ExactInferenceQuery
    if spec["type"] == "none":
        return None
    if spec["type"] == "exact":
        return ExactInferenceQuery(spec["q"], net)
    if spec["type"] == "sample":
        return SamplingTimeQuery(spec["q"], net)
    raise ValueError(spec["type"])


def _write_tmp(text):
    fd, path = tempfile.mkstemp(suffix=".bif", dir="/var/tmp")
    with os.fdopen(fd, "w") as f:
        f.write(text)
    return path


def task_bif(task):
    from bayesnet.parser import BifParser
    from bayesnet.code_generator import CodeGenerator
    from inputparser import Parser
    path = _write_tmp(task["text"])
    res = {"id": task.get("id")}
    try:
        try:
            net = BifParser().parse_file(path)
        except BaseException as e:  # noqa
            res["accept"] = False
            res["exc"] = _exc(e)
            res["tb"] = traceback.format_exc()[-700:]
            return res
        res["accept"] = True
        res["tolerance"] = repr(net.cpt_tolerance)
        res["network"] = _dump_network(net)
        res["gen"] = []
        for spec in task.get("queries", []):
            g = {"spec": spec}
            res["gen"].append(g)
            try:
                q = _make_query(spec, net)
            except BaseException as e:  # noqa
                g["stage"] = "query"
                g["exc"] = _exc(e)
                continue
            try:
                cg = CodeGenerator(net, q)
                code = cg.generate_code()
            except BaseException as e:  # noqa
                g["stage"] = "codegen"
                g["exc"] = _exc(e)
                g["tb"] = traceback.format_exc()[-600:]
                continue
            g["code"] = code
            g["mapping"] = [[k, v] for k, v in cg.polar_variable_names.items()]
            aux = {}
            for attr in ("indicator_name", "inference_name", "count_name", "continue_name"):
                if q is not None and hasattr(q, attr):
                    aux[attr] = getattr(q, attr)
            g["aux"] = aux
            if q is not None:
                try:
                    g["goals"] = q.generate_query(net, cg.polar_variable_names)
                except BaseException as e:  # noqa
                    g["goals_exc"] = _exc(e)
            try:
                prog = Parser().parse_string(code)
                g["program"] = _dump_program(prog)
            except BaseException as e:  # noqa
                g["stage"] = "polar-parse"
                g["exc"] = _exc(e)
        return res
    finally:
        try:
            os.unlink(path)
        except OSError:
            pass


def task_bifquery(task):
    """the real command-line action; returns everything it printed"""
    from cli.argument_parser import ArgumentParser
    from cli.actions.bayesian_network_action import BayesNetworkAction
    path = _write_tmp(task["text"])
    res = {"id": task.get("id")}
    try:
        args = ArgumentParser().get_defaults()
        args.sample_time_until = None
        args.exact_inference = None
        args.bif_to_prob = None
        if task["type"] == "exact":
            args.exact_inference = task["q"]
        else:
            args.sample_time_until = task["q"]
        buf = io.StringIO()
        try:
            with contextlib.redirect_stdout(buf):
                BayesNetworkAction(args)(path)
        except BaseException as e:  # noqa
            res["exc"] = _exc(e)
            res["tb"] = traceback.format_exc()[-1200:]
        res["stdout"] = buf.getvalue()
        return res
    finally:
        try:
            os.unlink(path)
        except OSError:
            pass
