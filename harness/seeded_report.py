"""Markdown table of the seeded changes under /verif/seeded/ and which checks caught them."""
import glob
import json
import os

VERIF = os.path.dirname(os.path.dirname(os.path.abspath(__file__)))


def main():
    rows = []
    for mp in sorted(glob.glob(os.path.join(VERIF, "seeded", "*", "meta.json"))):
        m = json.load(open(mp))
        needs = (m.get("needs") or "").strip().splitlines()
        first = next((l.strip("# ").strip() for l in needs if l.strip()), "")
        checks = []
        for c, r in sorted(m.get("checks", {}).items()):
            if r["exit"] != 0:
                checks.append(f"**{c}** ({r['with_input']} with input / {r['violations']})")
            else:
                checks.append(f"{c}: quiet")
        early = ""
        for e in m.get("earlier_runs", []):
            if not e.get("detected_by"):
                early = " (missed before the check was strengthened)"
        rows.append(f"| {m['name']} | {m['property']} | {'yes' if m.get('confirmed') else 'NO'} | {', '.join(checks)}{early} | {first[:140]} |")
    print("| seeded change | property | confirmed (demo fails with / passes without, 134 tests pass) | checks run → result | what it is |")
    print("|---|---|---|---|---|")
    print("\n".join(rows))


main()
