"""Acceptance-aware generator of source programs (progast ASTs) for the core checks.
Finite variables f* take small integer values, are assigned at top level in every iteration
and are the only variables used in conditions; accumulators a* get linear updates whose
coefficients may involve finite variables and draws.  Knobs select the shapes the properties
name: guards, nested if/elif/else, branches reassigning their condition variables,
multi-assignment under a guard, simultaneous assignment, 2-4 branch choices, Categorical /
DiscreteUniform draws, constants defined in the init block, delay chains, cycles."""
from fractions import Fraction

import progast as P

PROBS = [Fraction(1, 2), Fraction(1, 3), Fraction(1, 4), Fraction(2, 3), Fraction(1, 5), Fraction(3, 4)]


class G:
    def __init__(self, rng, finite_only=True, guard=None, max_depth=2, allow_simult=True, allow_nested_reassign=False,
                 params=False, n_fin=None, n_acc=None, rational=False):
        self.rng = rng
        self.fin = [f"f{i}" for i in range(n_fin if n_fin is not None else rng.randint(1, 3))]
        self.acc = [f"a{i}" for i in range(n_acc if n_acc is not None else rng.randint(0, 2))]
        self.vals = {f: sorted(rng.sample([0, 1, 2, 3, -1], rng.randint(2, 3))) for f in self.fin}
        self.rational = rational
        if rational:
            # finite types with non-integer values; atoms compare against integers AND half-integers
            pool = [0, Fraction(1, 2), 1, Fraction(3, 2), Fraction(-1, 2), 2, Fraction(1, 3)]
            for f in self.fin:
                if rng.random() < 0.7:
                    self.vals[f] = sorted(rng.sample(pool, rng.randint(2, 4)))
        self.max_depth = max_depth
        self.allow_simult = allow_simult
        self.allow_nested_reassign = allow_nested_reassign
        self.params = params
        self.use_guard = rng.random() < 0.5 if guard is None else guard
        self.features = set()

    # -- expressions -------------------------------------------------------------
    def prob(self):
        if self.params and self.rng.random() < 0.4:
            return P.var("p")
        return P.const(self.rng.choice(PROBS))

    def fin_value(self, f):
        return P.const(self.rng.choice(self.vals[f]))

    def fin_rhs(self, f):
        r = self.rng.random()
        vs = self.vals[f]
        if r < 0.3:
            return P.det(self.fin_value(f))
        if r < 0.6:
            k = self.rng.randint(2, min(3, len(vs) + 1))
            return self.choice([self.fin_value(f) for _ in range(k)])
        if r < 0.7 and set(vs) >= {0, 1}:
            self.features.add("bernoulli")
            return ("draw", ("bern", self.prob()))
        if r < 0.78 and set(vs) >= set(range(len(vs))):
            self.features.add("categorical")
            k = len(vs)
            ps = self.prob_vector(k)
            return ("draw", ("cat", [P.const(x) for x in ps]))
        if r < 0.85 and all(isinstance(x, int) for x in vs) and vs == list(range(vs[0], vs[-1] + 1)):
            self.features.add("discrete_uniform")
            return ("draw", ("unif", vs[0], vs[-1]))
        others = [g for g in self.fin if g != f and set(self.vals[g]) <= set(vs)]
        if others and r < 0.95:
            return P.det(P.var(self.rng.choice(others)))
        return P.det(self.fin_value(f))

    def prob_vector(self, k):
        den = self.rng.choice([2, 3, 4, 5, 6])
        cuts = sorted(self.rng.randint(0, den) for _ in range(k - 1))
        parts = [b - a for a, b in zip([0] + cuts, cuts + [den])]
        return [Fraction(x, den) for x in parts]

    def choice(self, values):
        k = len(values)
        if k > 2:
            self.features.add("choice>=3")
        if self.params and self.rng.random() < 0.5 and k == 2:
            return ("choice", [(P.var("p"), values[0]), (("sub", P.const(1), P.var("p")), values[1])])
        ps = self.prob_vector(k)
        return ("choice", [(P.const(p), v) for p, v in zip(ps, values)])

    def lin_term(self):
        r = self.rng.random()
        c = P.const(self.rng.choice([1, 2, -1, Fraction(1, 2), 3]))
        if r < 0.35 and self.fin:
            return ("mul", c, P.var(self.rng.choice(self.fin)))
        if r < 0.5:
            return c
        if r < 0.6 and self.params:
            return ("mul", P.var("q"), P.var(self.rng.choice(self.fin))) if self.fin else P.var("q")
        if self.acc and r < 0.8:
            return ("mul", c, P.var(self.rng.choice(self.acc)))
        if self.fin:
            return ("mul", P.var(self.rng.choice(self.fin)), P.var(self.rng.choice(self.fin)))
        return c

    def acc_rhs(self, a):
        r = self.rng.random()
        coeff = self.rng.choice([1, 1, 1, Fraction(1, 2), 2, 0, -1])
        base = ("mul", P.const(coeff), P.var(a))
        if r < 0.15 and self.fin:
            # coefficient of the accumulator is a finite variable (still linear)
            base = ("mul", P.var(self.rng.choice(self.fin)), P.var(a))
        e = ("add", base, self.lin_term())
        if r > 0.75:
            return self.choice([e, ("add", P.var(a), self.lin_term())])
        return P.det(e)

    # -- conditions --------------------------------------------------------------
    def atom(self):
        f = self.rng.choice(self.fin)
        op = self.rng.choice(["==", "==", "<", ">", "<=", ">="])
        v = self.rng.choice(self.vals[f] + [self.vals[f][0]])
        if self.rational:
            v = v + self.rng.choice([0, 0, Fraction(1, 2), Fraction(-1, 2), 1, -1])
            v = int(v) if v == int(v) else v
        return ("atom", P.var(f), op, P.const(v))

    def cond(self, depth=0):
        r = self.rng.random()
        if depth < 1 and r < 0.2:
            return ("and", self.cond(depth + 1), self.cond(depth + 1))
        if depth < 1 and r < 0.35:
            return ("or", self.cond(depth + 1), self.cond(depth + 1))
        if r < 0.45:
            return ("not", self.atom())
        return self.atom()

    # -- statements --------------------------------------------------------------
    def assign(self, forbidden=()):
        cands = [v for v in self.fin + self.acc if v not in forbidden]
        if not cands:
            cands = self.fin + self.acc
        x = self.rng.choice(cands)
        return ("assign", x, self.fin_rhs(x) if x in self.fin else self.acc_rhs(x))

    def stmt(self, depth, forbidden=()):
        r = self.rng.random()
        if depth < self.max_depth and r < 0.35 and self.fin:
            self.features.add("if" if depth == 0 else "nested-if")
            nb = self.rng.randint(1, 3)
            conds = [self.cond() for _ in range(nb)]
            cvars = set()
            for c in conds:
                cvars |= cond_vars(c)
            inner_forbidden = set(forbidden)
            if depth >= 1 and not self.allow_nested_reassign:
                inner_forbidden |= cvars
            elif cvars:
                self.features.add("branch-reassigns-cond-var")
            brs = [(c, self.block(depth + 1, self.rng.randint(1, 2), inner_forbidden)) for c in conds]
            if nb > 1:
                self.features.add("elif")
            els = self.block(depth + 1, self.rng.randint(1, 2), inner_forbidden) if self.rng.random() < 0.5 else None
            return ("if", brs, els)
        if self.allow_simult and r < 0.45 and len(self.fin + self.acc) >= 2:
            self.features.add("simult")
            pool = [v for v in self.fin + self.acc if v not in forbidden]
            xs = self.rng.sample(pool, 2) if len(pool) >= 2 else []
            if len(xs) == 2 and xs[0] != xs[1]:
                def rhs_for(x, other):
                    if x in self.fin:
                        if other in self.fin and set(self.vals[other]) <= set(self.vals[x]) and self.rng.random() < 0.6:
                            return P.det(P.var(other))
                        return self.fin_rhs(x)
                    return P.det(("add", P.var(other), self.lin_term())) if self.rng.random() < 0.6 else self.acc_rhs(x)
                return ("simult", [(xs[0], rhs_for(xs[0], xs[1])), (xs[1], rhs_for(xs[1], xs[0]))])
        return self.assign(forbidden)

    def block(self, depth, n, forbidden=()):
        return [self.stmt(depth, forbidden) for _ in range(n)]

    def program(self):
        rng = self.rng
        init = []
        for f in self.fin:
            if rng.random() < 0.25:
                init.append(("assign", f, self.choice([self.fin_value(f), self.fin_value(f)])))
            else:
                init.append(("assign", f, P.det(self.fin_value(f))))
        for a in self.acc:
            init.append(("assign", a, P.det(P.const(rng.choice([0, 1, 2, -1])))))
        body = self.block(0, rng.randint(2, 4))
        # make sure every finite variable is assigned at top level in every iteration
        top = {s[1] for s in body if s[0] == "assign"} | {x for s in body if s[0] == "simult" for x, _ in s[1]}
        for f in self.fin:
            if f not in top:
                body.insert(rng.randint(0, len(body)), ("assign", f, self.fin_rhs(f)))
        counts = {}
        for s in body:
            if s[0] == "assign":
                counts[s[1]] = counts.get(s[1], 0) + 1
        if any(c > 1 for c in counts.values()):
            self.features.add("multi-assign")
        if self.use_guard:
            self.features.add("guard")
            guard = self.atom() if rng.random() < 0.7 else self.cond()
        else:
            guard = ("true",)
        p = {"types": [], "init": init, "guard": guard, "body": body}
        return p

    def goals(self, k=3):
        vs = self.fin + self.acc
        out = []
        for _ in range(k):
            m = {}
            for _ in range(self.rng.randint(1, 2)):
                x = self.rng.choice(vs)
                m[x] = m.get(x, 0) + self.rng.randint(1, 2)
            if sum(m.values()) <= 3 and m not in out:
                out.append(m)
        return out or [{vs[0]: 1}]


def cond_vars(c):
    if c[0] == "atom":
        return expr_vars(c[1]) | expr_vars(c[3])
    if c[0] == "not":
        return cond_vars(c[1])
    if c[0] in ("and", "or"):
        return cond_vars(c[1]) | cond_vars(c[2])
    return set()


def expr_vars(e):
    if e[0] == "var":
        return {e[1]}
    if e[0] in ("add", "sub", "mul"):
        return expr_vars(e[1]) | expr_vars(e[2])
    if e[0] in ("neg", "pow"):
        return expr_vars(e[1])
    return set()


def goal_text(m):
    return "*".join(f"{x}**{k}" if k > 1 else x for x, k in sorted(m.items()))


# ---- hand-written corpus: shapes of DESIGN section 6 -------------------------------------
def corpus():
    c = P.const
    v = P.var
    F = Fraction
    out = []
    # 1. multi-assignment under a loop guard (typer suspect)
    out.append(({"types": [], "init": [("assign", "x", P.det(c(5))), ("assign", "c", P.det(c(0)))],
                 "guard": ("atom", v("c"), "==", c(0)),
                 "body": [("assign", "x", P.det(c(1))), ("assign", "x", P.det(("add", v("x"), c(1)))),
                          ("assign", "c", ("draw", ("bern", c(F(1, 2)))))]}, [{"x": 2}, {"x": 1}], "guard+multi-assign"))
    out.append(({"types": [], "init": [("assign", "x", P.det(c(2))), ("assign", "a", P.det(c(1)))],
                 "guard": ("atom", v("a"), "<", c(1)),
                 "body": [("assign", "a", P.det(("sub", c(1), v("a")))), ("assign", "x", P.det(c(3))), ("assign", "x", P.det(c(0)))]},
                [{"x": 1}], "guard-false-initially+multi-assign"))
    # 2/14. delay chains
    out.append(({"types": [], "init": [("assign", "u", P.det(c(7))), ("assign", "w", P.det(c(5)))], "guard": ("true",),
                 "body": [("assign", "w", P.det(v("u"))), ("assign", "u", P.det(c(0)))]}, [{"w": 1}], "delay"))
    out.append(({"types": [], "init": [("assign", "z", P.det(c(8))), ("assign", "w", P.det(c(5))), ("assign", "u", P.det(c(7)))],
                 "guard": ("true",),
                 "body": [("assign", "z", P.det(("add", v("z"), v("w")))), ("assign", "w", P.det(v("u"))), ("assign", "u", P.det(c(0)))]},
                [{"z": 1}], "delay+accumulator"))
    out.append(({"types": [], "init": [("assign", "x", P.det(c(1))), ("assign", "y", P.det(c(2))), ("assign", "z", P.det(c(3))),
                                       ("assign", "w", P.det(c(5))), ("assign", "u", P.det(c(7)))], "guard": ("true",),
                 "body": [("simult", [("x", P.det(("add", v("y"), v("z")))), ("y", P.det(v("x")))]),
                          ("assign", "z", P.det(v("w"))), ("assign", "w", P.det(v("u"))), ("assign", "u", P.det(c(0)))]},
                [{"x": 1}], "cycle+delay"))
    # a transient special case that coincides with the general formula while a LATER one does not (E(x) = 0; 1; 0 ...):
    # the printed list "v0; v1; ...; formula" is positional
    out.append(({"types": [], "init": [("assign", "x", P.det(c(0))), ("assign", "y", P.det(c(1)))], "guard": ("true",),
                 "body": [("assign", "x", P.det(v("y"))), ("assign", "y", ("choice", [(c(F(1, 2)), c(1)), (c(F(1, 2)), c(-1))]))]},
                [{"x": 1}, {"x": 1, "y": 1}], "delay-special-case-equals-general"))
    out.append(({"types": [], "init": [("assign", "w", P.det(c(0))), ("assign", "u", P.det(c(3))), ("assign", "t", P.det(c(0)))], "guard": ("true",),
                 "body": [("assign", "w", P.det(v("u"))), ("assign", "u", P.det(v("t"))), ("assign", "t", P.det(c(0)))]},
                [{"w": 1}, {"u": 1}], "delay-special-case-equals-general-2"))
    # 3. init constant defined from a loop variable
    out.append(({"types": [], "init": [("assign", "x", P.det(c(3))), ("assign", "k", P.det(("add", v("x"), c(1))))], "guard": ("true",),
                 "body": [("assign", "x", P.det(("add", v("x"), v("k"))))]}, [{"x": 1}], "init-constant-from-loop-var"))
    # swap with a draw
    out.append(({"types": [], "init": [("assign", "x", P.det(c(1))), ("assign", "y", P.det(c(0))), ("assign", "a", P.det(c(1)))],
                 "guard": ("true",),
                 "body": [("assign", "a", ("draw", ("bern", c(F(1, 2))))), ("simult", [("y", P.det(v("x"))), ("x", P.det(v("a")))])]},
                [{"x": 1, "y": 1}], "swap-with-draw"))
    # 10. guard with collapsed first-level if
    out.append(({"types": [], "init": [("assign", "x", P.det(c(0))), ("assign", "c", ("draw", ("bern", c(F(1, 2)))))],
                 "guard": ("atom", v("x"), "==", c(0)),
                 "body": [("if", [(("atom", v("c"), "==", c(1)), [("assign", "x", ("draw", ("bern", c(F(1, 2)))))])], None)]},
                [{"x": 1}], "guard+collapsed-if"))
    # --- condition arithmetisation: overlapping disjuncts, nested negation, non-binary types, powers >= |type|
    fin3 = lambda x: ("assign", x, ("choice", [(c(F(1, 3)), c(0)), (c(F(1, 3)), c(1)), (c(F(1, 3)), c(2))]))
    bern = lambda x, p: ("assign", x, ("draw", ("bern", c(p))))
    inc = lambda z, e: ("assign", z, P.det(("add", v(z), e)))
    eq = lambda x, k: ("atom", v(x), "==", c(k))
    base_init = [("assign", "a", P.det(c(0))), ("assign", "b", P.det(c(1))), ("assign", "x", P.det(c(0))), ("assign", "y", P.det(c(0)))]
    out.append(({"types": [], "init": base_init, "guard": ("true",),
                 "body": [bern("a", F(1, 2)), fin3("b"),
                          ("if", [(("or", eq("a", 1), eq("b", 2)), [inc("x", ("add", v("x"), c(3)))])], [inc("x", c(1))]),
                          ("assign", "x", P.det(("mul", c(F(1, 2)), v("x"))))]},
                [{"x": 2}, {"x": 1, "b": 2}], "or-overlap"))
    out.append(({"types": [], "init": base_init, "guard": ("true",),
                 "body": [bern("a", F(1, 3)), fin3("b"),
                          ("if", [(("not", ("and", eq("a", 0), ("atom", v("b"), "<", c(2)))), [inc("x", v("b"))]),
                                  (("or", ("atom", v("b"), ">=", c(1)), ("not", eq("a", 1))), [inc("y", c(2))])], [inc("y", v("a"))])]},
                [{"x": 1, "y": 1}, {"b": 3}, {"y": 2}], "not-and-or-elif"))
    out.append(({"types": [], "init": base_init, "guard": ("true",),
                 "body": [fin3("b"), ("assign", "a", P.det(("sub", c(1), v("a")))),
                          ("if", [(("or", ("and", eq("a", 1), ("atom", v("b"), ">", c(0))), ("or", eq("b", 1), eq("a", 1))), [inc("x", ("mul", v("b"), v("b")))])], None),
                          inc("y", ("mul", v("a"), v("x")))]},
                [{"y": 1}, {"x": 1, "b": 2, "a": 1}], "nested-or-and-powers"))
    # --- comparison of two variables reused after either side is reassigned (alias reuse in ConditionsReducer)
    cmp = lambda l, op, r: ("atom", v(l), op, v(r))
    init2 = [("assign", "x", P.det(c(1))), ("assign", "y", P.det(c(0))), ("assign", "a", P.det(c(0))), ("assign", "b", P.det(c(0)))]
    two = lambda z: ("assign", z, ("choice", [(c(F(1, 2)), c(0)), (c(F(1, 2)), c(2))]))
    out.append(({"types": [], "init": init2, "guard": ("true",),
                 "body": [("assign", "x", P.det(c(1))), ("if", [(cmp("x", ">", "y"), [inc("a", c(1))])], None), two("y"),
                          ("if", [(cmp("x", ">", "y"), [inc("b", c(1))])], None)]},
                [{"b": 1}, {"a": 1, "b": 1}], "alias-reuse-after-rhs-reassigned"))
    out.append(({"types": [], "init": init2, "guard": ("true",),
                 "body": [two("y"), ("if", [(cmp("x", ">", "y"), [inc("a", c(1))])], None), two("x"),
                          ("if", [(cmp("x", ">", "y"), [inc("b", c(1))]), (cmp("y", ">=", "x"), [inc("b", c(3))])], None)]},
                [{"b": 1}, {"a": 1, "b": 1}], "alias-reuse-after-lhs-reassigned"))
    # --- dependent random initial values (initial value of a mixed monomial is not a product)
    out.append(({"types": [], "init": [("assign", "u", ("draw", ("bern", c(F(1, 2))))), ("assign", "y", P.det(("add", v("u"), c(1)))),
                                       ("assign", "s", P.det(c(0)))], "guard": ("true",),
                 "body": [("assign", "s", P.det(("add", v("s"), ("mul", v("u"), v("y"))))),
                          ("assign", "u", P.det(("sub", c(1), v("u")))), ("assign", "y", P.det(("sub", c(3), v("y"))))]},
                [{"s": 1}, {"u": 1, "y": 1}], "dependent-random-init"))
    out.append(({"types": [], "init": [("assign", "u", ("choice", [(c(F(1, 3)), c(0)), (c(F(2, 3)), c(2))])),
                                       ("assign", "w", P.det(("mul", v("u"), v("u")))), ("assign", "s", P.det(c(1)))], "guard": ("true",),
                 "body": [("assign", "s", P.det(("add", ("mul", c(F(1, 2)), v("s")), ("mul", v("u"), v("w"))))),
                          ("simult", [("u", P.det(v("w"))), ("w", P.det(v("u")))])]},
                [{"s": 1}, {"s": 2}], "dependent-random-init-swap"))
    # --- equal consecutive transient values (sympy merges the Piecewise cases)
    out.append(({"types": [], "init": [("assign", "w", P.det(c(5))), ("assign", "u", P.det(c(7))), ("assign", "t", P.det(c(7)))], "guard": ("true",),
                 "body": [("assign", "w", P.det(v("u"))), ("assign", "u", P.det(v("t"))), ("assign", "t", P.det(c(0)))]},
                [{"w": 1}, {"w": 1, "u": 1}], "delay-equal-transients"))
    # --- finite types with NON-INTEGER values under strict / non-strict comparisons with integers and
    #     non-integers (get_valid_values; reduced alias _r = x - c with non-integer values)
    half = lambda x: ("assign", x, ("choice", [(c(F(1, 4)), c(0)), (c(F(1, 4)), c(F(1, 2))), (c(F(1, 4)), c(1)), (c(F(1, 4)), c(F(3, 2)))]))
    init3 = [("assign", "x", P.det(c(0))), ("assign", "a", P.det(c(0))), ("assign", "b", P.det(c(0)))]
    for (op1, k1, op2, k2) in [("<", 1, ">", 0), ("<=", 1, ">=", 1), ("<", F(1, 2), ">", F(1, 2)), (">", -1, "<", 2), ("<=", F(3, 4), ">=", F(5, 4))]:
        out.append(({"types": [], "init": init3, "guard": ("true",),
                     "body": [half("x"), ("if", [(("atom", v("x"), op1, c(k1)), [inc("a", c(1))])], None),
                              ("if", [(("atom", v("x"), op2, c(k2)), [inc("b", v("x"))])], None)]},
                    [{"a": 1}, {"b": 1}, {"a": 1, "b": 1}], f"noninteger-finite:{op1}{k1},{op2}{k2}"))
    # --- the same atom twice in a disjunction / conjunction of negations over a variable with values {0, 3}: the indicator is a
    #     POWER of a sum that collapses to a monomial ((1 + (x - 3)/3)**2 = (x/3)**2) when expanded
    for k, (val, tag) in enumerate([(3, "values-0-3"), (1, "values-0-1"), (2, "values-0-2")]):
        two_v = ("assign", "f", ("choice", [(c(F(1, 2)), c(0)), (c(F(1, 2)), c(val))]))
        out.append(({"types": [], "init": [("assign", "f", P.det(c(val))), ("assign", "x", P.det(c(1)))],
                     "guard": ("or", eq("f", 0), eq("f", 0)),
                     "body": [inc("x", c(1)), ("assign", "f", P.det(c(0))) if k == 0 else two_v]},
                    [{"x": 1}, {"x": 1, "f": 1}], f"duplicate-disjunct-guard:{tag}"))
    out.append(({"types": [], "init": [("assign", "f", P.det(c(0))), ("assign", "x", P.det(c(0))), ("assign", "y", P.det(c(0)))], "guard": ("true",),
                 "body": [("assign", "f", ("choice", [(c(F(1, 2)), c(0)), (c(F(1, 2)), c(3))])),
                          ("if", [(("and", ("not", eq("f", 0)), ("not", eq("f", 0))), [inc("x", c(1))])], [inc("y", v("f"))])]},
                [{"x": 1}, {"y": 1}, {"x": 1, "y": 1}], "duplicate-negated-conjunct"))
    # --- a finite type with minimum 0, maximum 1 and an interior value (not a binary type), powers >= 2 carried to later
    #     assignments
    out.append(({"types": [], "init": [("assign", "m", P.det(c(0))), ("assign", "s", P.det(c(0))), ("assign", "t", P.det(c(0)))], "guard": ("true",),
                 "body": [inc("s", ("pow", v("m"), 2)), inc("t", ("sub", ("pow", v("m"), 2), ("pow", v("m"), 3))),
                          ("assign", "m", ("choice", [(c(F(1, 3)), c(0)), (c(F(1, 3)), c(F(1, 2))), (c(F(1, 3)), c(1))]))]},
                [{"s": 1}, {"t": 1}, {"s": 1, "m": 2}], "unit-interval-type-with-interior-value"))
    # --- variables assigned several times in the INITIAL part, later values depending on earlier ones (the initial block runs in order)
    out.append(({"types": [], "init": [("assign", "k", P.det(c(0))), ("assign", "k", P.det(("add", v("k"), c(1)))), ("assign", "k", P.det(("add", v("k"), c(1)))),
                                       ("assign", "s", P.det(c(0)))], "guard": ("true",),
                 "body": [("assign", "s", P.det(("add", v("s"), v("k")))), ("assign", "k", ("choice", [(c(F(1, 2)), v("k")), (c(F(1, 2)), ("add", v("k"), c(1)))]))]},
                [{"s": 1}, {"k": 1}, {"k": 2}], "initial-part-chain:same-variable"))
    out.append(({"types": [], "init": [bern("x", F(1, 2)), ("assign", "y", P.det(v("x"))),
                                       ("assign", "x", ("choice", [(c(F(1, 2)), ("add", v("x"), c(2))), (c(F(1, 2)), c(0))])), ("assign", "s", P.det(c(0)))],
                 "guard": ("true",),
                 "body": [("assign", "s", P.det(("add", v("s"), ("mul", v("x"), v("y"))))), ("assign", "y", P.det(("sub", c(1), v("y"))))]},
                [{"s": 1}, {"x": 1}, {"x": 1, "y": 1}, {"x": 2}], "initial-part-chain:random"))
    # --- comparisons written with the integer literal on the LEFT (1 < x, 0 <= t as a guard)
    out.append(({"types": [], "init": [("assign", "x", P.det(c(0))), ("assign", "y", P.det(c(0)))], "guard": ("true",),
                 "body": [fin3("x"),
                          ("if", [(("atom", c(1), "<", v("x")), [inc("y", c(1))]), (("atom", c(1), "<=", v("x")), [inc("y", c(2))])], [inc("y", c(5))])]},
                [{"y": 1}, {"x": 1, "y": 1}], "literal-on-the-left"))
    out.append(({"types": [], "init": [("assign", "t", P.det(c(0))), ("assign", "y", P.det(c(0)))], "guard": ("atom", c(0), "<=", v("t")),
                 "body": [("assign", "t", ("choice", [(c(F(1, 2)), c(0)), (c(F(1, 4)), c(1)), (c(F(1, 4)), c(-1))])), inc("y", c(1))]},
                [{"y": 1}, {"t": 1, "y": 1}], "literal-on-the-left-guard"))
    out.append(({"types": [], "init": [("assign", "x", P.det(c(0))), ("assign", "y", P.det(c(0)))], "guard": ("true",),
                 "body": [fin3("x"),
                          ("if", [(("atom", c(2), ">", v("x")), [inc("y", v("x"))]), (("atom", c(2), ">=", v("x")), [inc("y", c(3))])], None)]},
                [{"y": 1}, {"y": 2}], "literal-on-the-left-gt"))
    # --- conditioned draw into a variable assigned earlier in the same iteration (default = previous version)
    out.append(({"types": [], "init": [("assign", "f", P.det(c(0))), ("assign", "x", P.det(c(0))), ("assign", "y", P.det(c(0)))],
                 "guard": ("true",),
                 "body": [bern("f", F(1, 3)), ("assign", "x", P.det(("add", v("x"), c(2)))),
                          ("if", [(eq("f", 1), [("assign", "x", ("draw", ("unif", 2, 4)))])], None),
                          ("assign", "y", P.det(("add", v("y"), v("x"))))]},
                [{"x": 1}, {"y": 1}, {"x": 2}], "conditioned-draw-into-reassigned-variable"))
    # README-like random walk with choice
    out.append(({"types": [], "init": [("assign", "x", P.det(c(0))), ("assign", "s", P.det(c(1)))], "guard": ("true",),
                 "body": [("assign", "s", ("choice", [(c(F(1, 2)), c(1)), (c(F(1, 2)), c(-1))])),
                          ("assign", "x", P.det(("add", v("x"), v("s"))))]}, [{"x": 2}, {"x": 1, "s": 1}], "random-walk"))
    return out


def abstraction_corpus():
    """programs whose branch conditions are over a draw with too many values for a finite type:
    Polar replaces such a condition by a Bernoulli coin whose probability is a symbol; two
    DIFFERENT conditions over the same draw are not independent and must not both be
    abstracted.  Each entry: (program, goals, tag, abs_support)"""
    c, v, F = P.const, P.var, Fraction
    sup = {"d": [[f"1/30", str(i)] for i in range(1, 31)]}
    out = []

    def prog(body):
        return {"types": [], "init": [("assign", "x", P.det(c(0))), ("assign", "y", P.det(c(0))), ("assign", "d", P.det(c(0)))],
                "guard": ("true",), "body": [("assign", "d", ("draw", ("unif", 1, 30)))] + body}
    inc = lambda z, k: ("assign", z, P.det(("add", v(z), c(k))))
    le = lambda k: ("atom", v("d"), "<=", c(k))
    out.append((prog([("if", [(le(15), [inc("x", 1)])], None), ("if", [(le(15), [inc("y", 2)])], None)]),
                [{"x": 1, "y": 1}, {"x": 2}], "abstraction:same-condition-twice", sup))
    out.append((prog([("if", [(le(15), [inc("x", 1)])], None), ("if", [(le(10), [inc("y", 1)])], None)]),
                [{"x": 1, "y": 1}], "abstraction:two-conditions-one-draw", sup))
    out.append((prog([("if", [(le(10), [inc("x", 1)]), (le(20), [inc("x", 2)])], [inc("y", 1)])]),
                [{"x": 2}, {"x": 1, "y": 1}], "abstraction:elif-chain-one-draw", sup))
    out.append((prog([("if", [(("atom", v("d"), ">", c(25)), [inc("x", 1), inc("y", 1)])], [inc("y", 3)])]),
                [{"x": 1, "y": 1}, {"y": 2}], "abstraction:else", sup))
    # the goal, or a later assignment, multiplies the abstracted draw with a variable updated under the coin
    out.append((prog([("if", [(le(15), [inc("x", 1)])], None)]),
                [{"x": 1, "d": 1}, {"x": 1}], "abstraction:goal-mentions-abstracted-draw", sup))
    out.append((prog([("if", [(le(15), [inc("x", 1)])], None), ("assign", "y", P.det(("mul", v("d"), v("x"))))]),
                [{"y": 1}], "abstraction:later-assignment-reads-abstracted-draw", sup))
    # the guarded assignment reads a COPY (descendant) of the abstracted draw: the coin is not independent of it
    addv = lambda z, w: ("assign", z, P.det(("add", v(z), v(w))))
    out.append((prog([("assign", "y", P.det(v("d"))), ("if", [(le(15), [addv("x", "y")])], None)]),
                [{"x": 1}, {"x": 2}], "abstraction:assignment-reads-copy-of-draw", sup))
    out.append((prog([("assign", "y", P.det(("add", ("mul", c(2), v("d")), c(1)))),
                      ("if", [(le(10), [addv("x", "y")])], [inc("x", 1)])]),
                [{"x": 1}], "abstraction:assignment-reads-descendant-of-draw", sup))
    return out


def types_corpus():
    """shapes for the type inference: values that arrive late through a chain (iteration budget /
    fail-and-lock logic), draws with zero-probability outcomes, negative uniform bounds"""
    c, v, F = P.const, P.var, Fraction
    out = []
    chain = ["v0", "v1", "v2", "v3", "v4"]
    init = [("assign", x, P.det(c(0))) for x in chain] + [("assign", "cnt", P.det(c(0)))]
    body = [("assign", chain[i], P.det(v(chain[i - 1]))) for i in range(len(chain) - 1, 0, -1)]
    body.append(("assign", "v0", ("choice", [(c(F(1, 2)), c(0)), (c(F(1, 2)), c(2))])))
    out.append(({"types": [], "init": init, "guard": ("true",), "body": body}, [], "shift-register"))
    body2 = list(body) + [("if", [(("atom", v("v4"), "==", c(2)), [("assign", "cnt", P.det(("add", v("cnt"), c(1))))])], None)]
    out.append(({"types": [], "init": init, "guard": ("true",), "body": body2}, [], "shift-register+condition"))
    out.append(({"types": [], "init": [("assign", "k", P.det(c(0))), ("assign", "d", P.det(c(0))), ("assign", "cnt", P.det(c(0)))], "guard": ("true",),
                 "body": [("assign", "k", ("draw", ("cat", [c(0), c(F(1, 4)), c(F(1, 4)), c(F(1, 2))]))),
                          ("assign", "d", P.det(("sub", ("mul", c(2), v("k")), c(3)))),
                          ("if", [(("atom", v("k"), "==", c(3)), [("assign", "cnt", P.det(("add", v("cnt"), c(1))))])], None)]},
                [], "categorical-zero-probability"))
    out.append(({"types": [], "init": [("assign", "u", P.det(c(0))), ("assign", "w", P.det(c(1)))], "guard": ("atom", v("w"), ">", c(-3)),
                 "body": [("assign", "u", ("draw", ("unif", -2, 1))), ("assign", "w", P.det(("mul", v("u"), v("u")))),
                          ("if", [(("atom", v("u"), "<", c(0)), [("assign", "w", P.det(("sub", c(0), v("w"))))])], None)]},
                [], "negative-uniform"))
    # a variable assigned twice in the initial part: its value at n = 0 is the LAST one
    out.append(({"types": [], "init": [("assign", "x", P.det(c(0))), ("assign", "x", P.det(("add", v("x"), c(1)))), ("assign", "y", P.det(c(0)))],
                 "guard": ("true",),
                 "body": [("assign", "y", P.det(("add", v("y"), ("pow", v("x"), 3)))),
                          ("assign", "x", ("choice", [(c(F(1, 2)), c(2)), (c(F(1, 2)), c(3))]))]},
                [{"y": 1}], "initial-part-reassignment"))
    return out


def continuous_corpus():
    """programs with continuous draws (validated at moment level: the flat program, Polar's
    system and initial values against the wp model with the TRANSLATED moment formulas)"""
    c, v, F = P.const, P.var, Fraction
    out = []
    cont = lambda fam, *args: ("draw", ("cont", fam, [c(a) if not isinstance(a, tuple) else a for a in args]))
    init = lambda *xs: [("assign", x, P.det(c(k))) for x, k in xs]
    inc = lambda z, e: ("assign", z, P.det(("add", v(z), e)))
    out.append(({"types": [], "init": init(("x", 0), ("y", 0)), "guard": ("true",),
                 "body": [("assign", "x", cont("Normal", 0, 1)), inc("y", ("mul", v("x"), v("x")))]}, [{"y": 1}, {"y": 2}], "normal"))
    out.append(({"types": [], "init": init(("u", 0), ("s", 1), ("f", 0)), "guard": ("true",),
                 "body": [("assign", "f", ("draw", ("bern", c(F(1, 3))))), ("assign", "u", cont("Uniform", 0, 2)),
                          ("assign", "s", P.det(("add", ("mul", c(F(1, 2)), v("s")), ("mul", v("u"), v("f")))))]},
                [{"s": 1}, {"s": 2}, {"s": 1, "u": 1}], "uniform*finite"))
    out.append(({"types": [], "init": init(("x", 1), ("y", 0)), "guard": ("true",),
                 "body": [("assign", "y", cont("Normal", v("x"), 4)), ("assign", "x", P.det(("mul", c(F(1, 2)), v("y"))))]},
                [{"x": 1}, {"x": 2}], "normal-variable-mean"))
    out.append(({"types": [], "init": init(("l", 0), ("w", 0), ("a", 0)), "guard": ("true",),
                 "body": [("assign", "l", cont("Laplace", 1, 2)), ("assign", "w", cont("DistExp", F(1, 2))),
                          inc("a", ("sub", ("mul", v("l"), v("w")), c(1)))]}, [{"a": 1}, {"a": 2}, {"l": 3}], "laplace+exponential"))
    out.append(({"types": [], "init": init(("g", 0), ("b", 0), ("t", 0), ("c", 0)), "guard": ("atom", v("c"), "==", c(0)),
                 "body": [("assign", "g", cont("Gamma", 2, F(1, 2))), ("assign", "b", cont("Beta", 2, 3)),
                          ("if", [(("atom", v("c"), "==", c(0)), [inc("t", ("mul", v("g"), v("b")))])], None),
                          ("assign", "c", ("draw", ("bern", c(F(1, 4)))))]}, [{"t": 1}, {"t": 2}], "gamma*beta+guard"))
    out.append(({"types": [], "init": init(("x", 0), ("m", 0)), "guard": ("true",),
                 "body": [("assign", "m", ("choice", [(c(F(1, 2)), c(0)), (c(F(1, 2)), c(2))])),
                          ("assign", "x", cont("Uniform", v("m"), ("add", v("m"), c(1))))]}, [{"x": 1}, {"x": 2}, {"x": 1, "m": 1}], "uniform-variable-bounds"))
    return out
