"""C02 / ConstantsTransformer: correspondence between the Gallina model
PassConstants.constants (proved: props/C02_Constants.v) and the real pass.

For every analysed program the snapshot BEFORE the pass (after ConditionsReducer) is turned
into a Coq flatprog, the model is evaluated on it inside Coq (vm_compute) and compared with
Polar's snapshot AFTER the pass by the boolean PassConstants.constants_matches (polynomials up
to normal form; the appended `c = c` assignments up to order).  The theorem's hypothesis
constants_ok is evaluated on the same input.  Two seeded witnesses outside the hypothesis
(re-assignment of a constant inside the initial block) are run against the real Polar and the
exact reference semantics on every run (they were wrong before /repo 5e78f4d: a revert is reported with
the concrete input)."""
import json
from fractions import Fraction

import lib
import core
import oracle
import progast as P

HEADER = ("From Coq Require Import List String QArith Qcanon ZArith.\n"
          "From Polar Require Import Qcx Dist Syntax Sem Types Poly PassCNBase PassConstants.\n"
          "Import ListNotations.\nOpen Scope string_scope.\n")
PER_FILE = 8


def snapshot_pair(run, before, after):
    snaps = dict((n, d) for n, d in run["snapshots"])
    a, b = snaps.get(before), snaps.get(after)
    if a is None or b is None:
        return None
    if "unsupported" in a or "unsupported" in b:
        return "unsupported"
    return a, b


def flat_term(d):
    return core.flat_coq({"init": d["init"], "body": d["body"]})


# ---- witnesses outside the hypothesis: defects of the real code ------------------------------
def _det(x, e):
    return ("assign", x, P.det(e))


WITNESSES = [
    ("constants-init-reassign:a",
     {"types": [], "init": [_det("k", P.const(1)), _det("y", P.var("k")), _det("k", P.const(2))],
      "guard": ("true",), "body": [_det("y", ("add", P.var("y"), P.var("k")))]},
     "y",
     "an initial-block constant that is assigned twice is replaced EVERYWHERE by its last value, also in initial "
     "assignments that precede the re-assignment"),
    ("constants-init-reassign:b",
     {"types": [], "init": [_det("k", P.const(1)), ("assign", "k", ("draw", ("bern", P.const(Fraction(1, 2))))),
                            _det("x", P.const(0))],
      "guard": ("true",), "body": [_det("x", ("add", P.var("x"), P.var("k")))]},
     "x",
     "an initial-block variable first assigned a constant and then a random value is folded to the constant in the "
     "loop body although its initial assignment is kept"),
]


def run_witnesses(ctx):
    N = WITNESS_N
    results = shared_polar_runs()["witness"]
    exact = oracle.exact_moments(ctx, [(p, [{g: 1}], N) for _, p, g, _ in WITNESSES], timeout=120)
    out = []
    for (sig, p, g, why), r, ex in zip(WITNESSES, results, exact):
        text = P.prog_text(p)
        rec = {"signature": sig, "program": text, "goal": f"E({g})"}
        out.append(rec)
        if "error" in r or "exception" in r or ex is None:
            rec["status"] = "not-run: " + str(r.get("error") or r.get("exception") or "oracle")
            continue
        gr = r["goals"][0]
        inst = (gr.get("instances") or [None])[0]
        if "exception" in gr or not inst or "values" not in inst:
            rec["status"] = "refused: " + str(gr.get("exception"))
            continue
        polar = []
        for row in inst["values"]:
            try:
                polar.append(Fraction(row[0]))
            except (ValueError, ZeroDivisionError):
                polar.append(None)
        refv = [ex[n][0] for n in range(N + 1)]
        rec["polar"] = [str(v) for v in polar]
        rec["reference"] = [str(v) for v in refv]
        bad = [n for n in range(N + 1) if polar[n] is not None and polar[n] != refv[n]]
        ctx.count({"witness": sig}, nontrivial=True)
        if bad:
            n = bad[0]
            rec["status"] = "wrong"
            ctx.violation(sig, {"program_text": text, "goal": g, "n": n, "polar_value": str(polar[n]), "reference_value": str(refv[n]),
                                "closed_form": gr.get("sols"), "flat_program": r.get("flat_text"),
                                "superseded_rule": "PassConstants.constants_cur (props/C02_Constants.v: "
                                                   "C02_constants_old_rule_without_ok_refuted, old_rule_wit_a_values / _b_values)"},
                          f"ConstantsTransformer: {why}: E({g}) = {polar[n]} at n={n} according to Polar, exactly {refv[n]}\n{text}")
        else:
            rec["status"] = "agrees"
    return out


# seeded probes aimed at this pass (the generator rarely defines loop constants): every way a
# constant can be folded / kept / read, incl. a constant used directly in the guard
PROBES = [
    "a = 2\nu = Bernoulli(1/2)\nk = a*a + 1\nm = u + k\nx = 0\ny = 1\nwhile true:\n    x = u {1/2} k - 3\n"
    "    if x <= 1 && u >= 1:\n        y = a - y\n    end\n    if m > 5:\n        y = 1\n    end\nend\n",
    "k = 1\nf = 0\nwhile k > 0:\n    f = 1 - f\nend\n",
    "x = 3\nk = x + 1\nwhile true:\n    x = x + k\nend\n",
    "k = p + 1\nj = k*k\nx = 0\nwhile true:\n    x = x + k {1/2} x + j\nend\n",
    "c = 0\nd = 1\nx = 0\nwhile d == 1:\n    if c == 0:\n        x = x + 1 {1/2} x\n    end\nend\n",
    "a = 0\nx = 1\nk = a*x\nwhile true:\n    x = x + k + 1 {1/2} x\nend\n",
    "u = Bernoulli(1/2)\nk = u + 1\nj = k*k\nx = 0\nwhile true:\n    x = x + j {1/2} 0\nend\n",
    "k = 1 {1/2} 2\nx = 0\nwhile true:\n    x = x + k {1/2} 0\nend\n",
    "b = Bernoulli(1/2)\nk = 3\nif b == 1:\n    k = 1\nelse:\n    k = 2\nend\nx = 0\nwhile true:\n    x = k {1/2} 0\nend\n",
    "k = 2\nx = 0\ny = 0\nwhile x < k:\n    x = x + 1 {1/2} x\n    y = Normal(k, 1)\nend\n",
]


WITNESS_N = 3
_CACHE = {}


def ensure_built(target, deps=()):
    """build a theories/*.vo target only if it is missing or older than its source / dependencies
    (c02.py has just built the props files, which depend on all of them)"""
    import os
    vo = os.path.join(lib.COQ, target)
    srcs = [vo[:-1]] + [os.path.join(lib.COQ, d) for d in deps]
    if os.path.exists(vo) and all(os.path.exists(x) and os.path.getmtime(vo) >= os.path.getmtime(x) for x in srcs):
        return True, ""
    return lib.coq_make([target])


def shared_polar_runs():
    """all seeded probes of pass_constants / pass_dist and the two witnesses, run through the
    real Polar in ONE pool of worker processes (cached for the process)"""
    if "r" in _CACHE:
        return _CACHE["r"]
    import pass_dist
    texts_c = PROBES + [P.prog_text(p) for _, p, _, _ in WITNESSES]
    texts_d = list(pass_dist.PROBES)
    tasks = [{"kind": "pass_snapshots", "text": t, "opts": {}, "timeout": 60} for t in texts_c + texts_d]
    tasks += [{"kind": "analyze", "text": P.prog_text(p), "goals": [g], "nvals": WITNESS_N + 1, "all_monomials": False, "timeout": 90}
              for _, p, g, _ in WITNESSES]
    res = lib.run_tasks(tasks, timeout=90)

    def runs(texts, rs):
        return [{"text": t, "opts": {}, "snapshots": r.get("snapshots") or [], "probe": True} for t, r in zip(texts, rs) if "error" not in r]
    n1, n2 = len(texts_c), len(texts_c) + len(texts_d)
    _CACHE["r"] = {"constants": runs(texts_c, res[:n1]), "dist": runs(texts_d, res[n1:n2]), "witness": res[n2:]}
    return _CACHE["r"]


def probe_runs():
    return shared_polar_runs()["constants"]


def run_pass(ctx, runs):
    import time
    t0 = time.time()
    ok, log = ensure_built("theories/PassConstants.vo", ["theories/PassCNBase.vo"])
    cov = ctx.coverage.setdefault("pass_models", {})
    st = {"instances": 0, "model_equals_polar": 0, "hypothesis_constants_ok": 0, "hypothesis_false": 0, "something_folded": 0,
          "not_modelled": 0, "coq_failed": 0}
    cov["ConstantsTransformer"] = st
    if not ok:
        ctx.violation("pass-model:ConstantsTransformer:build", {"log": log[-2000:]}, "theories/PassConstants.v does not build", no_input=True)
        return
    cases, seen = [], set()
    probes = probe_runs()
    st["seeded_probes"] = len(probes)
    for run in list(runs) + probes:
        pair = snapshot_pair(run, "ConditionsReducer", "ConstantsTransformer")
        if pair is None:
            continue
        if pair == "unsupported":
            st["not_modelled"] += 1
            continue
        a, b = pair
        key = json.dumps([a["init"], a["body"], b["init"], b["body"]], sort_keys=True)
        if key in seen:
            continue
        seen.add(key)
        try:
            cases.append({"text": run["text"], "opts": run["opts"], "fin": flat_term(a), "fout": flat_term(b),
                          "folds": len(a["init"]) != len(b["init"])})
        except core.NotModelled:
            st["not_modelled"] += 1
    files = []
    for j in range(0, len(cases), PER_FILE):
        body = HEADER
        for k, c in enumerate(cases[j:j + PER_FILE]):
            body += f"Definition fin{k} : flatprog := {c['fin']}.\nDefinition fout{k} : flatprog := {c['fout']}.\n"
            body += (f"Eval vm_compute in [constants_matches_gen RCond fin{k} fout{k}; constants_ok_gen RCond fin{k}; "
                     f"constants_in_model_gen RCond fin{k}; wf_flat fin{k}; constants_matches_gen RCur fin{k} fout{k}; "
                     f"constants_in_model_gen RCur fin{k}; constants_matches_gen RFix fin{k} fout{k}; constants_in_model_gen RFix fin{k}].\n")
        files.append((f"pconst_{j // PER_FILE}", body))
    outs = lib.coq_run_many(ctx, files, timeout=300)
    import re
    rows = []
    for j in range(0, len(cases), PER_FILE):
        okc, o = outs[f"pconst_{j // PER_FILE}"]
        lists = re.findall(r"=\s*\[(.*?)\]\s*:\s*list bool", o, re.S) if okc else []
        chunk = cases[j:j + PER_FILE]
        if len(lists) != len(chunk):
            st["coq_failed"] += len(chunk)
            ctx.violation(f"pass-model:ConstantsTransformer:coq:{chunk[0]['text']}", {"output": o[-2000:], "programs": [c["text"] for c in chunk]},
                          "the ConstantsTransformer model could not be evaluated inside Coq on Polar's snapshots", no_input=True)
            continue
        for c, l in zip(chunk, lists):
            rows.append((c, [x.strip() == "true" for x in l.split(";")]))
    # the model of the code is rule RCond (/repo 99cc64b); for attribution also say whether the code behaves like
    # one of the superseded rules RFix (99cc64b missing) / RCur (5e78f4d missing as well)
    rule = "RCond"
    cond_all = all(bl[0] or not bl[2] for _, bl in rows)
    cur_all = all(bl[4] or not bl[5] for _, bl in rows)
    fix_all = all(bl[6] or not bl[7] for _, bl in rows)
    st["rule_followed_by_the_code"] = ("RCond" if cond_all else
                                       "RFix: superseded rule, /repo commit 99cc64b is not in this tree" if fix_all else
                                       "RCur: superseded rule, /repo fixes 5e78f4d and 99cc64b are not in this tree" if cur_all else
                                       "none of RCond / RFix / RCur")
    for c, bl6 in rows:
        bl = bl6[0:3]
        st["wf_flat"] = st.get("wf_flat", 0) + (1 if bl6[3] else 0)
        st["instances"] += 1
        if not bl[2]:
            # a default variable is itself a folded constant: Polar's output is not a flat program of the model
            st["outside_model_default_substituted"] = st.get("outside_model_default_substituted", 0) + 1
            if not bl[1]:
                st["hypothesis_false"] += 1
            continue
        ctx.coverage["obligations"] += 1
        ctx.count({"pass": "ConstantsTransformer", "t": c["text"]}, nontrivial=c["folds"])
        if c["folds"]:
            st["something_folded"] += 1
        if bl[1]:
            st["hypothesis_constants_ok"] += 1
        else:
            st["hypothesis_false"] += 1
            st.setdefault("hypothesis_false_programs", []).append(c["text"])
        if bl[0]:
            st["model_equals_polar"] += 1
            ctx.coverage["discharged"] += 1
        else:
            okm, om = lib.coq_run(ctx, "pconst_show", HEADER + f"Eval vm_compute in (constants_gen {rule} {c['fin']}).\n", timeout=120)
            ctx.violation(f"pass-model:ConstantsTransformer:{c['text']}",
                          {"program_text": c["text"], "options": c["opts"], "rule": rule,
                           "correspondence": f"PassConstants.constants_gen {rule} vs ConstantsTransformer.execute",
                           "polar_input": c["fin"], "polar_output": c["fout"], "model_output": om[-4000:] if okm else None,
                           "theorem": "props/C02_Constants.v: C02_constants_preserves is about the model, which no longer describes the code"},
                          "the model of ConstantsTransformer (PassConstants.constants) and the real pass produce different programs for\n" + c["text"],
                          no_input=True)
    print(f"  [pass ConstantsTransformer] rule={st['rule_followed_by_the_code']} instances={st['instances']} model==polar={st['model_equals_polar']} "
          f"constants_ok={st['hypothesis_constants_ok']} folded_something={st['something_folded']} not_modelled={st['not_modelled']} "
          f"wall={time.time() - t0:.1f}s", flush=True)
    st["witnesses_outside_hypothesis"] = run_witnesses(ctx)
    ctx.coverage["trusted_base"] += ["harness/pass_constants.py + harness/core.py: conversion of Polar's pass snapshots to Syntax.flatprog "
                                     "(the comparison itself, PassConstants.constants_matches, runs inside Coq)"]
    ctx.assumptions += ["ConstantsTransformer: C02_constants_preserves needs only the structural wf_flat (defaults / probability 1 as Polar's "
                        f"constructors build them; evaluated on every instance: {st.get('wf_flat', 0)}/{st['instances']} true), constants_ok then holds "
                        f"by construction ({st['hypothesis_constants_ok']} true); the two witnesses of the superseded rule (re-assignment of a constant in "
                        "the initial block, fixed in /repo 5e78f4d) are re-run against Polar and the exact semantics on every run"]
