"""T (C11): fail-closed Python-`ast` -> Gallina translator for the statistics conversions and
the tail-bound expressions of Polar.

Reads, on every run, from lib.REPO (honours POLAR_REPO):
  utils/statistics.py            comb, raw_moments_to_centrals, raw_moments_to_cumulants   (whole functions)
  cli/common.py                  get_all_moments                                           (whole function; the
                                 recursive analysis call get_moment(monom**i, ...) is an abstract parameter)
  cli/actions/goals_action.py    the statements computing `bounds` / `bound` in
                                 handle_tail_bound_upper_goal / handle_tail_bound_lower_goal (slices)
and writes coq/gen/StatsGen.v (logical path PolarGen.StatsGen), definitions over Qc in the small
"Python runtime" of Polar.Stats (pydict, pyrange, py_truediv, py_int, zfact ...).

Subset: assignments, augmented assignments, dict-item assignments, `for v in [reversed(]range(..)[)]`
accumulation loops (-> fold_left), conditional expressions, integer comparisons, + - * / // **,
list comprehension over d.items() (-> map), x.reverse(), value-preserving CAS calls
(.expand(), .simplify(), sympify) as identity, int(), factorial(), len(d.items()).
Integer-valued Python expressions are typed nat (indices) or Z; every nat subtraction gets a
generated side lemma `..._nat_sub_k` (proved by lia from the enclosing range / branch
conditions) so that truncated subtraction provably never differs from Python's.
Anything else raises Abort (file:line) and the check reports the tie as broken."""
import ast
import re
import os
import sys

sys.path.insert(0, os.path.dirname(os.path.abspath(__file__)))
import lib  # noqa: E402


class Abort(Exception):
    pass


COQTY = {"nat": "nat", "Z": "Z", "F": "Q", "Qc": "Qc", "bool": "bool", "dict": "pydict", "listQc": "list Qc",
         "natfun": "nat -> Qc", "natpred": "nat -> bool", "combfun": "nat -> nat -> Z", "dictbool": "(pydict * bool)%type"}
RANK = {"nat": 0, "Z": 1, "Qc": 2}


class E:
    """typed Coq expression"""
    def __init__(self, text, ty, lit=None):
        self.text, self.ty, self.lit = text, ty, lit


class Tr:
    def __init__(self, fname, src_file, sigs):
        self.fname = fname
        self.file = src_file
        self.sigs = sigs          # callable name -> (arg types, result type)
        self.side = []            # generated side lemmas (text)
        self.nside = 0

    def abort(self, node, why):
        raise Abort(f"{self.file}:{getattr(node, 'lineno', '?')}: {why} [{ast.dump(node)[:160]}]")

    # ---- coercions ---------------------------------------------------------------
    def to(self, e, ty, node):
        if e.ty == ty:
            return e
        if e.ty == "nat" and ty == "Z":
            return E(f"{e.lit}%Z" if e.lit is not None else f"(Z.of_nat {e.text})", "Z", e.lit)
        if e.ty == "nat" and ty == "Qc":
            return E(f"(zq {e.lit})" if e.lit is not None else f"(zq (Z.of_nat {e.text}))", "Qc")
        if e.ty == "Z" and ty == "Qc":
            return E(f"(zq {e.text})", "Qc")
        self.abort(node, f"cannot coerce {e.ty} to {ty}")

    def join(self, a, b, node):
        if a.ty in RANK and b.ty in RANK:
            t = a.ty if RANK[a.ty] >= RANK[b.ty] else b.ty
            return self.to(a, t, node), self.to(b, t, node), t
        self.abort(node, f"arithmetic on {a.ty} and {b.ty}")

    # ---- side conditions ---------------------------------------------------------
    def nat_sub_ok(self, a, b, env, hyps, node):
        self.nside += 1
        binders = " ".join(f"({v} : {COQTY[t]})" for v, t in env.items() if t in COQTY)
        hy = "".join(f"{h} -> " for h in hyps)
        self.side.append(
            f"Lemma {self.fname}_nat_sub_{self.nside} : forall {binders}, {hy}({b.text} <= {a.text})%nat.\n"
            f"Proof. intros; lia. Qed.   (* line {node.lineno}: Python's {ast.unparse(node)} is never negative here *)")

    # ---- expressions -------------------------------------------------------------
    def expr(self, n, env, hyps):
        if isinstance(n, ast.Constant):
            if isinstance(n.value, bool):
                return E("true" if n.value else "false", "bool")
            if isinstance(n.value, int) and n.value >= 0:
                return E(f"{n.value}%nat", "nat", lit=n.value)
            self.abort(n, "constant outside the subset")
        if isinstance(n, ast.Name):
            if n.id not in env:
                self.abort(n, f"unknown variable {n.id}")
            return E(n.id, env[n.id])
        if isinstance(n, ast.UnaryOp) and isinstance(n.op, ast.USub):
            a = self.expr(n.operand, env, hyps)
            if a.ty == "nat":
                a = self.to(a, "Z", n)
            if a.ty == "Z":
                return E(f"(- {a.text})%Z", "Z")
            if a.ty == "Qc":
                return E(f"(- {a.text})", "Qc")
            self.abort(n, "unary minus")
        if isinstance(n, ast.BinOp):
            return self.binop(n, env, hyps)
        if isinstance(n, ast.BoolOp) and isinstance(n.op, ast.And):
            xs = [self.expr(v, env, hyps) for v in n.values]
            if any(x.ty != "bool" for x in xs):
                self.abort(n, "and on non-bool")
            t = xs[0].text
            for x in xs[1:]:
                t = f"(andb {t} {x.text})"
            return E(t, "bool")
        if isinstance(n, ast.Compare):
            b, _ = self.compare(n, env, hyps)
            return E(b, "bool")
        if isinstance(n, ast.IfExp):
            b, (pt, pf) = self.compare(n.test, env, hyps)
            x = self.expr(n.body, env, hyps + [pt])
            y = self.expr(n.orelse, env, hyps + [pf])
            if x.ty in RANK and y.ty in RANK:
                x, y, t = self.join(x, y, n)
            elif x.ty == y.ty:
                t = x.ty
            else:
                self.abort(n, "branches of different type")
            return E(f"(if {b} then {x.text} else {y.text})", t)
        if isinstance(n, ast.Subscript):
            d = self.expr(n.value, env, hyps)
            k = self.expr(n.slice, env, hyps)
            if d.ty != "dict" or k.ty != "nat":
                self.abort(n, "subscript outside the subset (dict[int])")
            return E(f"(dget {d.text} {k.text})", "Qc")
        if isinstance(n, ast.Call):
            return self.call(n, env, hyps)
        if isinstance(n, ast.ListComp):
            return self.listcomp(n, env, hyps)
        if isinstance(n, ast.Dict):
            t = "dempty"
            for k, v in zip(n.keys, n.values):
                ke = self.expr(k, env, hyps)
                ve = self.to(self.expr(v, env, hyps), "Qc", n)
                if ke.ty != "nat":
                    self.abort(n, "dict key")
                t = f"(dset {t} {ke.text} {ve.text})"
            return E(t, "dict")
        if isinstance(n, ast.Tuple):
            xs = [self.expr(v, env, hyps) for v in n.elts]
            if [x.ty for x in xs] == ["dict", "bool"]:
                return E(f"({xs[0].text}, {xs[1].text})", "dictbool")
            self.abort(n, "tuple outside the subset")
        self.abort(n, "expression outside the subset")

    def compare(self, n, env, hyps):
        """-> (bool text, (Prop when true, Prop when false))"""
        if not isinstance(n, ast.Compare) or len(n.ops) != 1:
            self.abort(n, "condition outside the subset")
        a = self.expr(n.left, env, hyps)
        b = self.expr(n.comparators[0], env, hyps)
        if a.ty != "nat" or b.ty != "nat":
            self.abort(n, "comparison of non-indices")
        op = n.ops[0]
        x, y = a.text, b.text
        tbl = {ast.Gt: (f"({y} <? {x})%nat", f"({y} < {x})%nat", f"({x} <= {y})%nat"),
               ast.Lt: (f"({x} <? {y})%nat", f"({x} < {y})%nat", f"({y} <= {x})%nat"),
               ast.GtE: (f"({y} <=? {x})%nat", f"({y} <= {x})%nat", f"({x} < {y})%nat"),
               ast.LtE: (f"({x} <=? {y})%nat", f"({x} <= {y})%nat", f"({y} < {x})%nat"),
               ast.Eq: (f"({x} =? {y})%nat", f"({x} = {y})%nat", f"({x} <> {y})%nat")}
        if type(op) not in tbl:
            self.abort(n, "comparison operator")
        b_, pt, pf = tbl[type(op)]
        return b_, (pt, pf)

    def binop(self, n, env, hyps):
        a = self.expr(n.left, env, hyps)
        b = self.expr(n.right, env, hyps)
        op = n.op
        if isinstance(op, ast.Pow):
            if b.ty != "nat":
                self.abort(n, "exponent is not a natural number")
            if a.ty == "nat":
                a = self.to(a, "Z", n)
            if a.ty == "Z":
                return E(f"({a.text} ^ Z.of_nat {b.text})%Z", "Z")
            if a.ty == "Qc":
                return E(f"(qpow {a.text} {b.text})", "Qc")
            self.abort(n, "power")
        if isinstance(op, ast.Div):
            if a.ty in ("nat", "Z") and b.ty in ("nat", "Z"):
                a, b = self.to(a, "Z", n), self.to(b, "Z", n)
                return E(f"(py_truediv {a.text} {b.text})", "F")      # int / int -> float
            a, b, t = self.join(a, b, n)
            return E(f"({a.text} / {b.text})", "Qc")
        if isinstance(op, ast.FloorDiv):
            if a.ty in ("nat", "Z") and b.ty in ("nat", "Z"):
                a, b = self.to(a, "Z", n), self.to(b, "Z", n)
                return E(f"({a.text} / {b.text})%Z", "Z")                 # int // int: floor division = Z.div
            self.abort(n, "floor division of non-integers")
        sym = {ast.Add: "+", ast.Sub: "-", ast.Mult: "*"}.get(type(op))
        if sym is None:
            self.abort(n, "operator outside the subset")
        a, b, t = self.join(a, b, n)
        if t == "nat":
            if sym == "-":
                self.nat_sub_ok(a, b, env, hyps, n)
            return E(f"({a.text} {sym} {b.text})%nat", "nat")
        if t == "Z":
            return E(f"({a.text} {sym} {b.text})%Z", "Z")
        return E(f"({a.text} {sym} {b.text})", "Qc")

    def call(self, n, env, hyps):
        f = n.func
        if n.keywords:
            self.abort(n, "keyword arguments")
        if isinstance(f, ast.Attribute):
            if f.attr in ("expand", "simplify") and not n.args:
                x = self.expr(f.value, env, hyps)       # value-preserving CAS normalisation
                return self.to(x, "Qc", n)
            if f.attr == "items" and not n.args:
                x = self.expr(f.value, env, hyps)
                if x.ty != "dict":
                    self.abort(n, ".items() of a non-dict")
                return E(f"(ditems {x.text})", "items")
            self.abort(n, f"method {f.attr} outside the subset")
        if not isinstance(f, ast.Name):
            self.abort(n, "call outside the subset")
        name = f.id
        if name == "sympify" and len(n.args) == 1:
            return self.to(self.expr(n.args[0], env, hyps), "Qc", n)
        if name == "int" and len(n.args) == 1:
            x = self.expr(n.args[0], env, hyps)
            if x.ty == "F":
                return E(f"(py_int {x.text})", "Z")
            if x.ty in ("nat", "Z"):
                return self.to(x, "Z", n)
            self.abort(n, "int() of a symbolic value")
        if name == "factorial" and len(n.args) == 1:
            x = self.expr(n.args[0], env, hyps)
            if x.ty != "nat":
                self.abort(n, "factorial of a non-index")
            return E(f"(zfact {x.text})", "Z")
        if name == "len" and len(n.args) == 1:
            x = self.expr(n.args[0], env, hyps)
            if x.ty == "items":
                return E(f"(length {x.text})", "nat")
            if x.ty == "dict":
                return E(f"(dlen {x.text})", "nat")
            self.abort(n, "len")
        if name in self.sigs:
            argt, rt = self.sigs[name]
            if len(argt) != len(n.args):
                self.abort(n, f"arity of {name}")
            xs = []
            for a, t in zip(n.args, argt):
                x = self.expr(a, env, hyps)
                if x.ty != t:
                    self.abort(n, f"argument of {name}: {x.ty} for {t}")
                xs.append(x.text)
            if name not in env:
                self.abort(n, f"{name} is not in scope")
            return E(f"({name} {' '.join(xs)})", rt)
        self.abort(n, f"call of {name} outside the subset")

    def listcomp(self, n, env, hyps):
        if len(n.generators) != 1:
            self.abort(n, "comprehension")
        g = n.generators[0]
        if g.ifs or g.is_async:
            self.abort(n, "comprehension filter")
        it = self.expr(g.iter, env, hyps)
        if it.ty != "items" or not (isinstance(g.target, ast.Tuple) and len(g.target.elts) == 2
                                    and all(isinstance(x, ast.Name) for x in g.target.elts)):
            self.abort(n, "comprehension is not `for k, m in d.items()`")
        k, m = g.target.elts[0].id, g.target.elts[1].id
        env2 = dict(env)
        env2[k] = "nat"
        env2[m] = "Qc"
        body = self.to(self.expr(n.elt, env2, hyps), "Qc", n)
        return E(f"(map (fun '(({k}, {m}) : nat * Qc) => {body.text}) {it.text})", "listQc")

    # ---- statements --------------------------------------------------------------
    def assigned(self, stmts):
        out = []
        for s in stmts:
            for x in ast.walk(s):
                if isinstance(x, ast.Name) and isinstance(x.ctx, ast.Store):
                    out.append(x.id)
                if isinstance(x, (ast.Assign, ast.AugAssign)):
                    tg = x.targets if isinstance(x, ast.Assign) else [x.target]
                    for t in tg:
                        if isinstance(t, ast.Subscript) and isinstance(t.value, ast.Name):
                            out.append(t.value.id)
                if isinstance(x, ast.Call) and isinstance(x.func, ast.Attribute) and x.func.attr == "reverse" \
                        and isinstance(x.func.value, ast.Name):
                    out.append(x.func.value.id)
        seen = []
        for v in out:
            if v not in seen:
                seen.append(v)
        return seen

    def block(self, stmts, env, hyps, tail, ind):
        """translate a statement list; `tail(env)` gives the final expression text"""
        if not stmts:
            return tail(env)
        s, rest = stmts[0], stmts[1:]
        pad = "  " * ind
        if isinstance(s, ast.Return):
            if rest:
                self.abort(s, "code after return")
            e = self.expr(s.value, env, hyps)
            self.ret_ty = e.ty
            return e.text
        if isinstance(s, ast.Assign) and len(s.targets) == 1:
            t = s.targets[0]
            if isinstance(t, ast.Name):
                e = self.expr(s.value, env, hyps)
                env2 = dict(env)
                env2[t.id] = e.ty
                return f"let {t.id} := {e.text} in\n{pad}" + self.block(rest, env2, hyps, tail, ind)
            if isinstance(t, ast.Subscript) and isinstance(t.value, ast.Name) and env.get(t.value.id) == "dict":
                k = self.expr(t.slice, env, hyps)
                v = self.to(self.expr(s.value, env, hyps), "Qc", s)
                if k.ty != "nat":
                    self.abort(s, "dict key is not an index")
                d = t.value.id
                return f"let {d} := dset {d} {k.text} {v.text} in\n{pad}" + self.block(rest, env, hyps, tail, ind)
            if isinstance(t, ast.Tuple) and self.opaque_pair(s):
                (v1, v2), (e1, e2) = self.opaque_pair(s), self.opaque_pair_rhs(s, env, hyps)
                env2 = dict(env)
                env2[v1], env2[v2] = "Qc", "bool"
                return (f"let {v1} := {e1} in\n{pad}let {v2} := {e2} in\n{pad}" +
                        self.block(rest, env2, hyps, tail, ind))
            self.abort(s, "assignment target outside the subset")
        if isinstance(s, ast.AugAssign) and isinstance(s.target, ast.Name) and isinstance(s.op, (ast.Add, ast.Sub)):
            v = s.target.id
            if v not in env:
                self.abort(s, f"unknown variable {v}")
            fake = ast.BinOp(left=ast.Name(id=v, ctx=ast.Load()), op=s.op, right=s.value)
            ast.copy_location(fake, s)
            ast.fix_missing_locations(fake)
            e = self.expr(fake, env, hyps)
            if e.ty != env[v]:
                self.abort(s, f"{v} changes type from {env[v]} to {e.ty}")
            return f"let {v} := {e.text} in\n{pad}" + self.block(rest, env, hyps, tail, ind)
        if isinstance(s, ast.Expr) and isinstance(s.value, ast.Call) and isinstance(s.value.func, ast.Attribute) \
                and s.value.func.attr == "reverse" and not s.value.args and isinstance(s.value.func.value, ast.Name):
            v = s.value.func.value.id
            if env.get(v) != "listQc":
                self.abort(s, "reverse of a non-list")
            return f"let {v} := rev {v} in\n{pad}" + self.block(rest, env, hyps, tail, ind)
        if isinstance(s, ast.For):
            return self.loop(s, rest, env, hyps, tail, ind)
        self.abort(s, "statement outside the subset")

    def range_of(self, it, env, hyps, node):
        rev = False
        if isinstance(it, ast.Call) and isinstance(it.func, ast.Name) and it.func.id == "reversed" and len(it.args) == 1:
            rev = True
            it = it.args[0]
        if not (isinstance(it, ast.Call) and isinstance(it.func, ast.Name) and it.func.id == "range"
                and 1 <= len(it.args) <= 2 and not it.keywords):
            self.abort(node, "loop is not over range(a[, b])")
        xs = [self.expr(a, env, hyps) for a in it.args]
        if any(x.ty != "nat" for x in xs):
            self.abort(node, "range bound is not an index")
        lo, hi = ("0%nat", xs[0].text) if len(xs) == 1 else (xs[0].text, xs[1].text)
        r = f"(pyrange {lo} {hi})"
        return (f"(rev {r})" if rev else r), lo, hi

    def loop(self, s, rest, env, hyps, tail, ind):
        if s.orelse or not isinstance(s.target, ast.Name):
            self.abort(s, "loop shape")
        v = s.target.id
        rng, lo, hi = self.range_of(s.iter, env, hyps, s)
        carried = [x for x in self.assigned(s.body) if x in env and x != v]
        if not carried:
            self.abort(s, "loop without effect")
        if v in env:
            self.abort(s, f"loop variable {v} shadows an outer variable")
        pat = carried[0] if len(carried) == 1 else "'(" + ", ".join(carried) + ")"
        tup = carried[0] if len(carried) == 1 else "(" + ", ".join(carried) + ")"
        env_b = dict(env)
        env_b[v] = "nat"
        hy_b = hyps + [f"({lo} <= {v})%nat", f"({v} < {hi})%nat"]
        pad = "  " * ind

        def body_tail(e2):
            for c in carried:
                if e2.get(c) != env[c]:
                    self.abort(s, f"{c} changes type in the loop")
            return tup
        body = self.block(s.body, env_b, hy_b, body_tail, ind + 2)
        txt = (f"let {pat} :=\n{pad}  fold_left (fun {pat} ({v} : nat) =>\n{pad}    {body})\n"
               f"{pad}  {rng} {tup} in\n{pad}")
        # variables first assigned inside the body are loop-local: not visible afterwards
        return txt + self.block(rest, env, hyps, tail, ind)

    # get_moment(monom ** i, ...) : the recursive analysis is an abstract parameter
    def opaque_pair(self, s):
        t = s.targets[0]
        if isinstance(t, ast.Tuple) and len(t.elts) == 2 and all(isinstance(x, ast.Name) for x in t.elts) \
                and isinstance(s.value, ast.Call) and isinstance(s.value.func, ast.Name) \
                and s.value.func.id == "get_moment":
            return t.elts[0].id, t.elts[1].id
        return None

    def opaque_pair_rhs(self, s, env, hyps):
        c = s.value
        a0 = c.args[0] if c.args else None
        if not (isinstance(a0, ast.BinOp) and isinstance(a0.op, ast.Pow) and isinstance(a0.left, ast.Name)
                and a0.left.id == "monom"):
            self.abort(s, "get_moment is not called on monom ** i")
        i = self.expr(a0.right, env, hyps)
        if i.ty != "nat":
            self.abort(s, "moment order is not an index")
        return f"(get_moment_pow {i.text})", f"(get_moment_exact {i.text})"


def find_func(tree, name, cls=None):
    body = tree.body
    if cls:
        cs = [n for n in body if isinstance(n, ast.ClassDef) and n.name == cls]
        if len(cs) != 1:
            raise Abort(f"class {cls} not found exactly once")
        body = cs[0].body
    fs = [n for n in body if isinstance(n, ast.FunctionDef) and n.name == name]
    if len(fs) != 1:
        raise Abort(f"function {name} not found exactly once")
    return fs[0]


def strip_doc(body):
    if body and isinstance(body[0], ast.Expr) and isinstance(body[0].value, ast.Constant) \
            and isinstance(body[0].value.value, str):
        return body[1:]
    return body


def params(fn):
    a = fn.args
    if a.vararg or a.kwarg or a.kwonlyargs or a.defaults or a.posonlyargs:
        raise Abort(f"{fn.name}: parameter list outside the subset")
    return [x.arg for x in a.args]


def translate_function(path, tree, name, ptypes, sigs, extra_env=None, coq_name=None, extra_binders=""):
    fn = find_func(tree, name)
    ps = params(fn)
    if ps != [p for p, _ in ptypes]:
        raise Abort(f"{path}: parameters of {name} are {ps}, expected {[p for p, _ in ptypes]}")
    tr = Tr(coq_name or name, path, sigs)
    env = dict(extra_env or {})
    for p, t in ptypes:
        if t is not None:
            env[p] = t
    tr.ret_ty = None

    def no_tail(_e):
        raise Abort(f"{path}: {name} can fall off its end")
    body = tr.block(strip_doc(fn.body), env, [], no_tail, 1)
    binders = " ".join(f"({p} : {COQTY[t]})" for p, t in ptypes if t is not None)
    txt = (f"(* {os.path.relpath(path, lib.REPO)}:{fn.lineno}  def {name}({', '.join(ps)}) *)\n"
           f"Definition {coq_name or name} {extra_binders}{binders} : {COQTY[tr.ret_ty]} :=\n  {body}.\n")
    if tr.side:
        txt += "\n".join(tr.side) + "\n"
    return txt


# ---- slices of GoalsAction.handle_tail_bound_*_goal -----------------------------------
def is_after_loop_if(s, var):
    """if self.cli_args.after_loop: var = transform_to_after_loop(var)   (limit n -> oo; not modelled)"""
    if not (isinstance(s, ast.If) and not s.orelse and ast.unparse(s.test) == "self.cli_args.after_loop" and len(s.body) == 1):
        return False
    txt = ast.unparse(s.body[0])
    if txt == f"{var} = transform_to_after_loop({var})":
        return True
    # elementwise form (repo a5d5e26): var = [transform_to_after_loop(b) for b in var]
    m = re.fullmatch(rf"{re.escape(var)} = \[transform_to_after_loop\((\w+)\) for (\w+) in {re.escape(var)}\]", txt)
    return bool(m and m.group(1) == m.group(2))


def writes(node, var):
    for x in ast.walk(node):
        if isinstance(x, ast.Name) and x.id == var and isinstance(x.ctx, (ast.Store, ast.Del)):
            return True
        if isinstance(x, ast.Call) and isinstance(x.func, ast.Attribute) and isinstance(x.func.value, ast.Name) \
                and x.func.value.id == var and x.func.attr in ("reverse", "sort", "append", "pop", "insert",
                                                               "remove", "clear", "extend", "update", "setdefault"):
            return True
        if isinstance(x, (ast.Assign, ast.AugAssign)):
            tg = x.targets if isinstance(x, ast.Assign) else [x.target]
            for t in tg:
                if isinstance(t, ast.Subscript) and isinstance(t.value, ast.Name) and t.value.id == var:
                    return True
    return False


def moments_source(path, fn, expect_order):
    """the dict `moments` must come from get_all_moments[_given_termination](monom, <order>, ...)
    in both branches of `if self.cli_args.after_loop`; returns the order expression text"""
    orders = []
    for x in ast.walk(fn):
        if isinstance(x, ast.Assign) and isinstance(x.targets[0], ast.Tuple) and \
                [ast.unparse(e) for e in x.targets[0].elts] == ["moments", "is_exact"]:
            c = x.value
            if not (isinstance(c, ast.Call) and isinstance(c.func, ast.Name)
                    and c.func.id in ("get_all_moments", "get_all_moments_given_termination") and len(c.args) >= 2
                    and ast.unparse(c.args[0]) == "monom"):
                raise Abort(f"{path}:{x.lineno}: moments does not come from get_all_moments(monom, ...)")
            orders.append(ast.unparse(c.args[1]))
        elif writes(x, "moments") and isinstance(x, (ast.Assign, ast.AugAssign, ast.Expr)):
            raise Abort(f"{path}:{x.lineno}: moments is modified")
    if len(orders) != 2 or orders[0] != orders[1] or orders[0] != expect_order:
        raise Abort(f"{path}:{fn.lineno}: moment orders requested are {orders}, expected {expect_order} twice")
    return orders[0]


def translate_slice(path, tree, cls, name, var, coq_name, sigs):
    fn = find_func(tree, name, cls)
    if params(fn) != ["self", "goal_data"]:
        raise Abort(f"{path}: parameters of {name}")
    body = strip_doc(fn.body)
    if not body or ast.unparse(body[0]) != "monom, a = (goal_data[0], goal_data[1])":
        raise Abort(f"{path}:{fn.lineno}: {name} does not start with `monom, a = goal_data[0], goal_data[1]`")
    sl = []
    for s in body[1:]:
        if is_after_loop_if(s, var):
            continue
        if isinstance(s, ast.Assign) and len(s.targets) == 1 and isinstance(s.targets[0], ast.Name) \
                and s.targets[0].id == var:
            sl.append(s)
        elif isinstance(s, ast.Expr) and isinstance(s.value, ast.Call) and isinstance(s.value.func, ast.Attribute) \
                and isinstance(s.value.func.value, ast.Name) and s.value.func.value.id == var \
                and s.value.func.attr == "reverse":
            sl.append(s)
        elif writes(s, var) or writes(s, "a"):
            raise Abort(f"{path}:{s.lineno}: `{var}` (or `a`) is written by a statement outside the slice")
    if not sl:
        raise Abort(f"{path}: no statement computes `{var}` in {name}")
    ret = ast.Return(value=ast.Name(id=var, ctx=ast.Load()))
    ast.copy_location(ret, sl[-1])
    ast.fix_missing_locations(ret)
    tr = Tr(coq_name, path, sigs)
    tr.ret_ty = None
    txt = tr.block(sl + [ret], {"a": "Qc", "moments": "dict"}, [], lambda e: "", 1)
    out = (f"(* {os.path.relpath(path, lib.REPO)}:{fn.lineno}  GoalsAction.{name}: the statements computing `{var}`\n"
           + "".join(f"     {ln}\n" for s in sl for ln in ast.unparse(s).splitlines()) + "*)\n"
           f"Definition {coq_name} (a : Qc) (moments : pydict) : {COQTY[tr.ret_ty]} :=\n  {txt}.\n")
    if tr.side:
        out += "\n".join(tr.side) + "\n"
    return out, fn


HEADER = """(* GENERATED by harness/translate_stats.py on every run of ./check C11 -- do not edit.
   Source tree: %s *)
From Coq Require Import List ZArith QArith Qcanon Lia Arith Bool.
From Polar Require Import Qcx Stats.
Import ListNotations.
Local Open Scope Qc_scope.

"""


def generate(repo=None):
    repo = repo or lib.REPO
    p_stat = os.path.join(repo, "utils", "statistics.py")
    p_goal = os.path.join(repo, "cli", "actions", "goals_action.py")
    p_comm = os.path.join(repo, "cli", "common.py")
    trees = {}
    for p in (p_stat, p_goal, p_comm):
        with open(p) as f:
            trees[p] = ast.parse(f.read(), p)
    out = HEADER % repo
    # --- utils/statistics.py -------------------------------------------------------
    st = trees[p_stat]
    defs = [n.name for n in st.body if isinstance(n, ast.FunctionDef)]
    if sorted(defs) != ["comb", "raw_moments_to_centrals", "raw_moments_to_cumulants"]:
        raise Abort(f"{p_stat}: module functions are {defs}")
    for n in st.body:
        if isinstance(n, ast.ImportFrom) and n.module == "math":
            if [a.name for a in n.names if a.name == "factorial"] != ["factorial"] or \
                    any(a.asname for a in n.names):
                raise Abort(f"{p_stat}: factorial is not math.factorial")
        elif isinstance(n, (ast.ImportFrom, ast.Import, ast.FunctionDef)):
            pass
        else:
            raise Abort(f"{p_stat}:{n.lineno}: module-level statement outside the subset")
    if not any(isinstance(n, ast.ImportFrom) and n.module == "math" and any(a.name == "factorial" for a in n.names)
               for n in st.body):
        raise Abort(f"{p_stat}: factorial is not imported from math")
    sigs = {"comb": (["nat", "nat"], "Z")}
    out += translate_function(p_stat, st, "comb", [("n", "nat"), ("k", "nat")], {})
    out += ("\n(* the two conversions, parametric in the function bound to the name `comb` *)\n"
            "Section WithComb.\nVariable comb : nat -> nat -> Z.\n\n")
    for f in ("raw_moments_to_cumulants", "raw_moments_to_centrals"):
        out += translate_function(p_stat, st, f, [("moments", "dict")], sigs, extra_env={"comb": "combfun"},
                                  coq_name=f + "_with") + "\n"
    out += "End WithComb.\n\n"
    out += "Definition raw_moments_to_cumulants := raw_moments_to_cumulants_with comb.\n"
    out += "Definition raw_moments_to_centrals := raw_moments_to_centrals_with comb.\n\n"
    # --- cli/common.py: get_all_moments ---------------------------------------------
    out += ("(* get_moment(monom ** i, ...) -- the moment analysis itself -- is a parameter:\n"
            "   get_moment_pow i is its first component, get_moment_exact i the second *)\n")
    out += translate_function(
        p_comm, trees[p_comm], "get_all_moments",
        [("monom", None), ("max_moment", "nat"), ("solvers", None), ("rec_builder", None), ("cli_args", None),
         ("program", None)], {}, extra_env={},
        extra_binders="(get_moment_pow : nat -> Qc) (get_moment_exact : nat -> bool) ") + "\n"
    # --- cli/actions/goals_action.py -------------------------------------------------
    gt = trees[p_goal]
    up, fn_up = translate_slice(p_goal, gt, "GoalsAction", "handle_tail_bound_upper_goal", "bounds",
                                "tail_bound_upper", {})
    moments_source(p_goal, fn_up, "self.cli_args.tail_bound_moments")
    lo, fn_lo = translate_slice(p_goal, gt, "GoalsAction", "handle_tail_bound_lower_goal", "bound",
                                "tail_bound_lower", {})
    order = moments_source(p_goal, fn_lo, "2")
    out += up + "\n" + lo + "\n"
    out += f"(* handle_tail_bound_lower_goal requests get_all_moments(monom, {order}, ...) *)\n"
    out += f"Definition tail_bound_lower_order : nat := {order}%nat.\n"
    return out


def main():
    text = generate()
    path = os.path.join(lib.COQ, "gen", "StatsGen.v")
    changed = lib.write_if_changed(path, text)
    return path, changed


if __name__ == "__main__":
    try:
        p, ch = main()
        print(p, "changed" if ch else "unchanged")
    except Abort as e:
        print("ABORT:", e)
        sys.exit(2)
