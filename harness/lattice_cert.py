"""UNTRUSTED producers of the certificates consumed by the Coq validators of
coq/theories/Lattice*.v (C16, C07), and the Polar-independent oracles used for the search.
Exact integer / Fraction arithmetic only (plain Python; sympy only for factorint).

Conventions (same as Lattice.v): vectors are rows, `x * M`; a matrix is the list of its rows.
Vals has one ROW per unknown; the constraint on x is  x * Vals = 0."""
from fractions import Fraction
from math import gcd


# ---- small exact matrix helpers ------------------------------------------------------
def matmul(A, B):
    if not A:
        return []
    m = len(B[0]) if B else 0
    return [[sum(a * B[j][c] for j, a in enumerate(row)) for c in range(m)] for row in A]


def transpose(A, ncols=None):
    if not A:
        return [[] for _ in range(ncols or 0)]
    return [list(c) for c in zip(*A)]


def identity(n):
    return [[1 if i == j else 0 for j in range(n)] for i in range(n)]


def det_adj(G):
    """(det, adjugate) of a square Fraction/int matrix, exact (via inverse over Q)."""
    n = len(G)
    if n == 0:
        return 1, []
    A = [[Fraction(x) for x in row] + [Fraction(1 if i == j else 0) for j in range(n)] for i, row in enumerate(G)]
    det = Fraction(1)
    for c in range(n):
        piv = next((r for r in range(c, n) if A[r][c] != 0), None)
        if piv is None:
            return 0, None
        if piv != c:
            A[c], A[piv] = A[piv], A[c]
            det = -det
        det *= A[c][c]
        inv = 1 / A[c][c]
        A[c] = [x * inv for x in A[c]]
        for r in range(n):
            if r != c and A[r][c] != 0:
                f = A[r][c]
                A[r] = [x - f * y for x, y in zip(A[r], A[c])]
    inv = [row[n:] for row in A]
    adj = [[x * det for x in row] for row in inv]
    return det, adj


def to_int_matrix(M):
    out = []
    for row in M:
        r = []
        for x in row:
            x = Fraction(x)
            if x.denominator != 1:
                return None
            r.append(int(x))
        out.append(r)
    return out


def right_inverse_scaled(M1):
    """M1: s x m integer matrix of rank s -> (Rt (m x s integer), d != 0) with M1 * Rt = d * I_s,
    or None when the rank is smaller."""
    s = len(M1)
    if s == 0:
        return [], 1
    G = matmul(M1, transpose(M1))
    det, adj = det_adj(G)
    if det == 0:
        return None
    Rt = matmul(transpose(M1), adj)
    Rt = to_int_matrix(Rt)
    d = Fraction(det)
    assert Rt is not None and d.denominator == 1
    d = int(d)
    g = abs(d)
    for row in Rt:
        for x in row:
            g = gcd(g, abs(x))
    if g > 1:
        Rt = [[x // g for x in row] for row in Rt]
        d //= g
    return Rt, d


# ---- integer kernel (oracle) ---------------------------------------------------------
def integer_kernel(Vals, n):
    """Basis (rows, length n) of {x in Z^n : x * Vals = 0}, by unimodular row operations on
    [Vals | I_n].  The result is a basis of the full (saturated) integer kernel."""
    m = len(Vals[0]) if Vals else 0
    A = [list(Vals[i]) + [1 if i == j else 0 for j in range(n)] for i in range(n)]
    top = 0
    for c in range(m):
        # gcd-eliminate column c among rows top..n-1
        while True:
            nz = [r for r in range(top, n) if A[r][c] != 0]
            if len(nz) <= 1:
                break
            p = min(nz, key=lambda r: abs(A[r][c]))
            for r in nz:
                if r != p:
                    q = A[r][c] // A[p][c]
                    A[r] = [x - q * y for x, y in zip(A[r], A[p])]
        nz = [r for r in range(top, n) if A[r][c] != 0]
        if nz:
            A[top], A[nz[0]] = A[nz[0]], A[top]
            top += 1
    return [row[m:] for row in A[top:]]


def in_span_Z(B, e):
    """is e an integer combination of the (independent) rows of B ?  -> coefficient list or None"""
    if not B:
        return [] if all(x == 0 for x in e) else None
    G = matmul(B, transpose(B))
    det, adj = det_adj(G)
    if det == 0:
        raise ValueError("dependent rows")
    c = matmul([list(e)], matmul(transpose(B), adj))[0]
    c = [Fraction(x) / det for x in c]
    if any(x.denominator != 1 for x in c):
        return None
    c = [int(x) for x in c]
    if matmul([c], B)[0] != list(e):
        return None
    return c


# ---- certificates --------------------------------------------------------------------
def independence_cert(B):
    """B r x k integer -> (Rb (k x r), d) with B * Rb = d * I_r, or None if rows dependent"""
    return right_inverse_scaled(B)


def complete_unimodular(B, n):
    """B: r x n integer rows.  -> V1 ((n-r) x n) with [V1; B] unimodular, or None when the
    lattice spanned by B is not saturated / B is rank deficient."""
    r = len(B)
    A = [list(row) for row in B]
    Q = identity(n)  # column operations accumulated:  A = B * Q

    def colop_sub(i, j, q):  # col_i -= q * col_j
        for M in (A, Q):
            for row in M:
                row[i] -= q * row[j]

    def colswap(i, j):
        for M in (A, Q):
            for row in M:
                row[i], row[j] = row[j], row[i]

    for i in range(r):
        while True:
            nz = [c for c in range(i, n) if A[i][c] != 0]
            if len(nz) <= 1:
                break
            p = min(nz, key=lambda c: abs(A[i][c]))
            for c in nz:
                if c != p:
                    colop_sub(c, p, A[i][c] // A[i][p])
        nz = [c for c in range(i, n) if A[i][c] != 0]
        if not nz:
            return None
        if nz[0] != i:
            colswap(i, nz[0])
        if abs(A[i][i]) != 1:
            return None
    # U = Q^{-1}; rows r.. of U complete B
    det, adj = det_adj(Q)
    U = to_int_matrix([[x / det for x in row] for row in adj])
    if U is None:
        return None
    return U[r:]


def generation_cert(Vals, B, n):
    """-> dict(V1, Wa, Wc, Rt, d) accepted by Lattice.check_generates_Z for
    'every x in Z^n with x*Vals = 0 is an integer combination of the rows of B', or
    (None, reason)."""
    r = len(B)
    s = n - r
    if s < 0:
        return None, "more rows than coordinates"
    if r and any(len(b) != n for b in B):
        return None, "row length"
    V1 = complete_unimodular(B, n) if r else identity(n)
    if V1 is None:
        return None, "rows are dependent or span a non-saturated lattice"
    U = V1 + [list(b) for b in B]
    det, adj = det_adj(U)
    if det not in (1, -1):
        return None, "completion not unimodular"
    W = to_int_matrix([[x / det for x in row] for row in adj])
    Wa = [row[:s] for row in W]
    Wc = [row[s:] for row in W]
    M1 = matmul(V1, Vals) if s else []
    ri = right_inverse_scaled(M1) if s else ([[] for _ in range(len(Vals[0]) if Vals else 0)], 1)
    if ri is None:
        return None, "kernel has larger rank than the number of rows"
    Rt, d = ri
    if s == 0:
        Rt = [[] for _ in range(len(Vals[0]) if Vals else 0)]
    return {"V1": V1, "Wa": Wa, "Wc": Wc, "Rt": Rt, "d": d}, None


# ---- rational bases: factorisation data -----------------------------------------------
def factor_rationals(bases):
    """bases: list of non-zero Fractions -> (primes, facts) with facts[i] = (neg?, [v_p(b_i)]).
    The primes are listed in the order in which compute_basis_rational meets them (base by base,
    numerator primes ascending, then denominator primes ascending): the row order of its matrix, which
    the Coq model of the integer-kernel computation follows.  Any order is fine for the validators."""
    import sympy as sp
    primes = []
    fs = []
    for b in bases:
        fn = sp.factorint(abs(b.numerator))
        fd = sp.factorint(b.denominator)
        for p in sorted(int(p) for p in fn):
            if p not in primes:
                primes.append(p)
        for p in sorted(int(p) for p in fd):
            if p not in primes:
                primes.append(p)
        fs.append((fn, fd))
    facts = []
    for b, (fn, fd) in zip(bases, fs):
        facts.append((b < 0, [int(fn.get(p, 0)) - int(fd.get(p, 0)) for p in primes]))
    return primes, facts


def vals_ext(primes, facts):
    """extended system of LatticeRat.vals_ext: unknowns (y, e_1..e_k); columns (parity, p_1..p_m)"""
    m = len(primes)
    return [[2] + [0] * m] + [[1 if neg else 0] + list(v) for neg, v in facts]


def true_rational_lattice(bases):
    """Polar-independent basis of {e : prod b_i^e_i = 1} for non-zero rational bases."""
    primes, facts = factor_rationals(bases)
    V = vals_ext(primes, facts)
    K = integer_kernel(V, len(bases) + 1)
    return [row[1:] for row in K], [row for row in K]


def ext_rows(B, facts):
    """rows (y_b, b) of the extended system for the rows b of B, or None if a row breaks parity"""
    out = []
    for b in B:
        s = sum(x for x, (neg, _) in zip(b, facts) if neg)
        if s % 2:
            return None
        out.append([-s // 2] + list(b))
    return out


# ---- faithful Python twin of compute_basis_rational's linear algebra (for classification) --
def q_nullspace(M, ncols):
    """sympy's Matrix.nullspace() convention over Q (rref, one vector per free column)."""
    A = [[Fraction(x) for x in row] for row in M]
    piv = []
    r = 0
    for c in range(ncols):
        p = next((i for i in range(r, len(A)) if A[i][c] != 0), None)
        if p is None:
            continue
        A[r], A[p] = A[p], A[r]
        inv = 1 / A[r][c]
        A[r] = [x * inv for x in A[r]]
        for i in range(len(A)):
            if i != r and A[i][c] != 0:
                f = A[i][c]
                A[i] = [x - f * y for x, y in zip(A[i], A[r])]
        piv.append(c)
        r += 1
    out = []
    for f in range(ncols):
        if f in piv:
            continue
        v = [Fraction(0)] * ncols
        v[f] = Fraction(1)
        for i, c in enumerate(piv):
            v[c] = -A[i][f]
        out.append(v)
    return out


def polar_matrix(primes, facts):
    k = len(facts)
    rows = [[v[j] for _, v in facts] for j in range(len(primes))]
    if any(neg for neg, _ in facts):
        rows = [r + [0] for r in rows] + [[1 if neg else 0 for neg, _ in facts] + [2]]
        return rows, k + 1, True
    return rows, k, False


def nullspace_is_integral(primes, facts):
    M, n, _ = polar_matrix(primes, facts)
    return all(x.denominator == 1 for v in q_nullspace(M, n) for x in v)


def trivially_empty_twin(bases):
    ns = [b.numerator for b in bases if b.numerator != 1]
    ds = [b.denominator for b in bases if b.denominator != 1]
    if not all(abs(n) > 1 for n in ns):
        return False
    xs = ns + ds
    return all(gcd(xs[i], xs[j]) == 1 for i in range(len(xs)) for j in range(i + 1, len(xs)))


# ======================================================================================
# C07: kernel certificates over a field (Fractions, or nested-pair tower elements with ops)
class QOps:
    zero = Fraction(0)
    one = Fraction(1)

    @staticmethod
    def add(x, y):
        return x + y

    @staticmethod
    def sub(x, y):
        return x - y

    @staticmethod
    def mul(x, y):
        return x * y

    @staticmethod
    def inv(x):
        return 1 / x

    @staticmethod
    def is_zero(x):
        return x == 0


def rref_transform(M, ops):
    """M: m x N over a field.  -> (S (m x m, invertible), pivots, rank) with S*M in reduced row
    echelon form (zero rows last)."""
    m = len(M)
    N = len(M[0]) if M else 0
    A = [list(r) for r in M]
    S = [[ops.one if i == j else ops.zero for j in range(m)] for i in range(m)]
    piv = []
    r = 0
    for c in range(N):
        if r >= m:
            break
        p = next((i for i in range(r, m) if not ops.is_zero(A[i][c])), None)
        if p is None:
            continue
        A[r], A[p] = A[p], A[r]
        S[r], S[p] = S[p], S[r]
        inv = ops.inv(A[r][c])
        A[r] = [ops.mul(inv, x) for x in A[r]]
        S[r] = [ops.mul(inv, x) for x in S[r]]
        for i in range(m):
            if i != r and not ops.is_zero(A[i][c]):
                f = A[i][c]
                A[i] = [ops.sub(x, ops.mul(f, y)) for x, y in zip(A[i], A[r])]
                S[i] = [ops.sub(x, ops.mul(f, y)) for x, y in zip(S[i], S[r])]
        piv.append(c)
        r += 1
    return S, piv, r


def invert(S, ops):
    m = len(S)
    T, piv, r = rref_transform(S, ops)
    if r != m:
        raise ValueError("singular")
    return T  # T * S = I


def kernel_certificate(Ev, ops):
    """Ev: m x N (one row per unknown).  -> (K (t x m), P (m x t), Q (N x m)) with
    K*Ev = 0 and P*K + Ev*Q = I_m  (Lattice.check_kernel_cert)."""
    m = len(Ev)
    N = len(Ev[0]) if Ev else 0
    S, piv, rho = rref_transform(Ev, ops)
    K = S[rho:]
    Sinv = invert(S, ops)
    P = [row[rho:] for row in Sinv]
    Q = [[ops.zero] * m for _ in range(N)]
    for j, c in enumerate(piv):
        Q[c] = list(S[j])
    return K, P, Q


def nice_kernel(K, P, ops_scale):
    """rescale each kernel row to coprime integers (rational case); P's columns are rescaled
    inversely so that P*K is unchanged"""
    K2, scales = [], []
    for row in K:
        den = 1
        for x in row:
            den = den * x.denominator // gcd(den, x.denominator)
        ints = [int(x * den) for x in row]
        g = 0
        for x in ints:
            g = gcd(g, abs(x))
        g = g or 1
        first = next((x for x in ints if x), 1)
        sgn = -1 if first < 0 else 1
        f = Fraction(den, g) * sgn
        K2.append([x * f for x in row])
        scales.append(f)
    P2 = [[x / f for x, f in zip(row, scales)] for row in P]
    return K2, P2


def mons(k, D):
    """same order as InvariantComplete.mons"""
    if k == 0:
        return [[]]
    out = []
    for e in range(D + 1):
        for rest in mons(k - 1, D - e):
            out.append([e] + rest)
    return out
