"""C02 / ConditionsReducer: correspondence between the Gallina model PassCondReduce.cr_prog
(theorems C02_cond_reduce_step / _preserves in props/C02_CondReduce.v) and
program/transformer/conditions_reducer.py + Atom.reduce (program/condition/atom_cond.py).

For every program analysed by checks/c02.py: initial block and loop body of Polar's snapshot
BEFORE the pass (the MultiAssignTransformer snapshot) are given to the model inside Coq with
the counter value k0 read from the first alias name `_r<k0>` Polar generated; the result is
compared with Polar's snapshot AFTER the pass (same alias names, same places of the alias
assignments, same reuse from the store, polynomials up to normal form); the boolean
hypothesis wf_cr_prog of the theorem is evaluated on the real input.  A mismatch is reported
as a broken correspondence (the exact joint-law comparison of c02.py is the semantic oracle
and reports a semantic difference itself).  The hypothesis itself is probed on the real code
(capture probe)."""
import json
import re
import time

import core
import lib
import flatpass_util as U
from pass_multiassign import parse_qpairs

PASS = "ConditionsReducer"
BEFORE = "MultiAssignTransformer"


def first_counter(b, a):
    """the counter value at which Polar started: number of the first alias assignment
    `_r<k> = ...` that the pass INSERTED (initial block first, then loop body; the two
    snapshots are aligned on the assigned variables)"""
    for part in ("init", "body"):
        j = 0
        for x in a[part]:
            if j < len(b[part]) and x.get("var") == b[part][j].get("var"):
                j += 1
                continue
            m = re.fullmatch(r"_r(\d+)", x.get("var", ""))
            if m:
                return int(m.group(1))
    return 0


def _terms(b, a):
    return (U.gas_term(b["init"]), U.gas_term(b["body"]), U.gas_term(a["init"]), U.gas_term(a["body"]))


def _case(b, a):
    ib, bb, ia, ba = _terms(b, a)
    k0 = first_counter(b, a)
    defs = (f"Definition fp0 : flatprog := {{| fp_init := {ib}; fp_body := {bb} |}}.\n"
            f"Definition ei : list gassign := {ia}.\nDefinition eb : list gassign := {ba}.\n"
            f"Definition m0 : flatprog := fst (cr_prog {k0} fp0).")
    expr = (f"(gas_eq (fp_init m0) ei && gas_eq (fp_body m0) eb, wf_cr_prog {k0} fp0, "
            "(if gas_eq (fp_init m0) ei then List.length ei + first_diff (fp_body m0) eb 0 else first_diff (fp_init m0) ei 0)%nat)")
    return defs, expr, k0


def run_pass(ctx, runs):
    t0 = time.time()
    st = {"compared": 0, "equal_and_hypothesis_holds": 0, "hypothesis_failed": 0, "not_observed": 0,
          "not_modelled": 0, "coq_no_answer": 0, "aliases_generated": 0, "programs_with_alias": 0,
          "programs_with_alias_reuse": 0}
    cases, seen = [], {}
    extra, st["extra_programs"] = U.extra_runs(ctx, lib)
    for run in list(runs) + extra:
        pair = U.snapshot_pair(run, BEFORE, PASS)
        if pair is None:
            st["not_observed"] += 1
            continue
        b, a = pair
        key = json.dumps([b["init"], b["body"], a["init"], a["body"]], sort_keys=True)
        if key in seen:
            seen[key]["n"] += 1
            continue
        try:
            defs, expr, k0 = _case(b, a)
        except core.NotModelled:
            st["not_modelled"] += 1
            continue
        c = {"coq": (defs, expr), "run": run, "b": b, "a": a, "n": 1, "k0": k0, "untouched": b["guard"] == a["guard"]}
        seen[key] = c
        cases.append(c)
    probe = U.capture_probe(ctx, lib, "cr")
    pcase = _probe_case(probe)
    U.run_cases(ctx, lib, "pcr", cases + ([pcase] if pcase else []))
    mism = []
    for c in cases:
        ctx.coverage["obligations"] += c["n"]
        st["compared"] += c["n"]
        run, b, a = c["run"], c["b"], c["a"]
        new = (len(a["init"]) - len(b["init"])) + (len(a["body"]) - len(b["body"]))
        st["aliases_generated"] += new * c["n"]
        if new:
            st["programs_with_alias"] += c["n"]
            uses = sum(json.dumps(x["cond"]).count('"_r') for x in a["init"] + a["body"])
            if uses > new:
                st["programs_with_alias_reuse"] += c["n"]
        if c["res"] is None:
            st["coq_no_answer"] += c["n"]
            continue
        eq, wf, d = c["res"]
        if not eq or not c["untouched"]:
            st["mismatches"] = st.get("mismatches", 0) + c["n"]
            mism.append(c)
            continue
        if not wf:
            st["hypothesis_failed"] += c["n"]
            ctx.coverage.setdefault("hypothesis_failed_on", []).append({"pass": PASS, "program": run["text"]})
            continue
        st["equal_and_hypothesis_holds"] += c["n"]
        ctx.coverage["discharged"] += c["n"]
    U.report_mismatches(ctx, lib, PASS, mism, "PassCondReduce.cr_prog", "props/C02_CondReduce.v: C02_cond_reduce_preserves", lambda d: d["init"] + d["body"])
    _probe_report(ctx, probe, pcase, st)
    ctx.coverage.setdefault("pass_models", {})[PASS] = st
    print(f"  [pass {PASS}] " + " ".join(f"{k}={v}" for k, v in st.items() if isinstance(v, int)) + f" wall={time.time() - t0:.1f}s", flush=True)
    ctx.coverage["trusted_base"].append(
        "harness/pass_condreduce.py, flatpass_util.py, core.ga_coq: Polar's MultiAssignTransformer/ConditionsReducer snapshots -> Coq "
        "terms, counter value read from the first generated alias name; the model's store compares atoms structurally on sympy-expanded "
        "normal forms (symengine compares its own canonical forms: atoms equal as polynomials but written differently would be reused "
        "by the model only — reported as a mismatch, never silently accepted)")
    ctx.assumptions.append(
        "C02_cond_reduce_*: hypothesis wf_cr_prog (no variable of the program is named like a generated alias `_r<k>`, k in the window "
        "of the counter) — evaluated on every compared program; Polar does not enforce it (capture probe)")


# ---- the hypothesis wf_cr on the real code ------------------------------------------------
def _probe_case(probe):
    if not probe or "error" in probe or "exception" in probe:
        return None
    pair = U.snapshot_pair(probe, BEFORE, PASS)
    if pair is None:
        return None
    b, a = pair
    try:
        ib, bb, ia, ba = _terms(b, a)
    except core.NotModelled:
        return None
    k0 = first_counter(b, a)
    m = re.fullmatch(r"_r(\d+)", probe.get("captured", ""))
    if m:
        k0 = int(m.group(1))
    defs = (f"Definition fp0 : flatprog := {{| fp_init := {ib}; fp_body := {bb} |}}.\n"
            f"Definition ei : list gassign := {ia}.\nDefinition eb : list gassign := {ba}.\n"
            f"Definition m0 : flatprog := fst (cr_prog {k0} fp0).\n"
            "Definition obs (fp : flatprog) : Z * positive := qpair (E (frun no_law fp 2 st0) (fun s => s \"x\")).\n"
            "Eval vm_compute in [obs fp0; obs {| fp_init := ei; fp_body := eb |}].")
    expr = f"(gas_eq (fp_init m0) ei && gas_eq (fp_body m0) eb, wf_cr_prog {k0} fp0, 0%nat)"
    return {"coq": (defs, expr), "probe": True}


def _probe_report(ctx, probe, pcase, st):
    info = {"program": (probe or {}).get("text")}
    st["capture_probe"] = info
    if pcase is None:
        info["outcome"] = "not accepted by Polar: " + json.dumps((probe or {}).get("exception") or (probe or {}).get("error"))
        return
    if pcase.get("res") is None:
        info["outcome"] = "no answer from Coq"
        return
    eq, wf, _ = pcase["res"]
    vals = parse_qpairs(pcase.get("out_all", ""))
    info.update({"model_equals_polar": eq, "wf_cr_prog": wf})
    if wf:
        info["outcome"] = "hypothesis holds (names no longer collide)"
        return
    if len(vals) >= 2 and vals[0] != vals[1]:
        info["outcome"] = f"E(x) after 2 iterations: {vals[0]} before the pass, {vals[1]} after"
        text = probe["text"].replace(probe["captured"], "_r<k>")
        ctx.violation("ConditionsReducer:user-variable-captured-by-alias-name",
                      {"program_text": probe["text"], "pass": PASS, "n": 2, "observed": "E(x)",
                       "before_pass": str(vals[0]), "after_pass": str(vals[1]),
                       "hypothesis_violated": "wf_cr_prog (props/C02_CondReduce.v)",
                       "note": "k = value of utils.identifiers._count_unique_var + 1 (1 in a fresh process: `_r1`)",
                       "after_pass_polar": [U.ga_text(x) for x in U.snapshot_pair(probe, BEFORE, PASS)[1]["body"]]},
                      f"ConditionsReducer takes the alias name `_r<k>` from the global counter without checking that the program has no "
                      f"variable of that name: E(x) after two iterations is {vals[0]} before the pass and {vals[1]} after it\n{text}")
    else:
        info["outcome"] = "hypothesis fails but no semantic difference exhibited"
