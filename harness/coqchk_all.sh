#!/bin/bash
# Independent re-check of the compiled property files with coqchk; prints the axioms they rely on.
cd "$(dirname "$0")/../coq"
mods=$(ls props/*.v | sed 's#props/##; s#\.v$##' | sed 's#^#PolarProps.#' | tr '\n' ' ')
timeout 7200 coqchk -silent -o -Q theories Polar -Q props PolarProps -Q gen PolarGen $mods 2>&1 | tail -40
