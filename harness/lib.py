"""Shared machinery of the /verif checks: context, evidence, violations / known findings,
Coq build + Print Assumptions gate, running generated case files inside Coq, worker pool
running the real Polar (from /repo's working tree) with per-case time limits."""
import fcntl
import hashlib
import json
import os
import random
import re
import shutil
import subprocess
import sys
import tempfile
import time

VERIF = os.path.dirname(os.path.dirname(os.path.abspath(__file__)))
REPO = os.environ.get("POLAR_REPO", "/repo")
COQ = os.path.join(VERIF, "coq")
PY = "/venv/bin/python"

# axioms of the Coq standard library that may appear under Print Assumptions (named in
# DESIGN.md section 7); anything else fails the gate.
ALLOWED_AXIOMS = {
    "ClassicalDedekindReals.sig_forall_dec",
    "ClassicalDedekindReals.sig_not_dec",
    "Classical_Prop.classic",
    "FunctionalExtensionality.functional_extensionality_dep",
}

FORBIDDEN = re.compile(
    r"\b(Admitted|admit|Axiom|Parameter|Conjecture|Unset Guard|bypass_check|type-in-type|"
    r"Admit Obligations|Guard Checking|Positivity Checking|Universe Checking)\b"
)


class Ctx:
    def __init__(self, prop, tier, seed, replay=None):
        self.prop = prop
        self.tier = tier
        self.seed = seed
        self.rng = random.Random(seed * 1000003 + int(prop[1:]))
        self.t0 = time.time()
        self.replay = replay
        self.violations = []
        self.known_hits = []
        self.coverage = {
            "obligations": 0,
            "discharged": 0,
            "checker_cmd": "",
            "trusted_base": [],
            "evaluations": 0,
            "distinct_nontrivial": 0,
            "rule": "",
            "samples": [],
        }
        self.assumptions = []
        self.scratch = tempfile.mkdtemp(prefix=f"verif_{prop}_", dir="/var/tmp")
        self.findings = load_known_findings()
        self._distinct = set()

    @property
    def quick(self):
        return self.tier == "quick"

    def pick(self, q, t):
        return q if self.quick else t

    def elapsed(self):
        return time.time() - self.t0

    def sample(self, obj, limit=6):
        if len(self.coverage["samples"]) < limit:
            self.coverage["samples"].append(obj)

    def count(self, key_obj=None, nontrivial=True):
        """count one evaluated case; distinct_nontrivial counts distinct keys flagged nontrivial"""
        self.coverage["evaluations"] += 1
        if key_obj is not None and nontrivial:
            h = hashlib.sha1(json.dumps(key_obj, sort_keys=True, default=str).encode()).hexdigest()
            self._distinct.add(h)
            self.coverage["distinct_nontrivial"] = len(self._distinct)

    # ---- violations -------------------------------------------------------------
    def violation(self, signature, replay_obj, what, no_input=False):
        """signature: stable string identifying the failing input / call site.  If it is
        listed in known_findings.json under this property, print KNOWN-FINDING instead."""
        for kf in self.findings.get("known", []):
            if kf["property"] == self.prop and kf["signature"] == signature:
                if signature not in self.known_hits:
                    self.known_hits.append(signature)
                    print(f"KNOWN-FINDING: property={self.prop} {kf['what']}", flush=True)
                return False
        d = os.path.join(VERIF, "replays", self.prop)
        os.makedirs(d, exist_ok=True)
        body = dict(replay_obj)
        body.update({"property": self.prop, "signature": signature, "what": what,
                     "seed": self.seed, "tier": self.tier,
                     "kind": "broken-proof-or-correspondence" if no_input else "failing-input"})
        h = hashlib.sha1(json.dumps(body, sort_keys=True, default=str).encode()).hexdigest()[:12]
        path = os.path.join(d, f"{h}.json")
        with open(path, "w") as f:
            json.dump(body, f, indent=1, default=str)
        line = f"VIOLATION property={self.prop} replay={path}"
        if no_input:
            line += " no-failing-input-found"
        print(line, flush=True)
        print(f"  {what}", flush=True)
        self.violations.append(path)
        return True

    # ---- evidence ---------------------------------------------------------------
    def finish(self):
        cov = self.coverage
        # keys typed by EVIDENCE.schema.json must keep their types; anything else is renamed
        for k in ("evaluations", "distinct_nontrivial", "states", "transitions", "traces_validated_against_impl",
                  "obligations", "discharged", "programs", "disagreements_checked"):
            if k in cov and not (isinstance(cov[k], int) and not isinstance(cov[k], bool)):
                cov[k + "_detail"] = cov.pop(k)
        for k in ("rule", "checker_cmd", "explanation"):
            if k in cov and not isinstance(cov[k], str):
                cov[k] = json.dumps(cov[k], default=str)
        for k in ("samples", "trusted_base"):
            if k in cov and not isinstance(cov[k], list):
                cov[k] = [cov[k]]
        if "exhaustive" in cov and not isinstance(cov["exhaustive"], bool):
            cov["exhaustive_detail"] = cov.pop("exhaustive")
        ev = {
            "property_id": self.prop,
            "tier": self.tier,
            "seed": self.seed,
            "level": "proof",
            "coverage": cov,
            "assumptions": self.assumptions,
            "wall_s": round(self.elapsed(), 2),
            "violations": len(self.violations),
            "known_findings_hit": self.known_hits,
        }
        os.makedirs(os.path.join(VERIF, "evidence"), exist_ok=True)
        with open(os.path.join(VERIF, "evidence", f"{self.prop}.json"), "w") as f:
            json.dump(ev, f, indent=1, default=str)
        if not os.environ.get("VERIF_KEEP_SCRATCH"):
            shutil.rmtree(self.scratch, ignore_errors=True)
        return 1 if self.violations else 0


def load_known_findings():
    p = os.path.join(VERIF, "known_findings.json")
    if os.path.exists(p):
        with open(p) as f:
            return json.load(f)
    return {"known": [], "fixed": []}


# ---- Coq --------------------------------------------------------------------------
def _lock():
    f = open(os.path.join(COQ, ".build.lock"), "w")
    fcntl.flock(f, fcntl.LOCK_EX)
    return f


def write_if_changed(path, text):
    if os.path.exists(path):
        with open(path) as f:
            if f.read() == text:
                return False
    os.makedirs(os.path.dirname(path), exist_ok=True)
    with open(path, "w") as f:
        f.write(text)
    return True


def coq_static_gate(files):
    """no Axiom/Admitted/... anywhere in the development (comments stripped)"""
    bad = []
    for p in files:
        with open(p) as f:
            src = f.read()
        src = strip_coq_comments(src)
        for m in FORBIDDEN.finditer(src):
            bad.append(f"{os.path.relpath(p, COQ)}: {m.group(0)}")
    return bad


def strip_coq_comments(src):
    out, depth, i = [], 0, 0
    while i < len(src):
        if src.startswith("(*", i):
            depth += 1
            i += 2
        elif src.startswith("*)", i) and depth:
            depth -= 1
            i += 2
        else:
            if depth == 0:
                out.append(src[i])
            i += 1
    return "".join(out)


def coq_sources():
    res = []
    for sub in ("theories", "props", "gen", "extract"):
        d = os.path.join(COQ, sub)
        for root, _, fs in os.walk(d):
            for fn in fs:
                if fn.endswith(".v"):
                    res.append(os.path.join(root, fn))
    return sorted(res)


COQ_WARN = "-notation-overridden,-deprecated-hint-without-locality,-deprecated-instance-without-locality,-ambiguous-paths"


def coq_project():
    """_CoqProject is generated: every .v under theories/ gen/ props/ extract/ (coqdep orders them)."""
    lines = ["-Q theories Polar", "-Q gen PolarGen", "-Q props PolarProps", "-Q extract PolarExtract",
             f"-arg -w -arg {COQ_WARN}"]
    for p in coq_sources():
        lines.append(os.path.relpath(p, COQ))
    changed = write_if_changed(os.path.join(COQ, "_CoqProject"), "\n".join(lines) + "\n")
    if changed or not os.path.exists(os.path.join(COQ, "Makefile")):
        subprocess.run(["coq_makefile", "-f", "_CoqProject", "-o", "Makefile"], cwd=COQ,
                       stdout=subprocess.DEVNULL, stderr=subprocess.DEVNULL, check=True)


def coq_make(targets, timeout=1500, keep_going=False):
    """(re)build targets (paths relative to coq/, .vo).  Returns (ok, log)."""
    lk = _lock()
    try:
        coq_project()
        cmd = ["timeout", str(timeout), "make", "-j16"] + (["-k"] if keep_going else []) + list(targets)
        r = subprocess.run(cmd, cwd=COQ, stdout=subprocess.PIPE, stderr=subprocess.STDOUT, text=True)
        return r.returncode == 0, r.stdout
    finally:
        lk.close()


def props_obligations(prop):
    """Theorems stated in props/<prop>.v (names), read from the source."""
    p = os.path.join(COQ, "props", f"{prop}.v")
    if not os.path.exists(p):
        return []
    src = strip_coq_comments(open(p).read())
    return re.findall(r"^\s*(?:Theorem|Corollary|Lemma|Example)\s+([A-Za-z0-9_']+)", src, re.M)


def coq_check_props(ctx, prop=None, extra_targets=()):
    """Build props/<prop>.vo (which re-checks everything it depends on, including gen/),
    force its own recompilation to read Print Assumptions, and fill the proof keys of the
    evidence.  Returns (ok, log)."""
    prop = prop or ctx.prop
    names = props_obligations(prop)
    ctx.coverage["obligations"] += len(names)
    bad = coq_static_gate(coq_sources())
    cmd = f"cd {COQ} && make -j16 props/{prop}.vo   (full .vo build; coqc 8.16.1 kernel; Print Assumptions gate)"
    ctx.coverage["checker_cmd"] = cmd
    if bad:
        return False, "static gate: " + "; ".join(bad)
    ok, log = coq_make([f"props/{prop}.vo"] + list(extra_targets))
    if not ok:
        return False, log
    # recompile the props file alone to capture Print Assumptions output deterministically
    lk = _lock()
    try:
        r = subprocess.run(["timeout", "600", "coqc", "-q", "-Q", "theories", "Polar", "-Q", "gen", "PolarGen",
                            "-Q", "props", "PolarProps", "-Q", "extract", "PolarExtract",
                            "-w", "-notation-overridden,-deprecated-hint-without-locality,-deprecated-instance-without-locality,-ambiguous-paths",
                            f"props/{prop}.v"], cwd=COQ, stdout=subprocess.PIPE, stderr=subprocess.STDOUT, text=True)
    finally:
        lk.close()
    if r.returncode != 0:
        return False, r.stdout
    axioms = parse_assumptions(r.stdout)
    unknown = sorted(a for a in axioms if a not in ALLOWED_AXIOMS)
    tb = ["Coq 8.16.1 kernel (coqc, vm_compute; no native_compute)"]
    if axioms:
        tb.append("library axioms under Print Assumptions: " + ", ".join(sorted(axioms)))
    else:
        tb.append("Print Assumptions: every property theorem is closed under the global context")
    for t in tb:
        if t not in ctx.coverage["trusted_base"]:
            ctx.coverage["trusted_base"].append(t)
    if unknown:
        return False, "axioms outside the allow-list: " + ", ".join(unknown)
    ctx.coverage["discharged"] += len(names)
    ctx.coverage.setdefault("theorems", []).extend(f"{prop}.{n}" for n in names)
    return True, r.stdout


def parse_assumptions(out):
    axioms = set()
    mode = False
    for line in out.splitlines():
        if line.startswith("Axioms:"):
            mode = True
            continue
        if line.startswith("Closed under the global context"):
            mode = False
            continue
        if mode:
            m = re.match(r"^([A-Za-z_][A-Za-z0-9_.']*)\s*(:|$)", line)
            if m:
                axioms.add(m.group(1))
            elif line and not line.startswith(" "):
                mode = False
    return axioms


def coq_run(ctx, name, text, timeout=900):
    """Compile a generated .v file in the scratch dir against the built development and
    return (ok, stdout).  Used to evaluate model definitions / validators inside the kernel."""
    path = os.path.join(ctx.scratch, name + ".v")
    with open(path, "w") as f:
        f.write(text)
    r = subprocess.run(["timeout", str(timeout), "coqc", "-q", "-Q", os.path.join(COQ, "theories"), "Polar",
                        "-Q", os.path.join(COQ, "gen"), "PolarGen", "-Q", ctx.scratch, "Cases",
                        "-w", "-notation-overridden,-deprecated-hint-without-locality,-deprecated-instance-without-locality,-ambiguous-paths",
                        path], cwd=ctx.scratch, stdout=subprocess.PIPE, stderr=subprocess.STDOUT, text=True)
    return r.returncode == 0, r.stdout


def coq_run_many(ctx, files, timeout=900, jobs=12):
    """files: list of (name, text).  Compiles in parallel; returns dict name -> (ok, out).
    Output goes to a file (a pipe would block coqc once 64 KB are printed)."""
    res = {}
    pending = list(files)
    running = []
    while pending or running:
        while pending and len(running) < jobs:
            name, text = pending.pop(0)
            path = os.path.join(ctx.scratch, name + ".v")
            with open(path, "w") as f:
                f.write(text)
            outf = open(path + ".out", "w")
            p = subprocess.Popen(["timeout", str(timeout), "coqc", "-q", "-Q", os.path.join(COQ, "theories"), "Polar",
                                  "-Q", os.path.join(COQ, "gen"), "PolarGen", "-Q", ctx.scratch, "Cases",
                                  "-w", COQ_WARN, path], cwd=ctx.scratch, stdout=outf, stderr=subprocess.STDOUT, text=True)
            running.append((name, p, outf, path + ".out"))
        still = []
        for name, p, outf, opath in running:
            if p.poll() is None:
                still.append((name, p, outf, opath))
            else:
                outf.close()
                with open(opath) as f:
                    txt = f.read()
                if p.returncode == 124:
                    txt = "TIMEOUT (coqc time limit)\n" + txt
                res[name] = (p.returncode == 0, txt)
        running = still
        if running:
            time.sleep(0.05)
    return res


def parse_bool_list(out):
    """parse the result of `Eval vm_compute in [b1; b2; ...]` (list bool)"""
    m = re.search(r"=\s*\[(.*?)\]\s*:\s*list bool", out, re.S)
    if not m:
        return None
    body = m.group(1).strip()
    if not body:
        return []
    return [x.strip() == "true" for x in body.split(";")]


# ---- Coq term printers ------------------------------------------------------------
def cq(fr):
    """a Fraction -> Qc term (uses Polar.Qcx.mkq : Z -> positive -> Qc)"""
    from fractions import Fraction
    fr = Fraction(fr)
    return f"(mkq ({fr.numerator}) {fr.denominator})"


def clist(items):
    return "[" + "; ".join(items) + "]"


# ---- worker pool running the real Polar -------------------------------------------
class Worker:
    def __init__(self, hashseed="0", env_extra=None):
        env = dict(os.environ)
        env["PYTHONPATH"] = os.path.join(VERIF, "harness") + ":" + REPO
        env["PYTHONHASHSEED"] = str(hashseed)
        env["POLAR_VERIF"] = "1"
        if env_extra:
            env.update(env_extra)
        self.p = subprocess.Popen([PY, "-u", os.path.join(VERIF, "harness", "worker.py")], stdin=subprocess.PIPE,
                                  stdout=subprocess.PIPE, stderr=subprocess.DEVNULL, text=True, env=env, cwd=REPO)
        self.busy = None
        self.start = 0

    def send(self, idx, task):
        self.busy = idx
        self.start = time.time()
        self.p.stdin.write(json.dumps(task) + "\n")
        self.p.stdin.flush()

    def kill(self):
        try:
            self.p.kill()
            self.p.wait(timeout=5)
        except Exception:
            pass


def run_tasks(tasks, timeout=60, jobs=14, hashseed="0", env_extra=None, progress=None):
    """Run task dicts on a pool of Polar worker processes.  Result i is the worker's JSON
    answer, or {"error": "timeout"} / {"error": "crash"}.  Order preserved."""
    import select
    results = [None] * len(tasks)
    nxt = 0
    workers = []
    jobs = max(1, min(jobs, len(tasks)))
    for _ in range(jobs):
        workers.append(Worker(hashseed, env_extra))
    done = 0
    try:
        while done < len(tasks):
            for w in workers:
                if w.busy is None and nxt < len(tasks):
                    w.send(nxt, tasks[nxt])
                    nxt += 1
            fds = [w.p.stdout for w in workers if w.busy is not None]
            if not fds:
                break
            ready, _, _ = select.select(fds, [], [], 0.5)
            now = time.time()
            for i, w in enumerate(workers):
                if w.busy is None:
                    continue
                if w.p.stdout in ready:
                    line = w.p.stdout.readline()
                    if not line:
                        results[w.busy] = {"error": "crash"}
                        w.kill()
                        workers[i] = Worker(hashseed, env_extra)
                    else:
                        try:
                            results[w.busy] = json.loads(line)
                        except Exception:
                            results[w.busy] = {"error": "badjson", "raw": line[:500]}
                        w.busy = None
                    done += 1
                    if progress:
                        progress(done)
                elif now - w.start > tasks[w.busy].get("timeout", timeout):
                    results[w.busy] = {"error": "timeout"}
                    w.kill()
                    workers[i] = Worker(hashseed, env_extra)
                    done += 1
    finally:
        for w in workers:
            w.kill()
    return results


def replay_programs(ctx):
    """programs of a --replay file written by one of the core checks, or None"""
    if not ctx.replay:
        return None
    import progast
    with open(ctx.replay) as f:
        d = json.load(f)
    if "prog_json" not in d:
        return None
    goals = [progast.from_json(g) for g in d.get("goals_json", [])]
    return [(progast.from_json(d["prog_json"]), goals, "replay")]


def replay_data(ctx):
    if not ctx.replay:
        return None
    with open(ctx.replay) as f:
        return json.load(f)
