"""Worker task of the pass-model correspondences pass_constants / pass_condnorm / pass_dist:
normalise a program text with the REAL Polar and return the program snapshot after every
pass, ALSO when a later pass refuses the program (the snapshots taken before the refusal
are still outputs of the earlier passes)."""
import tasks_core


def task_pass_snapshots(task):
    tasks_core.reset_settings(task.get("opts", {}))
    from inputparser import Parser
    import program.transformer as T
    from program import normalize_program
    res = {}
    try:
        program = Parser().parse_string(task["text"])
    except BaseException as e:  # noqa
        res["stage"] = "parse"
        res["exception"] = tasks_core.classify_exception(e)
        return res
    try:
        res["parsed"] = tasks_core.dump_program(program)
    except tasks_core.Unsupported as u:
        res["parsed"] = {"unsupported": str(u)}
    snaps, originals = [], {}

    def wrap(cls):
        orig = cls.execute

        def execute(self, p, _orig=orig, _name=cls.__name__):
            r = _orig(self, p)
            try:
                snaps.append([_name, tasks_core.dump_program(r)])
            except tasks_core.Unsupported as u:
                snaps.append([_name, {"unsupported": str(u)}])
            return r
        originals[cls] = orig
        cls.execute = execute

    for name in tasks_core.PASSES:
        wrap(getattr(T, name))
    try:
        normalize_program(program)
    except BaseException as e:  # noqa
        res["stage"] = "normalize"
        res["exception"] = tasks_core.classify_exception(e)
    finally:
        for cls, orig in originals.items():
            cls.execute = orig
    res["snapshots"] = snaps
    return res
