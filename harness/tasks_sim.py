"""Worker tasks for C12 (run inside the Polar worker, real code from lib.REPO).

The random sources used by the simulator are replaced IN THIS PROCESS ONLY by scripted
sources (no edit of the repository):
    random.choices           PolyAssignment.evaluate_right_side, Categorical.sample
    random.choice            DiscreteUniform.sample
    scipy.stats.bernoulli.rvs  Bernoulli.sample
A script is a list of indices, one per call.  Conventions (shared with the Coq transcription
theories/Simulator.v / SimulatorParse.v : sim_sample):
    random.choices(pop, weights=w, k=1)  index i -> [pop[i]],  probability w[i] / sum(w)
    random.choice(seq)                   index i -> seq[i],    probability 1 / len(seq)
    bernoulli.rvs(p)                     index 0 -> 1 (probability p), index 1 -> 0 (probability 1-p)
The depth-first driver re-runs Simulator(n).simulate(program, [], 1) once per script."""
import math
import random
from fractions import Fraction


class Overflow(Exception):
    pass


class Scripted:
    """scripted random sources; after a run, .trace is the list of (index, arity, probability)"""

    def __init__(self):
        self.script = []
        self.trace = []
        self.pos = 0
        self.calls = {"choices": 0, "choice": 0, "bernoulli": 0}
        self.calls_nontrivial = 0

    def start(self, script):
        self.script = list(script)
        self.trace = []
        self.pos = 0

    def _next(self, arity, probs):
        if self.pos < len(self.script):
            i = self.script[self.pos]
        else:
            i = 0
        if i >= arity:
            raise RuntimeError("script index out of range")
        self.pos += 1
        self.trace.append((i, arity, probs[i]))
        if arity > 1:
            self.calls_nontrivial += 1
        return i

    def choices(self, population, weights=None, *, cum_weights=None, k=1):
        self.calls["choices"] += 1
        pop = list(population)
        if weights is None or cum_weights is not None or k != 1:
            raise RuntimeError("random.choices called in an unscripted way")
        w = [Fraction(x) for x in weights]
        if len(w) != len(pop):
            raise ValueError("The number of weights does not match the population")
        tot = sum(w)
        if tot <= 0 or any(x < 0 for x in w):
            raise RuntimeError("random.choices weights not a sub-probability")
        i = self._next(len(pop), [x / tot for x in w])
        return [pop[i]]

    def choice(self, seq):
        self.calls["choice"] += 1
        n = len(seq)
        i = self._next(n, [Fraction(1, n)] * n)
        return seq[i]

    def bernoulli_rvs(self, p, *a, **k):
        self.calls["bernoulli"] += 1
        if a or k:
            raise RuntimeError("bernoulli.rvs called in an unscripted way")
        p = Fraction(p)
        i = self._next(2, [p, 1 - p])
        return 1 if i == 0 else 0


class Patched:
    def __init__(self, src):
        self.src = src

    def __enter__(self):
        import scipy.stats
        self.old = (random.choices, random.choice)
        random.choices = self.src.choices
        random.choice = self.src.choice
        scipy.stats.bernoulli.rvs = self.src.bernoulli_rvs      # instance attribute shadows the method
        return self.src

    def __exit__(self, *a):
        import scipy.stats
        random.choices, random.choice = self.old
        try:
            del scipy.stats.bernoulli.rvs
        except AttributeError:
            pass


def fr(x):
    x = Fraction(x)
    return f"{x.numerator}/{x.denominator}"


def _state_values(state, names):
    """state: dict Symbol -> float (as left by the simulator, after SimulationResult's sympify of the keys)"""
    d = {str(k): v for k, v in state.items()}
    out = []
    for v in names:
        if v not in d:
            out.append(None)
        else:
            x = float(d[v])
            if math.isnan(x) or math.isinf(x):
                out.append("nan")
            else:
                out.append(fr(Fraction(x)))
    return out


def enumerate_paths(program, N, names, cap):
    """all scripts of Simulator(N).simulate(program, [], 1), depth first.
    -> list of {"script": [...], "prob": "a/b", "states": [[values of names] per iteration 0..N]}"""
    from simulation import Simulator
    src = Scripted()
    paths = []
    script = []
    with Patched(src):
        while True:
            src.start(script)
            res = Simulator(N).simulate(program, [], 1)
            if src.pos < len(script):
                raise RuntimeError("script longer than the run")
            tr = src.trace
            prob = Fraction(1)
            for _, _, pr in tr:
                prob *= pr
            run = res.samples[0]
            paths.append({"script": [i for i, _, _ in tr], "prob": fr(prob),
                          "states": [_state_values(st, names) for st in run]})
            if len(paths) > cap:
                raise Overflow()
            # next script: increase the last position that still has an alternative
            j = len(tr) - 1
            while j >= 0 and tr[j][0] + 1 >= tr[j][1]:
                j -= 1
            if j < 0:
                break
            script = [i for i, _, _ in tr[:j]] + [tr[j][0] + 1]
    return paths, src


def task_sim_enum(task):
    """task: src (program text), N, vars (names), cap; the horizon is lowered while there are more than
    cap scripts.  With "goals": also run SimulationAction on the first and the last script (two samples)."""
    from inputparser import Parser
    import settings
    settings.transform_categoricals = False
    program = Parser().parse_string(task["src"])
    N = task["N"]
    retries = 0
    while True:
        try:
            paths, src = enumerate_paths(program, N, task["vars"], task.get("cap", 2000))
            break
        except Overflow:
            if N <= 1:
                return {"overflow": True}
            N -= 1
            retries += 1
    out = {"paths": paths, "N": N, "overflow_retries": retries, "calls": src.calls, "nontrivial_calls": src.calls_nontrivial,
           "parsed": str(program), "variables": sorted(str(v) for v in program.variables)}
    if task.get("goals") and len(paths) >= 2:
        try:
            out["action"] = task_sim_action({"src": task["src"], "N": N, "goals": task["goals"],
                                             "scripts": [paths[0]["script"], paths[-1]["script"]]})
        except BaseException as e:  # noqa
            out["action"] = {"error": "exception", "etype": type(e).__name__, "msg": str(e)[:500]}
    return out


def task_sim_action(task):
    """cli/actions/simulation_action.py + simulation_result.py under the scripted sources:
    task: src, N, scripts = [script, ...] (one per sample, concatenated for the run), goals = CLI goal strings.
    -> the lines printed after the "Simulation Result" banner, and the per-sample goal values"""
    import argparse
    import contextlib
    import io
    import os
    import sys
    import tempfile
    import settings
    from cli.actions.simulation_action import SimulationAction
    settings.transform_categoricals = False
    script = [i for sc in task["scripts"] for i in sc]
    src = Scripted()
    src.start(script)
    fd, path = tempfile.mkstemp(suffix=".prob", dir="/var/tmp")
    os.write(fd, task["src"].encode())
    os.close(fd)
    buf = io.StringIO()
    try:
        with Patched(src), contextlib.redirect_stdout(buf):
            SimulationAction(argparse.Namespace(goals=task["goals"], simulation_iter=task["N"],
                                                number_samples=len(task["scripts"])))(path)
    finally:
        os.unlink(path)
    if src.pos != len(script):
        return {"error": "exception", "etype": "ScriptLength", "msg": f"consumed {src.pos} of {len(script)} script entries"}
    out = buf.getvalue()
    tail = out.split("Simulation Result")[-1]
    lines = [l.strip() for l in tail.splitlines() if " = " in l]
    return {"lines": lines}


# ---- programs given directly in the parsed form (Assignment objects with condition / default) ----
def _dec(t):
    """JSON (lists, "n/d" strings tagged as ["q", "n/d"]) -> progast tuples with Fractions"""
    if isinstance(t, list):
        if len(t) == 2 and t[0] == "q":
            return Fraction(t[1])
        return tuple(_dec(x) for x in t)
    return t


def _build_cond(c):
    from program.condition import Atom, Not, And, Or, TrueCond, FalseCond
    import progast
    k = c[0]
    if k == "true":
        return TrueCond()
    if k == "false":
        return FalseCond()
    if k == "atom":
        return Atom(progast.e_text(c[1]), c[2], progast.e_text(c[3]))
    if k == "not":
        return Not(_build_cond(c[1]))
    if k == "and":
        return And(_build_cond(c[1]), _build_cond(c[2]))
    return Or(_build_cond(c[1]), _build_cond(c[2]))


def _build_block(b):
    from program.assignment import PolyAssignment, DistAssignment
    from program.ifstatem import IfStatem
    from program.distribution import distribution_factory
    from symengine.lib.symengine_wrapper import Symbol
    import progast
    out = []
    for st in b:
        if st[0] == "gassign":
            _, x, cond, default, rhs = st
            if rhs[0] == "choice":
                a = PolyAssignment(x, [progast.e_text(e) for _, e in rhs[1]], [progast.e_text(pr) for pr, _ in rhs[1]])
            else:
                d = rhs[1]
                if d[0] == "bern":
                    dist = distribution_factory("Bernoulli", [progast.e_text(d[1])])
                elif d[0] == "cat":
                    dist = distribution_factory("Categorical", [progast.e_text(q) for q in d[1]])
                else:
                    dist = distribution_factory("DiscreteUniform", [str(d[1]), str(d[2])])
                a = DistAssignment(x, dist)
            a.condition = _build_cond(cond)
            a.default = Symbol(default)
            out.append(a)
        else:
            _, brs, els = st
            out.append(IfStatem([_build_cond(c) for c, _ in brs], [_build_block(bb) for _, bb in brs],
                                _build_block(els) if els is not None else None))
    return out


def task_sim_enum_parsed(task):
    """task: prog = JSON of {"init","guard","body"} in the parsed form, N, vars, cap"""
    import types
    prog = {k: _dec(v) for k, v in task["prog"].items()}
    program = types.SimpleNamespace(initial=_build_block(prog["init"]), loop_guard=_build_cond(prog["guard"]),
                                    loop_body=_build_block(prog["body"]))
    try:
        paths, src = enumerate_paths(program, task["N"], task["vars"], task.get("cap", 2000))
    except Overflow:
        return {"overflow": True}
    return {"paths": paths, "calls": src.calls,
            "parsed": "\n".join(str(a) for a in program.initial) + f"\nwhile {program.loop_guard}:\n" +
                      "\n".join("    " + str(a).replace("\n", "\n    ") for a in program.loop_body)}


# ---- samplers ---------------------------------------------------------------------------
SCIPY_FAMS = ["bernoulli", "norm", "laplace", "expon", "gamma", "beta", "uniform", "truncnorm"]


def _make_dist(name, params):
    from program.distribution import distribution_factory
    return distribution_factory(name, [str(p) for p in params])


def task_sim_sampler_args(task):
    """record what each sample method passes to its random source.
    task: cases = [{"dist": polar name, "params": [strings]}].  -> per case the recorded call"""
    import scipy.stats
    out = []
    for c in task["cases"]:
        rec = []

        def mk(fam):
            def rvs(*a, **k):
                rec.append({"family": fam, "args": [fr(Fraction(float(x))) for x in a],
                            "kwargs": {kk: fr(Fraction(float(v))) for kk, v in k.items()}})
                return 0.5
            return rvs

        def choices(population, weights=None, *, cum_weights=None, k=1):
            rec.append({"family": "random.choices", "population": [fr(Fraction(float(x))) for x in population],
                        "weights": [fr(Fraction(float(x))) for x in weights], "k": k})
            return [list(population)[0]]

        def choice(seq):
            rec.append({"family": "random.choice", "population": [fr(Fraction(float(x))) for x in seq]})
            return seq[0]

        old = (random.choices, random.choice)
        try:
            for fam in SCIPY_FAMS:
                setattr(getattr(scipy.stats, fam), "rvs", mk(fam))
            random.choices, random.choice = choices, choice
            d = _make_dist(c["dist"], c["params"])
            val = d.sample({})
            item = {"calls": rec, "returned": str(val), "support": _support(d)}
            try:
                m1, m2 = d.get_moment(1), d.get_moment(2)
                import sympy as sp
                import exppoly
                m1, m2 = exppoly.exact(sp.sympify(str(m1))), exppoly.exact(sp.sympify(str(m2)))
                item["m1"] = f"{m1.p}/{m1.q}" if m1.is_Rational else None
                item["m2"] = f"{m2.p}/{m2.q}" if m2.is_Rational else None
            except Exception as e:  # noqa
                item["moment_error"] = f"{type(e).__name__}: {e}"[:200]
            out.append(item)
        except Exception as e:  # noqa
            out.append({"error": f"{type(e).__name__}: {e}"[:300]})
        finally:
            random.choices, random.choice = old
            for fam in SCIPY_FAMS:
                try:
                    delattr(getattr(scipy.stats, fam), "rvs")
                except AttributeError:
                    pass
    return {"results": out}


def _support(d):
    """get_support() as JSON: list of ["point", q] | ["interval", lo, hi] with "-oo"/"oo"/rational strings"""
    import sympy as sp

    def val(x):
        x = sp.sympify(str(x))
        if x == sp.oo:
            return "oo"
        if x == -sp.oo:
            return "-oo"
        import exppoly
        x = exppoly.exact(x)
        if not x.is_Rational:
            raise ValueError(f"non-rational support bound {x}")
        return f"{x.p}/{x.q}"
    items = []
    for it in d.get_support():
        if isinstance(it, tuple):
            items.append(["interval", val(it[0]), val(it[1])])
        else:
            items.append(["point", val(it)])
    return sorted(items)


def _in_support(x, items):
    x = Fraction(x)
    for it in items:
        if it[0] == "point":
            if x == Fraction(it[1]):
                return True
        else:
            lo_ok = it[1] == "-oo" or (it[1] != "oo" and Fraction(it[1]) <= x)
            hi_ok = it[2] == "oo" or (it[2] != "-oo" and x <= Fraction(it[2]))
            if lo_ok and hi_ok:
                return True
    return False


def task_sim_draws(task):
    """REAL draws (validation): task: cases = [{"dist","params"}], n, seed.
    -> per case: number of draws outside get_support() and the first such draw"""
    import numpy as np
    out = []
    for ci, c in enumerate(task["cases"]):
        try:
            d = _make_dist(c["dist"], c["params"])
            items = _support(d)
            np.random.seed(task["seed"] + ci)
            random.seed(task["seed"] + ci)
            bad = 0
            first = None
            tot = 0.0
            for k in range(task["n"]):
                v = float(d.sample({}))
                tot += v
                if math.isnan(v) or not _in_support(Fraction(v), items):
                    bad += 1
                    if first is None:
                        first = {"draw_index": k, "value": repr(v)}
            out.append({"outside": bad, "first": first, "support": items, "mean": tot / task["n"]})
        except Exception as e:  # noqa
            out.append({"error": f"{type(e).__name__}: {e}"[:300]})
    return {"results": out}


# ---- the analysis side ------------------------------------------------------------------
def task_sim_analysis(task):
    """closed forms of E[M] for the monomials (strings) of a program text, evaluated at n = 0..N.
    -> {"values": {monomial: [rational strings]}} or error"""
    import sympy as sp
    import symengine
    import settings
    from inputparser import Parser
    from program import normalize_program
    from recurrences import RecBuilder
    from recurrences.solver import RecurrenceSolver
    settings.transform_categoricals = False
    settings.numeric_roots = False
    settings.numeric_croots = False
    program = Parser().parse_string(task["src"])
    program = normalize_program(program)
    rb = RecBuilder(program)
    n = sp.Symbol("n", integer=True)
    values = {}
    for m in task["monomials"]:
        recs = rb.get_recurrences(symengine.sympify(m))
        sol = RecurrenceSolver(recs).get(symengine.sympify(m))
        sol = sp.sympify(sol)
        vals = []
        for i in range(task["N"] + 1):
            import exppoly
            v = exppoly.exact(sol.xreplace({n: sp.Integer(i)}).subs(sp.Symbol("n"), i))
            if not v.is_Rational:
                vals.append("~" + str(v))
            else:
                vals.append(f"{v.p}/{v.q}")
        values[m] = vals
    return {"values": values}
