"""C02 / ConditionsNormalizer: correspondence between the Gallina model PassCondNorm.cn_pass
(proved: props/C02_CondNormalize.v) and the real pass.

Input = Polar's snapshot after TypeInferer (program + inferred finite types), output = the
snapshot after ConditionsNormalizer.  Inside Coq (vm_compute): the model is evaluated on the
input and compared with the output by PassCNMatch.cn_matches (Or-chains as SETS of values,
polynomials up to normal form); the theorem's hypothesis Types.check_types is evaluated on
the same input.  Where the model returns None (atom over a variable without finite type ->
Bernoulli abstraction; non-reduced atom) the instance is counted as outside the model."""
import json
import re

import lib
import core
import progast as P
from pass_constants import snapshot_pair, flat_term, ensure_built

HEADER = ("From Coq Require Import List String QArith Qcanon ZArith.\n"
          "From Polar Require Import Qcx Dist Syntax Sem Types Poly PassCNBase PassConstants PassCondNorm PassCNMatch Search.\n"
          "Import ListNotations.\nOpen Scope string_scope.\n")
PER_FILE = 8


def has_nontrivial_atom(d):
    def walk(c):
        if c[0] == "atom":
            return c[2] != "=="
        if c[0] == "not":
            return walk(c[1])
        if c[0] in ("and", "or"):
            return walk(c[1]) or walk(c[2])
        return False
    return any(walk(a["cond"]) for a in d["init"] + d["body"] if "cond" in a)


def run_pass(ctx, runs):
    import time
    t0 = time.time()
    ok, log = ensure_built("theories/PassCNMatch.vo", ["theories/PassConstants.vo", "theories/PassCondNorm.vo", "theories/PassDist.vo"])
    cov = ctx.coverage.setdefault("pass_models", {})
    st = {"instances": 0, "in_model": 0, "model_equals_polar": 0, "outside_model_abstraction_or_unreduced": 0,
          "hypothesis_check_types": 0, "hypothesis_false": 0, "inequality_atoms_rewritten": 0, "not_modelled": 0, "coq_failed": 0}
    cov["ConditionsNormalizer"] = st
    if not ok:
        ctx.violation("pass-model:ConditionsNormalizer:build", {"log": log[-2000:]}, "theories/PassCNMatch.v does not build", no_input=True)
        return
    cases, seen = [], set()
    for run in runs:
        pair = snapshot_pair(run, "TypeInferer", "ConditionsNormalizer")
        if pair is None:
            continue
        if pair == "unsupported":
            st["not_modelled"] += 1
            continue
        a, b = pair
        key = json.dumps([a["init"], a["body"], a["types"], b["init"], b["body"]], sort_keys=True)
        if key in seen:
            continue
        seen.add(key)
        try:
            cases.append({"text": run["text"], "opts": run["opts"], "fin": flat_term(a), "fout": flat_term(b),
                          "T": core.types_coq(a["types"]), "types": a["types"], "ineq": has_nontrivial_atom(a),
                          "drops": P.lst(["true" if x.get("guard_implied") and x["default"] != x["var"] else "false" for x in a["body"]]),
                          "same_len": len(a["body"]) == len(b["body"]) and len(a["init"]) == len(b["init"])})
        except core.NotModelled:
            st["not_modelled"] += 1
    files = []
    for j in range(0, len(cases), PER_FILE):
        body = HEADER
        for k, c in enumerate(cases[j:j + PER_FILE]):
            body += (f"Definition T{k} : tenv := {c['T']}.\nDefinition fin{k} : flatprog := {c['fin']}.\n"
                     f"Definition fout{k} : flatprog := {c['fout']}.\n"
                     f"Eval vm_compute in [cn_in_model T{k} fin{k}; cn_matches T{k} fin{k} fout{k}; check_types fin{k} T{k}; check_types_drop fin{k} {c['drops']} T{k}].\n")
        files.append((f"pcn_{j // PER_FILE}", body))
    outs = lib.coq_run_many(ctx, files, timeout=300)
    for j in range(0, len(cases), PER_FILE):
        okc, o = outs[f"pcn_{j // PER_FILE}"]
        lists = re.findall(r"=\s*\[(.*?)\]\s*:\s*list bool", o, re.S) if okc else []
        chunk = cases[j:j + PER_FILE]
        if len(lists) != len(chunk):
            st["coq_failed"] += len(chunk)
            ctx.violation(f"pass-model:ConditionsNormalizer:coq:{chunk[0]['text']}", {"output": o[-2000:], "programs": [c["text"] for c in chunk]},
                          "the ConditionsNormalizer model could not be evaluated inside Coq on Polar's snapshots", no_input=True)
            continue
        for c, l in zip(chunk, lists):
            in_model, matches, typed, typed_drop = [x.strip() == "true" for x in l.split(";")]
            st["instances"] += 1
            if not in_model:
                # Bernoulli abstraction (Polar adds assignments) or a symbolic / non-numeric type: outside the model
                st["outside_model_abstraction_or_unreduced"] += 1
                continue
            st["in_model"] += 1
            ctx.coverage["obligations"] += 1
            ctx.count({"pass": "ConditionsNormalizer", "t": c["text"]}, nontrivial=c["ineq"])
            if c["ineq"]:
                st["inequality_atoms_rewritten"] += 1
            if typed:
                st["hypothesis_check_types"] += 1
            else:
                st["hypothesis_false"] += 1
                if typed_drop:
                    # Polar's types are a post-fixpoint of its own (default-dropping) transfer only: known C05 finding
                    st["hypothesis_false_by_known_C05_finding"] = st.get("hypothesis_false_by_known_C05_finding", 0) + 1
            if matches:
                st["model_equals_polar"] += 1
                ctx.coverage["discharged"] += 1
            else:
                okm, om = lib.coq_run(ctx, "pcn_show", HEADER + f"Eval vm_compute in (cn_pass {c['T']} {c['fin']}).\n", timeout=120)
                ctx.violation(f"pass-model:ConditionsNormalizer:{c['text']}",
                              {"program_text": c["text"], "options": c["opts"], "types": c["types"],
                               "correspondence": "PassCondNorm.cn_pass vs ConditionsNormalizer.execute / Atom.get_normalized / get_valid_values",
                               "polar_input": c["fin"], "polar_output": c["fout"], "model_output": om[-4000:] if okm else None,
                               "theorem": "props/C02_CondNormalize.v: C02_cn_pass_preserves is about the model, which no longer describes the code"},
                              "the model of ConditionsNormalizer (PassCondNorm.cn_pass) and the real pass produce different conditions for\n" + c["text"],
                              no_input=True)
    print(f"  [pass ConditionsNormalizer] instances={st['instances']} in_model={st['in_model']} model==polar={st['model_equals_polar']} "
          f"check_types={st['hypothesis_check_types']} with_inequalities={st['inequality_atoms_rewritten']} "
          f"outside_model={st['outside_model_abstraction_or_unreduced']} wall={time.time() - t0:.1f}s", flush=True)
    ctx.coverage["trusted_base"] += ["harness/pass_condnorm.py + harness/core.py: conversion of Polar's snapshots and inferred types to "
                                     "Syntax.flatprog / Types.tenv (the comparison, PassCNMatch.cn_matches, runs inside Coq)"]
    ctx.assumptions += ["ConditionsNormalizer: C02_cn_pass_preserves needs Types.check_types (C05 validator; evaluated on every instance: "
                        f"{st['hypothesis_check_types']}/{st['in_model']} true) and init_ok; the Bernoulli abstraction of conditions over "
                        f"variables without a finite type is outside THIS model ({st['outside_model_abstraction_or_unreduced']} instances; its own model and theorem: pass_abstraction.py / props/C02_Abstraction.v) and "
                        "covered only by c02's bounded joint-law comparison"]
