"""Long-lived worker: imports the real Polar from /repo (PYTHONPATH) and answers one JSON
task per line.  Task kinds are functions task_<kind> in polar_tasks.py."""
import io
import json
import os
import sys
import traceback

proto = os.fdopen(os.dup(1), "w")
sys.stdout = open(os.devnull, "w")
sys.setrecursionlimit(20000)
import warnings
warnings.filterwarnings("ignore")

import polar_tasks  # noqa: E402

for line in sys.stdin:
    line = line.strip()
    if not line:
        continue
    try:
        task = json.loads(line)
        fn = getattr(polar_tasks, "task_" + task["kind"])
        res = fn(task)
    except BaseException as e:  # noqa
        res = {"error": "exception", "etype": type(e).__name__, "msg": str(e)[:2000],
               "where": traceback.format_exc()[-1500:]}
    proto.write(json.dumps(res, default=str) + "\n")
    proto.flush()
