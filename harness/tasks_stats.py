"""Worker-side tasks of check C11 (executed inside the Polar worker: real code from lib.REPO).
All numbers cross the process boundary as exact strings 'p/q'."""
import contextlib
import io
import os
import re
import tempfile


def _rat(s):
    import sympy as sp
    return sp.Rational(s)


def _s(x):
    import sympy as sp
    x = sp.sympify(x)
    if not x.is_Rational:
        x = sp.simplify(x)
    if not x.is_Rational:
        raise ValueError(f"not rational: {x}")
    return f"{x.p}/{x.q}"


def _polar_order_dict(moms):
    """dict with keys K..1 as cli.common.get_all_moments builds it"""
    K = len(moms)
    return {i: _rat(moms[i - 1]) for i in reversed(range(1, K + 1))}


def task_stats_comb(task):
    from utils.statistics import comb
    out = []
    for n, k in task["pairs"]:
        try:
            out.append(str(comb(n, k)))
        except Exception as e:  # noqa
            out.append("!" + type(e).__name__)
    return {"values": out}


def task_stats_convert(task):
    """moments: list of strings (orders 1..K).  Runs the real conversions."""
    from utils.statistics import raw_moments_to_centrals, raw_moments_to_cumulants
    res = {}
    for name, fn in (("centrals", raw_moments_to_centrals), ("cumulants", raw_moments_to_cumulants)):
        try:
            d = fn(_polar_order_dict(task["moments"]))
            res[name] = {"keys": [int(k) for k in d.keys()], "values": {str(int(k)): _s(v) for k, v in d.items()}}
        except Exception as e:  # noqa
            res[name] = {"error": f"{type(e).__name__}: {e}"[:300]}
    return res


def _moment_stub(moms):
    import sympy as sp

    def fake(monom, solvers, rec_builder, cli_args, program):
        s = sp.sympify(str(monom))
        i = 1 if s.is_Symbol else int(s.as_base_exp()[1])
        return moms[i], True
    return fake


def task_stats_bounds(task):
    """Runs the real GoalsAction.handle_tail_bound_{upper,lower}_goal and the real
    cli.common.get_all_moments; only get_moment (the moment analysis) is replaced by a table
    of the given exact moments.  Returns what is printed."""
    from argparse import Namespace
    import sympy as sp
    import cli.common as cc
    import cli.actions.goals_action as ga
    from inputparser import GoalParser
    moms = {i + 1: _rat(s) for i, s in enumerate(task["moments"])}
    orig = cc.get_moment
    cc.get_moment = _moment_stub(moms)
    try:
        args = Namespace(after_loop=False, tail_bound_moments=int(task["K"]), at_n=0, solvability_check=False)
        act = ga.GoalsAction(args)
        act.initialize_program(None, None)
        goal = f"P(x >= {task['a']}) <= ?" if task["which"] == "upper" else f"P(x > {task['a']}) >= ?"
        kind, data = GoalParser.parse(goal)
        buf = io.StringIO()
        with contextlib.redirect_stdout(buf):
            if task["which"] == "upper":
                act.handle_tail_bound_upper_goal(data)
            else:
                act.handle_tail_bound_lower_goal(data)
        return {"kind": kind, "printed": buf.getvalue()}
    finally:
        cc.get_moment = orig


def task_stats_e2e(task):
    """Full Polar run (parser, normaliser, recurrences, solver, GoalsAction) on a program text
    with goals; returns the printed analysis."""
    from cli import ArgumentParser
    from cli.argument_parser import _set_settings
    from cli.actions.goals_action import GoalsAction
    args = ArgumentParser().get_defaults()
    _set_settings(args)
    args.goals = list(task["goals"])
    args.at_n = int(task["at_n"])
    args.tail_bound_moments = int(task.get("K", 2))
    fd, path = tempfile.mkstemp(suffix=".prob")
    try:
        with os.fdopen(fd, "w") as f:
            f.write(task["program"])
        buf = io.StringIO()
        with contextlib.redirect_stdout(buf):
            GoalsAction(args)(path)
        return {"printed": re.sub(r"\x1b\[[0-9;]*m", "", buf.getvalue())}
    finally:
        os.unlink(path)


def task_stats_polys(task):
    """prob_hermite_poly(n, x) and ce_bell_poly(n, x1..xn) as coefficient dictionaries"""
    import sympy as sp
    from symengine.lib.symengine_wrapper import Symbol as SESymbol
    from utils import prob_hermite_poly, ce_bell_poly
    n = int(task["n"])
    out = {}
    x = SESymbol("x")
    h = sp.sympify(prob_hermite_poly(n, x))
    hp = sp.Poly(sp.expand(h), sp.Symbol("x"))
    out["hermite"] = {str(m[0]): _s(c) for m, c in hp.terms()}
    if n >= 1:
        xs = [SESymbol(f"x{i}") for i in range(1, n + 1)]
        b = sp.sympify(ce_bell_poly(n, *xs))
        bp = sp.Poly(sp.expand(b), *[sp.Symbol(f"x{i}") for i in range(1, n + 1)])
        out["bell"] = {",".join(str(e) for e in m): _s(c) for m, c in bp.terms()}
    return out


def task_stats_expansions(task):
    """GramCharlierExpansion / CornishFisherExpansion on exact rational cumulants (kappa_2 a
    rational square so that sigma is rational).  Returns the polynomial factor of the density
    (coefficients in x) resp. the quantile polynomial in z."""
    import sympy as sp
    from expansions.gram_charlier import GramCharlierExpansion
    from expansions.cornish_fisher import CornishFisherExpansion
    cums = {i + 1: _rat(s) for i, s in enumerate(task["cumulants"])}
    out = {}
    x = sp.Symbol("x")
    try:
        dens = sp.sympify(GramCharlierExpansion(dict(cums))())
        mu = cums[1] if len(cums) > 0 else sp.Integer(0)
        s2 = cums[2] if len(cums) > 1 else sp.Integer(1)
        sig = sp.sqrt(s2)
        phi = sp.exp(-(x - mu) ** 2 / (2 * s2)) / (sig * sp.sqrt(2 * sp.pi))
        ratio = sp.simplify(sp.powsimp(sp.expand(dens / phi), force=True))
        pol = sp.Poly(sp.expand(ratio), x)
        out["gc_poly"] = {str(m[0]): _s(c) for m, c in pol.terms()}
    except Exception as e:  # noqa
        out["gc_error"] = f"{type(e).__name__}: {e}"[:400]
    if len(cums) >= 3:
        try:
            q = sp.sympify(CornishFisherExpansion(dict(cums))())
            p, z = sp.Symbol("p"), sp.Symbol("z")
            q = q.xreplace({sp.erfinv(2 * p - 1): z / sp.sqrt(2)})
            pol = sp.Poly(sp.expand(q), z)
            out["cf_poly"] = {str(m[0]): _s(c) for m, c in pol.terms()}
        except Exception as e:  # noqa
            out["cf_error"] = f"{type(e).__name__}: {e}"[:400]
    return out
