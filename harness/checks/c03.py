"""C03 — moment recurrences are exact one-step expectation identities and closed.

proof : props/C03.v — arith_sound (indicator polynomials), reduced_power_sound, wp_gas_exact
        (the model of get_recurrence is the exact one-step expectation on typed states, for
        all flat programs / polynomials / states), check_system_sound, check_init_vals_sound.
tie   : Polar's own flat program, types, recurrence matrix and initial vector for generated
        programs are fed to the verified validators check_types / check_system /
        check_init_vals, evaluated by the Coq kernel: acceptance = every row of Polar's system
        is an exact one-step identity on every typed state, and the system is closed.
search: on rejection, reachable states of the flat program (depth N) are enumerated and the
        first (state, monomial) where E(step)(M) differs from Polar's row is reported."""
import re
from fractions import Fraction

import lib
import core
import gen
import progast as P
from checks import c05


def run(ctx):
    ok, log = lib.coq_check_props(ctx)
    if not ok:
        ctx.violation("proof-broken", {"theorem": "props/C03.v", "log": log[-3000:]}, "props/C03.v no longer checks", no_input=True)
        return
    lib.coq_make(["theories/Search.vo", "theories/Wp.vo"])
    n_prog = ctx.pick(52, 400)
    depth = ctx.pick(3, 5)
    progs = lib.replay_programs(ctx) or list(gen.corpus())
    cont_texts = set()
    if not ctx.replay:
        # continuous draws: validated with the moment formulas translated from program/distribution/*.py
        try:
            import translate_dist
            translate_dist.main()
            okc, _ = lib.coq_make(["theories/Cmom.vo"])
        except Exception as e:  # noqa
            okc = False
        if okc:
            for p, g, t in gen.continuous_corpus():
                progs.append((p, g, "cont:" + t))
                cont_texts.add(P.prog_text(p))
        else:
            ctx.violation("translator:dist", {"theorem": "gen/DistGen.v / theories/Cmom.v"},
                          "the translated distribution moments (gen/DistGen.v) no longer build", no_input=True)
    while len(progs) < n_prog + len(cont_texts) and not ctx.replay:
        g = gen.G(ctx.rng, max_depth=ctx.rng.choice([1, 2]), rational=(len(progs) % 4 == 3))
        p = g.program()
        progs.append((p, g.goals(2), "+".join(sorted(g.features))))
    tasks = [{"kind": "analyze", "text": P.prog_text(p), "goals": [gen.goal_text(m) for m in goals], "solve": False,
              "timeout": 120} for p, goals, _ in progs]
    results = lib.run_tasks(tasks, timeout=120)
    cases, errs, feats = [], {}, {}
    for (p, goals, tag), r in zip(progs, results):
        for f in tag.split("+"):
            feats[f] = feats.get(f, 0) + 1
        if "error" in r or "exception" in r:
            k = r.get("error") or r["exception"]["etype"]
            errs[k] = errs.get(k, 0) + 1
            continue
        flat = r.get("flat", {})
        if "unsupported" in flat:
            errs["unsupported-dump"] = errs.get("unsupported-dump", 0) + 1
            continue
        text = P.prog_text(p)
        for m, gr in zip(goals, r["goals"]):
            if "exception" in gr:
                k = gr["exception"]["etype"] + "@" + gr.get("stage", "")
                errs[k] = errs.get(k, 0) + 1
                continue
            flat_vars = {a["var"] for a in flat["init"] + flat["body"] if "var" in a}
            sys_vars = {x for d in gr.get("monomial_dumps", []) for t in d for x, _ in t[1]}
            if not sys_vars <= flat_vars:
                # goal over a loop constant that was folded away: it is not a variable of the flat
                # program; such goals are validated against the SOURCE program in C01
                errs["goal-over-folded-constant"] = errs.get("goal-over-folded-constant", 0) + 1
                continue
            try:
                inst = {"A": gr["matrix"], "v": gr["vector"]}
                ms, ms_c, A_c, v_c = core.system_coq(gr, inst)
                fp_c = core.flat_coq(flat)
                T_c = core.types_coq(flat["types"])
            except (core.NotModelled, ValueError) as e:
                # an initial value recorded as an expression in the start symbol <v>0 of a variable that the program DOES
                # initialise is wrong whatever the symbol stands for
                init_vars = {st[1] for st in p["init"] if st[0] == "assign"} | {x for st in p["init"] if st[0] == "simult" for x, _ in st[1]}
                bad_syms = sorted({m_.group(1) for ent in gr.get("vector", []) for m_ in re.finditer(r"\b([A-Za-z]\w*?)0\b", str(ent))
                                   if m_.group(1) in init_vars})
                if bad_syms:
                    ctx.coverage["obligations"] += 1
                    ctx.violation(f"init-value-symbolic:{text}:{gen.goal_text(m)}",
                                  {"program_text": text, "prog_json": P.to_json(p), "goals_json": [P.to_json(m)], "goal": gen.goal_text(m),
                                   "monomials": gr.get("monomials"), "vector": gr.get("vector")},
                                  f"system of E({gen.goal_text(m)}): the recorded initial values {gr.get('vector')} mention the start symbol(s) "
                                  f"{[b + '0' for b in bad_syms]} although the program initialises {bad_syms}\n{text}")
                    continue
                errs["not-modelled"] = errs.get("not-modelled", 0) + 1
                continue
            cm = "cmom_gen" if text in cont_texts else "cm0"
            term = (f"[check_types {fp_c} {T_c}; check_system {cm} {fp_c} {T_c} {ms_c} {A_c}; "
                    f"check_init_vals {cm} (fp_init {fp_c}) {ms_c} {v_c}]")
            cases.append({"text": text, "pj": P.to_json(p), "gj": [P.to_json(m)], "goal": gen.goal_text(m), "flat": flat, "gr": gr, "term": term, "fp": fp_c, "T": T_c,
                          "ms": ms_c, "A": A_c, "v": v_c, "n_ms": len(ms), "flat_text": r.get("flat_text"), "cont": text in cont_texts,
                          "G": r.get("original_loop_guard")})
    files = []
    for j, c in enumerate(cases):
        files.append((f"c03_{j}", (core.WP_HEADER_CONT if c["cont"] else core.WP_HEADER) + f"Eval vm_compute in {c['term']}.\n"))
    outs = lib.coq_run_many(ctx, files, timeout=150)
    todo = []
    for j, c in enumerate(cases):
        okc, o = outs[f"c03_{j}"]
        bl = lib.parse_bool_list(o) if okc else None
        ctx.count({"t": c["text"], "g": c["goal"]}, nontrivial=c["n_ms"] >= 3)
        if not okc and o.startswith("TIMEOUT"):
            ctx.coverage["validator_time_limit"] = ctx.coverage.get("validator_time_limit", 0) + 1
            continue
        ctx.coverage["obligations"] += 1
        if bl and all(bl):
            ctx.coverage["discharged"] += 1
            ctx.sample({"program": c["text"], "goal": c["goal"], "system_monomials": c["gr"]["monomials"], "matrix": c["gr"]["matrix"],
                        "validator": "check_types, check_system, check_init_vals accepted"})
            continue
        c["bl"] = bl
        c["why"] = None if bl else o[-600:]
        todo.append(c)
    # search / attribution
    sfiles = []
    for j, c in enumerate(todo):
        drops = ["true" if c05.implied(a["cond"], c["G"]) and a["default"] != a["var"] else "false" for a in c["flat"]["body"]]
        body = core.WP_HEADER
        body += f"Eval vm_compute in [check_types_drop {c['fp']} {P.lst(drops)} {c['T']}].\n"
        body += f"Eval vm_compute in (init_search {c['fp']} {c['ms']} {c['v']}).\n"
        sfiles.append((f"a03_{j}", body))
        vs = sorted({a["var"] for a in c["flat"]["init"] + c["flat"]["body"]})
        vl = P.lst(['"%s"' % v for v in vs])
        body = core.WP_HEADER
        body += f"Eval vm_compute in (row_search {vl} {c['fp']} {c['T']} {c['ms']} {c['A']} {depth}).\n"
        sfiles.append((f"s03_{j}", body))
    souts = lib.coq_run_many(ctx, sfiles, timeout=150)
    for j, c in enumerate(todo):
        okc, o = souts[f"s03_{j}"]
        oka, oa = souts[f"a03_{j}"]
        bl = c["bl"]
        drop_ok = bool(oka and (lib.parse_bool_list(oa) or [False])[0])
        o = o + "\n" + oa
        # (with Q scope open Coq prints nat literals as 0%nat)
        wit = re.search(r"=\s*Some\s*\(\s*(\d+)(?:%nat)?\s*,\s*(\d+)(?:%nat)?\s*\)\s*:\s*option \(nat \* nat\)", o) if okc else None
        iw = re.search(r"=\s*Some\s*(\d+)(?:%nat)?\s*:\s*option nat", o) if okc else None
        base = {"program_text": c["text"], "prog_json": c["pj"], "goals_json": c["gj"], "goal": c["goal"], "flat_program": c["flat_text"], "monomials": c["gr"]["monomials"],
                "matrix": c["gr"]["matrix"], "vector": c["gr"]["vector"], "validators": bl, "why": c["why"]}
        if bl and not bl[0] and drop_ok and bl[2]:
            # types rejected at the known call site: the system cannot be validated on top of unsound types
            if wit:
                new = ctx.violation(c05.KNOWN_SITE, dict(base, iteration=int(wit.group(1)), row=int(wit.group(2))),
                                    f"row {wit.group(2)} of the system of E({c['goal']}) is not a one-step identity on a state reachable "
                                    f"after {wit.group(1)} iterations")
                if not new:
                    ctx.coverage["discharged"] += 1
            else:
                ctx.coverage["obligations"] -= 1
                ctx.coverage["unvalidated_at_known_site"] = ctx.coverage.get("unvalidated_at_known_site", 0) + 1
            continue
        if wit:
            ctx.violation(f"row-not-exact:{c['text']}:{c['goal']}", dict(base, iteration=int(wit.group(1)), row=int(wit.group(2))),
                          f"system of E({c['goal']}): row {wit.group(2)} ({c['gr']['monomials'][int(wit.group(2))] if int(wit.group(2)) < len(c['gr']['monomials']) else '1'}) "
                          f"is not the one-step expectation on a state reachable after {wit.group(1)} iterations\n{c['text']}")
        elif iw:
            ctx.violation(f"init-value:{c['text']}:{c['goal']}", dict(base, component=int(iw.group(1))),
                          f"system of E({c['goal']}): recorded initial value of component {iw.group(1)} is not the moment before the first iteration\n{c['text']}")
        elif bl is None:
            # the validator gave no answer (resource limit of the kernel evaluation on a loaded machine) and neither search
            # found a witness: undecided, counted, no verdict
            ctx.coverage["obligations"] -= 1
            ctx.coverage["validator_no_answer"] = ctx.coverage.get("validator_no_answer", 0) + 1
        else:
            ctx.violation(f"system-not-validated:{c['text']}:{c['goal']}", base,
                          f"validators (types, system, init) = {bl} for the system of E({c['goal']}) but no reachable state within "
                          f"{depth} iterations violates a row", no_input=True)
    ctx.coverage["rule"] = ("programs from harness/gen.py + corpus, up to 2 goal monomials each; the whole system Polar builds for a goal is one case; "
                            "non-trivial = system with >= 3 monomials; distinct by (text, goal)")
    ctx.coverage["feature_histogram"] = feats
    ctx.coverage["polar_errors"] = errs
    ctx.coverage["trusted_base"] += ["harness/tasks_core.py structural dump of Polar's flat program, types, matrix and initial vector"]
    ctx.assumptions += ["finite discrete programs (continuous families enter the theorem through the hypothesis cmom_ok: their moment formulas are C08's subject)",
                        "symbolic initial values / parameters are outside this check's generator (C10/C17 use parameter points)"]
