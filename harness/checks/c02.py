"""C02 — normalisation preserves the program's distribution over its variables.

proof : props/C02.v — pass theorems proved for all programs / n / states (see the file for
        which passes are covered; the others are covered by the correspondence below only).
tie   : after EVERY pass of normalize_program (observed by wrapping Transformer.execute in
        the worker process) Polar's program snapshot is turned back into a program of the
        reference language and its exact joint law over the source variables at every
        iteration boundary n <= N (Coq, Sem.run) is compared with the source program's.
search: the same comparison yields the first (pass, n, state) whose probability differs."""
import re
from fractions import Fraction

import lib
import core
import gen
import progast as P

OPTS = [{}, {"transform_categoricals": True}, {"cond2arithm": True}]


def laws_file(p, obs, N):
    allvs = P.prog_vars(p)
    body = P.COQ_HEADER.replace("Syntax Sem", "Syntax Sem Types Search")
    body += f"Definition p0 : prog := {P.prog_coq(p)}.\n"
    body += (f"Eval vm_compute in (src_laws {P.lst(['\"%s\"' % v for v in allvs])} "
             f"{P.lst(['\"%s\"' % v for v in obs])} p0 {N}).\n")
    return body


def parse_laws(out):
    """-> list (per n) of dict {tuple(values): weight}"""
    m = re.search(r"=\s*(\[.*\])\s*:\s*list \(list \(Z \* positive \* list \(Z \* positive\)\)\)", out, re.S)
    if not m:
        return None
    txt = re.sub(r"\((-\d+)\)", r"\1", m.group(1).replace("%Z", "").replace("%positive", ""))
    toks = re.findall(r"\[|\]|\(|\)|-?\d+", txt)
    pos = 0

    def parse():
        nonlocal pos
        t = toks[pos]
        if t == "[":
            pos += 1
            items = []
            while toks[pos] != "]":
                items.append(parse())
            pos += 1
            return items
        if t == "(":
            pos += 1
            items = []
            while toks[pos] != ")":
                items.append(parse())
            pos += 1
            return tuple(items)
        pos += 1
        return int(t)

    data = parse()
    res = []
    for row in data:
        d = {}
        for item in row:
            # ((wn, wd), [ (n, d), ... ]) possibly flattened tuples
            if len(item) == 3:
                wq = Fraction(item[0], item[1])
                vals = item[2]
            else:
                w, vals = item
                wq = Fraction(w[0], w[1])
            key = tuple(Fraction(a, b) for a, b in vals)
            d[key] = d.get(key, 0) + wq
        res.append({k: v for k, v in d.items() if v != 0})
    return res


def run(ctx):
    ok, log = lib.coq_check_props(ctx)
    if not ok:
        ctx.violation("proof-broken", {"theorem": "props/C02.v", "log": log[-3000:]}, "props/C02.v no longer checks", no_input=True)
        return
    # further pass theorems live in props/C02_<Pass>.v (one file per pass)
    import glob, os, importlib
    for pf in sorted(glob.glob(os.path.join(lib.COQ, "props", "C02_*.v"))):
        name = os.path.basename(pf)[:-2]
        okp, logp = lib.coq_check_props(ctx, prop=name)
        if not okp:
            ctx.violation(f"proof-broken:{name}", {"theorem": f"props/{name}.v", "log": logp[-3000:]},
                          f"props/{name}.v no longer checks", no_input=True)
    lib.coq_make(["theories/Search.vo"])
    n_prog = ctx.pick(48, 300)
    N = ctx.pick(3, 5)
    progs = lib.replay_programs(ctx) or list(gen.corpus())
    while len(progs) < n_prog and not ctx.replay:
        g = gen.G(ctx.rng, max_depth=ctx.rng.choice([1, 2]), allow_nested_reassign=False, rational=(len(progs) % 4 == 3))
        p = g.program()
        progs.append((p, [], "+".join(sorted(g.features))))
    tasks, meta = [], []
    for i, (p, _, tag) in enumerate(progs):
        for oi, o in enumerate(OPTS if i % 3 == 0 else OPTS[:1]):
            tasks.append({"kind": "analyze", "text": P.prog_text(p), "goals": [], "solve": False, "snapshots": True, "opts": o,
                          "timeout": 90})
            meta.append((i, oi))
    results = lib.run_tasks(tasks, timeout=90)
    # per-pass model correspondence modules harness/pass_<name>.py: run_pass(ctx, runs)
    runs = []
    for (i, oi), r in zip(meta, results):
        if "error" in r:
            continue
        runs.append({"text": P.prog_text(progs[i][0]), "prog": progs[i][0], "opts": OPTS[oi], "parsed": r.get("parsed"),
                     "snapshots": r.get("snapshots") or [], "counter_before": r.get("counter_before"), "flat": r.get("flat")})
    for mf in sorted(glob.glob(os.path.join(lib.VERIF, "harness", "pass_*.py"))):
        mod = importlib.import_module(os.path.basename(mf)[:-3])
        mod.run_pass(ctx, runs)
    files, cases, errs, feats, passes_seen = [], [], {}, {}, {}
    for (i, oi), r in zip(meta, results):
        p, _, tag = progs[i]
        for f in tag.split("+"):
            feats[f] = feats.get(f, 0) + 1
        if "error" in r:
            errs[r["error"]] = errs.get(r["error"], 0) + 1
            continue
        snaps = r.get("snapshots") or []
        if "exception" in r:
            k = r["exception"]["etype"]
            errs[k] = errs.get(k, 0) + 1
            # snapshots taken before the refusal are still comparable
        src_vars = P.prog_vars(p)
        text = P.prog_text(p)
        chain = [("source", p)]
        parsed = r.get("parsed")
        if parsed and "unsupported" not in parsed:
            try:
                chain.append(("parser", core.prog_from_dump(parsed)))
            except core.NotModelled:
                pass
        for name, d in snaps:
            if "unsupported" in d:
                errs["unsupported-dump"] = errs.get("unsupported-dump", 0) + 1
                continue
            try:
                chain.append((name, core.prog_from_dump(d)))
            except core.NotModelled:
                errs["not-modelled"] = errs.get("not-modelled", 0) + 1
        for j, (name, q) in enumerate(chain):
            obs = [v for v in src_vars if v in set(P.prog_vars(q))] if name != "source" else src_vars
            cases.append({"i": i, "oi": oi, "stage": name, "prog": q, "obs": obs, "text": text, "idx": len(cases)})
            files.append((f"l02_{len(cases) - 1}", laws_file(q, src_vars, N)))
    outs = lib.coq_run_many(ctx, files, timeout=200)
    laws = {}
    for c in cases:
        okc, o = outs[f"l02_{c['idx']}"]
        c["laws"] = parse_laws(o) if okc else None
        if c["laws"] is None:
            errs["oracle-timeout"] = errs.get("oracle-timeout", 0) + 1
    by_run = {}
    for c in cases:
        by_run.setdefault((c["i"], c["oi"]), []).append(c)
    for (i, oi), chain in by_run.items():
        src = chain[0]
        if src["laws"] is None:
            continue
        src_vars = P.prog_vars(progs[i][0])
        prev = src
        for c in chain[1:]:
            passes_seen[c["stage"]] = passes_seen.get(c["stage"], 0) + 1
            ctx.count({"t": c["text"], "o": oi, "s": c["stage"]}, nontrivial=True)
            if c["laws"] is None:
                continue
            keep = [k for k, v in enumerate(src_vars) if v in c["obs"]]
            bad = None
            for n in range(N + 1):
                a, b = {}, {}
                for key, w in src["laws"][n].items():
                    kk = tuple(key[k] for k in keep)
                    a[kk] = a.get(kk, 0) + w
                for key, w in c["laws"][n].items():
                    kk = tuple(key[k] for k in keep)
                    b[kk] = b.get(kk, 0) + w
                a = {k: v for k, v in a.items() if v != 0}
                b = {k: v for k, v in b.items() if v != 0}
                if a != b:
                    diff = [k for k in set(a) | set(b) if a.get(k, 0) != b.get(k, 0)][0]
                    bad = (n, dict(zip([src_vars[k] for k in keep], map(str, diff))), str(a.get(diff, 0)), str(b.get(diff, 0)))
                    break
            if bad:
                ctx.violation(f"pass:{c['stage']}:{c['text']}:{oi}",
                              {"program_text": c["text"], "prog_json": P.to_json(progs[i][0]), "options": OPTS[oi], "pass": c["stage"], "after_pass": P.prog_text(c["prog"]),
                               "n": bad[0], "state": bad[1], "source_probability": bad[2], "transformed_probability": bad[3]},
                              f"after {c['stage']} (options {OPTS[oi]}) the state {bad[1]} has probability {bad[3]} after {bad[0]} iterations, "
                              f"{bad[2]} in the source program\n{c['text']}")
                break
            ctx.coverage["traces_validated_against_impl"] = ctx.coverage.get("traces_validated_against_impl", 0) + 1
            if len(ctx.coverage["samples"]) < 4 and c["stage"] == "ConditionsNormalizer":
                ctx.sample({"program": c["text"], "after_all_passes": P.prog_text(c["prog"]), "options": OPTS[oi],
                            "joint_law_equal_for_n<=": N})
    ctx.coverage["rule"] = ("programs from harness/gen.py + corpus, normalised by Polar under the option settings "
                            f"{OPTS}; every pass snapshot is one case; exact joint law over the source variables compared for n <= {N}; "
                            "distinct by (text, options, pass)")
    ctx.coverage["passes_compared"] = passes_seen
    ctx.coverage["feature_histogram"] = feats
    ctx.coverage["polar_errors"] = errs
    ctx.coverage["trusted_base"] += ["harness/tasks_core.py snapshots (Transformer.execute wrapped in the worker process; no source hook)",
                                     "harness/core.py conversion of guarded assignments to if-statements of the reference language",
                                     "Search.compact (merging of equal states in the executable oracle)"]
    ctx.assumptions += ["pass theorems are proved for the passes named in props/C02.v; the remaining passes are covered by the exact bounded "
                        "comparison of joint laws only (finite discrete programs, n <= N)"]
